/-
C12 helper lemmas (delivery independence, framing, CSV / LibSVM round trips).
-/
import CobaVerif.Model.C12

namespace Coba.C12

/-! ## A.1 UTF-8 decoding is a run of one automaton: cutting the input does not matter -/


theorem decodeFrom_append (s : U8) (a b : List Nat) :
    decodeFrom s (a ++ b) =
      match decodeFrom s a with
      | .error e => .error e
      | .ok (s1, t1) => match decodeFrom s1 b with
        | .error e => .error e
        | .ok (s2, t2) => .ok (s2, t1 ++ t2) := by
  induction a generalizing s with
  | nil =>
    simp only [List.nil_append, decodeFrom]
    cases decodeFrom s b with
    | error e => rfl
    | ok r => rfl
  | cons x a ih =>
    simp only [List.cons_append, decodeFrom]
    cases h : u8step s x with
    | error e => rfl
    | ok r =>
      obtain ⟨s1, o⟩ := r
      simp only [ih]
      cases decodeFrom s1 a with
      | error e => rfl
      | ok r2 =>
        obtain ⟨s2, t⟩ := r2
        simp only
        cases decodeFrom s2 b with
        | error e => rfl
        | ok r3 =>
          cases o <;> simp

def decodeFin (s : U8) (bs : List Nat) : Except Err Text :=
  match decodeFrom s bs with
  | .error e => .error e
  | .ok r => finish r

theorem decodeAll_eq (bs) : decodeAll bs = decodeFin U8.init bs := rfl

theorem decodeChunksFix_flatten (s : U8) (cs : List (List Nat)) :
    (match decodeChunksFix s cs with | .error e => Except.error e | .ok ts => .ok ts.flatten) = decodeFin s cs.flatten := by
  induction cs generalizing s with
  | nil =>
    simp only [decodeChunksFix, List.flatten_nil, decodeFin, decodeFrom, finish]
    by_cases h : s.need = 0 <;> simp [h]
  | cons c cs ih =>
    simp only [decodeChunksFix, List.flatten_cons, decodeFin, decodeFrom_append]
    cases h : decodeFrom s c with
    | error e => rfl
    | ok r =>
      obtain ⟨s1, t⟩ := r
      have := ih s1
      simp only [decodeFin] at this
      simp only
      cases h2 : decodeChunksFix s1 cs with
      | error e =>
        rw [h2] at this
        simp only at this
        cases h3 : decodeFrom s1 cs.flatten with
        | error e' => rw [h3] at this; simp_all
        | ok r3 =>
          rw [h3] at this
          obtain ⟨s3, t3⟩ := r3
          simp only [finish] at this ⊢
          split at this <;> simp_all
      | ok ts =>
        rw [h2] at this
        simp only at this
        cases h3 : decodeFrom s1 cs.flatten with
        | error e' => rw [h3] at this; simp_all
        | ok r3 =>
          rw [h3] at this
          obtain ⟨s3, t3⟩ := r3
          simp only [finish, List.flatten_cons] at this ⊢
          split at this <;> simp_all


/-! ## A.2 the line splitter -/


theorem lsRun_append (s : LS) (a b : Text) :
    lsRun s (a ++ b) = ((lsRun (lsRun s a).1 b).1, (lsRun s a).2 ++ (lsRun (lsRun s a).1 b).2) := by
  induction a generalizing s with
  | nil => simp [lsRun]
  | cons c a ih => simp [lsRun, ih, List.append_assoc]

theorem prependFirst_nil (l : List Text) : prependFirst [] l = l := by
  cases l <;> simp [prependFirst]

theorem prependFirst_prependFirst (a b : Text) (l : List Text) :
    prependFirst a (prependFirst b l) = prependFirst (a ++ b) l := by
  cases l <;> simp [prependFirst]

theorem prependFirst_eq_nil (a : Text) (l : List Text) : prependFirst a l = [] ↔ l = [] := by
  cases l <;> simp [prependFirst]

/-- Lemma A: running from a non-empty current line is running from the empty one with the
current line glued in front of the first completed line (or of the new current line). -/
theorem lsRun_cur (cur : Text) (text : Text) :
    lsRun ⟨cur, false⟩ text =
      (if (lsRun ⟨[], false⟩ text).2 = [] then ⟨cur ++ (lsRun ⟨[], false⟩ text).1.cur, (lsRun ⟨[], false⟩ text).1.cr⟩
       else (lsRun ⟨[], false⟩ text).1,
       prependFirst cur (lsRun ⟨[], false⟩ text).2) := by
  induction text generalizing cur with
  | nil => simp [lsRun, prependFirst]
  | cons c t ih =>
    by_cases hb : isBreak c = true
    · simp [lsRun, lsStep, hb, prependFirst]
    · have hb' : isBreak c = false := by simpa using hb
      simp only [lsRun, lsStep, hb', Bool.false_and, Bool.false_eq_true, if_false, List.nil_append]
      rw [ih (cur ++ [c]), ih [c]]
      by_cases he : (lsRun ⟨[], false⟩ t).2 = []
      · simp [he, prependFirst]
      · simp [he, prependFirst_eq_nil, prependFirst_prependFirst]

/-- Lemma B -/
theorem lsRun_cr_lf (cur : Text) (t : Text) : lsRun ⟨cur, true⟩ (LF :: t) = lsRun ⟨cur, false⟩ t := by
  simp [lsRun, lsStep]

theorem lsRun_cr_other (cur : Text) (c : Nat) (t : Text) (h : (c == LF) = false) :
    lsRun ⟨cur, true⟩ (c :: t) = lsRun ⟨cur, false⟩ (c :: t) := by
  simp [lsRun, lsStep, h]

def LS.wf (s : LS) : Prop := s.cr = true → s.cur = []

theorem lsStep_wf (s : LS) (c : Nat) (_h : s.wf) : (lsStep s c).1.wf := by
  unfold lsStep LS.wf at *
  split
  · simp
  · split
    · simp
    · simp

theorem lastIs_cons_cons (a b : Nat) (t : Text) (p : Nat → Bool) : lastIs (a :: b :: t) p = lastIs (b :: t) p := by
  simp [lastIs, List.getLast?_cons_cons]

theorem lastIs_single (a : Nat) (p : Nat → Bool) : lastIs [a] p = p a := by
  simp [lastIs]

theorem isBreak_LF : isBreak LF = true := by decide
theorem isBreak_CR : isBreak CR = true := by decide

/-- C1/C2: after a non-empty text the current line is empty iff the last character was a
boundary, and the CR flag says whether it was a carriage return -/
theorem lsRun_last (s : LS) (text : Text) (hs : s.wf) (hne : text ≠ []) :
    ((lsRun s text).1.cur = [] ↔ lastIs text isBreak = true) ∧
    (lsRun s text).1.cr = lastIs text (· == CR) := by
  induction text generalizing s with
  | nil => exact absurd rfl hne
  | cons c t ih =>
    cases t with
    | nil =>
      simp only [lsRun, lastIs_single]
      unfold lsStep
      by_cases h1 : (s.cr && c == LF) = true
      · simp only [h1, if_true]
        have hc : c = LF := by simp at h1; exact h1.2
        have hcr : s.cr = true := by simp at h1; exact h1.1
        subst hc
        simp [hs hcr, isBreak_LF]; decide
      · simp only [h1]
        by_cases hb : isBreak c = true
        · simp [hb]
        · have hb' : isBreak c = false := by simpa using hb
          have : (c == CR) = false := by
            cases hcc : (c == CR) with
            | false => rfl
            | true =>
              have : c = CR := by simpa using hcc
              subst this; simp [isBreak_CR] at hb'
          simp [hb', this]
    | cons d t' =>
      simp only [lsRun, lastIs_cons_cons]
      have := ih (lsStep s c).1 (lsStep_wf s c hs) (by simp)
      simpa [lsRun] using this

/-- C3: from a state without pending CR, if nothing was emitted no character was a boundary -/
theorem lsRun_no_out (s : LS) (text : Text) (hcr : s.cr = false) (h : (lsRun s text).2 = []) :
    (lsRun s text).1 = ⟨s.cur ++ text, false⟩ := by
  induction text generalizing s with
  | nil => cases s; simp_all [lsRun]
  | cons c t ih =>
    simp only [lsRun] at h ⊢
    unfold lsStep at h ⊢
    simp only [hcr, Bool.false_and, Bool.false_eq_true, if_false] at h ⊢
    by_cases hb : isBreak c = true
    · simp [hb] at h
    · have hb' : isBreak c = false := by simpa using hb
      simp only [hb', Bool.false_eq_true, if_false, List.nil_append] at h ⊢
      rw [ih ⟨s.cur ++ [c], false⟩ rfl h]
      simp


theorem getLast?_cons_concat {α} (a : α) (l : List α) (x : α) : (a :: (l ++ [x])).getLast? = some x := by
  induction l generalizing a with
  | nil => simp
  | cons b l ih => rw [List.cons_append, List.getLast?_cons_cons]; exact ih b

theorem dropLast_cons_concat {α} (a : α) (l : List α) (x : α) : (a :: (l ++ [x])).dropLast = a :: l := by
  induction l generalizing a with
  | nil => simp
  | cons b l ih => rw [List.cons_append, List.dropLast_cons_cons, ih b]

theorem splitlines_eq (t : Text) : splitlines t = (lsRun ⟨[], false⟩ t).2 ++ lsFlush (lsRun ⟨[], false⟩ t).1 := rfl

/-- the relation between the state of the repaired loop and the line splitter -/
def Rel (d : DS) (s : LS) : Prop :=
  s.cur = d.pending.getD [] ∧ s.cr = d.afterCr ∧ (∀ p, d.pending = some p → p ≠ []) ∧
  (d.afterCr = true → d.pending = none)

/-- general step: no pending CR -/
theorem delimFix_general (p : Option Text) (text : Text) (hne : text ≠ [])
    (hp : ∀ q, p = some q → q ≠ []) :
    let lines1 := applyPending p (splitlines text)
    let r : DS × List Text := if lastIs text isBreak then (⟨none, lastIs text (· == CR)⟩, lines1)
                else (⟨lines1.getLast?, false⟩, lines1.dropLast)
    Rel r.1 (lsRun ⟨p.getD [], false⟩ text).1 ∧ r.2 = (lsRun ⟨p.getD [], false⟩ text).2 := by
  intro lines1 r
  have hl : lines1 = prependFirst (p.getD []) (splitlines text) := by
    cases p <;> simp [lines1, applyPending, prependFirst_nil]
  have hlast := lsRun_last ⟨[], false⟩ text (by simp [LS.wf]) hne
  rw [lsRun_cur (p.getD []) text]
  generalize hr0 : lsRun ⟨[], false⟩ text = r0 at *
  obtain ⟨s0, out0⟩ := r0
  by_cases hb : lastIs text isBreak = true
  · have hcur : s0.cur = [] := hlast.1.2 hb
    have hout : out0 ≠ [] := by
      intro h
      have := lsRun_no_out ⟨[], false⟩ text rfl (by rw [hr0]; exact h)
      rw [hr0] at this
      simp only at this
      rw [this] at hcur
      simp at hcur
      exact hne hcur
    have hsl : splitlines text = out0 := by
      rw [splitlines_eq, hr0]; simp [lsFlush, hcur]
    simp only [r, hb, if_true, hl, hsl, hout, if_false]
    refine ⟨⟨?_, ?_, ?_, ?_⟩, ?_⟩
    · simpa using hcur
    · simpa using hlast.2
    · simp
    · simp
    · first | rfl | trivial | simp
  · have hb' : lastIs text isBreak = false := by simpa using hb
    have hcur : s0.cur ≠ [] := fun h => hb (hlast.1.1 h)
    have hcr : s0.cr = false := by
      rw [hlast.2]
      cases hc : lastIs text (· == CR) with
      | false => rfl
      | true =>
        exfalso
        unfold lastIs at hc hb'
        cases hg : text.getLast? with
        | none => simp [hg] at hc
        | some c =>
          simp only [hg] at hc hb'
          have : c = CR := by simpa using hc
          subst this
          simp [isBreak_CR] at hb'
    have hsl : splitlines text = out0 ++ [s0.cur] := by
      rw [splitlines_eq, hr0]; simp [lsFlush, hcur]
    simp only [r, hb', Bool.false_eq_true, if_false, hl, hsl]
    cases out0 with
    | nil =>
      simp only [List.nil_append, prependFirst, if_true]
      refine ⟨⟨?_, ?_, ?_, ?_⟩, ?_⟩
      · simp
      · simpa using hcr
      · intro q hq; simp at hq; subst hq; simp [hcur]
      · simp
      · simp
    | cons l ls =>
      simp only [List.cons_append, prependFirst]
      simp only [getLast?_cons_concat, dropLast_cons_concat]
      refine ⟨⟨?_, ?_, ?_, ?_⟩, ?_⟩
      · simp
      · simpa using hcr
      · intro q hq; simp at hq; subst hq; exact hcur
      · simp
      · simp

@[simp] theorem skipLf_false (t : Text) : skipLf false t = t := by cases t <;> rfl
@[simp] theorem skipLf_true_lf (t : Text) : skipLf true (LF :: t) = t := by simp [skipLf]
theorem skipLf_true_other (c : Nat) (t : Text) (h : (c == LF) = false) : skipLf true (c :: t) = c :: t := by
  simp [skipLf, h]

theorem delimFixStep_rel (d : DS) (s : LS) (text0 : Text) (hne : text0 ≠ []) (h : Rel d s) :
    Rel (delimFixStep d text0).1 (lsRun s text0).1 ∧ (delimFixStep d text0).2 = (lsRun s text0).2 := by
  obtain ⟨hcur, hcr, hp, hac⟩ := h
  obtain ⟨cur, cr⟩ := s
  obtain ⟨pending, afterCr⟩ := d
  simp only at hcur hcr hp hac
  subst hcur hcr
  cases text0 with
  | nil => exact absurd rfl hne
  | cons c t =>
    cases cr with
    | false =>
      have := delimFix_general pending (c :: t) (by simp) hp
      simpa [delimFixStep] using this
    | true =>
      have hpn : pending = none := hac rfl
      subst hpn
      by_cases hc : (c == LF) = true
      · have hc' : c = LF := by simpa using hc
        subst hc'
        simp only [Option.getD_none]
        rw [lsRun_cr_lf]
        by_cases ht : t = []
        · subst ht
          simp [delimFixStep, lsRun, Rel]
        · have := delimFix_general none t ht (by simp)
          simp only [delimFixStep, skipLf_true_lf, ht, if_false]
          simpa using this
      · have hc' : (c == LF) = false := by simpa using hc
        simp only [Option.getD_none]
        rw [lsRun_cr_other [] c t hc']
        have := delimFix_general none (c :: t) (by simp) (by simp)
        simpa [delimFixStep, skipLf_true_other c t hc'] using this

theorem delimFixGo_eq (d : DS) (s : LS) (chunks : List Text) (h : Rel d s) :
    delimFixGo d chunks = (lsRun s chunks.flatten).2 ++ lsFlush (lsRun s chunks.flatten).1 := by
  induction chunks generalizing d s with
  | nil =>
    obtain ⟨hcur, _, hp, _⟩ := h
    simp only [delimFixGo, List.flatten_nil, lsRun, List.nil_append, lsFlush]
    cases hpd : d.pending with
    | none => simp [hcur, hpd]
    | some p => simp [hcur, hpd, hp p hpd]
  | cons t ts ih =>
    simp only [delimFixGo, List.flatten_cons]
    by_cases ht : t = []
    · subst ht; simpa using ih d s h
    · simp only [ht, if_false]
      have hstep := delimFixStep_rel d s t ht h
      rw [lsRun_append, ih _ _ hstep.1, hstep.2]
      simp [List.append_assoc]

/-- DelimSource (repaired): for every way of cutting a text into chunks (empty chunks
included) the lines are those of the whole text -/
theorem delimFix_eq' (chunks : List Text) : delimFix chunks = splitlines chunks.flatten := by
  unfold delimFix
  rw [delimFixGo_eq ⟨none, false⟩ ⟨[], false⟩ chunks (by simp [Rel])]
  rfl



/-! ## A.3 the byte pipeline -/


theorem decompChunks_flatten {σ} (D : Decomp σ) (h : D.Lawful) (s : σ) (cs : List (List Nat)) :
    (decompChunks D s cs).flatten = (D.step s cs.flatten).2 := by
  induction cs generalizing s with
  | nil => simp [decompChunks, h.1]
  | cons c cs ih => simp [decompChunks, h.2, ih]

theorem chunk_invariance' {σ} (D : Decomp σ) (h : D.Lawful) (cs : List (List Nat)) :
    readFix D cs = readWhole D cs.flatten := by
  unfold readFix readWhole Decomp.all
  rw [← decompChunks_flatten D h, decodeAll_eq, ← decodeChunksFix_flatten]
  cases decodeChunksFix U8.init (decompChunks D D.init cs) with
  | error e => rfl
  | ok ts => simp [delimFix_eq']

theorem chunksOf_go_flatten (size : Nat) (hs : 0 < size) (fuel : Nat) (bs : List Nat) (h : bs.length ≤ fuel) :
    (chunksOf.go size fuel bs).flatten = bs := by
  induction fuel generalizing bs with
  | zero =>
    have : bs = [] := by cases bs <;> simp_all
    subst this; simp [chunksOf.go]
  | succ n ih =>
    simp only [chunksOf.go]
    by_cases hb : bs = []
    · simp [hb]
    · simp only [hb, if_false, List.flatten_cons]
      rw [ih (bs.drop size) (by
        have : 0 < bs.length := List.length_pos_iff.mpr hb
        simp only [List.length_drop]; omega)]
      exact List.take_append_drop size bs

theorem chunksOf_flatten (size : Nat) (bs : List Nat) : (chunksOf size bs).flatten = bs := by
  unfold chunksOf
  by_cases hs : size = 0
  · simp [hs]
  · simp only [hs, if_false]
    exact chunksOf_go_flatten size (Nat.pos_of_ne_zero hs) _ bs (Nat.le_refl _)

instance instDecEqExcept {ε α} [DecidableEq ε] [DecidableEq α] : DecidableEq (Except ε α) := fun a b =>
  match a, b with
  | .ok x, .ok y => if h : x = y then isTrue (by rw [h]) else isFalse (by intro h'; cases h'; exact h rfl)
  | .error x, .error y => if h : x = y then isTrue (by rw [h]) else isFalse (by intro h'; cases h'; exact h rfl)
  | .ok _, .error _ => isFalse (by intro h; cases h)
  | .error _, .ok _ => isFalse (by intro h; cases h)

theorem cex_utf8 : readCur Decomp.identity [[0x61, 0xC3], [0xA9]] = .error .unicodeDecode ∧
    readWhole Decomp.identity [0x61, 0xC3, 0xA9] = .ok [[0x61, 0xE9]] := by decide
theorem cex_crlf : readCur Decomp.identity [[0x61, 13], [10, 0x62]] = .ok [[0x61], [], [0x62]] ∧
    readWhole Decomp.identity [0x61, 13, 10, 0x62] = .ok [[0x61], [0x62]] := by decide
theorem cex_u2028 : readCur Decomp.identity [[0x61, 0xE2, 0x80, 0xA8], [0x62]] = .ok [[0x61, 0x62]] ∧
    readWhole Decomp.identity [0x61, 0xE2, 0x80, 0xA8, 0x62] = .ok [[0x61], [0x62]] := by decide


/-! ## A.4 the current code is right on good cuts -/


theorem skipLf_eq (ac : Bool) (t : Text) (h1 : (ac && t.head? == some LF) = false) : skipLf ac t = t := by
  cases ac with
  | false => rfl
  | true =>
    cases t with
    | nil => rfl
    | cons c t' =>
      simp only [List.head?_cons, Bool.true_and] at h1
      have : (c == LF) = false := by
        cases hc : (c == LF) with
        | false => rfl
        | true => have : c = LF := by simpa using hc
                  subst this; simp at h1
      simp [skipLf, this]

/-- on a good cut the current loop body does what the repaired one does -/
theorem delimCurStep_eq (d : DS) (s : LS) (t : Text) (hne : t ≠ []) (h : Rel d s)
    (h1 : (d.afterCr && t.head? == some LF) = false)
    (h2 : lastIs t (fun c => isBreak c && !(c == CR || c == LF)) = false) :
    delimCurStep d.pending t = ((delimFixStep d t).1.pending, (delimFixStep d t).2) := by
  obtain ⟨_, _, hp, _⟩ := h
  have hbr : lastIs t isBreak = lastIs t (fun c => c == CR || c == LF) := by
    unfold lastIs at h2 ⊢
    cases hg : t.getLast? with
    | none => rfl
    | some c =>
      simp only [hg] at h2 ⊢
      by_cases hc : (c == CR || c == LF) = true
      · rw [hc]
        have : c = CR ∨ c = LF := by simpa using hc
        rcases this with h | h <;> subst h <;> decide
      · have hc' : (c == CR || c == LF) = false := by simpa using hc
        rw [hc'] at h2 ⊢
        simpa using h2
  have htext := skipLf_eq d.afterCr t h1
  unfold delimFixStep delimCurStep
  simp only [htext, hne, if_false]
  rw [hbr]
  cases hpd : d.pending with
  | none => simp only [applyPending]; split <;> rfl
  | some p =>
    have hpne := hp p hpd
    cases p with
    | nil => exact absurd rfl hpne
    | cons a p' =>
      simp only [applyPending, Option.getD_some, if_true]
      split <;> rfl

theorem goodCuts_step (ac : Bool) (t : Text) (ts : List Text) (hne : t ≠ []) (h : goodCutsGo ac (t :: ts) = true) :
    (ac && t.head? == some LF) = false ∧ lastIs t (fun c => isBreak c && !(c == CR || c == LF)) = false ∧
    goodCutsGo (lastIs t (· == CR)) ts = true := by
  simp only [goodCutsGo, hne, if_false, Bool.and_eq_true, Bool.not_eq_true'] at h
  exact ⟨h.1.1, h.1.2, h.2⟩

theorem delimFixStep_afterCr (d : DS) (t : Text) (hne : t ≠ [])
    (h1 : (d.afterCr && t.head? == some LF) = false) :
    (delimFixStep d t).1.afterCr = lastIs t (· == CR) := by
  have htext := skipLf_eq d.afterCr t h1
  unfold delimFixStep
  simp only [htext, hne, if_false]
  by_cases hb : lastIs t isBreak = true
  · simp [hb]
  · have hb' : lastIs t isBreak = false := by simpa using hb
    simp only [hb', Bool.false_eq_true, if_false]
    unfold lastIs at hb' ⊢
    cases hg : t.getLast? with
    | none => rfl
    | some c =>
      simp only [hg] at hb' ⊢
      cases hc : (c == CR) with
      | false => rfl
      | true => have : c = CR := by simpa using hc
                subst this; simp [isBreak_CR] at hb'

theorem delimCurGo_eq (d : DS) (s : LS) (ts : List Text) (h : Rel d s) (hg : goodCutsGo d.afterCr ts = true) :
    delimCurGo d.pending ts = delimFixGo d ts := by
  induction ts generalizing d s with
  | nil => simp [delimCurGo, delimFixGo]
  | cons t ts ih =>
    by_cases hne : t = []
    · subst hne
      simp only [delimCurGo, delimFixGo, if_true]
      exact ih d s h (by simpa [goodCutsGo] using hg)
    · obtain ⟨g1, g2, g3⟩ := goodCuts_step d.afterCr t ts hne hg
      simp only [delimCurGo, delimFixGo, hne, if_false]
      rw [delimCurStep_eq d s t hne h g1 g2]
      simp only
      have hrel := (delimFixStep_rel d s t hne h).1
      rw [ih (delimFixStep d t).1 _ hrel (by rw [delimFixStep_afterCr d t hne g1]; exact g3)]

theorem delimCur_eq_of_good (ts : List Text) (hg : goodCuts ts = true) : delimCur ts = splitlines ts.flatten := by
  rw [← delimFix_eq']
  exact delimCurGo_eq ⟨none, false⟩ ⟨[], false⟩ ts (by simp [Rel]) hg

/-- a decoder that has no character outstanding is in its initial state -/
theorem u8step_need0 (s : U8) (b : Nat) (s' : U8) (o : Option Nat) (h : u8step s b = .ok (s', o)) (h0 : s'.need = 0) :
    s' = U8.init := by
  unfold u8step at h
  repeat' split at h
  all_goals (first | (cases h; rfl) | (cases h; simp at h0; done) | (cases h; simp at h0; exfalso; omega) | cases h)

theorem decodeFrom_need0 (s : U8) (bs : List Nat) (s' : U8) (t : Text) (h : decodeFrom s bs = .ok (s', t))
    (h0 : s'.need = 0) : s' = U8.init ∨ (bs = [] ∧ s' = s) := by
  induction bs generalizing s t with
  | nil => simp [decodeFrom] at h; right; exact ⟨rfl, h.1.symm⟩
  | cons b bs ih =>
    left
    simp only [decodeFrom] at h
    cases h1 : u8step s b with
    | error e => simp [h1] at h
    | ok r =>
      obtain ⟨s1, o⟩ := r
      simp only [h1] at h
      cases h2 : decodeFrom s1 bs with
      | error e => simp [h2] at h
      | ok r2 =>
        obtain ⟨s2, t2⟩ := r2
        simp only [h2] at h
        cases h
        rcases ih s1 t2 h2 with h3 | ⟨_, h3⟩
        · exact h3
        · subst h3; exact u8step_need0 s b s' o h1 h0

theorem decodeChunksCur_fix (cs : List (List Nat)) (ts : List Text) (h : decodeChunksCur cs = .ok ts) :
    decodeChunksFix U8.init cs = .ok ts := by
  induction cs generalizing ts with
  | nil => simp [decodeChunksCur] at h; subst h; simp [decodeChunksFix, U8.init]
  | cons c cs ih =>
    simp only [decodeChunksCur, decodeAll] at h
    cases h1 : decodeFrom U8.init c with
    | error e => simp [h1] at h
    | ok r =>
      obtain ⟨s1, t⟩ := r
      simp only [h1, finish] at h
      by_cases hn : s1.need = 0
      · simp only [hn, if_true] at h
        have hs1 : s1 = U8.init := by
          rcases decodeFrom_need0 _ _ _ _ h1 hn with h | ⟨_, h⟩ <;> exact h
        subst hs1
        cases h2 : decodeChunksCur cs with
        | error e => simp [h2] at h
        | ok ts' =>
          simp only [h2] at h
          cases h
          simp [decodeChunksFix, h1, ih ts' h2]
      · simp [hn] at h

theorem chunk_invariance_partial' {σ} (D : Decomp σ) (hD : D.Lawful) (cs : List (List Nat)) (ts : List Text)
    (hdec : decodeChunksCur (decompChunks D D.init cs) = .ok ts) (hg : goodCuts ts = true) :
    readCur D cs = readWhole D cs.flatten := by
  rw [← chunk_invariance' D hD]
  unfold readCur readFix
  rw [hdec, decodeChunksCur_fix _ _ hdec]
  simp only
  rw [delimCur_eq_of_good ts hg, delimFix_eq']



/-! ## B.1 UTF-8 encode/decode round trip -/


theorem u8step_cont_last (s : U8) (b : Nat) (h1 : s.need = 1) (hlo : s.lo ≤ b) (hhi : b ≤ s.hi) :
    u8step s b = .ok (U8.init, some (s.acc * 64 + (b - 0x80))) := by
  unfold u8step
  simp [h1, hlo, hhi]

theorem u8step_cont_more (s : U8) (b : Nat) (n : Nat) (h1 : s.need = n + 2) (hlo : s.lo ≤ b) (hhi : b ≤ s.hi) :
    u8step s b = .ok (⟨n + 1, s.acc * 64 + (b - 0x80), 0x80, 0xBF⟩, none) := by
  unfold u8step
  simp [h1, hlo, hhi]

/-- decoding the encoding of one scalar value yields it and returns to the initial state -/
theorem decode_encodeCP (c : Nat) (bs rest : List Nat) (h : encodeCP c = .ok bs) :
    decodeFrom U8.init (bs ++ rest) =
      match decodeFrom U8.init rest with
      | .error e => .error e
      | .ok (s, t) => .ok (s, c :: t) := by
  unfold encodeCP at h
  split at h
  · cases h
    rename_i h1
    have : u8step U8.init c = .ok (U8.init, some c) := by simp [u8step, U8.init, h1]
    simp only [List.cons_append, List.nil_append, decodeFrom, this]
    cases decodeFrom U8.init rest <;> rfl
  · split at h
    · cases h
      rename_i h1 h2
      have e1 : u8step U8.init (0xC0 + c / 64) = .ok (⟨1, c / 64, 0x80, 0xBF⟩, none) := by
        have a1 : ¬ (0xC0 + c / 64 < 0x80) := by omega
        have a2 : 0xC2 ≤ 0xC0 + c / 64 ∧ 0xC0 + c / 64 ≤ 0xDF := by omega
        simp [u8step, U8.init, a1, a2]
      have e2 := u8step_cont_last ⟨1, c / 64, 0x80, 0xBF⟩ (0x80 + c % 64) rfl (by simp) (by simp; omega)
      have e3 : c / 64 * 64 + (0x80 + c % 64 - 0x80) = c := by omega
      simp only [e3] at e2
      simp only [List.cons_append, List.nil_append, decodeFrom, e1, e2]
      cases decodeFrom U8.init rest <;> rfl
    · split at h
      · cases h
      · split at h
        · cases h
          rename_i h1 h2 h3 h4
          have hs : c < 0xD800 ∨ 0xDFFF < c := by omega
          have e3 : ∀ a, (a * 64 + (0x80 + c / 64 % 64 - 0x80)) * 64 + (0x80 + c % 64 - 0x80) = a * 4096 + (c / 64 % 64) * 64 + c % 64 := by
            intro a; omega
          -- lead byte
          by_cases k0 : c / 4096 = 0
          · have e1 : u8step U8.init (0xE0 + c / 4096) = .ok (⟨2, 0, 0xA0, 0xBF⟩, none) := by
              simp [u8step, U8.init, k0]
            have e2 := u8step_cont_more ⟨2, 0, 0xA0, 0xBF⟩ (0x80 + c / 64 % 64) 0 rfl (by simp; omega) (by simp; omega)
            have e4 := u8step_cont_last ⟨1, 0 * 64 + (0x80 + c / 64 % 64 - 0x80), 0x80, 0xBF⟩ (0x80 + c % 64) rfl (by simp) (by simp; omega)
            have e5 : (0 * 64 + (0x80 + c / 64 % 64 - 0x80)) * 64 + (0x80 + c % 64 - 0x80) = c := by omega
            simp only [e5] at e4
            simp only [List.cons_append, List.nil_append, decodeFrom, e1, e2, e4]
            cases decodeFrom U8.init rest <;> rfl
          · by_cases k13 : c / 4096 = 13
            · have e1 : u8step U8.init (0xE0 + c / 4096) = .ok (⟨2, 13, 0x80, 0x9F⟩, none) := by
                simp [u8step, U8.init, k13]
              have e2 := u8step_cont_more ⟨2, 13, 0x80, 0x9F⟩ (0x80 + c / 64 % 64) 0 rfl (by simp) (by simp; omega)
              have e4 := u8step_cont_last ⟨1, 13 * 64 + (0x80 + c / 64 % 64 - 0x80), 0x80, 0xBF⟩ (0x80 + c % 64) rfl (by simp) (by simp; omega)
              have e5 : (13 * 64 + (0x80 + c / 64 % 64 - 0x80)) * 64 + (0x80 + c % 64 - 0x80) = c := by omega
              simp only [e5] at e4
              simp only [List.cons_append, List.nil_append, decodeFrom, e1, e2, e4]
              cases decodeFrom U8.init rest <;> rfl
            · have e1 : u8step U8.init (0xE0 + c / 4096) = .ok (⟨2, c / 4096, 0x80, 0xBF⟩, none) := by
                have a1 : ¬ (0xE0 + c / 4096 < 0x80) := by omega
                have a2 : ¬ (0xC2 ≤ 0xE0 + c / 4096 ∧ 0xE0 + c / 4096 ≤ 0xDF) := by omega
                have a3 : ¬ (0xE0 + c / 4096 = 0xE0) := by omega
                have a4 : ¬ (0xE0 + c / 4096 = 0xED) := by omega
                have a5 : 0xE1 ≤ 0xE0 + c / 4096 ∧ 0xE0 + c / 4096 ≤ 0xEF := by omega
                simp [u8step, U8.init, a1, a2, a4, a5]
                omega
              have e2 := u8step_cont_more ⟨2, c / 4096, 0x80, 0xBF⟩ (0x80 + c / 64 % 64) 0 rfl (by simp) (by simp; omega)
              have e4 := u8step_cont_last ⟨1, c / 4096 * 64 + (0x80 + c / 64 % 64 - 0x80), 0x80, 0xBF⟩ (0x80 + c % 64) rfl (by simp) (by simp; omega)
              have e5 : (c / 4096 * 64 + (0x80 + c / 64 % 64 - 0x80)) * 64 + (0x80 + c % 64 - 0x80) = c := by omega
              simp only [e5] at e4
              simp only [List.cons_append, List.nil_append, decodeFrom, e1, e2, e4]
              cases decodeFrom U8.init rest <;> rfl
        · split at h
          · cases h
            rename_i h1 h2 h3 h4 h5
            have hs : 0x10000 ≤ c := by omega
            by_cases k0 : c / 262144 = 0
            · have e1 : u8step U8.init (0xF0 + c / 262144) = .ok (⟨3, 0, 0x90, 0xBF⟩, none) := by
                simp [u8step, U8.init, k0]
              have e2 := u8step_cont_more ⟨3, 0, 0x90, 0xBF⟩ (0x80 + c / 4096 % 64) 1 rfl (by simp; omega) (by simp; omega)
              have e3 := u8step_cont_more ⟨2, 0 * 64 + (0x80 + c / 4096 % 64 - 0x80), 0x80, 0xBF⟩ (0x80 + c / 64 % 64) 0 rfl (by simp) (by simp; omega)
              have e4 := u8step_cont_last ⟨1, (0 * 64 + (0x80 + c / 4096 % 64 - 0x80)) * 64 + (0x80 + c / 64 % 64 - 0x80), 0x80, 0xBF⟩ (0x80 + c % 64) rfl (by simp) (by simp; omega)
              have e5 : ((0 * 64 + (0x80 + c / 4096 % 64 - 0x80)) * 64 + (0x80 + c / 64 % 64 - 0x80)) * 64 + (0x80 + c % 64 - 0x80) = c := by omega
              simp only [e5] at e4
              simp only [List.cons_append, List.nil_append, decodeFrom, e1, e2, e3, e4]
              cases decodeFrom U8.init rest <;> rfl
            · by_cases k4 : c / 262144 = 4
              · have e1 : u8step U8.init (0xF0 + c / 262144) = .ok (⟨3, 4, 0x80, 0x8F⟩, none) := by
                  simp [u8step, U8.init, k4]
                have e2 := u8step_cont_more ⟨3, 4, 0x80, 0x8F⟩ (0x80 + c / 4096 % 64) 1 rfl (by simp) (by simp; omega)
                have e3 := u8step_cont_more ⟨2, 4 * 64 + (0x80 + c / 4096 % 64 - 0x80), 0x80, 0xBF⟩ (0x80 + c / 64 % 64) 0 rfl (by simp) (by simp; omega)
                have e4 := u8step_cont_last ⟨1, (4 * 64 + (0x80 + c / 4096 % 64 - 0x80)) * 64 + (0x80 + c / 64 % 64 - 0x80), 0x80, 0xBF⟩ (0x80 + c % 64) rfl (by simp) (by simp; omega)
                have e5 : ((4 * 64 + (0x80 + c / 4096 % 64 - 0x80)) * 64 + (0x80 + c / 64 % 64 - 0x80)) * 64 + (0x80 + c % 64 - 0x80) = c := by omega
                simp only [e5] at e4
                simp only [List.cons_append, List.nil_append, decodeFrom, e1, e2, e3, e4]
                cases decodeFrom U8.init rest <;> rfl
              · have e1 : u8step U8.init (0xF0 + c / 262144) = .ok (⟨3, c / 262144, 0x80, 0xBF⟩, none) := by
                  have a1 : ¬ (0xF0 + c / 262144 < 0x80) := by omega
                  have a2 : ¬ (0xC2 ≤ 0xF0 + c / 262144 ∧ 0xF0 + c / 262144 ≤ 0xDF) := by omega
                  have a3 : ¬ (0xF0 + c / 262144 = 0xE0) := by omega
                  have a4 : ¬ (0xF0 + c / 262144 = 0xED) := by omega
                  have a5 : ¬ (0xE1 ≤ 0xF0 + c / 262144 ∧ 0xF0 + c / 262144 ≤ 0xEF) := by omega
                  have a6 : ¬ (0xF0 + c / 262144 = 0xF0) := by omega
                  have a7 : ¬ (0xF0 + c / 262144 = 0xF4) := by omega
                  have a8 : 0xF1 ≤ 0xF0 + c / 262144 ∧ 0xF0 + c / 262144 ≤ 0xF3 := by omega
                  simp only [u8step, U8.init, a1, a2, a3, a4, a5, a6, a7, a8, if_true, if_false, and_self]
                  simp
                have e2 := u8step_cont_more ⟨3, c / 262144, 0x80, 0xBF⟩ (0x80 + c / 4096 % 64) 1 rfl (by simp) (by simp; omega)
                have e3 := u8step_cont_more ⟨2, c / 262144 * 64 + (0x80 + c / 4096 % 64 - 0x80), 0x80, 0xBF⟩ (0x80 + c / 64 % 64) 0 rfl (by simp) (by simp; omega)
                have e4 := u8step_cont_last ⟨1, (c / 262144 * 64 + (0x80 + c / 4096 % 64 - 0x80)) * 64 + (0x80 + c / 64 % 64 - 0x80), 0x80, 0xBF⟩ (0x80 + c % 64) rfl (by simp) (by simp; omega)
                have e5 : ((c / 262144 * 64 + (0x80 + c / 4096 % 64 - 0x80)) * 64 + (0x80 + c / 64 % 64 - 0x80)) * 64 + (0x80 + c % 64 - 0x80) = c := by omega
                simp only [e5] at e4
                simp only [List.cons_append, List.nil_append, decodeFrom, e1, e2, e3, e4]
                cases decodeFrom U8.init rest <;> rfl
          · cases h



/-! ## B.2 DiskSink / DiskSource framing -/


theorem decode_encode (t : Text) (bs rest : List Nat) (h : encode t = .ok bs) :
    decodeFrom U8.init (bs ++ rest) =
      match decodeFrom U8.init rest with
      | .error e => .error e
      | .ok (s, t') => .ok (s, t ++ t') := by
  induction t generalizing bs with
  | nil =>
    simp [encode] at h; subst h
    simp only [List.nil_append]
    cases decodeFrom U8.init rest <;> rfl
  | cons c t ih =>
    simp only [encode] at h
    cases h1 : encodeCP c with
    | error e => simp [h1] at h
    | ok b1 =>
      simp only [h1] at h
      cases h2 : encode t with
      | error e => simp [h2] at h
      | ok b2 =>
        simp only [h2] at h
        cases h
        rw [List.append_assoc, decode_encodeCP c b1 (b2 ++ rest) h1, ih b2 h2]
        cases decodeFrom U8.init rest <;> rfl

theorem decodeAll_encode (t : Text) (bs : List Nat) (h : encode t = .ok bs) : decodeAll bs = .ok t := by
  have := decode_encode t bs [] h
  simp only [List.append_nil, decodeFrom] at this
  unfold decodeAll
  rw [this]
  rfl

theorem encodeCP_ok (c : Nat) (h : isScalar c = true) : ∃ bs, encodeCP c = .ok bs := by
  unfold isScalar at h
  simp only [Bool.and_eq_true, Bool.or_eq_true, decide_eq_true_eq] at h
  unfold encodeCP
  split
  · exact ⟨_, rfl⟩
  · split
    · exact ⟨_, rfl⟩
    · split
      · exfalso; omega
      · split
        · exact ⟨_, rfl⟩
        · split
          · exact ⟨_, rfl⟩
          · exfalso; omega

theorem encode_ok (t : Text) (h : ∀ c ∈ t, isScalar c = true) : ∃ bs, encode t = .ok bs := by
  induction t with
  | nil => exact ⟨[], rfl⟩
  | cons c t ih =>
    obtain ⟨b1, h1⟩ := encodeCP_ok c (h c (by simp))
    obtain ⟨b2, h2⟩ := ih (fun d hd => h d (by simp [hd]))
    exact ⟨b1 ++ b2, by simp [encode, h1, h2]⟩

theorem encode_append (a b : Text) (x y : List Nat) (ha : encode a = .ok x) (hb : encode b = .ok y) :
    encode (a ++ b) = .ok (x ++ y) := by
  induction a generalizing x with
  | nil => simp [encode] at ha; subst ha; simpa using hb
  | cons c a ih =>
    simp only [encode] at ha
    cases h1 : encodeCP c with
    | error e => simp [h1] at ha
    | ok b1 =>
      simp only [h1] at ha
      cases h2 : encode a with
      | error e => simp [h2] at ha
      | ok b2 =>
        simp only [h2] at ha
        cases ha
        simp [encode, h1, ih b2 h2]

/-- the text a list of lines is framed into -/
def frame (ls : List Text) : Text := (ls.map (· ++ [LF])).flatten

theorem isScalar_LF : isScalar LF = true := by decide

theorem encodeLines_ok (ls : List Text) (h : ∀ l ∈ ls, ∀ c ∈ l, isScalar c = true) :
    ∃ bs, encodeLines ls = .ok bs ∧ encode (frame ls) = .ok bs := by
  induction ls with
  | nil => exact ⟨[], rfl, rfl⟩
  | cons l ls ih =>
    obtain ⟨b2, h2, h3⟩ := ih (fun l' hl' => h l' (by simp [hl']))
    obtain ⟨b1, h1⟩ := encode_ok (l ++ [LF]) (by
      intro c hc
      simp only [List.mem_append, List.mem_singleton] at hc
      rcases hc with hc | hc
      · exact h l (by simp) c hc
      · subst hc; exact isScalar_LF)
    refine ⟨b1 ++ b2, by simp [encodeLines, h1, h2], ?_⟩
    simp only [frame, List.map_cons, List.flatten_cons]
    exact encode_append _ _ _ _ h1 h3

theorem batches_go_flatten (n : Nat) (hn : 0 < n) (fuel : Nat) (ls : List Text) (h : ls.length < fuel) :
    (batches.go n fuel ls).flatten = ls := by
  induction fuel generalizing ls with
  | zero => omega
  | succ k ih =>
    simp only [batches.go]
    by_cases hb : (ls.take n).length = n
    · simp only [hb, if_true, List.flatten_cons]
      rw [ih (ls.drop n) (by
        simp only [List.length_take] at hb
        simp only [List.length_drop]; omega)]
      exact List.take_append_drop n ls
    · simp only [hb, if_false, List.flatten_cons, List.flatten_nil, List.append_nil]
      simp only [List.length_take] at hb
      exact List.take_of_length_le (by omega)

theorem batches_flatten (b : Option Nat) (ls : List Text) : (batches b ls).flatten = ls := by
  unfold batches
  cases b with
  | none => simp
  | some n =>
    cases n with
    | zero => simp
    | succ m => exact batches_go_flatten (m + 1) (by omega) _ ls (by omega)

theorem frame_append (a b : List Text) : frame (a ++ b) = frame a ++ frame b := by
  simp [frame]

theorem diskWriteParts_go_ok (bs : List (List Text)) (h : ∀ b ∈ bs, ∀ l ∈ b, ∀ c ∈ l, isScalar c = true) :
    ∃ parts bytes, diskWriteParts.go bs = .ok parts ∧ encode (frame bs.flatten) = .ok bytes ∧ parts.flatten = bytes := by
  induction bs with
  | nil => exact ⟨[], [], rfl, rfl, rfl⟩
  | cons b bs ih =>
    obtain ⟨parts, bytes, h1, h2, h3⟩ := ih (fun b' hb' => h b' (by simp [hb']))
    obtain ⟨x, hx, hx2⟩ := encodeLines_ok b (h b (by simp))
    refine ⟨x :: parts, x ++ bytes, by simp [diskWriteParts.go, hx, h1], ?_, by simp [h3]⟩
    simp only [List.flatten_cons, frame_append]
    exact encode_append _ _ _ _ hx2 h2

theorem universalNlGo_noCr (t : Text) (h : ∀ c ∈ t, c ≠ CR) : universalNlGo false t = t := by
  induction t with
  | nil => rfl
  | cons c t ih =>
    have hc : (c == CR) = false := by simpa using h c (by simp)
    simp [universalNlGo, hc, ih (fun d hd => h d (by simp [hd]))]

theorem readlinesGo_line (cur l : Text) (rest : Text) (h : ∀ c ∈ l, c ≠ LF) :
    readlinesGo cur (l ++ LF :: rest) = (cur ++ l ++ [LF]) :: readlinesGo [] rest := by
  induction l generalizing cur with
  | nil => simp [readlinesGo]
  | cons c l ih =>
    have hc : (c == LF) = false := by simpa using h c (by simp)
    simp only [List.cons_append, readlinesGo, hc, Bool.false_eq_true, if_false]
    rw [ih (cur ++ [c]) (fun d hd => h d (by simp [hd]))]
    simp

theorem readlines_frame (ls : List Text) (h : ∀ l ∈ ls, ∀ c ∈ l, c ≠ LF) :
    readlinesGo [] (frame ls) = ls.map (· ++ [LF]) := by
  induction ls with
  | nil => simp [frame, readlinesGo]
  | cons l ls ih =>
    simp only [frame, List.map_cons, List.flatten_cons, List.append_assoc, List.singleton_append]
    rw [readlinesGo_line [] l _ (h l (by simp))]
    have := ih (fun l' hl' => h l' (by simp [hl']))
    simp only [frame] at this
    simp [this]

theorem rstripNl_line (l : Text) (h : noNl l = true) : rstripNl (l ++ [LF]) = l := by
  unfold rstripNl
  simp only [List.reverse_append, List.reverse_cons, List.reverse_nil, List.nil_append, List.singleton_append]
  have h1 : List.dropWhile (fun c => c == CR || c == LF) (LF :: l.reverse) = List.dropWhile (fun c => c == CR || c == LF) l.reverse := by
    simp [List.dropWhile]
  rw [h1]
  have h2 : List.dropWhile (fun c => c == CR || c == LF) l.reverse = l.reverse := by
    cases hr : l.reverse with
    | nil => rfl
    | cons a r =>
      have : a ∈ l := by
        have : a ∈ l.reverse := by rw [hr]; simp
        simpa using this
      unfold noNl at h
      have := List.all_eq_true.mp h a this
      simp only [Bool.not_eq_true'] at this
      simp [List.dropWhile, this]
  rw [h2, List.reverse_reverse]

theorem noNl_ne (l : Text) (h : noNl l = true) : (∀ c ∈ l, c ≠ CR) ∧ (∀ c ∈ l, c ≠ LF) := by
  unfold noNl at h
  have := List.all_eq_true.mp h
  constructor <;> intro c hc <;> have := this c hc <;> simp at this <;> intro heq <;> subst heq <;> simp [CR, LF] at this

theorem disk_roundtrip' (batch : Option Nat) (lines : List Text)
    (hs : ∀ l ∈ lines, ∀ c ∈ l, isScalar c = true) (hn : ∀ l ∈ lines, noNl l = true) :
    ∃ parts, diskWriteParts batch lines = .ok parts ∧ diskRead parts.flatten = .ok lines := by
  obtain ⟨parts, bytes, h1, h2, h3⟩ := diskWriteParts_go_ok (batches batch lines) (by
    intro b hb l hl
    have : l ∈ (batches batch lines).flatten := List.mem_flatten.mpr ⟨b, hb, hl⟩
    rw [batches_flatten] at this
    exact hs l this)
  refine ⟨parts, h1, ?_⟩
  rw [batches_flatten] at h2
  rw [h3]
  unfold diskRead
  rw [decodeAll_encode _ _ h2]
  simp only
  have hcr : ∀ c ∈ frame lines, c ≠ CR := by
    intro c hc
    simp only [frame, List.mem_flatten, List.mem_map] at hc
    obtain ⟨l', ⟨l, hl, rfl⟩, hc⟩ := hc
    simp only [List.mem_append, List.mem_singleton] at hc
    rcases hc with hc | hc
    · exact (noNl_ne l (hn l hl)).1 c hc
    · subst hc; decide
  unfold universalNl
  rw [universalNlGo_noCr _ hcr, readlines_frame lines (fun l hl => (noNl_ne l (hn l hl)).2)]
  rw [List.map_map]
  congr 1
  have : ∀ l ∈ lines, (rstripNl ∘ fun x => x ++ [LF]) l = id l := by
    intro l hl; simp [rstripNl_line l (hn l hl)]
  rw [List.map_congr_left this]; simp



/-! ## C.1 csv.reader on RFC 4180 output -/


section csv
variable (delim : Nat) (hd1 : delim ≠ DQ) (hd2 : isNl delim = false)

theorem isNl_DQ : isNl DQ = false := by decide

theorem csv_inField_char (acc : Text) (fs : List Text) (c : Nat) (h1 : isNl c = false) (h2 : c ≠ delim) :
    csvChar (excel delim) ⟨.inField, acc, fs⟩ (some c) = .ok ⟨.inField, acc ++ [c], fs⟩ := by
  simp [csvChar, csvInField, excel, h1, h2, addChar]

theorem csv_inField_delim (acc : Text) (fs : List Text) (hd2 : isNl delim = false) :
    csvChar (excel delim) ⟨.inField, acc, fs⟩ (some delim) = .ok ⟨.startField, [], fs ++ [acc]⟩ := by
  simp [csvChar, csvInField, excel, hd2, saveField]

theorem csv_inField_eol (acc : Text) (fs : List Text) :
    csvChar (excel delim) ⟨.inField, acc, fs⟩ none = .ok ⟨.startRecord, [], fs ++ [acc]⟩ := by
  simp [csvChar, csvInField, saveField]

theorem csv_startField_char (fs : List Text) (c : Nat) (h1 : isNl c = false) (h2 : c ≠ delim) (h3 : c ≠ DQ) :
    csvChar (excel delim) ⟨.startField, [], fs⟩ (some c) = .ok ⟨.inField, [c], fs⟩ := by
  have : ¬ (34 = c) := fun h => h3 (by simp [DQ, h])
  simp [csvChar, csvStartField, excel, h1, h2, this, addChar]

theorem csv_startField_delim (fs : List Text) (hd1 : delim ≠ DQ) (hd2 : isNl delim = false) :
    csvChar (excel delim) ⟨.startField, [], fs⟩ (some delim) = .ok ⟨.startField, [], fs ++ [[]]⟩ := by
  have : ¬ (34 = delim) := fun h => hd1 (by simp [DQ, h])
  simp [csvChar, csvStartField, excel, hd2, this, saveField]

theorem csv_startField_eol (fs : List Text) :
    csvChar (excel delim) ⟨.startField, [], fs⟩ none = .ok ⟨.startRecord, [], fs ++ [[]]⟩ := by
  simp [csvChar, csvStartField, saveField]

theorem csv_startField_dq (fs : List Text) :
    csvChar (excel delim) ⟨.startField, [], fs⟩ (some DQ) = .ok ⟨.inQuoted, [], fs⟩ := by
  have h : isNl 34 = false := by decide
  simp [csvChar, csvStartField, excel, DQ, goto, h]

theorem csv_inQuoted_char (acc : Text) (fs : List Text) (c : Nat) (h : c ≠ DQ) :
    csvChar (excel delim) ⟨.inQuoted, acc, fs⟩ (some c) = .ok ⟨.inQuoted, acc ++ [c], fs⟩ := by
  have : ¬ (34 = c) := fun h' => h (by simp [DQ, h'])
  simp [csvChar, excel, this, addChar]

theorem csv_inQuoted_dq (acc : Text) (fs : List Text) :
    csvChar (excel delim) ⟨.inQuoted, acc, fs⟩ (some DQ) = .ok ⟨.quoteInQuoted, acc, fs⟩ := by
  simp [csvChar, excel, DQ, goto]

theorem csv_qiq_dq (acc : Text) (fs : List Text) :
    csvChar (excel delim) ⟨.quoteInQuoted, acc, fs⟩ (some DQ) = .ok ⟨.inQuoted, acc ++ [DQ], fs⟩ := by
  simp [csvChar, excel, DQ, addChar]

theorem csv_qiq_delim (acc : Text) (fs : List Text) (hd1 : delim ≠ DQ) :
    csvChar (excel delim) ⟨.quoteInQuoted, acc, fs⟩ (some delim) = .ok ⟨.startField, [], fs ++ [acc]⟩ := by
  have : ¬ (34 = delim) := fun h => hd1 (by simp [DQ, h])
  simp [csvChar, excel, this, saveField]

theorem csv_qiq_eol (acc : Text) (fs : List Text) :
    csvChar (excel delim) ⟨.quoteInQuoted, acc, fs⟩ none = .ok ⟨.startRecord, [], fs ++ [acc]⟩ := by
  simp [csvChar, saveField]

/-- F1 -/
theorem csvFeed_bare (f : Text) (acc : Text) (fs : List Text) (rest : Text)
    (h : ∀ c ∈ f, isNl c = false ∧ c ≠ delim) :
    csvFeed (excel delim) ⟨.inField, acc, fs⟩ (f ++ rest) = csvFeed (excel delim) ⟨.inField, acc ++ f, fs⟩ rest := by
  induction f generalizing acc with
  | nil => simp
  | cons c f ih =>
    have hc := h c (by simp)
    simp only [List.cons_append, csvFeed, csv_inField_char delim acc fs c hc.1 hc.2]
    rw [ih (acc ++ [c]) (fun d hd => h d (by simp [hd]))]
    simp

/-- F2 -/
theorem csvFeed_quoted (f : Text) (acc : Text) (fs : List Text) (rest : Text) :
    csvFeed (excel delim) ⟨.inQuoted, acc, fs⟩ (csvEscape f ++ rest) = csvFeed (excel delim) ⟨.inQuoted, acc ++ f, fs⟩ rest := by
  induction f generalizing acc with
  | nil => simp [csvEscape]
  | cons c f ih =>
    by_cases hc : c = DQ
    · subst hc
      simp only [csvEscape, if_true, List.cons_append, csvFeed, csv_inQuoted_dq, csv_qiq_dq]
      rw [ih]; simp
    · simp only [csvEscape, hc, if_false, List.cons_append, csvFeed, csv_inQuoted_char delim acc fs c hc]
      rw [ih]; simp

theorem not_mustQuote (f : Text) (h : mustQuote delim f = false) :
    ∀ c ∈ f, isNl c = false ∧ c ≠ delim ∧ c ≠ DQ := by
  intro c hc
  unfold mustQuote at h
  have := (List.any_eq_false.mp h) c hc
  simp only [Bool.or_eq_true, beq_iff_eq, not_or] at this
  exact ⟨by simpa using this.2, this.1.1, this.1.2⟩

/-- F3a: a written field followed by the delimiter -/
theorem csvFeed_field_delim (x : Bool × Text) (fs : List Text) (rest : Text)
    (hd1 : delim ≠ DQ) (hd2 : isNl delim = false) :
    csvFeed (excel delim) ⟨.startField, [], fs⟩ (csvWriteField delim x ++ delim :: rest) =
      csvFeed (excel delim) ⟨.startField, [], fs ++ [x.2]⟩ rest := by
  unfold csvWriteField
  by_cases hq : (x.1 || mustQuote delim x.2) = true
  · simp only [hq, if_true, List.cons_append, List.append_assoc, csvFeed, csv_startField_dq]
    rw [csvFeed_quoted]
    simp only [List.nil_append, List.cons_append, csvFeed, csv_inQuoted_dq, csv_qiq_delim delim _ _ hd1]
  · have hq' : (x.1 || mustQuote delim x.2) = false := by simpa using hq
    have hm : mustQuote delim x.2 = false := by
      cases hx : x.1 <;> simp_all
    have hall := not_mustQuote delim x.2 hm
    simp only [hq', Bool.false_eq_true, if_false]
    cases hf : x.2 with
    | nil => simp only [List.nil_append, csvFeed, csv_startField_delim delim fs hd1 hd2]
    | cons c f =>
      rw [hf] at hall
      have hc := hall c (by simp)
      simp only [List.cons_append, csvFeed, csv_startField_char delim fs c hc.1 hc.2.1 hc.2.2]
      rw [csvFeed_bare delim f [c] fs _ (fun d hd => ⟨(hall d (by simp [hd])).1, (hall d (by simp [hd])).2.1⟩)]
      simp only [List.singleton_append, csvFeed, csv_inField_delim delim _ _ hd2]

/-- F3b: a written field at the end of the line -/
theorem csvLine_field (x : Bool × Text) (fs : List Text) :
    csvLine (excel delim) ⟨.startField, [], fs⟩ (csvWriteField delim x) = .ok ⟨.startRecord, [], fs ++ [x.2]⟩ := by
  unfold csvWriteField csvLine
  by_cases hq : (x.1 || mustQuote delim x.2) = true
  · simp only [hq, if_true, csvFeed, csv_startField_dq]
    rw [csvFeed_quoted]
    simp only [List.nil_append, csvFeed, csv_inQuoted_dq, csv_qiq_eol]
  · have hq' : (x.1 || mustQuote delim x.2) = false := by simpa using hq
    have hm : mustQuote delim x.2 = false := by
      cases hx : x.1 <;> simp_all
    have hall := not_mustQuote delim x.2 hm
    simp only [hq', Bool.false_eq_true, if_false]
    cases hf : x.2 with
    | nil => simp only [csvFeed, csv_startField_eol]
    | cons c f =>
      rw [hf] at hall
      have hc := hall c (by simp)
      simp only [csvFeed, csv_startField_char delim fs c hc.1 hc.2.1 hc.2.2]
      have := csvFeed_bare delim f [c] fs [] (fun d hd => ⟨(hall d (by simp [hd])).1, (hall d (by simp [hd])).2.1⟩)
      simp only [List.append_nil] at this
      rw [this]
      simp only [List.singleton_append, csvFeed, csv_inField_eol]

theorem csvFeed_append (d : Dialect) (r : CsvR) (a b : Text) :
    csvFeed d r (a ++ b) = match csvFeed d r a with | .error e => .error e | .ok r1 => csvFeed d r1 b := by
  induction a generalizing r with
  | nil => simp [csvFeed]
  | cons c a ih =>
    simp only [List.cons_append, csvFeed]
    cases csvChar d r (some c) with
    | error e => rfl
    | ok r1 => exact ih r1

/-- F4: a written row from START_FIELD -/
theorem csvLine_row (row : List (Bool × Text)) (fs : List Text) (hne : row ≠ [])
    (hd1 : delim ≠ DQ) (hd2 : isNl delim = false) :
    csvLine (excel delim) ⟨.startField, [], fs⟩ (csvWriteRow delim row) =
      .ok ⟨.startRecord, [], fs ++ row.map (·.2)⟩ := by
  induction row generalizing fs with
  | nil => exact absurd rfl hne
  | cons x xs ih =>
    cases xs with
    | nil => simp [csvWriteRow, csvLine_field]
    | cons y ys =>
      have := ih (fs ++ [x.2]) (by simp)
      simp only [csvWriteRow, csvLine] at this ⊢
      rw [csvFeed_field_delim delim x fs _ hd1 hd2, this]
      simp

theorem csv_startRecord_eq (d : Dialect) (a : Text) (fs : List Text) (c : Nat) (h : isNl c = false) :
    csvChar d ⟨.startRecord, a, fs⟩ (some c) = csvChar d ⟨.startField, a, fs⟩ (some c) := by
  simp [csvChar, h, csvStartField, saveField, addChar, goto]

theorem csvWriteField_head (x : Bool × Text) (h : x.2.all (fun c => !isNl c) = true) :
    ∀ c t, csvWriteField delim x = c :: t → isNl c = false := by
  intro c t he
  unfold csvWriteField at he
  split at he
  · cases he; exact isNl_DQ
  · have : c ∈ x.2 := by rw [he]; simp
    have := List.all_eq_true.mp h c this
    simpa using this

/-- the first character of a written row is not a line break, and the row is not empty -/
theorem csvWriteRow_head (row : List (Bool × Text)) (hok : csvRowOk row = true) (hd2 : isNl delim = false) :
    ∃ c t, csvWriteRow delim row = c :: t ∧ isNl c = false := by
  unfold csvRowOk at hok
  simp only [Bool.and_eq_true, decide_eq_true_eq] at hok
  obtain ⟨⟨hne, hall⟩, hlone⟩ := hok
  cases row with
  | nil => exact absurd rfl hne
  | cons x xs =>
    have hx : x.2.all (fun c => !isNl c) = true := (List.all_eq_true.mp hall) x (by simp)
    cases xs with
    | nil =>
      simp only [csvWriteRow]
      cases hw : csvWriteField delim x with
      | nil =>
        exfalso
        unfold csvWriteField at hw
        split at hw
        · cases hw
        · rename_i hq
          simp only [Bool.or_eq_true, not_or] at hq
          simp only [Bool.or_eq_true, decide_eq_true_eq] at hlone
          rcases hlone with h | h
          · exact h hw
          · exact hq.1 h
      | cons c t => exact ⟨c, t, rfl, csvWriteField_head delim x hx c t hw⟩
    | cons y ys =>
      simp only [csvWriteRow]
      cases hw : csvWriteField delim x with
      | nil => exact ⟨delim, _, by simp; rfl, hd2⟩
      | cons c t => exact ⟨c, _, by simp; rfl, csvWriteField_head delim x hx c t hw⟩

theorem csvLine_row_reset (row : List (Bool × Text)) (hok : csvRowOk row = true)
    (hd1 : delim ≠ DQ) (hd2 : isNl delim = false) :
    csvLine (excel delim) CsvR.reset (csvWriteRow delim row) = .ok ⟨.startRecord, [], row.map (·.2)⟩ := by
  obtain ⟨c, t, he, hc⟩ := csvWriteRow_head delim row hok hd2
  have hne : row ≠ [] := by
    unfold csvRowOk at hok
    simp only [Bool.and_eq_true, decide_eq_true_eq] at hok
    exact hok.1.1
  have := csvLine_row delim row [] hne hd1 hd2
  rw [he] at this ⊢
  simp only [csvLine, csvFeed, CsvR.reset, csv_startRecord_eq _ _ _ c hc] at this ⊢
  simpa using this

/-- F6 -/
theorem csvRecords_rows (rows : List (List (Bool × Text))) (hok : ∀ r ∈ rows, csvRowOk r = true)
    (hd1 : delim ≠ DQ) (hd2 : isNl delim = false) :
    csvRecords (excel delim) CsvR.reset (rows.map (csvWriteRow delim)) = .ok (rows.map (·.map (·.2))) := by
  induction rows with
  | nil => simp [csvRecords, CsvR.reset]
  | cons r rs ih =>
    simp only [List.map_cons, csvRecords, csvLine_row_reset delim r (hok r (by simp)) hd1 hd2, if_true]
    rw [ih (fun r' hr' => hok r' (by simp [hr']))]

end csv


/-! ## C.2 CsvReader, LibsvmReader, ManikReader round trips -/


theorem dropWhile_head_false {α} (p : α → Bool) (l : List α) (h : ∀ a, l.head? = some a → p a = false) :
    l.dropWhile p = l := by
  cases l with
  | nil => rfl
  | cons a l => simp [List.dropWhile, h a rfl]

theorem rstripNl_id (t : Text) (h : ∀ c, t.getLast? = some c → isNl c = false) : rstripNl t = t := by
  unfold rstripNl
  rw [dropWhile_head_false, List.reverse_reverse]
  intro a ha
  rw [List.head?_reverse] at ha
  have := h a ha
  simpa [isNl, CR, LF, Bool.or_comm] using this

theorem strip_id (t : Text) (h1 : ∀ c, t.head? = some c → isPySpace c = false)
    (h2 : ∀ c, t.getLast? = some c → isPySpace c = false) : strip t = t := by
  unfold strip
  rw [dropWhile_head_false isPySpace t h1, dropWhile_head_false, List.reverse_reverse]
  intro a ha
  rw [List.head?_reverse] at ha
  exact h2 a ha

section csv
variable (delim : Nat)

theorem csvEscape_mem (f : Text) (c : Nat) (h : c ∈ csvEscape f) : c ∈ f ∨ c = DQ := by
  induction f with
  | nil => simp [csvEscape] at h
  | cons a f ih =>
    simp only [csvEscape] at h
    split at h
    · simp only [List.mem_cons] at h
      rcases h with h | h | h
      · right; exact h
      · right; exact h
      · rcases ih h with h | h
        · left; simp [h]
        · right; exact h
    · simp only [List.mem_cons] at h
      rcases h with h | h
      · left; simp [h]
      · rcases ih h with h | h
        · left; simp [h]
        · right; exact h

theorem csvWriteField_noNl (x : Bool × Text) (h : x.2.all (fun c => !isNl c) = true) :
    ∀ c ∈ csvWriteField delim x, isNl c = false := by
  intro c hc
  have hx : ∀ c ∈ x.2, isNl c = false := fun c hc => by simpa using List.all_eq_true.mp h c hc
  unfold csvWriteField at hc
  split at hc
  · simp only [List.mem_cons, List.mem_append, List.mem_singleton, List.not_mem_nil, or_false] at hc
    rcases hc with hc | hc | hc
    · subst hc; exact isNl_DQ
    · rcases csvEscape_mem _ _ hc with h' | h'
      · exact hx c h'
      · subst h'; exact isNl_DQ
    · subst hc; exact isNl_DQ
  · exact hx c hc

theorem csvWriteRow_noNl (row : List (Bool × Text)) (h : row.all (fun x => x.2.all (fun c => !isNl c)) = true)
    (hd2 : isNl delim = false) : ∀ c ∈ csvWriteRow delim row, isNl c = false := by
  induction row with
  | nil => simp [csvWriteRow]
  | cons x xs ih =>
    have hx := List.all_eq_true.mp h x (by simp)
    have hxs : xs.all (fun x => x.2.all (fun c => !isNl c)) = true := by
      simp only [List.all_cons, Bool.and_eq_true] at h; exact h.2
    cases xs with
    | nil => simpa [csvWriteRow] using csvWriteField_noNl delim x hx
    | cons y ys =>
      intro c hc
      simp only [csvWriteRow, List.mem_append, List.mem_cons] at hc
      rcases hc with hc | hc | hc
      · exact csvWriteField_noNl delim x hx c hc
      · subst hc; exact hd2
      · exact ih hxs c hc

theorem csvRowOk_parts (row : List (Bool × Text)) (h : csvRowOk row = true) :
    row ≠ [] ∧ row.all (fun x => x.2.all (fun c => !isNl c)) = true := by
  unfold csvRowOk at h
  simp only [Bool.and_eq_true, decide_eq_true_eq] at h
  exact ⟨h.1.1, h.1.2⟩

theorem csv_lines_clean (rows : List (List (Bool × Text))) (hok : ∀ r ∈ rows, csvRowOk r = true)
    (hd2 : isNl delim = false) :
    ((rows.map (csvWriteRow delim)).map rstripNl).filter (· ≠ []) = rows.map (csvWriteRow delim) := by
  induction rows with
  | nil => rfl
  | cons r rs ih =>
    have hr := hok r (by simp)
    obtain ⟨c, t, he, _⟩ := csvWriteRow_head delim r hr hd2
    have hnn := csvWriteRow_noNl delim r (csvRowOk_parts r hr).2 hd2
    have hid : rstripNl (csvWriteRow delim r) = csvWriteRow delim r :=
      rstripNl_id _ (fun c hc => hnn c (List.mem_of_getLast? hc))
    simp only [List.map_cons, hid]
    rw [List.filter_cons_of_pos (by simp [he])]
    rw [ih (fun r' hr' => hok r' (by simp [hr']))]

/-- CsvReader (repaired) on the output of an RFC 4180 writer -/
theorem csv_roundtrip' (hasHeader : Bool) (rows : List (List (Bool × Text)))
    (hok : ∀ r ∈ rows, csvRowOk r = true) (hd1 : delim ≠ DQ) (hd2 : isNl delim = false) :
    csvReaderFix (excel delim) hasHeader (rows.map (csvWriteRow delim)) =
      match rows.map (·.map (·.2)) with
      | [] => .ok (none, [])
      | first :: rest => if hasHeader then .ok (some first, rest) else .ok (none, first :: rest) := by
  unfold csvReaderFix
  rw [csv_lines_clean delim rows hok hd2, csvRecords_rows delim rows hok hd1 hd2]
  cases rows.map (·.map (·.2)) <;> rfl

/-- CsvReader as written: additionally no written line may begin or end with white space
(`str.strip`); without any record `next` raises StopIteration -/
theorem csv_roundtrip_cur' (hasHeader : Bool) (rows : List (List (Bool × Text)))
    (hok : ∀ r ∈ rows, csvRowOk r = true) (hd1 : delim ≠ DQ) (hd2 : isNl delim = false)
    (hedge : ∀ r ∈ rows, strip (csvWriteRow delim r) = csvWriteRow delim r) :
    csvReaderCur (excel delim) hasHeader (rows.map (csvWriteRow delim)) =
      match rows.map (·.map (·.2)) with
      | [] => .error .stopIteration
      | first :: rest => if hasHeader then .ok (some first, rest) else .ok (none, first :: rest) := by
  unfold csvReaderCur
  have h1 : (rows.map (csvWriteRow delim)).map strip = rows.map (csvWriteRow delim) := by
    rw [List.map_map]
    exact List.map_congr_left (fun r hr => by simp [hedge r hr])
  have h2 : (rows.map (csvWriteRow delim)).filter (· ≠ []) = rows.map (csvWriteRow delim) := by
    rw [List.filter_eq_self]
    intro l hl
    simp only [List.mem_map] at hl
    obtain ⟨r, hr, rfl⟩ := hl
    obtain ⟨c, t, he, _⟩ := csvWriteRow_head delim r (hok r hr) hd2
    simp [he]
  rw [h1, h2, csvRecords_rows delim rows hok hd1 hd2]
  cases rows.map (·.map (·.2)) <;> rfl

end csv

/-! ### LibSVM -/

theorem splitOnGo_tok (sep : Nat) (cur tok rest : Text) (h : ∀ c ∈ tok, c ≠ sep) :
    splitOnGo sep cur (tok ++ rest) = splitOnGo sep (cur ++ tok) rest := by
  induction tok generalizing cur with
  | nil => simp
  | cons c tok ih =>
    have hc := h c (by simp)
    simp only [List.cons_append, splitOnGo, hc, if_false]
    rw [ih (cur ++ [c]) (fun d hd => h d (by simp [hd]))]
    simp

theorem splitOnGo_join (sep : Nat) (cur : Text) (x : Text) (xs : List Text)
    (h : ∀ t ∈ x :: xs, ∀ c ∈ t, c ≠ sep) :
    splitOnGo sep cur (joinWith sep (x :: xs)) = (cur ++ x) :: xs := by
  induction xs generalizing cur x with
  | nil =>
    have := splitOnGo_tok sep cur x [] (h x (by simp))
    simp only [List.append_nil] at this
    simp [joinWith, this, splitOnGo]
  | cons y ys ih =>
    simp only [joinWith]
    rw [splitOnGo_tok sep cur x _ (h x (by simp))]
    simp only [splitOnGo, if_true]
    rw [ih [] y (fun t ht => h t (by simp at ht ⊢; right; exact ht))]
    simp

theorem splitOn_join (sep : Nat) (toks : List Text) (hne : toks ≠ []) (h : ∀ t ∈ toks, ∀ c ∈ t, c ≠ sep) :
    splitOn sep (joinWith sep toks) = toks := by
  cases toks with
  | nil => exact absurd rfl hne
  | cons x xs => simpa [splitOn] using splitOnGo_join sep [] x xs h

def svmItem (kv : Text × Text) : Text := kv.1 ++ COLON :: kv.2

theorem svmWrite_eq_join (a : Text) (fs : List (Text × Text)) :
    a ++ svmWriteFeats fs = joinWith SP (a :: fs.map svmItem) := by
  induction fs generalizing a with
  | nil => simp [svmWriteFeats, joinWith]
  | cons kv fs ih =>
    obtain ⟨k, v⟩ := kv
    simp only [svmWriteFeats, List.map_cons, joinWith]
    have := ih (k ++ COLON :: v)
    simp only [svmItem] at this ⊢
    rw [← this]
    simp

theorem svmFeats_items (fs : List (Text × Text))
    (h : ∀ kv ∈ fs, (∀ c ∈ kv.1, c ≠ COLON) ∧ (∀ c ∈ kv.2, c ≠ COLON)) :
    svmFeats (fs.map svmItem) = .ok fs := by
  induction fs with
  | nil => rfl
  | cons kv fs ih =>
    obtain ⟨k, v⟩ := kv
    have hk := h (k, v) (by simp)
    have : splitOn COLON (svmItem (k, v)) = [k, v] := by
      have := splitOn_join COLON [k, v] (by simp) (by
        intro t ht c hc
        simp only [List.mem_cons, List.not_mem_nil, or_false] at ht
        rcases ht with rfl | rfl
        · exact hk.1 c hc
        · exact hk.2 c hc)
      simpa [joinWith, svmItem] using this
    simp only [List.map_cons, svmFeats, this]
    rw [ih (fun kv hkv => h kv (by simp [hkv]))]

theorem tokenOk_mem (bad : List Nat) (t : Text) (h : tokenOk bad t = true) :
    ∀ c ∈ t, isPySpace c = false ∧ c ∉ bad := by
  intro c hc
  have := List.all_eq_true.mp h c hc
  simpa using this

theorem isPySpace_SP : isPySpace SP = true := by decide
theorem isPySpace_COLON : isPySpace COLON = false := by decide
theorem isPySpace_COMMA : isPySpace COMMA = false := by decide

theorem joinWith_mem (sep : Nat) (toks : List Text) (c : Nat) (h : c ∈ joinWith sep toks) :
    c = sep ∨ ∃ t ∈ toks, c ∈ t := by
  induction toks with
  | nil => simp [joinWith] at h
  | cons x xs ih =>
    cases xs with
    | nil => right; exact ⟨x, by simp, by simpa [joinWith] using h⟩
    | cons y ys =>
      simp only [joinWith, List.mem_append, List.mem_cons] at h
      rcases h with h | h | h
      · right; exact ⟨x, by simp, h⟩
      · left; exact h
      · rcases ih h with h' | ⟨t, ht, hc⟩
        · left; exact h'
        · right; exact ⟨t, by simp at ht ⊢; right; exact ht, hc⟩

/-- the last character of a written line is not white space -/
theorem svm_last (a : Text) (fs : List (Text × Text))
    (ha : ∀ c, a.getLast? = some c → isPySpace c = false)
    (h : ∀ kv ∈ fs, ∀ c ∈ kv.2, isPySpace c = false) :
    ∀ c, (a ++ svmWriteFeats fs).getLast? = some c → isPySpace c = false := by
  induction fs generalizing a with
  | nil => simpa [svmWriteFeats] using ha
  | cons kv fs ih =>
    obtain ⟨k, v⟩ := kv
    have e : a ++ svmWriteFeats ((k, v) :: fs) = (a ++ SP :: (k ++ COLON :: v)) ++ svmWriteFeats fs := by
      simp [svmWriteFeats]
    rw [e]
    apply ih
    · intro c hc
      have e2 : a ++ SP :: (k ++ COLON :: v) = (a ++ SP :: k) ++ (COLON :: v) := by simp
      rw [e2, List.getLast?_append] at hc
      cases v with
      | nil =>
        simp at hc; subst hc; exact isPySpace_COLON
      | cons d v' =>
        have hv : ((COLON :: d :: v').getLast?) = (d :: v').getLast? := List.getLast?_cons_cons
        rw [hv] at hc
        cases hl : (d :: v').getLast? with
        | none => simp at hl
        | some z =>
          rw [hl] at hc
          simp at hc
          subst hc
          exact h (k, d :: v') (by simp) z (List.mem_of_getLast? hl)
    · intro kv hkv; exact h kv (by simp [hkv])

theorem svmLine_write (r : SvmRow) (hok : svmRowOk r = true) : svmLine (svmWriteRow r) = .ok (some r) := by
  unfold svmRowOk at hok
  simp only [Bool.and_eq_true, decide_eq_true_eq] at hok
  obtain ⟨⟨⟨hl1, hl2⟩, hlab⟩, hfe⟩ := hok
  have hlabc : ∀ t ∈ r.labels, ∀ c ∈ t, isPySpace c = false ∧ c ≠ COMMA ∧ c ≠ COLON := by
    intro t ht c hc
    have := tokenOk_mem _ t (List.all_eq_true.mp hlab t ht) c hc
    simp only [List.mem_cons, List.not_mem_nil, or_false, not_or] at this
    exact ⟨this.1, this.2.1, this.2.2⟩
  have hfec : ∀ kv ∈ r.feats, (∀ c ∈ kv.1, isPySpace c = false ∧ c ≠ COLON) ∧ (∀ c ∈ kv.2, isPySpace c = false ∧ c ≠ COLON) := by
    intro kv hkv
    have := List.all_eq_true.mp hfe kv hkv
    simp only [Bool.and_eq_true] at this
    constructor
    · intro c hc
      have := tokenOk_mem _ _ this.1 c hc
      simpa using this
    · intro c hc
      have := tokenOk_mem _ _ this.2 c hc
      simpa using this
  -- the label group
  have hlabmem : ∀ c ∈ joinWith COMMA r.labels, isPySpace c = false ∧ c ≠ COLON := by
    intro c hc
    rcases joinWith_mem _ _ _ hc with h | ⟨t, ht, hc'⟩
    · subst h; exact ⟨isPySpace_COMMA, by decide⟩
    · exact ⟨(hlabc t ht c hc').1, (hlabc t ht c hc').2.2⟩
  have hsp : ∀ c, isPySpace c = false → c ≠ SP := by
    intro c hc heq; subst heq; simp [isPySpace_SP] at hc
  -- strip is the identity
  have hstrip : strip (svmWriteRow r) = svmWriteRow r := by
    apply strip_id
    · intro c hc
      unfold svmWriteRow at hc
      cases hj : joinWith COMMA r.labels with
      | nil => exact absurd hj hl2
      | cons a t =>
        rw [hj] at hc
        simp at hc; subst hc
        exact (hlabmem a (by rw [hj]; simp)).1
    · unfold svmWriteRow
      apply svm_last
      · intro c hc; exact (hlabmem c (List.mem_of_getLast? hc)).1
      · intro kv hkv c hc; exact ((hfec kv hkv).2 c hc).1
  unfold svmLine
  rw [hstrip]
  unfold svmWriteRow
  rw [svmWrite_eq_join, splitOn_join SP _ (by simp) (by
    intro t ht c hc
    simp only [List.mem_cons, List.mem_map] at ht
    rcases ht with rfl | ⟨kv, hkv, rfl⟩
    · exact hsp c (hlabmem c hc).1
    · simp only [svmItem, List.mem_append, List.mem_cons] at hc
      rcases hc with hc | hc | hc
      · exact hsp c ((hfec kv hkv).1 c hc).1
      · subst hc; decide
      · exact hsp c ((hfec kv hkv).2 c hc).1)]
  have hcol : ¬ (joinWith COMMA r.labels = [] ∨ COLON ∈ joinWith COMMA r.labels) := by
    intro h
    rcases h with h | h
    · exact hl2 h
    · exact (hlabmem COLON h).2 rfl
  simp only [hcol, if_false]
  rw [svmFeats_items r.feats (fun kv hkv => ⟨fun c hc => ((hfec kv hkv).1 c hc).2, fun c hc => ((hfec kv hkv).2 c hc).2⟩)]
  simp only
  rw [splitOn_join COMMA r.labels hl1 (fun t ht c hc => (hlabc t ht c hc).2.1)]

theorem svmWriteRow_ne (r : SvmRow) (hok : svmRowOk r = true) : svmWriteRow r ≠ [] := by
  unfold svmRowOk at hok
  simp only [Bool.and_eq_true, decide_eq_true_eq] at hok
  intro h
  unfold svmWriteRow at h
  simp at h
  exact hok.1.1.2 h.1

theorem libsvm_roundtrip' (rows : List SvmRow) (hok : ∀ r ∈ rows, svmRowOk r = true) :
    libsvmRead (rows.map svmWriteRow) = .ok rows := by
  induction rows with
  | nil => rfl
  | cons r rs ih =>
    simp only [List.map_cons, libsvmRead, svmWriteRow_ne r (hok r (by simp)), if_false,
      svmLine_write r (hok r (by simp)), ih (fun r' hr' => hok r' (by simp [hr']))]

theorem manik_roundtrip' (first : Text) (rows : List SvmRow) (hok : ∀ r ∈ rows, svmRowOk r = true) :
    manikRead (first :: rows.map svmWriteRow) = .ok rows := by
  simp [manikRead, libsvm_roundtrip' rows hok]



/-! ## C.3 ARFF dense data lines -/


section arff
variable (qc : Option Nat)

/-- the effective quote character is one of the two quote characters -/
def QeOk (qc : Option Nat) : Prop := qc.getD DQ = SQ ∨ qc.getD DQ = DQ

theorem arff_sf_space (fs : List Text) (h : QeOk qc) :
    csvChar (arffDialect COMMA qc) ⟨.startField, [], fs⟩ (some 32) = .ok ⟨.startField, [], fs⟩ := by
  have h1 : ¬ (qc.getD DQ = 32) := by rcases h with h | h <;> rw [h] <;> decide
  have h2 : isNl 32 = false := by decide
  simp [csvChar, csvStartField, arffDialect, h1, h2, goto, BS]

theorem arff_sf_quote (fs : List Text) (h : QeOk qc) :
    csvChar (arffDialect COMMA qc) ⟨.startField, [], fs⟩ (some (qc.getD DQ)) = .ok ⟨.inQuoted, [], fs⟩ := by
  have h2 : isNl (qc.getD DQ) = false := by rcases h with h | h <;> rw [h] <;> decide
  simp [csvChar, csvStartField, arffDialect, h2, goto]

theorem arff_sf_bare (fs : List Text) (c : Nat) (h : QeOk qc) (h1 : isNl c = false) (h2 : c ≠ COMMA) (h3 : c ≠ SQ)
    (h4 : c ≠ DQ) (h5 : c ≠ BS) (h6 : c ≠ 32) :
    csvChar (arffDialect COMMA qc) ⟨.startField, [], fs⟩ (some c) = .ok ⟨.inField, [c], fs⟩ := by
  have hq : ¬ (qc.getD DQ = c) := by rcases h with h | h <;> rw [h] <;> intro e <;> simp_all
  have hb : ¬ (BS = c) := fun e => h5 e.symm
  simp [csvChar, csvStartField, arffDialect, h1, hq, hb, h6, h2, addChar]

theorem arff_sf_delim (fs : List Text) (h : QeOk qc) :
    csvChar (arffDialect COMMA qc) ⟨.startField, [], fs⟩ (some COMMA) = .ok ⟨.startField, [], fs ++ [[]]⟩ := by
  have hq : ¬ (qc.getD DQ = COMMA) := by rcases h with h | h <;> rw [h] <;> decide
  have h2 : isNl COMMA = false := by decide
  have h3 : ¬ (BS = COMMA) := by decide
  have h4 : ¬ (COMMA = 32) := by decide
  simp [csvChar, csvStartField, arffDialect, h2, hq, h3, h4, saveField]

theorem arff_sf_eol (fs : List Text) :
    csvChar (arffDialect COMMA qc) ⟨.startField, [], fs⟩ none = .ok ⟨.startRecord, [], fs ++ [[]]⟩ := by
  simp [csvChar, csvStartField, saveField]

theorem arff_if_char (acc : Text) (fs : List Text) (c : Nat) (h1 : isNl c = false) (h2 : c ≠ COMMA) (h5 : c ≠ BS) :
    csvChar (arffDialect COMMA qc) ⟨.inField, acc, fs⟩ (some c) = .ok ⟨.inField, acc ++ [c], fs⟩ := by
  have hb : ¬ (BS = c) := fun e => h5 e.symm
  simp [csvChar, csvInField, arffDialect, h1, hb, h2, addChar]

theorem arff_if_delim (acc : Text) (fs : List Text) :
    csvChar (arffDialect COMMA qc) ⟨.inField, acc, fs⟩ (some COMMA) = .ok ⟨.startField, [], fs ++ [acc]⟩ := by
  have h2 : isNl COMMA = false := by decide
  have h3 : ¬ (BS = COMMA) := by decide
  simp [csvChar, csvInField, arffDialect, h2, h3, saveField]

theorem arff_if_eol (acc : Text) (fs : List Text) :
    csvChar (arffDialect COMMA qc) ⟨.inField, acc, fs⟩ none = .ok ⟨.startRecord, [], fs ++ [acc]⟩ := by
  simp [csvChar, csvInField, saveField]

theorem arff_iq_esc (acc : Text) (fs : List Text) :
    csvChar (arffDialect COMMA qc) ⟨.inQuoted, acc, fs⟩ (some BS) = .ok ⟨.escInQuoted, acc, fs⟩ := by
  simp [csvChar, arffDialect, goto]

theorem arff_eq_any (acc : Text) (fs : List Text) (c : Nat) :
    csvChar (arffDialect COMMA qc) ⟨.escInQuoted, acc, fs⟩ (some c) = .ok ⟨.inQuoted, acc ++ [c], fs⟩ := by
  simp [csvChar, addChar]

theorem arff_iq_quote (acc : Text) (fs : List Text) (h : QeOk qc) :
    csvChar (arffDialect COMMA qc) ⟨.inQuoted, acc, fs⟩ (some (qc.getD DQ)) = .ok ⟨.inField, acc, fs⟩ := by
  have hb : ¬ (BS = qc.getD DQ) := by rcases h with h | h <;> rw [h] <;> decide
  simp [csvChar, arffDialect, hb, goto]

theorem arff_iq_char (acc : Text) (fs : List Text) (c : Nat) (h1 : c ≠ qc.getD DQ) (h2 : c ≠ BS) :
    csvChar (arffDialect COMMA qc) ⟨.inQuoted, acc, fs⟩ (some c) = .ok ⟨.inQuoted, acc ++ [c], fs⟩ := by
  have hb : ¬ (BS = c) := fun e => h2 e.symm
  have hq : ¬ (qc.getD DQ = c) := fun e => h1 e.symm
  simp [csvChar, arffDialect, hb, hq, addChar]

theorem arffFeed_spaces (fs : List Text) (k : Nat) (rest : Text) (h : QeOk qc) :
    csvFeed (arffDialect COMMA qc) ⟨.startField, [], fs⟩ (List.replicate k 32 ++ rest) =
      csvFeed (arffDialect COMMA qc) ⟨.startField, [], fs⟩ rest := by
  induction k with
  | zero => simp
  | succ k ih => simp only [List.replicate_succ, List.cons_append, csvFeed, arff_sf_space qc fs h]; exact ih

theorem arffFeed_quoted (also : Nat → Bool) (v acc : Text) (fs : List Text) (rest : Text) :
    csvFeed (arffDialect COMMA qc) ⟨.inQuoted, acc, fs⟩ (arffEscape (qc.getD DQ) also v ++ rest) =
      csvFeed (arffDialect COMMA qc) ⟨.inQuoted, acc ++ v, fs⟩ rest := by
  induction v generalizing acc with
  | nil => simp [arffEscape]
  | cons c v ih =>
    by_cases hc : c = qc.getD DQ ∨ c = BS ∨ also c = true
    · simp only [arffEscape, hc, if_true, List.cons_append, csvFeed, arff_iq_esc, arff_eq_any]
      rw [ih]; simp
    · have hc' := hc
      simp only [not_or] at hc'
      simp only [arffEscape, hc, if_false, List.cons_append, csvFeed, arff_iq_char qc acc fs c hc'.1 hc'.2.1]
      rw [ih]; simp

theorem arffFeed_bare (f acc : Text) (fs : List Text) (rest : Text)
    (h : ∀ c ∈ f, isNl c = false ∧ c ≠ COMMA ∧ c ≠ BS) :
    csvFeed (arffDialect COMMA qc) ⟨.inField, acc, fs⟩ (f ++ rest) = csvFeed (arffDialect COMMA qc) ⟨.inField, acc ++ f, fs⟩ rest := by
  induction f generalizing acc with
  | nil => simp
  | cons c f ih =>
    have hc := h c (by simp)
    simp only [List.cons_append, csvFeed, arff_if_char qc acc fs c hc.1 hc.2.1 hc.2.2]
    rw [ih (acc ++ [c]) (fun d hd => h d (by simp [hd]))]
    simp

theorem bareOk_mem (v : Text) (h : bareOk v = true) :
    (∀ c ∈ v, isNl c = false ∧ c ≠ COMMA ∧ c ≠ SQ ∧ c ≠ DQ ∧ c ≠ BS) ∧ (∀ c t, v = c :: t → c ≠ 32) := by
  unfold bareOk at h
  simp only [Bool.and_eq_true] at h
  constructor
  · intro c hc
    have := List.all_eq_true.mp h.1 c hc
    simp only [Bool.not_eq_true', Bool.or_eq_false_iff, beq_eq_false_iff_ne] at this
    exact ⟨this.2, this.1.1.1.1, this.1.1.1.2, this.1.1.2, this.1.2⟩
  · intro c t hv
    subst hv
    simpa using h.2

/-- a token is written quoted -/
def tokQuoted (x : Bool × Text) : Bool := x.1 || !bareOk x.2

/-- a written token followed by `,` and blanks -/
theorem arffFeed_tok_delim (also : Nat → Bool) (x : Bool × Text) (fs : List Text) (pad : Nat) (rest : Text)
    (h : QeOk qc) :
    csvFeed (arffDialect COMMA qc) ⟨.startField, [], fs⟩
        (arffWriteTok (qc.getD DQ) also x ++ COMMA :: (List.replicate pad 32 ++ rest)) =
      csvFeed (arffDialect COMMA qc) ⟨.startField, [], fs ++ [x.2]⟩ rest := by
  unfold arffWriteTok
  by_cases hq : (x.1 || !bareOk x.2) = true
  · simp only [hq, if_true, List.cons_append, List.append_assoc, csvFeed, arff_sf_quote qc fs h]
    rw [arffFeed_quoted]
    simp only [List.nil_append, List.cons_append, csvFeed, arff_iq_quote qc _ _ h, arff_if_delim]
    exact arffFeed_spaces qc _ pad rest h
  · have hq' : (x.1 || !bareOk x.2) = false := by simpa using hq
    have hb : bareOk x.2 = true := by
      cases hx : x.1 <;> simp_all
    obtain ⟨hall, hfirst⟩ := bareOk_mem x.2 hb
    simp only [hq', Bool.false_eq_true, if_false]
    cases hf : x.2 with
    | nil =>
      simp only [List.nil_append, csvFeed, arff_sf_delim qc fs h]
      exact arffFeed_spaces qc _ pad rest h
    | cons c f =>
      rw [hf] at hall
      have hc := hall c (by simp)
      simp only [List.cons_append, csvFeed,
        arff_sf_bare qc fs c h hc.1 hc.2.1 hc.2.2.1 hc.2.2.2.1 hc.2.2.2.2 (hfirst c f hf)]
      rw [arffFeed_bare qc f [c] fs _ (fun d hd => ⟨(hall d (by simp [hd])).1, (hall d (by simp [hd])).2.1, (hall d (by simp [hd])).2.2.2.2⟩)]
      simp only [List.singleton_append, csvFeed, arff_if_delim]
      exact arffFeed_spaces qc _ pad rest h

/-- a written token at the end of the line -/
theorem arffLine_tok (also : Nat → Bool) (x : Bool × Text) (fs : List Text) (h : QeOk qc) :
    csvLine (arffDialect COMMA qc) ⟨.startField, [], fs⟩ (arffWriteTok (qc.getD DQ) also x) =
      .ok ⟨.startRecord, [], fs ++ [x.2]⟩ := by
  unfold arffWriteTok csvLine
  by_cases hq : (x.1 || !bareOk x.2) = true
  · simp only [hq, if_true, csvFeed, arff_sf_quote qc fs h]
    rw [arffFeed_quoted]
    simp only [List.nil_append, csvFeed, arff_iq_quote qc _ _ h, arff_if_eol]
  · have hq' : (x.1 || !bareOk x.2) = false := by simpa using hq
    have hb : bareOk x.2 = true := by
      cases hx : x.1 <;> simp_all
    obtain ⟨hall, hfirst⟩ := bareOk_mem x.2 hb
    simp only [hq', Bool.false_eq_true, if_false]
    cases hf : x.2 with
    | nil => simp only [csvFeed, arff_sf_eol]
    | cons c f =>
      rw [hf] at hall
      have hc := hall c (by simp)
      simp only [csvFeed, arff_sf_bare qc fs c h hc.1 hc.2.1 hc.2.2.1 hc.2.2.2.1 hc.2.2.2.2 (hfirst c f hf)]
      have := arffFeed_bare qc f [c] fs [] (fun d hd => ⟨(hall d (by simp [hd])).1, (hall d (by simp [hd])).2.1, (hall d (by simp [hd])).2.2.2.2⟩)
      simp only [List.append_nil] at this
      rw [this]
      simp only [List.singleton_append, csvFeed, arff_if_eol]

/-- a written row from START_FIELD, when its quoted tokens use the reader's effective quote character -/
theorem arffLine_row (also : Nat → Bool) (pad : Nat) (row : List (Bool × Text)) (fs : List Text) (hne : row ≠ [])
    (h : QeOk qc) :
    csvLine (arffDialect COMMA qc) ⟨.startField, [], fs⟩ (arffWriteRow (qc.getD DQ) also pad row) =
      .ok ⟨.startRecord, [], fs ++ row.map (·.2)⟩ := by
  induction row generalizing fs with
  | nil => exact absurd rfl hne
  | cons x xs ih =>
    cases xs with
    | nil => simp [arffWriteRow, arffLine_tok qc also x fs h]
    | cons y ys =>
      have := ih (fs ++ [x.2]) (by simp)
      simp only [arffWriteRow, csvLine] at this ⊢
      rw [arffFeed_tok_delim qc also x fs pad _ h, this]
      simp

end arff




def otherQ (q : Nat) : Nat := if q = SQ then DQ else SQ

theorem arffEscape_mem (q : Nat) (also : Nat → Bool) (v : Text) (c : Nat) (h : c ∈ arffEscape q also v) : c = BS ∨ c ∈ v := by
  induction v with
  | nil => simp [arffEscape] at h
  | cons a v ih =>
    simp only [arffEscape] at h
    split at h
    · simp only [List.mem_cons] at h
      rcases h with h | h | h
      · left; exact h
      · right; simp [h]
      · rcases ih h with h | h
        · left; exact h
        · right; simp [h]
    · simp only [List.mem_cons] at h
      rcases h with h | h
      · right; simp [h]
      · rcases ih h with h | h
        · left; exact h
        · right; simp [h]

theorem arffWriteTok_mem (q : Nat) (also : Nat → Bool) (x : Bool × Text) (c : Nat) (h : c ∈ arffWriteTok q also x) :
    (c = q ∧ tokQuoted x = true) ∨ c = BS ∨ c ∈ x.2 := by
  unfold arffWriteTok at h
  split at h
  · rename_i hq
    simp only [List.mem_cons, List.mem_append, List.not_mem_nil, or_false] at h
    rcases h with h | h | h
    · left; exact ⟨h, hq⟩
    · rcases arffEscape_mem _ _ _ _ h with h | h
      · right; left; exact h
      · right; right; exact h
    · left; exact ⟨h, hq⟩
  · right; right; exact h

theorem arffWriteRow_mem (q : Nat) (also : Nat → Bool) (pad : Nat) (row : List (Bool × Text)) (c : Nat)
    (h : c ∈ arffWriteRow q also pad row) :
    c = COMMA ∨ c = 32 ∨ c = BS ∨ (c = q ∧ ∃ x ∈ row, tokQuoted x = true) ∨ ∃ x ∈ row, c ∈ x.2 := by
  induction row with
  | nil => simp [arffWriteRow] at h
  | cons x xs ih =>
    have tok : c ∈ arffWriteTok q also x → c = COMMA ∨ c = 32 ∨ c = BS ∨ (c = q ∧ ∃ y ∈ x :: xs, tokQuoted y = true) ∨ ∃ y ∈ x :: xs, c ∈ y.2 := by
      intro h
      rcases arffWriteTok_mem q also x c h with h | h | h
      · right; right; right; left; exact ⟨h.1, x, by simp, h.2⟩
      · right; right; left; exact h
      · right; right; right; right; exact ⟨x, by simp, h⟩
    cases xs with
    | nil => exact tok (by simpa [arffWriteRow] using h)
    | cons y ys =>
      simp only [arffWriteRow, List.mem_append, List.mem_cons, List.mem_replicate] at h
      rcases h with h | h | h | h
      · exact tok h
      · left; exact h
      · right; left; exact h.2
      · rcases ih h with h | h | h | h | h
        · left; exact h
        · right; left; exact h
        · right; right; left; exact h
        · right; right; right; left
          obtain ⟨hq, z, hz, hz2⟩ := h
          exact ⟨hq, z, by simp at hz ⊢; right; exact hz, hz2⟩
        · right; right; right; right
          obtain ⟨z, hz, hz2⟩ := h
          exact ⟨z, by simp at hz ⊢; right; exact hz, hz2⟩

theorem arffWriteTok_sub (q : Nat) (also : Nat → Bool) (pad : Nat) (row : List (Bool × Text)) (x : Bool × Text)
    (hx : x ∈ row) : ∀ c ∈ arffWriteTok q also x, c ∈ arffWriteRow q also pad row := by
  induction row with
  | nil => simp at hx
  | cons y ys ih =>
    intro c hc
    cases ys with
    | nil =>
      simp only [List.mem_singleton] at hx
      subst hx; simpa [arffWriteRow] using hc
    | cons z zs =>
      simp only [List.mem_cons] at hx
      simp only [arffWriteRow, List.mem_append, List.mem_cons]
      rcases hx with hx | hx
      · subst hx; left; exact hc
      · right; right; right
        exact ih (by simpa using hx) c hc

section
variable (q : Nat) (hq : q = SQ ∨ q = DQ)

theorem rowOk_parts (row : List (Bool × Text)) (h : arffRowOk q row = true) :
    row ≠ [] ∧ (∀ x ∈ row, ∀ c ∈ x.2, isNl c = false ∧ ((c = SQ ∨ c = DQ) → c = q)) ∧
    (∀ x, row = [x] → x.2 ≠ [] ∨ x.1 = true) := by
  unfold arffRowOk at h
  simp only [Bool.and_eq_true, decide_eq_true_eq] at h
  refine ⟨h.1.1, ?_, ?_⟩
  · intro x hx c hc
    have := List.all_eq_true.mp (List.all_eq_true.mp h.1.2 x hx) c hc
    simp only [Bool.and_eq_true, ne_eq, Bool.and_eq_false_iff,
      Bool.or_eq_false_iff, beq_eq_false_iff_ne, Bool.not_eq_eq_eq_not, Bool.not_true, bne_eq_false_iff_eq] at this
    refine ⟨this.1, ?_⟩
    intro hc2
    rcases this.2 with h' | h'
    · rcases hc2 with h2 | h2
      · exact absurd h2 h'.1
      · exact absurd h2 h'.2
    · exact h'
  · intro x hr
    subst hr
    simpa using h.2

/-- the file's quote character is in a written line exactly when some value was written quoted;
the other quote character never is -/
theorem line_quotes (also : Nat → Bool) (pad : Nat) (row : List (Bool × Text)) (hq : q = SQ ∨ q = DQ)
    (h : arffRowOk q row = true) :
    ((arffWriteRow q also pad row).contains q = row.any tokQuoted) ∧
    (arffWriteRow q also pad row).contains (otherQ q) = false := by
  obtain ⟨_, hvals, _⟩ := rowOk_parts q row h
  have hqne : q ≠ COMMA ∧ q ≠ 32 ∧ q ≠ BS := by rcases hq with h | h <;> subst h <;> decide
  have hone : otherQ q ≠ COMMA ∧ otherQ q ≠ 32 ∧ otherQ q ≠ BS ∧ otherQ q ≠ q ∧ (otherQ q = SQ ∨ otherQ q = DQ) := by
    rcases hq with h | h <;> subst h <;> decide
  constructor
  · apply Bool.eq_iff_iff.mpr
    simp only [List.contains_iff_mem, List.any_eq_true]
    constructor
    · intro hm
      rcases arffWriteRow_mem q also pad row q hm with h | h | h | h | h
      · exact absurd h hqne.1
      · exact absurd h hqne.2.1
      · exact absurd h hqne.2.2
      · exact h.2
      · obtain ⟨x, hx, hc⟩ := h
        refine ⟨x, hx, ?_⟩
        unfold tokQuoted
        have hb : bareOk x.2 = false := by
          cases hbb : bareOk x.2 with
          | false => rfl
          | true =>
            have := (bareOk_mem x.2 hbb).1 q hc
            rcases hq with h | h
            · exact absurd h this.2.2.1
            · exact absurd h this.2.2.2.1
        simp [hb]
    · intro ⟨x, hx, hxq⟩
      apply arffWriteTok_sub q also pad row x hx
      unfold arffWriteTok
      unfold tokQuoted at hxq
      simp [hxq]
  · cases hcont : (arffWriteRow q also pad row).contains (otherQ q) with
    | false => rfl
    | true =>
      exfalso
      simp only [List.contains_iff_mem] at hcont
      rcases arffWriteRow_mem q also pad row _ hcont with h | h | h | h | h
      · exact hone.1 h
      · exact hone.2.1 h
      · exact hone.2.2.1 h
      · exact hone.2.2.2.1 h.1
      · obtain ⟨x, hx, hc⟩ := h
        exact hone.2.2.2.1 ((hvals x hx _ hc).2 hone.2.2.2.2)
end

theorem arffWriteRow_unquoted (q q' : Nat) (also : Nat → Bool) (pad : Nat) (row : List (Bool × Text))
    (h : row.any tokQuoted = false) : arffWriteRow q also pad row = arffWriteRow q' also pad row := by
  induction row with
  | nil => rfl
  | cons x xs ih =>
    simp only [List.any_cons, Bool.or_eq_false_iff] at h
    have hx : arffWriteTok q also x = arffWriteTok q' also x := by
      unfold arffWriteTok
      have := h.1
      unfold tokQuoted at this
      simp [this]
    cases xs with
    | nil => simp [arffWriteRow, hx]
    | cons y ys =>
      simp only [arffWriteRow, hx]
      rw [ih (by simpa using h.2)]

/-- the bookkeeping of `_dense_simple` on a written line: the quote character becomes the file's
one as soon as a quoted value is seen -/
theorem simpleQuote_written (q : Nat) (hq : q = SQ ∨ q = DQ) (qc : Option Nat) (hqc : qc = none ∨ qc = some q)
    (line : Text) (hasQ : Bool) (h1 : line.contains q = hasQ) (h2 : line.contains (otherQ q) = false) :
    simpleQuote qc line = some (if hasQ then some q else qc) := by
  unfold simpleQuote
  rcases hq with h | h <;> subst h
  · have e : otherQ SQ = DQ := by decide
    rw [e] at h2
    simp only [h1, h2]
    rcases hqc with h | h <;> subst h <;> cases hasQ <;> decide
  · have e : otherQ DQ = SQ := by decide
    rw [e] at h2
    simp only [h1, h2]
    rcases hqc with h | h <;> subst h <;> cases hasQ <;> decide





theorem arffWriteRow_head (q : Nat) (hq : q = SQ ∨ q = DQ) (also : Nat → Bool) (pad : Nat) (row : List (Bool × Text))
    (h : arffRowOk q row = true) : ∃ c t, arffWriteRow q also pad row = c :: t ∧ isNl c = false := by
  obtain ⟨hne, hvals, hlone⟩ := rowOk_parts q row h
  have hnl : ∀ c ∈ arffWriteRow q also pad row, isNl c = false := by
    intro c hc
    rcases arffWriteRow_mem q also pad row c hc with h | h | h | h | h
    · subst h; decide
    · subst h; decide
    · subst h; decide
    · rw [h.1]; rcases hq with h' | h' <;> subst h' <;> decide
    · obtain ⟨x, hx, hcx⟩ := h
      exact (hvals x hx c hcx).1
  have hnonempty : arffWriteRow q also pad row ≠ [] := by
    cases row with
    | nil => exact absurd rfl hne
    | cons x xs =>
      cases xs with
      | nil =>
        simp only [arffWriteRow]
        unfold arffWriteTok
        split
        · simp
        · rename_i hnq
          rcases hlone x rfl with h' | h'
          · exact h'
          · simp [h'] at hnq
      | cons y ys => simp [arffWriteRow]
  cases hl : arffWriteRow q also pad row with
  | nil => exact absurd hl hnonempty
  | cons c t => exact ⟨c, t, rfl, hnl c (by rw [hl]; simp)⟩

/-- `csv.reader([line], **dialect)` on a written line, for every reader state the file can produce -/
theorem csvFirst_written (q : Nat) (hq : q = SQ ∨ q = DQ) (also : Nat → Bool) (pad : Nat) (row : List (Bool × Text))
    (h : arffRowOk q row = true) (qc : Option Nat) (hqc : qc = none ∨ qc = some q)
    (hquoted : row.any tokQuoted = true → qc = some q) :
    csvFirst (arffDialect COMMA qc) (arffWriteRow q also pad row) = .ok (row.map (·.2)) := by
  have hqe : QeOk qc := by
    unfold QeOk
    rcases hqc with h' | h' <;> subst h'
    · right; rfl
    · simpa using hq
  have hline : arffWriteRow q also pad row = arffWriteRow (qc.getD DQ) also pad row := by
    cases hany : row.any tokQuoted with
    | true => rw [hquoted hany]; rfl
    | false => exact arffWriteRow_unquoted q _ also pad row hany
  obtain ⟨c, t, he, hc⟩ := arffWriteRow_head q hq also pad row h
  have hne : row ≠ [] := (rowOk_parts q row h).1
  have hrow := arffLine_row qc also pad row [] hne hqe
  rw [← hline, he] at hrow
  unfold csvFirst
  simp only [csvRecords, he]
  have : csvLine (arffDialect COMMA qc) CsvR.reset (c :: t) = .ok ⟨.startRecord, [], row.map (·.2)⟩ := by
    simp only [csvLine, csvFeed, CsvR.reset, csv_startRecord_eq _ _ _ c hc] at hrow ⊢
    simpa using hrow
  rw [this]
  simp [CsvR.reset]

def ALR.Inv (q : Nat) (s : ALR) : Prop :=
  s = ALR.init ∨ (s.started = true ∧ s.delim = COMMA ∧ (s.qc = none ∨ s.qc = some q))

theorem arffSimple_written (q : Nat) (hq : q = SQ ∨ q = DQ) (also : Nat → Bool) (pad : Nat) (row : List (Bool × Text))
    (h : arffRowOk q row = true) (s : ALR) (hd : s.delim = COMMA) (hqc : s.qc = none ∨ s.qc = some q) :
    arffSimple row.length s (arffWriteRow q also pad row) =
      .ok ({ s with qc := if row.any tokQuoted then some q else s.qc }, row.map (·.2)) := by
  obtain ⟨hc1, hc2⟩ := line_quotes q also pad row hq h
  unfold arffSimple
  rw [simpleQuote_written q hq s.qc hqc _ _ hc1 hc2, hd]
  simp only
  rw [csvFirst_written q hq also pad row h _ (by
        cases row.any tokQuoted <;> simp [hqc]) (by
        intro ha; simp [ha])]
  simp

theorem arffFirst_written (q : Nat) (hq : q = SQ ∨ q = DQ) (also : Nat → Bool) (pad : Nat) (row : List (Bool × Text))
    (h : arffRowOk q row = true) :
    arffFirst row.length (arffWriteRow q also pad row) =
      .ok (⟨true, false, if row.any tokQuoted then some q else none, COMMA⟩, row.map (·.2)) := by
  obtain ⟨hc1, hc2⟩ := line_quotes q also pad row hq h
  have hqc0 : (if (arffWriteRow q also pad row).contains DQ then some DQ else if (arffWriteRow q also pad row).contains SQ then some SQ else none)
      = (if row.any tokQuoted then some q else none) := by
    rcases hq with h' | h' <;> subst h'
    · have e : otherQ SQ = DQ := by decide
      rw [e] at hc2
      rw [hc1, hc2]; simp
    · have e : otherQ DQ = SQ := by decide
      rw [e] at hc2
      rw [hc1, hc2]; cases row.any tokQuoted <;> simp
  have hboth : ((arffWriteRow q also pad row).contains DQ && (arffWriteRow q also pad row).contains SQ) = false := by
    rcases hq with h' | h' <;> subst h'
    · have e : otherQ SQ = DQ := by decide
      rw [e] at hc2; rw [hc2]; rfl
    · have e : otherQ DQ = SQ := by decide
      rw [e] at hc2; rw [hc2]; exact Bool.and_false _
  unfold arffFirst
  simp only [hboth, Bool.false_eq_true, if_false, hqc0]
  have hq2 : (if row.any tokQuoted then some q else (none : Option Nat)) = none ∨ (if row.any tokQuoted then some q else (none : Option Nat)) = some q := by
    cases row.any tokQuoted <;> simp
  rw [csvFirst_written q hq also pad row h _ hq2 (by intro ha; simp [ha])]
  simp only [List.length_map, if_true]
  have := arffSimple_written q hq also pad row h ⟨true, false, if row.any tokQuoted then some q else none, COMMA⟩ rfl hq2
  rw [this]
  cases row.any tokQuoted <;> simp

theorem arffLines_written (q : Nat) (hq : q = SQ ∨ q = DQ) (also : Nat → Bool) (n : Nat)
    (rows : List (Nat × List (Bool × Text))) (hok : ∀ r ∈ rows, arffRowOk q r.2 = true ∧ r.2.length = n)
    (s : ALR) (hs : ALR.Inv q s) :
    arffLines n s (rows.map (fun r => arffWriteRow q also r.1 r.2)) = .ok (rows.map (·.2.map (·.2))) := by
  induction rows generalizing s with
  | nil => rfl
  | cons r rs ih =>
    obtain ⟨hr, hlen⟩ := hok r (by simp)
    simp only [List.map_cons, arffLines, arffLineStep]
    rcases hs with hs | ⟨hst, hd, hqc⟩
    · subst hs
      simp only [ALR.init, Bool.false_eq_true, if_false]
      rw [← hlen, arffFirst_written q hq also r.1 r.2 hr]
      simp only
      rw [hlen, ih (fun r' hr' => hok r' (by simp [hr'])) _ (Or.inr ⟨rfl, rfl, by cases r.2.any tokQuoted <;> simp⟩)]
    · simp only [hst, if_true]
      rw [← hlen, arffSimple_written q hq also r.1 r.2 hr s hd hqc]
      simp only
      rw [hlen, ih (fun r' hr' => hok r' (by simp [hr'])) { s with qc := if r.2.any tokQuoted then some q else s.qc }
        (Or.inr ⟨hst, hd, by cases r.2.any tokQuoted <;> simp [hqc]⟩)]



/-- the reader only sees the delivered lines through "strip the terminators, drop the empty ones" -/
theorem csv_roundtrip_framing' (delim : Nat) (hasHeader : Bool) (rows : List (List (Bool × Text)))
    (hok : ∀ r ∈ rows, csvRowOk r = true) (hd1 : delim ≠ DQ) (hd2 : isNl delim = false) (delivered : List Text)
    (hdel : (delivered.map rstripNl).filter (· ≠ []) = rows.map (csvWriteRow delim)) :
    csvReaderFix (excel delim) hasHeader delivered =
      match rows.map (·.map (·.2)) with
      | [] => .ok (none, [])
      | first :: rest => if hasHeader then .ok (some first, rest) else .ok (none, first :: rest) := by
  unfold csvReaderFix
  rw [hdel, csvRecords_rows delim rows hok hd1 hd2]
  cases rows.map (·.map (·.2)) <;> rfl


/-! ## D. the whole ARFF reader: respellings -/


theorem dropWhile_all {α} (p : α → Bool) (s : List α) (h : ∀ c ∈ s, p c = true) : s.dropWhile p = [] := by
  induction s with
  | nil => rfl
  | cons a s ih => simp [List.dropWhile, h a (by simp), ih (fun c hc => h c (by simp [hc]))]

theorem dropWhile_all_append {α} (p : α → Bool) (s t : List α) (h : ∀ c ∈ s, p c = true) :
    (s ++ t).dropWhile p = t.dropWhile p := by
  induction s with
  | nil => rfl
  | cons a s ih => simp [List.dropWhile, h a (by simp), ih (fun c hc => h c (by simp [hc]))]

/-- white space appended to a line (its terminator, trailing blanks) is stripped -/
theorem strip_append_ws (l s : Text) (hs : ∀ c ∈ s, isPySpace c = true) : strip (l ++ s) = strip l := by
  unfold strip
  induction l with
  | nil =>
    simp only [List.nil_append, List.dropWhile]
    rw [dropWhile_all isPySpace s hs]
  | cons c l ih =>
    by_cases hc : isPySpace c = true
    · simpa [List.dropWhile, hc] using ih
    · have hc' : isPySpace c = false := by simpa using hc
      simp only [List.cons_append, List.dropWhile, hc']
      rw [← List.cons_append, List.reverse_append,
        dropWhile_all_append isPySpace s.reverse _ (fun x hx => hs x (by simpa using hx))]

/-- a line that is blank after stripping disappears -/
theorem arffNormalize_blank (a c : List Text) (b : Text) (hb : strip b = []) :
    arffNormalize (a ++ b :: c) = arffNormalize (a ++ c) := by
  simp [arffNormalize, hb]

/-- terminators / surrounding white space on a line do not matter -/
theorem arffNormalize_ws (a c : List Text) (l s : Text) (hs : ∀ x ∈ s, isPySpace x = true) :
    arffNormalize (a ++ (l ++ s) :: c) = arffNormalize (a ++ l :: c) := by
  simp [arffNormalize, strip_append_ws l s hs]

theorem arff_framing' (l1 l2 : List Text) (h : arffNormalize l1 = arffNormalize l2) : arffRead l1 = arffRead l2 := by
  unfold arffRead; rw [h]





theorem takeWhile_split {α} (p : α → Bool) (pre post : List α) (x : α) (hpre : ∀ l ∈ pre, p l = true) :
    (pre ++ x :: post).takeWhile p = if p x then pre ++ x :: post.takeWhile p else pre := by
  induction pre with
  | nil => by_cases h : p x = true <;> simp [List.takeWhile, h]
  | cons a pre ih =>
    simp only [List.cons_append, List.takeWhile, hpre a (by simp)]
    rw [ih (fun l hl => hpre l (by simp [hl]))]
    by_cases h : p x = true <;> simp [h]

theorem dropWhile_split {α} (p : α → Bool) (pre post : List α) (x : α) (hpre : ∀ l ∈ pre, p l = true) :
    (pre ++ x :: post).dropWhile p = if p x then post.dropWhile p else x :: post := by
  induction pre with
  | nil => by_cases h : p x = true <;> simp [List.dropWhile, h]
  | cons a pre ih =>
    simp only [List.cons_append, List.dropWhile, hpre a (by simp)]
    exact ih (fun l hl => hpre l (by simp [hl]))

theorem takeWhile_all_append {α} (p : α → Bool) (s t : List α) (h : ∀ c ∈ s, p c = true) :
    (s ++ t).takeWhile p = s ++ t.takeWhile p := by
  induction s with
  | nil => rfl
  | cons a s ih => simp [List.takeWhile, h a (by simp), ih (fun c hc => h c (by simp [hc]))]

/-- the part of `arffReadN` after the header/data split -/
def arffReadParts (attrLines data0 : List Text) : Except Err ArffResult :=
  let data := data0.dropWhile (fun l => l.head? = some PCT)
  match data with
  | [] => .ok .empty
  | first :: _ =>
    let isDense := !(first.head? = some LBRACE) || !(first.getLast? = some RBRACE)
    match arffAttrs isDense [] attrLines with
    | .error e => .error e
    | .ok [] => .error .valueError
    | .ok attrs =>
      let names := attrs.map (·.1)
      let encs := attrs.map (·.2)
      if isDense then
        match denseRows encs attrLines.length ALRF.init data with
        | .error e => .error e
        | .ok rows => .ok (.dense names rows)
      else
        match sparseRows names encs attrLines.length data with
        | .error e => .error e
        | .ok rows => .ok (.sparse names rows)

theorem arffReadN_parts (ls : List Text) :
    arffReadN ls = arffReadParts ((ls.takeWhile (fun l => lowerAscii l ≠ kwData)).filter (fun l => lowerAscii (l.take 5) = kwAttr))
      ((ls.dropWhile (fun l => lowerAscii l ≠ kwData)).drop 1) := rfl

/-- keyword case of the `@data` line -/
theorem arff_data_keyword' (pre post : List Text) (d1 d2 : Text) (h1 : lowerAscii d1 = kwData) (h2 : lowerAscii d2 = kwData)
    (hpre : ∀ l ∈ pre, lowerAscii l ≠ kwData) :
    arffReadN (pre ++ d1 :: post) = arffReadN (pre ++ d2 :: post) := by
  have hp : ∀ l ∈ pre, (fun l => decide (lowerAscii l ≠ kwData)) l = true := by
    intro l hl; simpa using hpre l hl
  simp only [arffReadN_parts]
  rw [takeWhile_split _ pre post d1 hp, takeWhile_split _ pre post d2 hp,
      dropWhile_split _ pre post d1 hp, dropWhile_split _ pre post d2 hp]
  simp [h1, h2]

/-- a header line that is neither an attribute line nor `@data` (a `%` comment, `@relation`) is ignored -/
theorem arff_header_other_line' (pre post : List Text) (j : Text) (hj1 : lowerAscii j ≠ kwData)
    (hj2 : lowerAscii (j.take 5) ≠ kwAttr) (hpre : ∀ l ∈ pre, lowerAscii l ≠ kwData) :
    arffReadN (pre ++ j :: post) = arffReadN (pre ++ post) := by
  have hp : ∀ l ∈ pre, (fun l => decide (lowerAscii l ≠ kwData)) l = true := by
    intro l hl; simpa using hpre l hl
  simp only [arffReadN_parts]
  rw [takeWhile_all_append _ pre _ hp, takeWhile_all_append _ pre _ hp, dropWhile_all_append _ pre _ hp,
      dropWhile_all_append _ pre _ hp]
  simp [List.takeWhile, List.dropWhile, hj1, hj2]

theorem denseRows_comment (encs : List Enc) (n : Nat) (s : ALRF) (a b : List Text) (c : Text) (hc : c.head? = some PCT) :
    denseRows encs n s (a ++ c :: b) = denseRows encs n s (a ++ b) := by
  induction a generalizing s with
  | nil => simp [denseRows, hc]
  | cons x a ih =>
    simp only [List.cons_append, denseRows]
    split
    · exact ih s
    · cases arffLineStepF n s x with
      | error e => rfl
      | ok r =>
        obtain ⟨s1, raw⟩ := r
        simp only
        cases encodeRow encs raw with
        | error e => rfl
        | ok cells => simp only [ih s1]

theorem sparseRows_comment (names : List Text) (encs : List Enc) (n : Nat) (a b : List Text) (c : Text) (hc : c.head? = some PCT) :
    sparseRows names encs n (a ++ c :: b) = sparseRows names encs n (a ++ b) := by
  induction a with
  | nil => simp [sparseRows, hc]
  | cons x a ih =>
    simp only [List.cons_append, sparseRows]
    split
    · exact ih
    · cases arffSparseLine n x with
      | error e => rfl
      | ok raw =>
        simp only
        split
        · rfl
        · simp only [ih]

/-- a `%` comment line anywhere in the data section is ignored -/
theorem arffReadParts_comment (attrLines a b : List Text) (c : Text) (hc : c.head? = some PCT) :
    arffReadParts attrLines (a ++ c :: b) = arffReadParts attrLines (a ++ b) := by
  unfold arffReadParts
  by_cases hall : ∀ l ∈ a, (fun l : Text => decide (l.head? = some PCT)) l = true
  · have e1 : (a ++ c :: b).dropWhile (fun l => decide (l.head? = some PCT)) = b.dropWhile (fun l => decide (l.head? = some PCT)) := by
      rw [dropWhile_split _ a b c hall]; simp [hc]
    have e2 : (a ++ b).dropWhile (fun l => decide (l.head? = some PCT)) = b.dropWhile (fun l => decide (l.head? = some PCT)) :=
      dropWhile_all_append _ a b hall
    simp only [e1, e2]
  · -- some line of `a` is not a comment: split `a` there
    have : ∃ a1 x a2, a = a1 ++ x :: a2 ∧ (∀ l ∈ a1, (fun l : Text => decide (l.head? = some PCT)) l = true) ∧ ¬ (x.head? = some PCT) := by
      clear hc
      induction a with
      | nil => simp at hall
      | cons y a ih =>
        by_cases hy : y.head? = some PCT
        · have : ¬ ∀ l ∈ a, (fun l : Text => decide (l.head? = some PCT)) l = true := by
            intro h; apply hall; intro l hl
            simp only [List.mem_cons] at hl
            rcases hl with rfl | hl
            · simpa using hy
            · exact h l hl
          obtain ⟨a1, x, a2, he, h1, h2⟩ := ih this
          exact ⟨y :: a1, x, a2, by simp [he], by
            intro l hl; simp only [List.mem_cons] at hl
            rcases hl with rfl | hl
            · simpa using hy
            · exact h1 l hl, h2⟩
        · exact ⟨[], y, a, rfl, by simp, hy⟩
    obtain ⟨a1, x, a2, he, h1, h2⟩ := this
    subst he
    have e1 : (a1 ++ x :: a2 ++ c :: b).dropWhile (fun l => decide (l.head? = some PCT)) = x :: (a2 ++ c :: b) := by
      rw [List.append_assoc, List.cons_append, dropWhile_split _ a1 _ x h1]; simp [h2]
    have e2 : (a1 ++ x :: a2 ++ b).dropWhile (fun l => decide (l.head? = some PCT)) = x :: (a2 ++ b) := by
      rw [List.append_assoc, List.cons_append, dropWhile_split _ a1 _ x h1]; simp [h2]
    simp only [e1, e2]
    cases arffAttrs (!decide (x.head? = some LBRACE) || !decide (x.getLast? = some RBRACE)) [] attrLines with
    | error e => rfl
    | ok attrs =>
      cases attrs with
      | nil => rfl
      | cons at1 ats =>
        simp only
        rw [← List.cons_append, denseRows_comment _ _ _ (x :: a2) b c hc, sparseRows_comment _ _ _ (x :: a2) b c hc]
        rfl

theorem arff_data_comment' (hdr a b : List Text) (kw c : Text) (hkw : lowerAscii kw = kwData)
    (hhdr : ∀ l ∈ hdr, lowerAscii l ≠ kwData) (hc : c.head? = some PCT) :
    arffReadN (hdr ++ kw :: (a ++ c :: b)) = arffReadN (hdr ++ kw :: (a ++ b)) := by
  have hp : ∀ l ∈ hdr, (fun l => decide (lowerAscii l ≠ kwData)) l = true := by
    intro l hl; simpa using hhdr l hl
  simp only [arffReadN_parts]
  rw [takeWhile_split _ hdr _ kw hp, takeWhile_split _ hdr _ kw hp, dropWhile_split _ hdr _ kw hp, dropWhile_split _ hdr _ kw hp]
  simp only [hkw, ne_eq, not_true_eq_false, decide_false, Bool.false_eq_true, if_false, List.drop_succ_cons, List.drop_zero]
  exact arffReadParts_comment _ a b c hc





theorem lowerAscii_head (t : Text) : (lowerAscii t).head? = t.head?.map (fun c => if 65 ≤ c ∧ c ≤ 90 then c + 32 else c) := by
  cases t <;> simp [lowerAscii]

/-- the type keyword may be written in any case -/
theorem arff_type_keyword' (isDense : Bool) (e1 e2 : Text) (h : lowerAscii e1 = lowerAscii e2)
    (h1 : e1.head? ≠ some LBRACE) (h2 : e2.head? ≠ some LBRACE) : arffEncoder isDense e1 = arffEncoder isDense e2 := by
  unfold arffEncoder
  simp only [h, h1, h2, if_false]

theorem lowerAscii_length (t : Text) : (lowerAscii t).length = t.length := by simp [lowerAscii]

theorem lowerAscii_take (t : Text) (k : Nat) : lowerAscii (t.take k) = (lowerAscii t).take k := by
  simp [lowerAscii, List.map_take]

theorem attrLine_facts (a : Text) (h : lowerAscii (a.take 10) = kwAttribute) :
    lowerAscii (a.take 5) = kwAttr ∧ lowerAscii a ≠ kwData := by
  constructor
  · have : (a.take 10).take 5 = a.take 5 := by simp [List.take_take]
    rw [← this, lowerAscii_take, h]; rfl
  · intro hd
    have h10 : (lowerAscii (a.take 10)).length = 10 := by rw [h]; rfl
    rw [lowerAscii_length, List.length_take] at h10
    have : (lowerAscii a).length = 5 := by rw [hd]; rfl
    rw [lowerAscii_length] at this
    omega

theorem arffAttrs_congr (isDense : Bool) (seen : List Text) (x y : List Text) (a1 a2 : Text)
    (h1 : lowerAscii (a1.take 10) = kwAttribute) (h2 : lowerAscii (a2.take 10) = kwAttribute) (hr : a1.drop 11 = a2.drop 11) :
    arffAttrs isDense seen (x ++ a1 :: y) = arffAttrs isDense seen (x ++ a2 :: y) := by
  induction x generalizing seen with
  | nil => simp only [List.nil_append, arffAttrs, h1, h2, hr]
  | cons l x ih =>
    simp only [List.cons_append, arffAttrs]
    split
    · cases arffSplit .ws (some 2) (l.drop 11) with
      | error e => rfl
      | ok r =>
        match r with
        | [] => rfl
        | [_] => rfl
        | [hd, enc] =>
          simp only
          split
          · rfl
          · cases arffEncoder isDense enc with
            | error e => rfl
            | ok en => simp only [ih (hd :: seen)]
        | _ :: _ :: _ :: _ => rfl
    · exact ih seen

/-- the `@attribute` keyword may be written in any case (and be followed by any one separator character) -/
theorem arff_attribute_keyword' (pre post : List Text) (a1 a2 : Text)
    (h1 : lowerAscii (a1.take 10) = kwAttribute) (h2 : lowerAscii (a2.take 10) = kwAttribute) (hr : a1.drop 11 = a2.drop 11)
    (hpre : ∀ l ∈ pre, lowerAscii l ≠ kwData) :
    arffReadN (pre ++ a1 :: post) = arffReadN (pre ++ a2 :: post) := by
  have hp : ∀ l ∈ pre, (fun l => decide (lowerAscii l ≠ kwData)) l = true := by
    intro l hl; simpa using hpre l hl
  obtain ⟨f1, g1⟩ := attrLine_facts a1 h1
  obtain ⟨f2, g2⟩ := attrLine_facts a2 h2
  simp only [arffReadN_parts]
  rw [takeWhile_all_append _ pre _ hp, takeWhile_all_append _ pre _ hp, dropWhile_all_append _ pre _ hp,
      dropWhile_all_append _ pre _ hp]
  simp only [List.takeWhile, List.dropWhile, g1, g2, ne_eq, not_false_eq_true, decide_true, List.filter_append, List.filter_cons, f1, f2, if_true]
  unfold arffReadParts
  simp only [List.length_append, List.length_cons]
  split
  · rfl
  · rw [arffAttrs_congr _ [] _ _ a1 a2 h1 h2 hr]



/-! ## D.2 sparse rows -/


theorem sparseTokOk_mem (t : Text) (h : sparseTokOk t = true) :
    t ≠ [] ∧ ∀ c ∈ t, isPySpace c = false ∧ c ≠ COMMA := by
  unfold sparseTokOk at h
  simp only [Bool.and_eq_true, decide_eq_true_eq] at h
  refine ⟨h.1, fun c hc => ?_⟩
  have := List.all_eq_true.mp h.2 c hc
  simpa using this

theorem ssg_tok (cur tok rest : Text) (h : ∀ c ∈ tok, isPySpace c = false ∧ c ≠ COMMA) :
    sparseSplitGo cur 0 (tok ++ rest) = sparseSplitGo (cur ++ tok) 0 rest := by
  induction tok generalizing cur with
  | nil => simp
  | cons c tok ih =>
    have hc := h c (by simp)
    simp only [List.cons_append, sparseSplitGo, hc.1, hc.2, Bool.false_eq_true, if_false, if_true]
    rw [ih (cur ++ [c]) (fun d hd => h d (by simp [hd]))]
    simp

theorem ssg_tok_start (st : Nat) (hst : st ≠ 0) (tok rest : Text) (hne : tok ≠ [])
    (h : ∀ c ∈ tok, isPySpace c = false ∧ c ≠ COMMA) :
    sparseSplitGo [] st (tok ++ rest) = sparseSplitGo tok 0 rest := by
  cases tok with
  | nil => exact absurd rfl hne
  | cons c tok =>
    have hc := h c (by simp)
    simp only [List.cons_append, sparseSplitGo, hc.1, hc.2, hst, Bool.false_eq_true, if_false]
    rw [ssg_tok [c] tok rest (fun d hd => h d (by simp [hd]))]
    simp

theorem ssg_spaces (k : Nat) (rest : Text) : sparseSplitGo [] 2 (List.replicate k 32 ++ rest) = sparseSplitGo [] 2 rest := by
  induction k with
  | zero => simp
  | succ k ih =>
    have : isPySpace 32 = true := by decide
    simp only [List.replicate_succ, List.cons_append, sparseSplitGo, this, if_true]
    simpa using ih

def flatItems (r : List (Text × Text)) : List Text := r.flatMap (fun p => [p.1, p.2])

theorem isDigit_tok (d : Text) (h : d.all isDigit = true) : ∀ c ∈ d, isPySpace c = false ∧ c ≠ COMMA := by
  intro c hc
  have := List.all_eq_true.mp h c hc
  unfold isDigit at this
  simp only [Bool.and_eq_true, decide_eq_true_eq] at this
  constructor
  · unfold isPySpace
    simp only [Bool.or_eq_false_iff, Bool.and_eq_false_iff, decide_eq_false_iff_not, beq_eq_false_iff_ne]
    refine ⟨⟨⟨⟨⟨⟨⟨⟨⟨⟨?_, ?_⟩, ?_⟩, ?_⟩, ?_⟩, ?_⟩, ?_⟩, ?_⟩, ?_⟩, ?_⟩, ?_⟩ <;> omega
  · intro h'; simp [COMMA] at h'; omega

theorem sparseSplit_items (pad : Nat) (st : Nat) (hst : st = 0 ∨ st = 2) (d v : Text) (r : List (Text × Text))
    (hok : ∀ p ∈ (d, v) :: r, p.1 ≠ [] ∧ p.1.all isDigit = true ∧ sparseTokOk p.2 = true) :
    sparseSplitGo [] st (sparseWriteItems pad ((d, v) :: r)) = d :: v :: flatItems r := by
  induction r generalizing d v st with
  | nil =>
    obtain ⟨hd1, hd2, hv⟩ := hok (d, v) (by simp)
    obtain ⟨hv1, hv2⟩ := sparseTokOk_mem v hv
    have hsp : isPySpace 32 = true := by decide
    have start : sparseSplitGo [] st (d ++ 32 :: v) = sparseSplitGo d 0 (32 :: v) := by
      rcases hst with h | h <;> subst h
      · simpa using ssg_tok [] d (32 :: v) (isDigit_tok d hd2)
      · exact ssg_tok_start 2 (by decide) d _ hd1 (isDigit_tok d hd2)
    simp only [sparseWriteItems, start, sparseSplitGo, hsp, if_true]
    have := ssg_tok_start 1 (by decide) v [] hv1 hv2
    simp only [List.append_nil] at this
    rw [this]
    simp [sparseSplitGo, flatItems]
  | cons y r ih =>
    obtain ⟨hd1, hd2, hv⟩ := hok (d, v) (by simp)
    obtain ⟨hv1, hv2⟩ := sparseTokOk_mem v hv
    obtain ⟨y1, y2⟩ := y
    have hsp : isPySpace 32 = true := by decide
    have hcm : isPySpace COMMA = false := by decide
    simp only [sparseWriteItems]
    have start : ∀ X, sparseSplitGo [] st (d ++ 32 :: X) = sparseSplitGo d 0 (32 :: X) := by
      intro X
      rcases hst with h | h <;> subst h
      · simpa using ssg_tok [] d (32 :: X) (isDigit_tok d hd2)
      · exact ssg_tok_start 2 (by decide) d _ hd1 (isDigit_tok d hd2)
    simp only [List.append_assoc, List.cons_append]
    rw [start]
    simp only [sparseSplitGo, hsp, if_true]
    rw [ssg_tok_start 1 (by decide) v _ hv1 hv2]
    simp only [List.cons_append, sparseSplitGo, hcm, Bool.false_eq_true, if_false, if_true]
    rw [ssg_spaces, ih 2 (Or.inr rfl) y1 y2 (fun p hp => hok p (by simp at hp ⊢; right; exact hp))]
    simp [flatItems]

theorem evens_flat (d v : Text) (rest : List (Text × Text)) :
    evens (d :: v :: flatItems rest) = d :: evens (flatItems rest) ∧ odds (d :: v :: flatItems rest) = v :: odds (flatItems rest) := by
  constructor <;> rfl

theorem evens_odds_flat (r : List (Text × Text)) : evens (flatItems r) = r.map (·.1) ∧ odds (flatItems r) = r.map (·.2) := by
  induction r with
  | nil => exact ⟨rfl, rfl⟩
  | cons p r ih =>
    have e : flatItems (p :: r) = p.1 :: p.2 :: flatItems r := by simp [flatItems]
    rw [e]
    exact ⟨by simp [evens, ih.1], by simp [odds, ih.2]⟩

theorem parseInt_digits (d : Text) (hne : d ≠ []) (h : d.all isDigit = true) : parseInt d = some (digitsVal d) := by
  have htok := isDigit_tok d h
  have hs : strip d = d := strip_id d
    (fun c hc => (htok c (List.mem_of_mem_head? hc)).1) (fun c hc => (htok c (List.mem_of_getLast? hc)).1)
  unfold parseInt
  rw [hs]
  cases d with
  | nil => exact absurd rfl hne
  | cons c t =>
    have hc : isDigit c = true := List.all_eq_true.mp h c (by simp)
    have h45 : c ≠ 45 := by unfold isDigit at hc; simp at hc; omega
    have h43 : c ≠ 43 := by unfold isDigit at hc; simp at hc; omega
    have e1 : ¬ ((c :: t).head? = some 45) := by simpa using h45
    have e2 : ¬ ((c :: t).head? = some 43) := by simpa using h43
    simp only [e1, e2, or_self, if_false, decide_false, Bool.false_eq_true]
    simp [h, digitsVal]

theorem parseKeys_digits (ds : List Text) (h : ∀ d ∈ ds, d ≠ [] ∧ d.all isDigit = true) :
    parseKeys ds = .ok (ds.map digitsVal) := by
  induction ds with
  | nil => rfl
  | cons d ds ih =>
    simp [parseKeys, parseInt_digits d (h d (by simp)).1 (h d (by simp)).2, ih (fun x hx => h x (by simp [hx]))]

theorem dictOf_nodup (l : List (Int × Text)) (h : (l.map (·.1)).Nodup) : dictOf l = l := by
  induction l with
  | nil => rfl
  | cons p l ih =>
    obtain ⟨k, v⟩ := p
    simp only [List.map_cons, List.nodup_cons] at h
    simp only [dictOf, ih h.2]
    have : l.find? (fun x => decide (x.1 = k)) = none := by
      rw [List.find?_eq_none]
      intro x hx hk
      simp only [decide_eq_true_eq] at hk
      exact h.1 (by rw [← hk]; exact List.mem_map_of_mem hx)
    simp [this]

theorem getLast?_append_some {α} (a b : List α) (c : α) (h : b.getLast? = some c) : (a ++ b).getLast? = some c := by
  rw [List.getLast?_append, h]; rfl

theorem sparseWriteItems_last (pad : Nat) (d v : Text) (r : List (Text × Text)) (hv : ∀ p ∈ (d, v) :: r, p.2 ≠ []) :
    ∃ c, (sparseWriteItems pad ((d, v) :: r)).getLast? = some c ∧ ∃ p ∈ (d, v) :: r, p.2.getLast? = some c := by
  induction r generalizing d v with
  | nil =>
    have hne := hv (d, v) (by simp)
    cases hg : v.getLast? with
    | none => simp at hg; exact absurd hg hne
    | some c =>
      refine ⟨c, ?_, (d, v), by simp, hg⟩
      have e : sparseWriteItems pad [(d, v)] = (d ++ [32]) ++ v := by simp [sparseWriteItems]
      rw [e]; exact getLast?_append_some _ _ _ hg
  | cons y r ih =>
    obtain ⟨y1, y2⟩ := y
    obtain ⟨c, hc, p, hp, hpc⟩ := ih y1 y2 (fun p hp => hv p (by simp at hp ⊢; right; exact hp))
    refine ⟨c, ?_, p, by simp at hp ⊢; right; exact hp, hpc⟩
    have e : sparseWriteItems pad ((d, v) :: (y1, y2) :: r) =
        (d ++ 32 :: v ++ COMMA :: List.replicate pad 32) ++ sparseWriteItems pad ((y1, y2) :: r) := by simp [sparseWriteItems]
    rw [e]; exact getLast?_append_some _ _ _ hc





theorem sparseRowOk_parts (n : Nat) (items : List (Text × Text)) (h : sparseRowOk n items = true) :
    (∀ p ∈ items, p.1 ≠ [] ∧ p.1.all isDigit = true ∧ sparseTokOk p.2 = true ∧
        (∀ c, p.2.getLast? = some c → c ≠ RBRACE ∧ c ≠ LBRACE) ∧ digitsVal p.1 < (n : Int)) ∧
    (items.map (fun p => digitsVal p.1)).Nodup := by
  unfold sparseRowOk at h
  simp only [Bool.and_eq_true, decide_eq_true_eq] at h
  refine ⟨fun p hp => ?_, h.2⟩
  have := List.all_eq_true.mp h.1 p hp
  simp only [Bool.and_eq_true, decide_eq_true_eq] at this
  refine ⟨this.1.1.1.1, this.1.1.1.2, this.1.1.2, ?_, this.2⟩
  intro c hc
  have h4 := this.1.2
  rw [hc] at h4
  simpa using h4

theorem stripBraces_written (inner : Text) (h1 : ∀ c, inner.head? = some c → (c == RBRACE || c == 32 || c == LBRACE) = false)
    (h2 : ∀ c, inner.getLast? = some c → (c == RBRACE || c == 32 || c == LBRACE) = false) :
    stripBraces (LBRACE :: (inner ++ [RBRACE])) = inner := by
  unfold stripBraces
  have hL : (LBRACE == RBRACE || LBRACE == 32 || LBRACE == LBRACE) = true := by decide
  have hR : (RBRACE == RBRACE || RBRACE == 32 || RBRACE == LBRACE) = true := by decide
  simp only [List.dropWhile, hL]
  cases inner with
  | nil => simp [List.dropWhile, hR]
  | cons c t =>
    have hc := h1 c rfl
    simp only [List.cons_append, List.dropWhile, hc]
    rw [← List.cons_append, List.reverse_append]
    simp only [List.reverse_cons, List.reverse_nil, List.nil_append, List.singleton_append, List.dropWhile, hR]
    rw [← List.reverse_cons, dropWhile_head_false, List.reverse_reverse]
    intro a ha
    rw [List.head?_reverse] at ha
    exact h2 a ha

theorem zip_map_fst_snd {α β γ} (f : α → γ) (l : List (α × β)) :
    (l.map (fun p => f p.1)).zip (l.map (·.2)) = l.map (fun p => (f p.1, p.2)) := by
  induction l with
  | nil => rfl
  | cons p l ih => simp [ih]

theorem digitsVal_nonneg (d : Text) : 0 ≤ digitsVal d := by unfold digitsVal; exact Int.natCast_nonneg _

theorem arffSparseLine_written (n pad : Nat) (items : List (Text × Text)) (h : sparseRowOk n items = true) :
    arffSparseLine n (sparseWriteRow pad items) = .ok (items.map (fun p => (digitsVal p.1, p.2))) := by
  obtain ⟨hall, hnd⟩ := sparseRowOk_parts n items h
  unfold arffSparseLine sparseWriteRow
  cases items with
  | nil =>
    have e : stripBraces (LBRACE :: (sparseWriteItems pad [] ++ [RBRACE])) = [] := by
      show stripBraces [LBRACE, RBRACE] = []
      decide
    rw [e]
    rfl
  | cons p r =>
    obtain ⟨d, v⟩ := p
    have hdv := hall (d, v) (by simp)
    -- head and last character of the text between the braces
    have hhead : ∀ c, (sparseWriteItems pad ((d, v) :: r)).head? = some c → (c == RBRACE || c == 32 || c == LBRACE) = false := by
      intro c hc
      have hd : d.head? = some c := by
        cases hdd : d with
        | nil => exact absurd hdd hdv.1
        | cons a t =>
          rw [hdd] at hc
          cases r with
          | nil => simpa [sparseWriteItems] using hc
          | cons y r' => simpa [sparseWriteItems] using hc
      have := List.all_eq_true.mp hdv.2.1 c (List.mem_of_mem_head? hd)
      unfold isDigit at this
      simp only [Bool.and_eq_true, decide_eq_true_eq] at this
      simp only [Bool.or_eq_false_iff, beq_eq_false_iff_ne, RBRACE, LBRACE]
      refine ⟨⟨?_, ?_⟩, ?_⟩ <;> omega
    have hlast : ∀ c, (sparseWriteItems pad ((d, v) :: r)).getLast? = some c → (c == RBRACE || c == 32 || c == LBRACE) = false := by
      intro c hc
      obtain ⟨c', hc', p, hp, hpc⟩ := sparseWriteItems_last pad d v r (fun p hp => (sparseTokOk_mem p.2 (hall p hp).2.2.1).1)
      rw [hc] at hc'
      cases hc'
      have hp' := hall p hp
      have hb := hp'.2.2.2.1 c hpc
      have hws := ((sparseTokOk_mem p.2 hp'.2.2.1).2 c (List.mem_of_getLast? hpc)).1
      have h32 : c ≠ 32 := by intro e; subst e; simp [isPySpace] at hws
      simp [hb.1, hb.2, h32]
    rw [stripBraces_written _ hhead hlast]
    unfold sparseSplit
    rw [sparseSplit_items pad 0 (Or.inl rfl) d v r (fun p hp => ⟨(hall p hp).1, (hall p hp).2.1, (hall p hp).2.2.1⟩)]
    have hne : ¬ (d :: v :: flatItems r = [[]]) := by simp
    simp only [hne, if_false]
    have ev : evens (d :: v :: flatItems r) = ((d, v) :: r).map (·.1) := by
      simp [evens, (evens_odds_flat r).1]
    have od : odds (d :: v :: flatItems r) = ((d, v) :: r).map (·.2) := by
      simp [odds, (evens_odds_flat r).2]
    rw [ev, od, parseKeys_digits _ (by
      intro x hx
      simp only [List.mem_map] at hx
      obtain ⟨p, hp, rfl⟩ := hx
      exact ⟨(hall p hp).1, (hall p hp).2.1⟩)]
    simp only [List.map_map]
    have hz : (List.map (digitsVal ∘ fun x => x.1) ((d, v) :: r)).zip (List.map (fun x => x.2) ((d, v) :: r))
        = ((d, v) :: r).map (fun p => (digitsVal p.1, p.2)) := zip_map_fst_snd digitsVal _
    rw [hz, dictOf_nodup _ (by simpa [List.map_map, Function.comp_def] using hnd)]
    have hrange : (List.map (fun p => (digitsVal p.1, p.2)) ((d, v) :: r)).any (fun p => decide (p.1 < 0) || decide ((n : Int) ≤ p.1)) = false := by
      rw [List.any_eq_false]
      intro x hx
      simp only [List.mem_map] at hx
      obtain ⟨p, hp, rfl⟩ := hx
      have h1 := digitsVal_nonneg p.1
      have h2 := (hall p hp).2.2.2.2
      simp only [Bool.or_eq_true, decide_eq_true_eq, not_or]
      omega
    simp only [hrange, Bool.false_eq_true, if_false]



theorem delivery_invariance' {σ} (D : Decomp σ) (hD : D.Lawful) (bs : List Nat) :
    (∀ size, readFix D (chunksOf size bs) = readWhole D bs) ∧
    (∀ cs : List (List Nat), cs.flatten = bs → readFix D cs = readWhole D bs) := by
  refine ⟨fun size => ?_, fun cs h => ?_⟩
  · rw [chunk_invariance' D hD, chunksOf_flatten]
  · rw [chunk_invariance' D hD, h]


/-! ## D.1 the attribute header -/


theorem mem_takeWhile_true {α} (p : α → Bool) (l : List α) : ∀ c ∈ l.takeWhile p, p c = true := by
  induction l with
  | nil => simp
  | cons a l ih =>
    intro c hc
    by_cases ha : p a = true
    · simp only [List.takeWhile, ha, List.mem_cons] at hc
      rcases hc with rfl | hc
      · exact ha
      · exact ih c hc
    · simp [List.takeWhile, ha] at hc

theorem dropWhile_head_not {α} (p : α → Bool) (l : List α) (a : α) (r : List α) (h : l.dropWhile p = a :: r) : p a = false := by
  induction l with
  | nil => simp at h
  | cons b l ih =>
    by_cases hb : p b = true
    · simp only [List.dropWhile, hb] at h; exact ih h
    · simp only [List.dropWhile, hb] at h
      cases h; simpa using hb

/-- `rstrip`: what is removed is white space, what remains does not end in white space -/
theorem rstrip_spec (t : Text) : ∃ w, t = rstrip t ++ w ∧ (∀ c ∈ w, isPySpace c = true) ∧
    (∀ c, (rstrip t).getLast? = some c → isPySpace c = false) := by
  unfold rstrip
  refine ⟨(t.reverse.takeWhile isPySpace).reverse, ?_, ?_, ?_⟩
  · have := List.takeWhile_append_dropWhile (p := isPySpace) (l := t.reverse)
    have h2 := congrArg List.reverse this
    simp only [List.reverse_append, List.reverse_reverse] at h2
    exact h2.symm
  · intro c hc
    simp only [List.mem_reverse] at hc
    exact mem_takeWhile_true isPySpace _ c hc
  · intro c hc
    rw [List.getLast?_reverse] at hc
    cases hd : t.reverse.dropWhile isPySpace with
    | nil => rw [hd] at hc; simp at hc
    | cons a r =>
      rw [hd] at hc
      simp at hc
      rw [← hc]
      exact dropWhile_head_not isPySpace t.reverse a r hd

theorem rstrip_id (t : Text) (h : ∀ c, t.getLast? = some c → isPySpace c = false) : rstrip t = t := by
  unfold rstrip
  rw [dropWhile_head_false, List.reverse_reverse]
  intro a ha
  rw [List.head?_reverse] at ha
  exact h a ha

theorem rstrip_append_ws (t w : Text) (hw : ∀ c ∈ w, isPySpace c = true) : rstrip (t ++ w) = rstrip t := by
  unfold rstrip
  rw [List.reverse_append, dropWhile_all_append isPySpace w.reverse _ (fun x hx => hw x (by simpa using hx))]





section esc
variable (q : Nat) (also : Nat → Bool)

theorem hdrEscape_filter (v : Text) (h : v.contains BS = false) : (hdrEscape q also v).filter (· != BS) = v := by
  induction v with
  | nil => rfl
  | cons c t ih =>
    have hc : c ≠ BS := by
      intro e; subst e; simp at h
    have ht : t.contains BS = false := by
      cases hh : t.contains BS with
      | false => rfl
      | true => simp only [List.contains_iff_mem] at hh; have : (c :: t).contains BS = true := by simp [hh]
                rw [this] at h; cases h
    have hcb : (c != BS) = true := by simpa using hc
    have hbb : (BS != BS) = false := by decide
    simp only [hdrEscape]
    split
    · simp only [List.filter, hbb, hcb, ih ht]
    · simp only [List.filter, hcb, ih ht]

theorem hdrEscape_ne_nil (v : Text) (h : v ≠ []) : hdrEscape q also v ≠ [] := by
  cases v with
  | nil => exact absurd rfl h
  | cons c t => simp only [hdrEscape]; split <;> simp

theorem hdrEscape_last (v : Text) : (hdrEscape q also v).getLast? = v.getLast? := by
  induction v with
  | nil => rfl
  | cons c t ih =>
    cases t with
    | nil => simp only [hdrEscape]; split <;> simp
    | cons d t' =>
      have hne := hdrEscape_ne_nil q also (d :: t') (by simp)
      have e1 : ∀ (pre : Text), (pre ++ hdrEscape q also (d :: t')).getLast? = (hdrEscape q also (d :: t')).getLast? := by
        intro pre
        cases hg : (hdrEscape q also (d :: t')).getLast? with
        | none => simp at hg; exact absurd hg hne
        | some z => exact getLast?_append_some _ _ _ hg
      have : hdrEscape q also (c :: d :: t') = (if c = q ∨ also c = true then [BS, c] else [c]) ++ hdrEscape q also (d :: t') := by
        simp only [hdrEscape]; split <;> simp [hdrEscape]
      rw [this, e1, ih, List.getLast?_cons_cons]

theorem hdrEscape_head (v : Text) (c : Nat) (h : (hdrEscape q also v).head? = some c) : c = BS ∨ v.head? = some c := by
  cases v with
  | nil => simp [hdrEscape] at h
  | cons a t =>
    simp only [hdrEscape] at h
    split at h
    · left; simpa using h.symm
    · right; simpa using h

/-- every quote character inside the escaped text has a backslash in front of it -/
theorem hdrEscape_q_pre (hq : q ≠ BS) (v a b : Text) (h : hdrEscape q also v = a ++ q :: b) : a.getLast? = some BS := by
  induction v generalizing a with
  | nil => simp [hdrEscape] at h
  | cons c t ih =>
    simp only [hdrEscape] at h
    split at h
    · match a, h with
      | [], h => simp at h; exact absurd h.1.symm hq
      | [x], h => simp at h; simp [h.1]
      | x :: y :: a', h =>
        simp only [List.cons_append, List.cons.injEq] at h
        have := ih a' h.2.2
        have hne : a' ≠ [] := by intro e; subst e; simp at this
        cases a' with
        | nil => exact absurd rfl hne
        | cons z a'' => simpa [List.getLast?_cons_cons] using this
    · rename_i hc
      match a, h with
      | [], h => simp at h; exact absurd (Or.inl h.1) hc
      | x :: a', h =>
        simp only [List.cons_append, List.cons.injEq] at h
        have := ih a' h.2
        cases a' with
        | nil => simp at this
        | cons z a'' => simpa [List.getLast?_cons_cons] using this

end esc

theorem append_singleton_split {α} (X Y c : List α) (z : α) (h : X ++ [z] = Y ++ c) (hc : c ≠ []) :
    ∃ c', c = c' ++ [z] ∧ X = Y ++ c' := by
  have h1 := congrArg List.reverse h
  simp only [List.reverse_append, List.reverse_cons, List.reverse_nil, List.nil_append, List.singleton_append] at h1
  cases hr : c.reverse with
  | nil => simp at hr; exact absurd hr hc
  | cons w cr =>
    rw [hr] at h1
    simp only [List.cons_append, List.cons.injEq] at h1
    refine ⟨cr.reverse, ?_, ?_⟩
    · have := congrArg List.reverse hr
      simp only [List.reverse_reverse, List.reverse_cons] at this
      rw [this, h1.1]
    · have := congrArg List.reverse h1.2
      simpa using this





theorem getLast?_some_split {α} (l : List α) (a : α) (h : l.getLast? = some a) : ∃ r0, l = r0 ++ [a] := by
  induction l with
  | nil => simp at h
  | cons b l ih =>
    cases l with
    | nil => simp at h; exact ⟨[], by simp [h]⟩
    | cons c l' =>
      rw [List.getLast?_cons_cons] at h
      obtain ⟨r0, hr0⟩ := ih h
      exact ⟨b :: r0, by rw [hr0]; rfl⟩


/-- the written form of a quoted token -/
def qTok (q : Nat) (also : Nat → Bool) (v : Text) : Text := q :: (hdrEscape q also v ++ [q])

theorem isPySpace_q (q : Nat) (hq : q = SQ ∨ q = DQ) : isPySpace q = false ∧ q ≠ BS ∧ q ≠ COMMA := by
  rcases hq with h | h <;> subst h <;> decide

/-- the complete quoted token settles to the value -/
theorem settle_qTok (q : Nat) (hq : q = SQ ∨ q = DQ) (also : Nat → Bool) (v : Text) (hv : v.contains BS = false) :
    settle (qTok q also v) = .done v := by
  obtain ⟨hq1, hq2, _⟩ := isPySpace_q q hq
  have hr : rstrip (qTok q also v) = qTok q also v := by
    apply rstrip_id
    intro c hc
    unfold qTok at hc
    rw [getLast?_cons_concat] at hc
    cases hc; exact hq1
  unfold settle
  rw [hr]
  unfold qTok
  simp only [List.head?_cons, getLast?_cons_concat, dropLast_cons_concat, ne_eq, not_true_eq_false, if_false, List.tail_cons,
    List.dropLast_concat, List.length_cons, List.length_append, List.length_singleton, List.length_nil]
  have hlen : ¬ ((hdrEscape q also v).length + (0 + 1) + 1 < 2) := by omega
  have hbs : ¬ ((q :: hdrEscape q also v).getLast? = some BS) := by
    cases hE : hdrEscape q also v with
    | nil => simp; exact hq2
    | cons a t =>
      rw [List.getLast?_cons_cons, ← hE, hdrEscape_last]
      intro hl
      have : BS ∈ v := List.mem_of_getLast? hl
      have : v.contains BS = true := by simpa using this
      rw [hv] at this; cases this
  simp only [hlen, hbs, if_false, hdrEscape_filter q also v hv]

/-- H': every proper prefix of a quoted token with at least two characters, the second of which
is not white space, asks for more -/
theorem settle_prefix_more (q : Nat) (hq : q = SQ ∨ q = DQ) (also : Nat → Bool) (v : Text)
    (x : Nat) (pre2 suf : Text) (hT : qTok q also v = q :: x :: pre2 ++ suf) (hsuf : suf ≠ []) (hx : isPySpace x = false) :
    settle (q :: x :: pre2) = .more := by
  obtain ⟨hq1, hq2, _⟩ := isPySpace_q q hq
  obtain ⟨w, hw1, hw2, hw3⟩ := rstrip_spec (q :: x :: pre2)
  -- the stripped prefix still has its first two characters
  have hr2 : ∃ r2, rstrip (q :: x :: pre2) = q :: x :: r2 := by
    cases hr : rstrip (q :: x :: pre2) with
    | nil =>
      rw [hr] at hw1; simp at hw1
      have := hw2 q (by rw [← hw1]; simp)
      rw [hq1] at this; cases this
    | cons a r1 =>
      rw [hr] at hw1
      simp only [List.cons_append, List.cons.injEq] at hw1
      cases r1 with
      | nil =>
        simp only [List.nil_append] at hw1
        have := hw2 x (by rw [← hw1.2]; simp)
        rw [hx] at this; cases this
      | cons b r2 =>
        simp only [List.cons_append, List.cons.injEq] at hw1
        exact ⟨r2, by rw [← hw1.1, ← hw1.2.1]⟩
  obtain ⟨r2, hr⟩ := hr2
  unfold settle
  rw [hr]
  simp only [List.head?_cons]
  cases hl : (q :: x :: r2).getLast? with
  | none => simp at hl
  | some l =>
    simp only
    by_cases hlq : l = q
    · rw [hlq] at hl
      simp only [hlq, ne_eq, not_true_eq_false, if_false, List.length_cons]
      have hlen : ¬ (r2.length + 1 + 1 < 2) := by omega
      simp only [hlen, if_false]
      -- the stripped prefix is `q :: r1 ++ [q]`; that last quote lies inside the escaped text
      obtain ⟨r0, hr0⟩ := getLast?_some_split _ _ hl
      cases r0 with
      | nil => simp at hr0
      | cons a r1 =>
        simp only [List.cons_append, List.cons.injEq] at hr0
        have hx2 : x :: r2 = r1 ++ [q] := hr0.2
        have hdl : (q :: x :: r2).dropLast = q :: r1 := by
          rw [hx2]; exact dropLast_cons_concat q r1 q
        rw [hdl]
        have hT2 : hdrEscape q also v ++ [q] = r1 ++ (q :: (w ++ suf)) := by
          have h1 : q :: x :: pre2 = q :: ((r1 ++ [q]) ++ w) := by
            rw [hw1, hr, hx2]; rfl
          unfold qTok at hT
          rw [h1] at hT
          simp only [List.cons_append, List.cons.injEq, true_and] at hT
          rw [hT]; simp
        obtain ⟨c', hc1, hc2⟩ := append_singleton_split _ _ _ _ hT2 (by simp)
        have hc' : ∃ b, c' = q :: b := by
          cases c' with
          | nil =>
            simp only [List.nil_append, List.cons.injEq] at hc1
            have : w ++ suf = [] := hc1.2
            simp at this
            exact absurd this.2 hsuf
          | cons z c'' =>
            simp only [List.cons_append, List.cons.injEq] at hc1
            exact ⟨c'', by rw [← hc1.1]⟩
        obtain ⟨b, hb⟩ := hc'
        rw [hb] at hc2
        have hBS := hdrEscape_q_pre q also hq2 v r1 b hc2
        have hne : r1 ≠ [] := by intro e; subst e; simp at hBS
        cases r1 with
        | nil => exact absurd rfl hne
        | cons z r1' =>
          rw [List.getLast?_cons_cons, hBS]
          simp
    · simp [hlq]





theorem splitLoop_acc (P : Pat) (n : Option Nat) (c : Nat) (item p : Text) (ps : List Text) :
    splitLoop P n c (some item) (p :: ps) =
      match settle (item ++ p) with
      | .more => splitLoop P n c (some (item ++ p)) ps
      | .indexError => .error .indexError
      | .done v => (match splitLoop P n c none ps with | .error e => .error e | .ok r => .ok (v :: r)) := by
  simp only [splitLoop]
  cases settle (item ++ p) <;> rfl

/-- the gluing loop of `_split`: pieces are appended while the item asks for more -/
theorem splitLoop_glue (P : Pat) (n : Option Nat) (c : Nat) (ps : List Text) (item v : Text) (R : List Text) (hne : ps ≠ [])
    (hmore : ∀ k, 0 < k → k < ps.length → settle (item ++ (ps.take k).flatten) = .more)
    (hdone : settle (item ++ ps.flatten) = .done v) :
    splitLoop P n c (some item) (ps ++ R) =
      match splitLoop P n c none R with | .error e => .error e | .ok r => .ok (v :: r) := by
  induction ps generalizing item with
  | nil => exact absurd rfl hne
  | cons p ps ih =>
    cases ps with
    | nil =>
      simp only [List.flatten_cons, List.flatten_nil, List.append_nil] at hdone
      simp only [List.cons_append, List.nil_append]
      rw [splitLoop_acc, hdone]
    | cons p2 ps' =>
      have h1 := hmore 1 (by omega) (by simp)
      simp only [List.take_succ_cons, List.take_zero, List.flatten_cons, List.flatten_nil, List.append_nil] at h1
      simp only [List.cons_append]
      rw [splitLoop_acc, h1]
      simp only
      have := ih (item ++ p) (by simp) (by
        intro k hk1 hk2
        have := hmore (k + 1) (by omega) (by simp at hk2 ⊢; omega)
        simpa [List.take_succ_cons, List.append_assoc] using this) (by
        simpa [List.append_assoc] using hdone)
      simpa using this

/-! ### the comma splitter -/

theorem splitCommaGo_free (cur a rest : Text) (h : ∀ c ∈ a, c ≠ COMMA) :
    splitCommaGo cur (a ++ rest) = splitCommaGo (cur ++ a) rest := by
  induction a generalizing cur with
  | nil => simp
  | cons c a ih =>
    simp only [List.cons_append, splitCommaGo, h c (by simp), if_false]
    rw [ih (cur ++ [c]) (fun d hd => h d (by simp [hd]))]; simp

theorem splitCommaGo_cur (cur t : Text) :
    splitCommaGo cur t = match splitCommaGo [] t with | hd :: tl => (cur ++ hd) :: tl | [] => [cur] := by
  induction t generalizing cur with
  | nil => simp [splitCommaGo]
  | cons c t ih =>
    by_cases hc : c = COMMA
    · simp [splitCommaGo, hc]
    · simp only [splitCommaGo, hc, if_false, List.nil_append]
      rw [ih (cur ++ [c]), ih [c]]
      cases splitCommaGo [] t <;> simp

theorem splitCommaGo_comma (cur a b : Text) :
    splitCommaGo cur (a ++ COMMA :: b) = splitCommaGo cur a ++ [COMMA] :: splitCommaGo [] b := by
  induction a generalizing cur with
  | nil => simp [splitCommaGo]
  | cons c a ih =>
    by_cases hc : c = COMMA
    · simp [splitCommaGo, hc, ih]
    · simp [splitCommaGo, hc, ih]

theorem splitCommaGo_flatten (cur t : Text) : (splitCommaGo cur t).flatten = cur ++ t := by
  induction t generalizing cur with
  | nil => simp [splitCommaGo]
  | cons c t ih =>
    by_cases hc : c = COMMA
    · simp [splitCommaGo, hc, ih]
    · simp [splitCommaGo, hc, ih]

theorem splitCommaGo_ne_nil (cur t : Text) : splitCommaGo cur t ≠ [] := by
  cases t with
  | nil => simp [splitCommaGo]
  | cons c t => simp only [splitCommaGo]; split <;> simp [splitCommaGo_ne_nil]

/-- a text that ends in a non-comma character: the last piece ends in it -/
theorem splitCommaGo_snoc (cur t : Text) (z : Nat) (hz : z ≠ COMMA) :
    ∃ ps l, splitCommaGo cur (t ++ [z]) = ps ++ [l ++ [z]] := by
  induction t generalizing cur with
  | nil => exact ⟨[], cur, by simp [splitCommaGo, hz]⟩
  | cons c t ih =>
    by_cases hc : c = COMMA
    · obtain ⟨ps, l, h⟩ := ih []
      exact ⟨cur :: [COMMA] :: ps, l, by simp [splitCommaGo, hc, h]⟩
    · obtain ⟨ps, l, h⟩ := ih (cur ++ [c])
      exact ⟨ps, l, by simp [splitCommaGo, hc, h]⟩

theorem drop_flatten_ne_nil (ps : List Text) (x : Text) (hx : x ≠ []) (k : Nat) (hk : k < (ps ++ [x]).length) :
    ((ps ++ [x]).drop k).flatten ≠ [] := by
  have : k ≤ ps.length := by simp at hk; omega
  rw [List.drop_append_of_le_length this]
  simp [hx]





/-- a quoted token cut into pieces `hd :: tl` (by either splitter): entering the quoted branch of
`_split` with `item = hd` yields the value and continues after the pieces -/
theorem splitLoop_token (P : Pat) (n : Option Nat) (c : Nat) (q : Nat) (hq : q = SQ ∨ q = DQ) (also : Nat → Bool) (v : Text)
    (hv : v.contains BS = false) (hd : Text) (tl R : List Text)
    (hflat : hd ++ tl.flatten = qTok q also v)
    (hhd : tl ≠ [] → ∃ e0 hd2, hd = q :: e0 :: hd2 ∧ isPySpace e0 = false)
    (hdrop : ∀ k, k < tl.length → (tl.drop k).flatten ≠ []) :
    (match settle hd with
      | .more => splitLoop P n c (some hd) (tl ++ R)
      | .indexError => .error .indexError
      | .done v' => (match splitLoop P n c none (tl ++ R) with | .error e => .error e | .ok r => .ok (v' :: r))) =
    (match splitLoop P n c none R with | .error e => .error e | .ok r => .ok (v :: r)) := by
  by_cases htl : tl = []
  · subst htl
    simp only [List.flatten_nil, List.append_nil] at hflat
    rw [hflat, settle_qTok q hq also v hv]
    rfl
  · obtain ⟨e0, hd2, hhd', he0⟩ := hhd htl
    have hsuf : tl.flatten ≠ [] := by
      have := hdrop 0 (List.length_pos_iff.mpr htl)
      simpa using this
    have hm : settle hd = .more := by
      rw [hhd']
      exact settle_prefix_more q hq also v e0 hd2 tl.flatten (by rw [← hflat, hhd']) hsuf he0
    rw [hm]
    simp only
    apply splitLoop_glue P n c tl hd v R htl
    · intro k hk1 hk2
      rw [hhd']
      have hT : qTok q also v = q :: e0 :: (hd2 ++ (tl.take k).flatten) ++ (tl.drop k).flatten := by
        rw [← hflat, hhd']
        have : tl.flatten = (tl.take k).flatten ++ (tl.drop k).flatten := by
          rw [← List.flatten_append, List.take_append_drop]
        rw [this]; simp
      have := settle_prefix_more q hq also v e0 (hd2 ++ (tl.take k).flatten) _ hT (hdrop k hk2) he0
      simpa using this
    · rw [hflat]; exact settle_qTok q hq also v hv

theorem lstrip_lead (lead t : Text) (hl : ∀ c ∈ lead, isPySpace c = true) (ht : ∀ c, t.head? = some c → isPySpace c = false) :
    lstrip (lead ++ t) = t := by
  unfold lstrip
  rw [dropWhile_all_append isPySpace lead t hl, dropWhile_head_false isPySpace t ht]

theorem splitLoop_none (P : Pat) (n : Option Nat) (count : Nat) (p : Text) (ps : List Text) :
    splitLoop P n count none (p :: ps) =
      (if lstrip p = [] ∨ P.matchStart (lstrip p) = true then splitLoop P n count none ps
       else if n = some (count + 1) then .ok [strip (lstrip p ++ ps.flatten)]
       else if (match lstrip p with | c :: _ => isQuoteCh c | [] => false) then
         match settle (lstrip p) with
         | .more => splitLoop P n (count + 1) (some (lstrip p)) ps
         | .indexError => .error .indexError
         | .done v => (match splitLoop P n (count + 1) none ps with | .error e => .error e | .ok r => .ok (v :: r))
       else
         match splitLoop P n (count + 1) none ps with
         | .error e => .error e
         | .ok r => .ok (strip (lstrip p) :: r)) := by
  simp only [splitLoop]
  cases hl : lstrip p with
  | nil => simp
  | cons a t =>
    simp only
    by_cases h1 : (a :: t = [] ∨ P.matchStart (a :: t) = true)
    · simp only [h1, if_true]
    · simp only [h1, if_false]
      by_cases h2 : n = some (count + 1)
      · simp only [h2, if_true]
      · simp only [h2, if_false]
        by_cases h3 : isQuoteCh a = true
        · simp only [h3, if_true]
          cases settle (a :: t) <;> rfl
        · simp only [h3, Bool.false_eq_true, if_false]
          cases splitLoop P n (count + 1) none ps <;> rfl





theorem quotedOk_parts (isLevel : Bool) (v : Text) (h : quotedOk isLevel v = true) :
    v.contains BS = false ∧ ∀ c, v.head? = some c → isPySpace c = false ∧ (isLevel = true → c ≠ COMMA) := by
  unfold quotedOk at h
  simp only [Bool.and_eq_true, Bool.not_eq_true'] at h
  refine ⟨h.1, ?_⟩
  intro c hc
  cases v with
  | nil => simp at hc
  | cons a t =>
    simp at hc; subst hc
    have := h.2
    simp only [Bool.and_eq_true, Bool.not_eq_true', Bool.and_eq_false_iff, beq_eq_false_iff_ne] at this
    refine ⟨this.1, fun hl => ?_⟩
    rcases this.2 with h' | h'
    · rw [hl] at h'; cases h'
    · exact h'

theorem ws_ne_comma (c : Nat) (h : isPySpace c = true) : c ≠ COMMA := by
  intro e; subst e; revert h; decide

/-- the pieces of a quoted level, cut at its commas -/
theorem comma_pieces (q : Nat) (hq : q = SQ ∨ q = DQ) (also : Nat → Bool) (v : Text) (hv : quotedOk true v = true) :
    ∃ h0 tl, splitCommaGo [] (qTok q also v) = (q :: h0) :: tl ∧ (q :: h0) ++ tl.flatten = qTok q also v ∧
      (tl ≠ [] → ∃ e0 hd2, q :: h0 = q :: e0 :: hd2 ∧ isPySpace e0 = false) ∧
      (∀ k, k < tl.length → (tl.drop k).flatten ≠ []) := by
  obtain ⟨hq1, hq2, hq3⟩ := isPySpace_q q hq
  obtain ⟨_, hhead⟩ := quotedOk_parts true v hv
  have hstart : splitCommaGo [] (qTok q also v) = splitCommaGo [q] (hdrEscape q also v ++ [q]) := by
    simp [qTok, splitCommaGo, hq3]
  have hcur := splitCommaGo_cur [q] (hdrEscape q also v ++ [q])
  cases hp : splitCommaGo [] (hdrEscape q also v ++ [q]) with
  | nil => exact absurd hp (splitCommaGo_ne_nil _ _)
  | cons h0 tl =>
    rw [hp] at hcur
    simp only at hcur
    have hpieces : splitCommaGo [] (qTok q also v) = (q :: h0) :: tl := by rw [hstart, hcur]; rfl
    have hflat : (q :: h0) ++ tl.flatten = qTok q also v := by
      have := splitCommaGo_flatten [] (qTok q also v)
      rw [hpieces] at this
      simpa using this
    refine ⟨h0, tl, hpieces, hflat, ?_, ?_⟩
    · intro htl
      cases hE : hdrEscape q also v with
      | nil =>
        exfalso
        rw [hE] at hp
        simp [splitCommaGo, hq3] at hp
        exact htl hp.2
      | cons e0 E' =>
        have he0 : isPySpace e0 = false ∧ e0 ≠ COMMA := by
          rcases hdrEscape_head q also v e0 (by rw [hE]; rfl) with h | h
          · subst h; exact ⟨by decide, by decide⟩
          · exact ⟨(hhead e0 h).1, (hhead e0 h).2 rfl⟩
        rw [hE] at hp
        have h2 : splitCommaGo [] (e0 :: E' ++ [q]) = splitCommaGo [e0] (E' ++ [q]) := by
          simp [splitCommaGo, he0.2]
        rw [h2, splitCommaGo_cur [e0]] at hp
        cases hp2 : splitCommaGo [] (E' ++ [q]) with
        | nil => exact absurd hp2 (splitCommaGo_ne_nil _ _)
        | cons h1 t1 =>
          rw [hp2] at hp
          simp only [List.cons.injEq] at hp
          exact ⟨e0, h1, by rw [← hp.1]; rfl, he0.1⟩
    · intro k hk
      obtain ⟨ps, l, hsn⟩ := splitCommaGo_snoc [] (q :: hdrEscape q also v) q hq3
      have hT : qTok q also v = (q :: hdrEscape q also v) ++ [q] := rfl
      rw [← hT, hpieces] at hsn
      have := drop_flatten_ne_nil ps (l ++ [q]) (by simp) (k + 1) (by rw [← hsn]; simp; omega)
      rw [← hsn] at this
      simpa using this

/-- one quoted level (after the blanks that follow a comma) -/
theorem splitLoop_comma_quoted (q : Nat) (hq : q = SQ ∨ q = DQ) (also : Nat → Bool) (v : Text) (hv : quotedOk true v = true)
    (lead : Text) (hl : ∀ c ∈ lead, isPySpace c = true) (count : Nat) (R : List Text) :
    splitLoop .comma none count none (splitCommaGo [] (lead ++ qTok q also v) ++ R) =
      match splitLoop .comma none (count + 1) none R with | .error e => .error e | .ok r => .ok (v :: r) := by
  obtain ⟨hq1, hq2, hq3⟩ := isPySpace_q q hq
  obtain ⟨h0, tl, hpieces, hflat, hhd, hdrop⟩ := comma_pieces q hq also v hv
  have hsplit : splitCommaGo [] (lead ++ qTok q also v) = (lead ++ q :: h0) :: tl := by
    rw [splitCommaGo_free [] lead _ (fun c hc => ws_ne_comma c (hl c hc)), splitCommaGo_cur, hpieces]
    simp
  rw [hsplit]
  simp only [List.cons_append]
  rw [splitLoop_none]
  have hls : lstrip (lead ++ q :: h0) = q :: h0 := lstrip_lead lead _ hl (by intro c hc; simp at hc; subst hc; exact hq1)
  have hqc : isQuoteCh q = true := by rcases hq with h | h <;> subst h <;> decide
  have hms : Pat.matchStart .comma (q :: h0) = false := by simp [Pat.matchStart, hq3]
  simp only [hls, hms, hqc, if_true, reduceCtorEq, or_self, if_false, Bool.false_eq_true]
  exact splitLoop_token .comma none (count + 1) q hq also v (quotedOk_parts true v hv).1 (q :: h0) tl R hflat hhd hdrop

theorem bareTokOk_level (v : Text) (h : bareTokOk true v = true) :
    v ≠ [] ∧ (∀ c, v.head? = some c → isQuoteCh c = false ∧ isPySpace c = false) ∧
    (∀ c, v.getLast? = some c → isPySpace c = false) ∧ (∀ c ∈ v, c ≠ COMMA) := by
  unfold bareTokOk at h
  simp only [Bool.and_eq_true, decide_eq_true_eq, if_true, Bool.not_eq_true'] at h
  obtain ⟨⟨⟨h1, h2⟩, h3⟩, h4⟩ := h
  refine ⟨h1, ?_, ?_, ?_⟩
  · intro c hc
    cases v with
    | nil => simp at hc
    | cons a t => simp at hc; subst hc; simpa using h2
  · intro c hc; rw [hc] at h3; simpa using h3
  · intro c hc e; subst e
    have : v.contains COMMA = true := by simpa using hc
    rw [h4] at this; cases this

theorem splitLoop_comma_bare (v : Text) (hv : bareTokOk true v = true)
    (lead : Text) (hl : ∀ c ∈ lead, isPySpace c = true) (count : Nat) (R : List Text) :
    splitLoop .comma none count none (splitCommaGo [] (lead ++ v) ++ R) =
      match splitLoop .comma none (count + 1) none R with | .error e => .error e | .ok r => .ok (v :: r) := by
  obtain ⟨h1, h2, h3, h4⟩ := bareTokOk_level v hv
  have hsplit : splitCommaGo [] (lead ++ v) = [lead ++ v] := by
    have := splitCommaGo_free [] (lead ++ v) [] (by
      intro c hc; simp only [List.mem_append] at hc
      rcases hc with hc | hc
      · exact ws_ne_comma c (hl c hc)
      · exact h4 c hc)
    simpa [splitCommaGo] using this
  rw [hsplit]
  simp only [List.cons_append, List.nil_append]
  rw [splitLoop_none]
  have hls : lstrip (lead ++ v) = v := lstrip_lead lead v hl (fun c hc => (h2 c hc).2)
  cases hv' : v with
  | nil => exact absurd hv' h1
  | cons a t =>
    rw [hv'] at hls h2 h3 h4
    have ha := h2 a rfl
    have hms : Pat.matchStart .comma (a :: t) = false := by simp [Pat.matchStart, h4 a (by simp)]
    have hst : strip (a :: t) = a :: t := strip_id _ (fun c hc => (h2 c hc).2) h3
    simp only [hls, hms, ha.1, hst, reduceCtorEq, or_self, if_false, Bool.false_eq_true]
    try (cases splitLoop Pat.comma none (count + 1) none R <;> rfl)





theorem hdr_level_tok (q : Nat) (hq : q = SQ ∨ q = DQ) (also : Nat → Bool) (x : Bool × Text) (hx : hdrTokOk true x = true)
    (lead : Text) (hl : ∀ c ∈ lead, isPySpace c = true) (count : Nat) (R : List Text) :
    splitLoop .comma none count none (splitCommaGo [] (lead ++ hdrWriteTok q also x) ++ R) =
      match splitLoop .comma none (count + 1) none R with | .error e => .error e | .ok r => .ok (x.2 :: r) := by
  unfold hdrTokOk at hx
  unfold hdrWriteTok
  by_cases h1 : x.1 = true
  · simp only [h1, if_true] at hx ⊢
    exact splitLoop_comma_quoted q hq also x.2 hx lead hl count R
  · simp only [h1, Bool.false_eq_true, if_false] at hx ⊢
    exact splitLoop_comma_bare x.2 hx lead hl count R

theorem splitLoop_levels (q : Nat) (hq : q = SQ ∨ q = DQ) (also : Nat → Bool) (pad : Nat) (levels : List (Bool × Text))
    (hne : levels ≠ []) (hok : ∀ x ∈ levels, hdrTokOk true x = true)
    (lead : Text) (hl : ∀ c ∈ lead, isPySpace c = true) (count : Nat) :
    splitLoop .comma none count none (splitCommaGo [] (lead ++ hdrWriteLevels q also pad levels)) = .ok (levels.map (·.2)) := by
  induction levels generalizing lead count with
  | nil => exact absurd rfl hne
  | cons x xs ih =>
    cases xs with
    | nil =>
      have := hdr_level_tok q hq also x (hok x (by simp)) lead hl count []
      simp only [List.append_nil] at this
      simp only [hdrWriteLevels, this, splitLoop]
      simp
    | cons y ys =>
      simp only [hdrWriteLevels]
      rw [← List.append_assoc, splitCommaGo_comma]
      rw [hdr_level_tok q hq also x (hok x (by simp)) lead hl count]
      rw [splitLoop_none]
      have h1 : lstrip [COMMA] = [COMMA] := by decide
      have h2 : Pat.matchStart .comma [COMMA] = true := by decide
      simp only [h1, h2, or_true, if_true]
      rw [ih (by simp) (fun z hz => hok z (by simp at hz ⊢; right; exact hz)) (List.replicate pad 32)
        (by intro c hc; simp only [List.mem_replicate] at hc; rw [hc.2]; decide)]
      simp

theorem arffSplit_levels' (q : Nat) (hq : q = SQ ∨ q = DQ) (also : Nat → Bool) (pad : Nat) (levels : List (Bool × Text))
    (hne : levels ≠ []) (hok : ∀ x ∈ levels, hdrTokOk true x = true) :
    arffSplit .comma none (hdrWriteLevels q also pad levels) = .ok (levels.map (·.2)) := by
  have := splitLoop_levels q hq also pad levels hne hok [] (by simp) 0
  simpa [arffSplit, Pat.pieces, splitComma] using this

theorem dedup_nodup (vs : List Text) (h : vs.Nodup) : dedup vs = vs := by
  induction vs with
  | nil => rfl
  | cons a vs ih =>
    simp only [List.nodup_cons] at h
    have : vs.contains a = false := by
      cases hc : vs.contains a with
      | false => rfl
      | true => simp only [List.contains_iff_mem] at hc; exact absurd hc h.1
    simp [dedup, h.1, ih h.2]

theorem catLevels_nodup (vs : List Text) (hne : vs ≠ []) (h : vs.Nodup) : catLevels vs = .ok vs := by
  simp [catLevels, hne, dedup_nodup vs h]

theorem encoder_brace_kw (t : Text) :
    kwNumeric.contains (lowerAscii (LBRACE :: t)) = false ∧ kwString.any (fun k => startsWith k (lowerAscii (LBRACE :: t))) = false := by
  constructor
  · simp [kwNumeric, lowerAscii, LBRACE]
  · simp [kwString, startsWith, lowerAscii, LBRACE]

/-- a nominal type `{l1, l2, …}` -/
theorem arffEncoder_nominal' (isDense : Bool) (q : Nat) (hq : q = SQ ∨ q = DQ) (also : Nat → Bool) (pad : Nat)
    (levels : List (Bool × Text)) (hne : levels ≠ []) (hok : ∀ x ∈ levels, hdrTokOk true x = true)
    (hnd : (if isDense then levels.map (·.2) else ZERO :: levels.map (·.2)).Nodup) :
    arffEncoder isDense (LBRACE :: (hdrWriteLevels q also pad levels ++ [RBRACE])) =
      .ok (.nominal (if isDense then levels.map (·.2) else ZERO :: levels.map (·.2))) := by
  obtain ⟨k1, k2⟩ := encoder_brace_kw (hdrWriteLevels q also pad levels ++ [RBRACE])
  unfold arffEncoder
  simp only [k1, k2, Bool.false_eq_true, if_false, List.head?_cons, if_true, List.tail_cons, List.dropLast_concat]
  rw [arffSplit_levels' q hq also pad levels hne hok]
  simp only
  rw [catLevels_nodup _ (by cases isDense <;> simp [hne]) hnd]





/-! ### the white-space splitter -/

theorem splitWsGo_free (cur a rest : Text) (h : ∀ c ∈ a, isPySpace c = false) :
    splitWsGo cur false (a ++ rest) = splitWsGo (cur ++ a) false rest := by
  induction a generalizing cur with
  | nil => simp
  | cons c a ih =>
    simp only [List.cons_append, splitWsGo, h c (by simp), Bool.false_eq_true, if_false]
    rw [ih (cur ++ [c]) (fun d hd => h d (by simp [hd]))]; simp

theorem splitWsGo_wsrun (cur w rest : Text) (h : ∀ c ∈ w, isPySpace c = true) :
    splitWsGo cur true (w ++ rest) = splitWsGo (cur ++ w) true rest := by
  induction w generalizing cur with
  | nil => simp
  | cons c w ih =>
    simp only [List.cons_append, splitWsGo, h c (by simp), if_true]
    rw [ih (cur ++ [c]) (fun d hd => h d (by simp [hd]))]; simp

theorem splitWsGo_ne_nil (cur : Text) (iw : Bool) (t : Text) : splitWsGo cur iw t ≠ [] := by
  cases t with
  | nil => simp [splitWsGo]
  | cons c t => simp only [splitWsGo]; split <;> split <;> simp [splitWsGo_ne_nil]

theorem splitWsGo_cur (cur : Text) (iw : Bool) (t : Text) :
    splitWsGo cur iw t = match splitWsGo [] iw t with | hd :: tl => (cur ++ hd) :: tl | [] => [cur] := by
  induction t generalizing cur iw with
  | nil => simp [splitWsGo]
  | cons c t ih =>
    simp only [splitWsGo]
    split <;> split
    · rw [ih (cur ++ [c]) true, ih ([] ++ [c]) true]
      cases splitWsGo [] true t <;> simp
    · simp
    · simp
    · rw [ih (cur ++ [c]) false, ih ([] ++ [c]) false]
      cases splitWsGo [] false t <;> simp

theorem splitWsGo_flatten (cur : Text) (iw : Bool) (t : Text) : (splitWsGo cur iw t).flatten = cur ++ t := by
  induction t generalizing cur iw with
  | nil => simp [splitWsGo]
  | cons c t ih =>
    simp only [splitWsGo]
    split <;> split <;> simp [ih]

/-- a text that ends in a non-white-space character, followed by white space -/
theorem splitWsGo_then_ws (cur : Text) (iw : Bool) (a : Text) (z w0 : Nat) (rest : Text)
    (hz : isPySpace z = false) (hw : isPySpace w0 = true) :
    splitWsGo cur iw (a ++ z :: w0 :: rest) = splitWsGo cur iw (a ++ [z]) ++ splitWsGo [w0] true rest := by
  induction a generalizing cur iw with
  | nil =>
    cases iw <;> simp [splitWsGo, hz, hw]
  | cons c a ih =>
    simp only [List.cons_append, splitWsGo]
    split <;> split <;> simp [ih]

theorem splitWsGo_snoc (cur : Text) (iw : Bool) (t : Text) (z : Nat) (hz : isPySpace z = false) :
    ∃ ps l, splitWsGo cur iw (t ++ [z]) = ps ++ [l ++ [z]] := by
  induction t generalizing cur iw with
  | nil =>
    cases iw
    · exact ⟨[], cur, by simp [splitWsGo, hz]⟩
    · exact ⟨[cur], [], by simp [splitWsGo, hz]⟩
  | cons c t ih =>
    simp only [List.cons_append, splitWsGo]
    split <;> split
    · obtain ⟨ps, l, h⟩ := ih (cur ++ [c]) true; exact ⟨ps, l, h⟩
    · obtain ⟨ps, l, h⟩ := ih [c] true; exact ⟨cur :: ps, l, by simp [h]⟩
    · obtain ⟨ps, l, h⟩ := ih [c] false; exact ⟨cur :: ps, l, by simp [h]⟩
    · obtain ⟨ps, l, h⟩ := ih (cur ++ [c]) false; exact ⟨ps, l, h⟩





theorem ws_pieces (q : Nat) (hq : q = SQ ∨ q = DQ) (also : Nat → Bool) (v : Text) (hv : quotedOk false v = true) :
    ∃ h0 tl, splitWsGo [] false (qTok q also v) = (q :: h0) :: tl ∧ (q :: h0) ++ tl.flatten = qTok q also v ∧
      (tl ≠ [] → ∃ e0 hd2, q :: h0 = q :: e0 :: hd2 ∧ isPySpace e0 = false) ∧
      (∀ k, k < tl.length → (tl.drop k).flatten ≠ []) := by
  obtain ⟨hq1, hq2, hq3⟩ := isPySpace_q q hq
  obtain ⟨_, hhead⟩ := quotedOk_parts false v hv
  have hstart : splitWsGo [] false (qTok q also v) = splitWsGo [q] false (hdrEscape q also v ++ [q]) := by
    simp [qTok, splitWsGo, hq1]
  have hcur := splitWsGo_cur [q] false (hdrEscape q also v ++ [q])
  cases hp : splitWsGo [] false (hdrEscape q also v ++ [q]) with
  | nil => exact absurd hp (splitWsGo_ne_nil _ _ _)
  | cons h0 tl =>
    rw [hp] at hcur
    simp only at hcur
    have hpieces : splitWsGo [] false (qTok q also v) = (q :: h0) :: tl := by rw [hstart, hcur]; rfl
    have hflat : (q :: h0) ++ tl.flatten = qTok q also v := by
      have := splitWsGo_flatten [] false (qTok q also v)
      rw [hpieces] at this
      simpa using this
    refine ⟨h0, tl, hpieces, hflat, ?_, ?_⟩
    · intro htl
      cases hE : hdrEscape q also v with
      | nil =>
        exfalso
        rw [hE] at hp
        simp [splitWsGo, hq1] at hp
        exact htl hp.2
      | cons e0 E' =>
        have he0 : isPySpace e0 = false := by
          rcases hdrEscape_head q also v e0 (by rw [hE]; rfl) with h | h
          · subst h; decide
          · exact (hhead e0 h).1
        rw [hE] at hp
        have h2 : splitWsGo [] false (e0 :: E' ++ [q]) = splitWsGo [e0] false (E' ++ [q]) := by
          simp [splitWsGo, he0]
        rw [h2, splitWsGo_cur [e0]] at hp
        cases hp2 : splitWsGo [] false (E' ++ [q]) with
        | nil => exact absurd hp2 (splitWsGo_ne_nil _ _ _)
        | cons h1 t1 =>
          rw [hp2] at hp
          simp only [List.cons.injEq] at hp
          exact ⟨e0, h1, by rw [← hp.1]; rfl, he0⟩
    · intro k hk
      obtain ⟨ps, l, hsn⟩ := splitWsGo_snoc [] false (q :: hdrEscape q also v) q hq1
      have hT : qTok q also v = (q :: hdrEscape q also v) ++ [q] := rfl
      rw [← hT, hpieces] at hsn
      have := drop_flatten_ne_nil ps (l ++ [q]) (by simp) (k + 1) (by rw [← hsn]; simp; omega)
      rw [← hsn] at this
      simpa using this

theorem bareTokOk_name (v : Text) (h : bareTokOk false v = true) :
    v ≠ [] ∧ (∀ c, v.head? = some c → isQuoteCh c = false) ∧ (∀ c ∈ v, isPySpace c = false) := by
  unfold bareTokOk at h
  simp only [Bool.and_eq_true, decide_eq_true_eq, Bool.false_eq_true, if_false, Bool.not_eq_true'] at h
  obtain ⟨⟨⟨h1, h2⟩, _⟩, h4⟩ := h
  refine ⟨h1, ?_, ?_⟩
  · intro c hc
    cases v with
    | nil => simp at hc
    | cons a t => simp at hc; subst hc; simp at h2; exact h2.1
  · intro c hc
    have := List.all_eq_true.mp h4 c hc
    simpa using this

/-- the tail of an attribute line after the name: white space, then the type text -/
theorem splitLoop_after_name (w0 : Nat) (W' : Text) (t0 : Nat) (typ' : Text) (hw0 : isPySpace w0 = true)
    (hW : ∀ c ∈ W', isPySpace c = true) (ht0 : isPySpace t0 = false) (hst : strip (t0 :: typ') = t0 :: typ') :
    splitLoop .ws (some 2) 1 none (splitWsGo [w0] true (W' ++ t0 :: typ')) = .ok [t0 :: typ'] := by
  rw [splitWsGo_wsrun [w0] W' _ hW]
  have e1 : splitWsGo ([w0] ++ W') true (t0 :: typ') = ([w0] ++ W') :: splitWsGo [t0] false typ' := by
    simp [splitWsGo, ht0]
  rw [e1, splitLoop_none]
  have hl : lstrip ([w0] ++ W') = [] := by
    unfold lstrip
    exact dropWhile_all isPySpace _ (by
      intro c hc; simp only [List.mem_append, List.mem_singleton] at hc
      rcases hc with rfl | hc
      · exact hw0
      · exact hW c hc)
  simp only [hl, true_or, if_true]
  rw [splitWsGo_cur [t0] false typ']
  cases hp : splitWsGo [] false typ' with
  | nil => exact absurd hp (splitWsGo_ne_nil _ _ _)
  | cons h1 t1 =>
    simp only
    rw [splitLoop_none]
    have hl2 : lstrip (t0 :: h1) = t0 :: h1 := by
      unfold lstrip; simp [List.dropWhile, ht0]
    have hms : Pat.matchStart .ws (t0 :: h1) = false := by simp [Pat.matchStart, ht0]
    have hfl : t0 :: h1 ++ t1.flatten = t0 :: typ' := by
      have := splitWsGo_flatten [] false typ'
      rw [hp] at this
      simp only [List.flatten_cons, List.nil_append] at this
      simp [this]
    simp only [List.singleton_append, hl2, hms, reduceCtorEq, or_self, if_false, Bool.false_eq_true, if_true]
    rw [hfl, hst]

/-- `_split(line[11:], r_space, n=2)` on `name  type` gives the name and the type text -/
theorem arffSplit_attr' (q : Nat) (hq : q = SQ ∨ q = DQ) (also : Nat → Bool) (name : Bool × Text) (hn : hdrTokOk false name = true)
    (w0 : Nat) (W' : Text) (t0 : Nat) (typ' : Text) (hw0 : isPySpace w0 = true)
    (hW : ∀ c ∈ W', isPySpace c = true) (ht0 : isPySpace t0 = false) (hst : strip (t0 :: typ') = t0 :: typ') :
    arffSplit .ws (some 2) (hdrWriteTok q also name ++ (w0 :: W') ++ t0 :: typ') = .ok [name.2, t0 :: typ'] := by
  obtain ⟨hq1, hq2, hq3⟩ := isPySpace_q q hq
  unfold arffSplit Pat.pieces splitWs
  unfold hdrTokOk at hn
  unfold hdrWriteTok
  by_cases h1 : name.1 = true
  · simp only [h1, if_true] at hn ⊢
    -- quoted name: `q :: E ++ [q]` ends in the non-blank `q`
    have hT : q :: (hdrEscape q also name.2 ++ [q]) ++ w0 :: W' ++ t0 :: typ' =
        (q :: hdrEscape q also name.2) ++ q :: w0 :: (W' ++ t0 :: typ') := by simp
    rw [hT, splitWsGo_then_ws [] false _ q w0 _ hq1 hw0]
    obtain ⟨h0, tl, hpieces, hflat, hhd, hdrop⟩ := ws_pieces q hq also name.2 hn
    have hT2 : (q :: hdrEscape q also name.2) ++ [q] = qTok q also name.2 := rfl
    rw [hT2, hpieces]
    simp only [List.cons_append]
    rw [splitLoop_none]
    have hls : lstrip (q :: h0) = q :: h0 := by unfold lstrip; simp [List.dropWhile, hq1]
    have hqc : isQuoteCh q = true := by rcases hq with h | h <;> subst h <;> decide
    have hms : Pat.matchStart .ws (q :: h0) = false := by simp [Pat.matchStart, hq1]
    have hn2 : ¬ ((some 2 : Option Nat) = some (0 + 1)) := by decide
    simp only [hls, hms, hqc, hn2, if_true, reduceCtorEq, or_self, if_false, Bool.false_eq_true]
    rw [splitLoop_token .ws (some 2) (0 + 1) q hq also name.2 (quotedOk_parts false _ hn).1 (q :: h0) tl _ hflat hhd hdrop]
    rw [splitLoop_after_name w0 W' t0 typ' hw0 hW ht0 hst]
  · simp only [h1, Bool.false_eq_true, if_false] at hn ⊢
    obtain ⟨hb1, hb2, hb3⟩ := bareTokOk_name name.2 hn
    -- bare name: no white space inside
    rw [List.append_assoc, splitWsGo_free [] name.2 _ hb3]
    have e1 : splitWsGo ([] ++ name.2) false ((w0 :: W') ++ t0 :: typ') = name.2 :: splitWsGo [w0] true (W' ++ t0 :: typ') := by
      simp [splitWsGo, hw0]
    rw [e1, splitLoop_none]
    have hls : lstrip name.2 = name.2 := by
      unfold lstrip
      exact dropWhile_head_false isPySpace _ (fun c hc => hb3 c (List.mem_of_mem_head? hc))
    cases hnm : name.2 with
    | nil => exact absurd hnm hb1
    | cons a t =>
      rw [hnm] at hls hb2 hb3
      have ha := hb2 a rfl
      have hms : Pat.matchStart .ws (a :: t) = false := by simp [Pat.matchStart, hb3 a (by simp)]
      have hn2 : ¬ ((some 2 : Option Nat) = some (0 + 1)) := by decide
      have hst2 : strip (a :: t) = a :: t := strip_id _ (fun c hc => hb3 c (List.mem_of_mem_head? hc))
        (fun c hc => hb3 c (List.mem_of_getLast? hc))
      simp only [hls, hms, ha, hn2, hst2, reduceCtorEq, or_self, if_false, Bool.false_eq_true]
      rw [splitLoop_after_name w0 W' t0 typ' hw0 hW ht0 hst]





theorem length_dropWhile_le' {α} (p : α → Bool) (l : List α) : (l.dropWhile p).length ≤ l.length := by
  induction l with
  | nil => simp
  | cons a l ih =>
    simp only [List.dropWhile]
    split
    · simp only [List.length_cons]; omega
    · simp

theorem strip_self_head (t : Text) (h : strip t = t) : ∀ c, t.head? = some c → isPySpace c = false := by
  intro c hc
  cases t with
  | nil => simp at hc
  | cons a r =>
    simp at hc; subst hc
    cases ha : isPySpace a with
    | false => rfl
    | true =>
      exfalso
      have hlen : (strip (a :: r)).length ≤ r.length := by
        unfold strip
        simp only [List.dropWhile, ha, List.length_reverse]
        calc (List.dropWhile isPySpace (List.dropWhile isPySpace r).reverse).length
            ≤ ((List.dropWhile isPySpace r).reverse).length := length_dropWhile_le' _ _
          _ = (List.dropWhile isPySpace r).length := by simp
          _ ≤ r.length := length_dropWhile_le' _ _
      rw [h] at hlen
      simp only [List.length_cons] at hlen
      omega

theorem typeW_facts (isDense : Bool) (q : Nat) (hq : q = SQ ∨ q = DQ) (also : Nat → Bool) (t : TypeW) (h : t.ok isDense = true) :
    t.text q also ≠ [] ∧ strip (t.text q also) = t.text q also ∧ arffEncoder isDense (t.text q also) = .ok (t.enc isDense) := by
  cases t with
  | numeric w =>
    simp only [TypeW.ok, Bool.and_eq_true, beq_iff_eq] at h
    refine ⟨?_, h.2, ?_⟩
    · intro e; simp only [TypeW.text] at e; rw [e] at h; revert h; decide
    · simp only [TypeW.text, TypeW.enc, arffEncoder, h.1, if_true]
  | string w =>
    simp only [TypeW.ok, Bool.and_eq_true, beq_iff_eq, Bool.not_eq_true', bne_iff_ne, ne_eq] at h
    obtain ⟨⟨⟨h1, h2⟩, h3⟩, h4⟩ := h
    refine ⟨?_, h3, ?_⟩
    · intro e; simp only [TypeW.text] at e; rw [e] at h2; revert h2; decide
    · simp only [TypeW.text, TypeW.enc, arffEncoder, h1, Bool.false_eq_true, if_false, h2, if_true]
  | nominal pad levels =>
    simp only [TypeW.ok, Bool.and_eq_true, decide_eq_true_eq] at h
    obtain ⟨⟨h1, h2⟩, h3⟩ := h
    refine ⟨by simp [TypeW.text], ?_, ?_⟩
    · apply strip_id
      · intro c hc; simp [TypeW.text] at hc; subst hc; decide
      · intro c hc
        simp only [TypeW.text] at hc
        rw [getLast?_cons_concat] at hc
        cases hc; decide
    · simp only [TypeW.text, TypeW.enc]
      exact arffEncoder_nominal' isDense q hq also pad levels h1 (fun x hx => List.all_eq_true.mp h2 x hx) h3

theorem arffAttrs_written (isDense : Bool) (q : Nat) (hq : q = SQ ∨ q = DQ) (also : Nat → Bool) (attrs : List AttrW) (seen : List Text)
    (hok : ∀ a ∈ attrs, a.ok isDense = true) (hnd : (attrs.map (·.name.2)).Nodup) (hseen : ∀ a ∈ attrs, a.name.2 ∉ seen) :
    arffAttrs isDense seen (attrs.map (·.line q also)) = .ok (attrs.map (fun a => (a.name.2, a.typ.enc isDense))) := by
  induction attrs generalizing seen with
  | nil => rfl
  | cons a as ih =>
    have ha := hok a (by simp)
    simp only [AttrW.ok, Bool.and_eq_true, beq_iff_eq, decide_eq_true_eq] at ha
    obtain ⟨⟨⟨⟨hkw, hname⟩, hg1⟩, hg2⟩, htyp⟩ := ha
    obtain ⟨ht1, ht2, ht3⟩ := typeW_facts isDense q hq also a.typ htyp
    have hlen : a.kw.length = 10 := by
      have := congrArg List.length hkw
      rw [lowerAscii_length] at this
      rw [this]; rfl
    have htake : (a.line q also).take 10 = a.kw := by
      unfold AttrW.line
      rw [List.take_append_of_le_length (by omega), List.take_of_length_le (by omega)]
    have hdrop : (a.line q also).drop 11 = hdrWriteTok q also a.name ++ a.gap ++ a.typ.text q also := by
      unfold AttrW.line
      rw [show (11 : Nat) = a.kw.length + 1 by omega, List.drop_append]
      simp
    cases hgap : a.gap with
    | nil => exact absurd hgap hg1
    | cons w0 W' =>
      cases htx : a.typ.text q also with
      | nil => exact absurd htx ht1
      | cons t0 typ' =>
        have hW : ∀ c ∈ a.gap, isPySpace c = true := fun c hc => List.all_eq_true.mp hg2 c hc
        rw [hgap] at hW
        have ht0 : isPySpace t0 = false := strip_self_head _ ht2 t0 (by rw [htx]; rfl)
        have hsplit := arffSplit_attr' q hq also a.name hname w0 W' t0 typ' (hW w0 (by simp))
          (fun c hc => hW c (by simp [hc])) ht0 (by rw [← htx]; exact ht2)
        simp only [List.map_cons, arffAttrs, htake, hkw, if_true, hdrop, hgap, htx]
        have hsplit' : arffSplit Pat.ws (some 2) (hdrWriteTok q also a.name ++ w0 :: W' ++ t0 :: typ') = .ok [a.name.2, t0 :: typ'] := by
          simpa using hsplit
        rw [hsplit']
        simp only
        have hns : seen.contains a.name.2 = false := by
          cases hc : seen.contains a.name.2 with
          | false => rfl
          | true => simp only [List.contains_iff_mem] at hc; exact absurd hc (hseen a (by simp))
        simp only [hns, Bool.false_eq_true, if_false]
        rw [← htx, ht3]
        simp only [List.map_cons, List.nodup_cons] at hnd
        rw [ih (a.name.2 :: seen) (fun b hb => hok b (by simp [hb])) hnd.2 (by
          intro b hb
          simp only [List.mem_cons, not_or]
          refine ⟨?_, hseen b (by simp [hb])⟩
          intro e
          exact hnd.1 (by rw [← e]; exact List.mem_map_of_mem hb))]



/-! ## D.3 whole ARFF files -/


def toF (s : ALR) : ALRF := ⟨s.started, false, s.qc, s.delim, none⟩

theorem arffSimple_full (n : Nat) (s : ALR) (line : Text) (s' : ALR) (r : List Text)
    (h : arffSimple n s line = .ok (s', r)) : arffSimpleF n (toF s) line = .ok (toF s', r) := by
  unfold arffSimple at h
  unfold arffSimpleF
  simp only [toF]
  cases hq : simpleQuote s.qc line with
  | none => rw [hq] at h; cases h
  | some qc1 =>
    rw [hq] at h
    simp only at h ⊢
    cases hc : csvFirst (arffDialect s.delim qc1) line with
    | error e => rw [hc] at h; cases h
    | ok rr =>
      rw [hc] at h
      simp only at h ⊢
      by_cases hl : rr.length = n
      · simp only [hl, if_true] at h ⊢
        cases h
        rfl
      · simp [hl] at h

theorem arffLineStep_full (n : Nat) (s : ALR) (line : Text) (s' : ALR) (r : List Text)
    (h : arffLineStep n s line = .ok (s', r)) : arffLineStepF n (toF s) line = .ok (toF s', r) := by
  obtain ⟨st, adv, qc0, dl⟩ := s
  unfold arffLineStep at h
  unfold arffLineStepF
  simp only [toF, Bool.false_eq_true, if_false] at h ⊢
  cases st with
  | true =>
    simp only [if_true] at h ⊢
    exact arffSimple_full n ⟨true, adv, qc0, dl⟩ line s' r h
  | false =>
    simp only [Bool.false_eq_true, if_false] at h ⊢
    unfold arffFirst at h
    unfold arffFirstF
    by_cases hb : (line.contains DQ && line.contains SQ) = true
    · simp only [hb, if_true] at h; cases h
    · simp only [hb, Bool.false_eq_true, if_false] at h ⊢
      cases hc : csvFirst (arffDialect COMMA (if line.contains DQ = true then some DQ else if line.contains SQ = true then some SQ else none)) line with
      | error e => rw [hc] at h; cases h
      | ok rr =>
        rw [hc] at h
        simp only at h ⊢
        by_cases hl : rr.length = n
        · simp only [hl, if_true] at h ⊢
          exact arffSimple_full n ⟨true, false, _, COMMA⟩ line s' r h
        · simp only [hl, if_false] at h ⊢
          cases hc2 : csvFirst (arffDialect TAB (if line.contains DQ = true then some DQ else if line.contains SQ = true then some SQ else none)) line with
          | error e => rw [hc2] at h; cases h
          | ok r2 =>
            rw [hc2] at h
            simp only at h ⊢
            by_cases hl2 : r2.length = n
            · simp only [hl2, if_true] at h ⊢
              exact arffSimple_full n ⟨true, false, _, TAB⟩ line s' r h
            · simp only [hl2, if_false] at h; cases h





theorem denseRows_of_arffLines (encs : List Enc) (n : Nat) (items : List (Text × List Text × List Cell)) (s : ALR)
    (h : arffLines n s (items.map (·.1)) = .ok (items.map (·.2.1)))
    (hpct : ∀ it ∈ items, it.1.head? ≠ some PCT)
    (henc : ∀ it ∈ items, encodeRow encs it.2.1 = .ok it.2.2) :
    denseRows encs n (toF s) (items.map (·.1)) = .ok (items.map fun it => ⟨it.2.2, denseMissing it.1⟩) := by
  induction items generalizing s with
  | nil => rfl
  | cons it items ih =>
    simp only [List.map_cons, arffLines] at h
    cases hstep : arffLineStep n s it.1 with
    | error e => rw [hstep] at h; cases h
    | ok p =>
      obtain ⟨s1, r⟩ := p
      rw [hstep] at h
      simp only at h
      cases hrest : arffLines n s1 (items.map (·.1)) with
      | error e => rw [hrest] at h; cases h
      | ok rs =>
        rw [hrest] at h
        simp only [Except.ok.injEq, List.cons.injEq] at h
        obtain ⟨hr, hrs⟩ := h
        subst hr
        have hfull := arffLineStep_full n s it.1 s1 it.2.1 hstep
        simp only [List.map_cons, denseRows, hpct it (by simp), if_false, hfull, henc it (by simp)]
        rw [ih s1 (by rw [hrest, hrs]) (fun x hx => hpct x (by simp [hx])) (fun x hx => henc x (by simp [hx]))]

theorem isFloatLit_qm : isFloatLit [QM] = false := by decide

theorem encodeCell_written (e : Enc) (x : Bool × CellW) (h : cellWOk e x = true) :
    encodeCell e x.2.text = .ok (x.2.out e) := by
  obtain ⟨b, c⟩ := x
  have mem_of {lv : List Text} {s : Text} (h : lv.contains s = true) : s ∈ lv := by simpa using h
  have nmem_of {lv : List Text} {s : Text} (h : lv.contains s = false) : ¬ s ∈ lv := by
    intro hm; have : lv.contains s = true := by simpa using hm
    rw [h] at this; cases this
  cases e with
  | numeric =>
    cases c with
    | missing => simp [encodeCell, CellW.text, CellW.out, isFloatLit_qm]
    | num t => simp only [cellWOk, Bool.and_eq_true] at h; simp [encodeCell, CellW.text, CellW.out, h.1]
    | str s => simp [cellWOk] at h
    | cat s => simp [cellWOk] at h
  | str =>
    cases c with
    | missing => simp [encodeCell, CellW.text, CellW.out]
    | num t => simp [cellWOk] at h
    | str s =>
      simp only [cellWOk, Bool.not_eq_true'] at h
      have hne : ¬ (s = [QM]) := by intro e; rw [e] at h; revert h; decide
      simp [encodeCell, CellW.text, CellW.out, hne]
    | cat s => simp [cellWOk] at h
  | nominal lv =>
    cases c with
    | missing =>
      simp only [cellWOk, Bool.and_eq_true, Bool.not_eq_true'] at h
      simp [encodeCell, CellW.text, CellW.out, nmem_of h.2]
    | num t => simp [cellWOk] at h
    | str s => simp [cellWOk] at h
    | cat s =>
      simp only [cellWOk, Bool.and_eq_true, Bool.not_eq_true'] at h
      simp [encodeCell, CellW.text, CellW.out, mem_of h.1]

theorem encodeRow_written (encs : List Enc) (row : List (Bool × CellW)) (h : rowCellsOk encs row = true) :
    encodeRow encs (row.map (·.2.text)) = .ok (rowOut encs row) := by
  induction encs generalizing row with
  | nil =>
    cases row with
    | nil => rfl
    | cons x xs => simp [rowCellsOk] at h
  | cons e es ih =>
    cases row with
    | nil => simp [rowCellsOk] at h
    | cons x xs =>
      simp only [rowCellsOk, Bool.and_eq_true] at h
      simp only [List.map_cons, encodeRow, encodeCell_written e x h.1, ih xs h.2, rowOut]





theorem rowCellsOk_mem (encs : List Enc) (row : List (Bool × CellW)) (h : rowCellsOk encs row = true) :
    ∀ x ∈ row, ∃ e, cellWOk e x = true := by
  induction encs generalizing row with
  | nil => cases row with
    | nil => simp
    | cons x xs => simp [rowCellsOk] at h
  | cons e es ih =>
    cases row with
    | nil => simp
    | cons x xs =>
      simp only [rowCellsOk, Bool.and_eq_true] at h
      intro y hy
      simp only [List.mem_cons] at hy
      rcases hy with rfl | hy
      · exact ⟨e, h.1⟩
      · exact ih xs h.2 y hy

theorem cellWOk_facts (e : Enc) (x : Bool × CellW) (h : cellWOk e x = true) :
    (x.2.isMissing = true → denseTok x = (false, [QM])) ∧ (x.2.isMissing = false → x.2.text.contains QM = false) := by
  obtain ⟨b, c⟩ := x
  cases e <;> cases c <;> simp [cellWOk, CellW.isMissing, CellW.text, denseTok] at h ⊢ <;> first | exact h | exact h.1 | exact h.2 | skip
  all_goals (first | exact h.2 | exact h.1 | exact h)

theorem compact_cons_keep (c : Nat) (X : Text) (h : (!(c == 32 || c == 9 || c == 10 || c == 13 || c == 11 || c == 12)) = true) :
    compact (c :: X) = c :: compact X := by
  unfold compact; simp only [List.filter, h]

theorem compact_append (a b : Text) : compact (a ++ b) = compact a ++ compact b := by simp [compact]
theorem compact_spaces (k : Nat) : compact (List.replicate k 32) = [] := by
  induction k with
  | zero => rfl
  | succ k ih => simp [List.replicate_succ, compact] at ih ⊢
theorem hasSub_mid (a b : Text) : hasSub [COMMA, QM, COMMA] (a ++ COMMA :: QM :: COMMA :: b) = true := by
  induction a with
  | nil => simp [hasSub, startsWith]
  | cons c a ih => simp only [List.cons_append, hasSub, ih, Bool.or_true]

/-- a row with a missing marker: the line is `P ++ ? :: S`, `P` empty or ending in `,` + blanks, `S` empty or starting with `,` -/
theorem missing_split (q : Nat) (also : Nat → Bool) (pad : Nat) (toks : List (Bool × Text)) (h : (false, [QM]) ∈ toks) :
    ∃ P S, arffWriteRow q also pad toks = P ++ QM :: S ∧ (P = [] ∨ ∃ P', P = P' ++ COMMA :: List.replicate pad 32) ∧
      (S = [] ∨ ∃ S', S = COMMA :: S') := by
  have htok : arffWriteTok q also (false, [QM]) = [QM] := by
    have : bareOk [QM] = true := by decide
    simp [arffWriteTok, this]
  induction toks with
  | nil => simp at h
  | cons x xs ih =>
    cases xs with
    | nil =>
      simp only [List.mem_singleton] at h
      subst h
      exact ⟨[], [], by simp [arffWriteRow, htok], Or.inl rfl, Or.inl rfl⟩
    | cons y ys =>
      simp only [arffWriteRow]
      by_cases hx : x = (false, [QM])
      · subst hx
        exact ⟨[], _, by rw [htok]; rfl, Or.inl rfl, Or.inr ⟨_, rfl⟩⟩
      · have hm : (false, [QM]) ∈ y :: ys := by
          simp only [List.mem_cons] at h ⊢
          rcases h with h | h
          · exact absurd h.symm hx
          · exact h
        obtain ⟨P1, S1, he, hP, hS⟩ := ih hm
        refine ⟨arffWriteTok q also x ++ COMMA :: (List.replicate pad 32 ++ P1), S1, by rw [he]; simp, ?_, hS⟩
        right
        rcases hP with hP | ⟨P', hP⟩
        · subst hP; exact ⟨arffWriteTok q also x, by simp⟩
        · subst hP; exact ⟨arffWriteTok q also x ++ COMMA :: (List.replicate pad 32 ++ P'), by simp⟩

theorem denseMissing_true (line P S : Text) (he : line = P ++ QM :: S)
    (hP : P = [] ∨ ∃ P' k, P = P' ++ COMMA :: List.replicate k 32) (hS : S = [] ∨ ∃ S', S = COMMA :: S') :
    denseMissing line = true := by
  have hcont : line.contains QM = true := by rw [he]; simp
  have hc : compact line = compact P ++ QM :: compact S := by
    rw [he, compact_append]
    have : compact (QM :: S) = QM :: compact S := compact_cons_keep QM S (by decide)
    rw [this]
  have hD : (compact line = [QM] || (compact line).take 2 = [QM, COMMA] || hasSub [COMMA, QM, COMMA] (compact line) ||
      endsWith [COMMA, QM] (compact line)) = true := by
    rw [hc]
    have hcomma : ∀ X, compact (COMMA :: X) = COMMA :: compact X := fun X => compact_cons_keep COMMA X (by decide)
    rcases hP with hP | ⟨P', k, hP⟩ <;> rcases hS with hS | ⟨S', hS⟩ <;> subst hP <;> subst hS
    · simp [compact]
    · rw [hcomma]; simp [compact]
    · rw [compact_append, hcomma, compact_spaces]
      have : endsWith [COMMA, QM] (compact P' ++ [COMMA] ++ QM :: compact []) = true := by
        simp [endsWith, startsWith, compact]
      simp only [List.append_assoc, List.singleton_append] at this
      simp [this]
    · rw [compact_append, hcomma, compact_spaces, hcomma]
      have := hasSub_mid (compact P') (compact S')
      simp only [List.append_nil, List.append_assoc, List.cons_append, List.nil_append]
      simp [this]
  unfold denseMissing
  simp only [hcont, Bool.not_true, Bool.false_eq_true, if_false]
  split
  · rfl
  · split
    · rfl
    · simpa using hD

theorem denseMissing_written (q : Nat) (hq : q = SQ ∨ q = DQ) (also : Nat → Bool) (pad : Nat) (encs : List Enc) (row : List (Bool × CellW))
    (hc : rowCellsOk encs row = true) :
    denseMissing (denseRowLine q also pad row) = row.any (·.2.isMissing) := by
  have hmem := rowCellsOk_mem encs row hc
  cases hany : row.any (·.2.isMissing) with
  | true =>
    obtain ⟨x, hx, hxm⟩ := List.any_eq_true.mp hany
    obtain ⟨e, he⟩ := hmem x hx
    have htok : (false, [QM]) ∈ row.map denseTok := by
      rw [← (cellWOk_facts e x he).1 hxm]; exact List.mem_map_of_mem hx
    obtain ⟨P, S, hl, hP, hS⟩ := missing_split q also pad _ htok
    exact denseMissing_true _ P S hl (by
      rcases hP with h | ⟨P', h⟩
      · exact Or.inl h
      · exact Or.inr ⟨P', pad, h⟩) hS
  | false =>
    have hno : (denseRowLine q also pad row).contains QM = false := by
      cases hcq : (denseRowLine q also pad row).contains QM with
      | false => rfl
      | true =>
        exfalso
        simp only [List.contains_iff_mem] at hcq
        rcases arffWriteRow_mem q also pad _ QM hcq with h | h | h | h | h
        · revert h; decide
        · revert h; decide
        · revert h; decide
        · rcases hq with hq | hq <;> rw [hq] at h <;> exact absurd h.1 (by decide)
        · obtain ⟨t, ht, hqm⟩ := h
          simp only [List.mem_map] at ht
          obtain ⟨x, hx, rfl⟩ := ht
          obtain ⟨e, he⟩ := hmem x hx
          have hm : x.2.isMissing = false := by
            have := List.any_eq_false.mp hany x hx
            simpa using this
          have := (cellWOk_facts e x he).2 hm
          have hc2 : x.2.text.contains QM = true := by simpa [denseTok] using hqm
          rw [this] at hc2; cases hc2
    unfold denseMissing
    simp only [hno, Bool.not_false, if_true]





theorem attrW_line_facts (isDense : Bool) (q : Nat) (also : Nat → Bool) (a : AttrW) (h : a.ok isDense = true) :
    lowerAscii ((a.line q also).take 5) = kwAttr ∧ lowerAscii (a.line q also) ≠ kwData := by
  simp only [AttrW.ok, Bool.and_eq_true, beq_iff_eq] at h
  have hkw := h.1.1.1.1
  have hlen : a.kw.length = 10 := by
    have := congrArg List.length hkw
    rw [lowerAscii_length] at this
    rw [this]; rfl
  have htake : (a.line q also).take 10 = a.kw := by
    unfold AttrW.line
    rw [List.take_append_of_le_length (by omega), List.take_of_length_le (by omega)]
  exact attrLine_facts _ (by rw [htake]; exact hkw)

theorem rowCellsOk_length (encs : List Enc) (row : List (Bool × CellW)) (h : rowCellsOk encs row = true) : row.length = encs.length := by
  induction encs generalizing row with
  | nil => cases row with
    | nil => rfl
    | cons x xs => simp [rowCellsOk] at h
  | cons e es ih =>
    cases row with
    | nil => simp [rowCellsOk] at h
    | cons x xs =>
      simp only [rowCellsOk, Bool.and_eq_true] at h
      simp [ih xs h.2]

theorem arff_dense_table' (q : Nat) (hq : q = SQ ∨ q = DQ) (also : Nat → Bool) (attrs : List AttrW) (dkw : Text)
    (rows : List (Nat × List (Bool × CellW)))
    (hattrs : attrs ≠ []) (hok : ∀ a ∈ attrs, a.ok true = true) (hnd : (attrs.map (·.name.2)).Nodup)
    (hdkw : lowerAscii dkw = kwData) (hne : rows ≠ [])
    (hrows : ∀ r ∈ rows, denseRowWOk q also r.1 (attrs.map (·.typ.enc true)) r.2 = true)
    (hfirst : ∀ r, rows.head? = some r → notBraced (denseRowLine q also r.1 r.2) = true) :
    arffReadN (attrs.map (·.line q also) ++ dkw :: rows.map (fun r => denseRowLine q also r.1 r.2)) =
      .ok (.dense (attrs.map (·.name.2))
        (rows.map fun r => ⟨rowOut (attrs.map (·.typ.enc true)) r.2, r.2.any (·.2.isMissing)⟩)) := by
  have hp : ∀ l ∈ attrs.map (·.line q also), (fun l => decide (lowerAscii l ≠ kwData)) l = true := by
    intro l hl
    simp only [List.mem_map] at hl
    obtain ⟨a, ha, rfl⟩ := hl
    simpa using (attrW_line_facts true q also a (hok a ha)).2
  have hf : (attrs.map (·.line q also)).filter (fun l => decide (lowerAscii (l.take 5) = kwAttr)) = attrs.map (·.line q also) := by
    rw [List.filter_eq_self]
    intro l hl
    simp only [List.mem_map] at hl
    obtain ⟨a, ha, rfl⟩ := hl
    simpa using (attrW_line_facts true q also a (hok a ha)).1
  rw [arffReadN_parts, takeWhile_all_append _ _ _ hp, dropWhile_all_append _ _ _ hp]
  simp only [List.takeWhile, List.dropWhile, hdkw, ne_eq, not_true_eq_false, decide_false, List.append_nil, List.drop_succ_cons, List.drop_zero, hf]
  -- the data section
  cases hrs : rows with
  | nil => exact absurd hrs hne
  | cons r0 rest =>
    rw [← hrs]
    have hr0 := hrows r0 (by rw [hrs]; simp)
    simp only [denseRowWOk, Bool.and_eq_true, bne_iff_ne, ne_eq] at hr0
    have hdata : rows.map (fun r => denseRowLine q also r.1 r.2) = denseRowLine q also r0.1 r0.2 :: rest.map (fun r => denseRowLine q also r.1 r.2) := by
      rw [hrs]; rfl
    unfold arffReadParts
    have hdw : (rows.map (fun r => denseRowLine q also r.1 r.2)).dropWhile (fun l => decide (l.head? = some PCT)) =
        rows.map (fun r => denseRowLine q also r.1 r.2) := by
      rw [hdata]; simp [List.dropWhile, hr0.2]
    rw [hdw]
    rw [hdata]
    simp only
    have hnb := hfirst r0 (by rw [hrs]; rfl)
    have hdense : (!decide ((denseRowLine q also r0.1 r0.2).head? = some LBRACE) || !decide ((denseRowLine q also r0.1 r0.2).getLast? = some RBRACE)) = true := by
      unfold notBraced at hnb
      cases h1 : (denseRowLine q also r0.1 r0.2).head? == some LBRACE <;> cases h2 : (denseRowLine q also r0.1 r0.2).getLast? == some RBRACE <;>
        simp_all
    rw [hdense, arffAttrs_written true q hq also attrs [] hok hnd (fun _ _ => by simp)]
    cases hat : attrs with
    | nil => exact absurd hat hattrs
    | cons a0 as =>
      rw [← hat]
      have hmapne : attrs.map (fun a => (a.name.2, a.typ.enc true)) = (a0.name.2, a0.typ.enc true) :: as.map (fun a => (a.name.2, a.typ.enc true)) := by
        rw [hat]; rfl
      rw [hmapne]
      simp only [if_true]
      rw [← hmapne, ← hdata]
      simp only [List.map_map, List.length_map]
      -- rows through the line reader
      let items : List (Text × List Text × List Cell) :=
        rows.map (fun r => (denseRowLine q also r.1 r.2, r.2.map (·.2.text), rowOut (attrs.map (·.typ.enc true)) r.2))
      have hlines : items.map (·.1) = rows.map (fun r => denseRowLine q also r.1 r.2) := by simp [items, List.map_map, Function.comp_def]
      have hAL := arffLines_written q hq also attrs.length (rows.map (fun r => (r.1, r.2.map denseTok))) (by
        intro r hr
        simp only [List.mem_map] at hr
        obtain ⟨r', hr', rfl⟩ := hr
        have := hrows r' hr'
        simp only [denseRowWOk, Bool.and_eq_true] at this
        refine ⟨this.1.2, ?_⟩
        have := rowCellsOk_length _ _ this.1.1
        simpa using this) ALR.init (Or.inl rfl)
      have hDR := denseRows_of_arffLines (attrs.map (·.typ.enc true)) attrs.length items ALR.init (by
          simp only [items, List.map_map, Function.comp_def] at hAL ⊢
          simpa [denseRowLine, denseTok, List.map_map, Function.comp_def] using hAL) (by
          intro it hit
          simp only [items, List.mem_map] at hit
          obtain ⟨r, hr, rfl⟩ := hit
          have := hrows r hr
          simp only [denseRowWOk, Bool.and_eq_true, bne_iff_ne, ne_eq] at this
          exact this.2) (by
          intro it hit
          simp only [items, List.mem_map] at hit
          obtain ⟨r, hr, rfl⟩ := hit
          have := hrows r hr
          simp only [denseRowWOk, Bool.and_eq_true] at this
          exact encodeRow_written _ _ this.1.1)
      rw [hlines] at hDR
      have htoF : toF ALR.init = ALRF.init := rfl
      rw [htoF] at hDR
      have hencs : (List.map (Prod.snd ∘ fun a => (a.name.2, a.typ.enc true)) attrs) = attrs.map (·.typ.enc true) := by
        simp [Function.comp_def]
      have hnames : (List.map (Prod.fst ∘ fun a => (a.name.2, a.typ.enc true)) attrs) = attrs.map (·.name.2) := by
        simp [Function.comp_def]
      rw [hencs, hnames, hDR]
      simp only [items, List.map_map, Function.comp_def]
      congr 2
      apply List.map_congr_left
      intro r hr
      have := hrows r hr
      simp only [denseRowWOk, Bool.and_eq_true] at this
      rw [denseMissing_written q hq also r.1 _ r.2 this.1.1]



/-! ## E. header-skipping decompressor, reader objects -/

theorem drop_append' {α} (k : Nat) (a b : List α) : (a ++ b).drop k = a.drop k ++ b.drop (k - a.length) := by
  induction a generalizing k with
  | nil => simp
  | cons x a ih =>
    cases k with
    | zero => simp
    | succ k => simp [ih k]

theorem skip_lawful' (n : Nat) : (Decomp.skip n).Lawful := by
  refine ⟨fun s => by simp [Decomp.skip], fun s a b => ?_⟩
  simp only [Decomp.skip, List.length_append, drop_append']
  rw [Nat.sub_add_eq]

theorem flatten_filter_ne_nil {α} (cs : List (List α)) : (cs.filter (· ≠ [])).flatten = cs.flatten := by
  induction cs with
  | nil => rfl
  | cons c cs ih =>
    by_cases hc : c = []
    · subst hc; simpa using ih
    · have : (c :: cs).filter (· ≠ []) = c :: cs.filter (· ≠ []) := by simp [hc]
      rw [this, List.flatten_cons, List.flatten_cons, ih]

theorem readerRun_frame' (r : ReaderKind) (hist : List (List Text × Bool)) :
    readerRun r hist = hist.map (fun i => if i.2 then none else some (readerParse r i.1)) := by
  induction hist with
  | nil => rfl
  | cons i is ih => simp only [readerRun, readerStep, List.map_cons, ih]

/-! ## F. whole sparse ARFF files -/

theorem sparseItems_written (names : List Text) (encs : List Enc) (row : List (Text × CellW)) (tail : List (Int × Text))
    (T : List (Text × Cell))
    (hrow : ∀ x ∈ row, ∀ e, encs[(digitsVal x.1).toNat]? = some e → cellWOk e (false, x.2) = true)
    (ht : sparseItems names encs tail = .ok T) :
    sparseItems names encs (row.map (fun x => (digitsVal x.1, x.2.text)) ++ tail) =
      .ok (row.filterMap (sparseItemOut names encs) ++ T) := by
  induction row with
  | nil => simpa using ht
  | cons x row ih =>
    have ih' := ih (fun y hy => hrow y (by simp [hy]))
    simp only [List.map_cons, List.cons_append, sparseItems, nthD, List.filterMap_cons, sparseItemOut]
    cases hn : names[(digitsVal x.1).toNat]? with
    | none => simp [ih']
    | some nm =>
      cases he : encs[(digitsVal x.1).toNat]? with
      | none => simp [ih']
      | some e =>
        have := encodeCell_written e (false, x.2) (hrow x (by simp) e he)
        simp only at this
        simp [this, ih']

/-- the predicate inside `notSparse` -/
def nspP (encs : List Enc) (i : Nat) : Bool :=
  match nthD encs i with
  | some .numeric => false
  | some .str => true
  | some (.nominal lv) => lv.contains ZERO
  | none => false

theorem notSparse_eq (encs : List Enc) : notSparse encs = (List.range encs.length).filter (nspP encs) := rfl

theorem contains_map_fst (raw : List (Int × Text)) (i : Int) :
    (raw.map (·.1)).contains i = raw.any (fun p => decide (p.1 = i)) := by
  induction raw with
  | nil => rfl
  | cons p r ih =>
    rw [List.map_cons, List.contains_cons, List.any_cons, ih]
    by_cases h : p.1 = i
    · simp [h]
    · have hb : (i == p.1) = false := by simpa using (fun e => h e.symm : ¬ i = p.1)
      simp [h, hb]

theorem sparseItems_filter (names : List Text) (encs : List Enc) (keep : Nat → Bool) (F : Nat → Option (Text × Cell))
    (h1 : ∀ i, keep i = false → F i = none)
    (h2 : ∀ i, keep i = true → ∀ rest R, sparseItems names encs rest = .ok R →
      sparseItems names encs (((i : Int), ZERO) :: rest) = .ok ((F i).toList ++ R))
    (l : List Nat) :
    sparseItems names encs ((l.filter keep).map (fun (i : Nat) => ((i : Int), ZERO))) = .ok (l.filterMap F) := by
  induction l with
  | nil => rfl
  | cons i l ih =>
    cases hk : keep i with
    | false => rw [List.filter_cons, hk, List.filterMap_cons, h1 i hk]; exact ih
    | true =>
      rw [List.filter_cons, hk]
      simp only [if_true, List.map_cons]
      rw [h2 i hk _ _ ih, List.filterMap_cons]
      cases F i <;> rfl

theorem sparseItems_defaults (names : List Text) (encs : List Enc) (raw : List (Int × Text)) (l : List Nat) :
    sparseItems names encs ((((l.filter (nspP encs)).filter
        (fun (i : Nat) => !(raw.any (fun p => p.1 = (i : Int))))).map (fun (i : Nat) => ((i : Int), ZERO))))
      = .ok (l.filterMap (sparseDefaultAt names encs (raw.map (·.1)))) := by
  rw [List.filter_filter]
  apply sparseItems_filter
  · intro i hk
    unfold sparseDefaultAt
    rw [contains_map_fst]
    unfold nspP nthD at hk
    cases hq : raw.any (fun p => decide (p.1 = (i : Int))) with
    | true => simp
    | false =>
      rw [hq] at hk
      cases he : encs[i]? with
      | none => cases names[i]? <;> simp
      | some e =>
        rw [he] at hk
        cases hn : names[i]? with
        | none => simp
        | some nm =>
          cases e with
          | numeric => simp [sparseDefaultCell]
          | str => simp at hk
          | nominal lv =>
            have hm : ¬ ZERO ∈ lv := by simpa using hk
            simp [sparseDefaultCell, hm]
  · intro i hk rest R hR
    unfold sparseDefaultAt
    rw [contains_map_fst]
    unfold nspP nthD at hk
    cases hq : raw.any (fun p => decide (p.1 = (i : Int))) with
    | true => rw [hq] at hk; simp at hk
    | false =>
      rw [hq] at hk
      cases he : encs[i]? with
      | none => rw [he] at hk; simp at hk
      | some e =>
        rw [he] at hk
        simp only [sparseItems, nthD, Int.toNat_natCast, he]
        cases hn : names[i]? with
        | none => simp [hR]
        | some nm =>
          cases e with
          | numeric => simp at hk
          | str =>
            have hz : encodeCell .str ZERO = .ok (.str ZERO) := by decide
            simp [hz, hR, sparseDefaultCell]
          | nominal lv =>
            have hm : ZERO ∈ lv := by simpa using hk
            have hz : encodeCell (.nominal lv) ZERO = .ok (.cat ZERO lv) := by simp [encodeCell, hm]
            simp [hz, hR, sparseDefaultCell, hm]

/-! ### the sparse missing flag -/

theorem hasSub_qm (t : Text) (h : hasSub [32, QM, COMMA] t = true) : QM ∈ t := by
  induction t with
  | nil => simp [hasSub] at h
  | cons c t ih =>
    simp only [hasSub, Bool.or_eq_true] at h
    rcases h with h | h
    · unfold startsWith at h
      have h' : (c :: t).take 3 = [32, QM, COMMA] := by simpa using h
      have : QM ∈ (c :: t).take 3 := by rw [h']; simp
      exact List.mem_of_mem_take this
    · exact List.mem_cons_of_mem _ (ih h)

theorem endsWith_qm (t : Text) (h : endsWith [32, QM, RBRACE] t = true) : QM ∈ t := by
  unfold endsWith startsWith at h
  have h' : t.reverse.take 3 = [RBRACE, QM, 32] := by simpa using h
  have : QM ∈ t.reverse.take 3 := by rw [h']; simp
  exact List.mem_reverse.mp (List.mem_of_mem_take this)

theorem hasSub_sp_mid (a b : Text) : hasSub [32, QM, COMMA] (a ++ 32 :: QM :: COMMA :: b) = true := by
  induction a with
  | nil => simp [hasSub, startsWith]
  | cons c a ih => simp only [List.cons_append, hasSub, ih, Bool.or_true]

theorem endsWith_suffix (a p : Text) : endsWith p (a ++ p) = true := by
  unfold endsWith startsWith
  simp [List.reverse_append]

theorem sparseWriteItems_mem (pad : Nat) (items : List (Text × Text)) (c : Nat) (h : c ∈ sparseWriteItems pad items) :
    c = 32 ∨ c = COMMA ∨ ∃ p ∈ items, c ∈ p.1 ∨ c ∈ p.2 := by
  induction items with
  | nil => simp [sparseWriteItems] at h
  | cons p r ih =>
    obtain ⟨d, v⟩ := p
    cases r with
    | nil =>
      simp only [sparseWriteItems, List.mem_append, List.mem_cons] at h
      rcases h with h | h | h
      · exact Or.inr (Or.inr ⟨(d, v), by simp, Or.inl h⟩)
      · exact Or.inl h
      · exact Or.inr (Or.inr ⟨(d, v), by simp, Or.inr h⟩)
    | cons y r' =>
      obtain ⟨y1, y2⟩ := y
      have e : sparseWriteItems pad ((d, v) :: (y1, y2) :: r') =
          d ++ 32 :: v ++ COMMA :: (List.replicate pad 32 ++ sparseWriteItems pad ((y1, y2) :: r')) := by
        simp [sparseWriteItems]
      rw [e] at h
      simp only [List.mem_append, List.mem_cons, List.mem_replicate] at h
      rcases h with (h | h | h) | h | h | h
      · exact Or.inr (Or.inr ⟨(d, v), by simp, Or.inl h⟩)
      · exact Or.inl h
      · exact Or.inr (Or.inr ⟨(d, v), by simp, Or.inr h⟩)
      · exact Or.inr (Or.inl h)
      · exact Or.inl h.2
      · rcases ih h with h | h | ⟨p, hp, hc⟩
        · exact Or.inl h
        · exact Or.inr (Or.inl h)
        · exact Or.inr (Or.inr ⟨p, by simp at hp ⊢; right; exact hp, hc⟩)

theorem sparse_missing_split (pad : Nat) (items : List (Text × Text)) (d : Text) (h : (d, [QM]) ∈ items) :
    ∃ P S, sparseWriteItems pad items = P ++ 32 :: QM :: S ∧ (S = [] ∨ ∃ S', S = COMMA :: S') := by
  induction items with
  | nil => simp at h
  | cons x xs ih =>
    obtain ⟨d1, v1⟩ := x
    cases xs with
    | nil =>
      simp only [List.mem_singleton, Prod.mk.injEq] at h
      obtain ⟨rfl, rfl⟩ := h
      exact ⟨d, [], by simp [sparseWriteItems], Or.inl rfl⟩
    | cons y ys =>
      obtain ⟨y1, y2⟩ := y
      have e : sparseWriteItems pad ((d1, v1) :: (y1, y2) :: ys) =
          d1 ++ 32 :: v1 ++ COMMA :: (List.replicate pad 32 ++ sparseWriteItems pad ((y1, y2) :: ys)) := by
        simp [sparseWriteItems]
      by_cases hx : (d1, v1) = (d, [QM])
      · cases hx
        exact ⟨d, COMMA :: (List.replicate pad 32 ++ sparseWriteItems pad ((y1, y2) :: ys)), by rw [e]; simp, Or.inr ⟨_, rfl⟩⟩
      · have hm : (d, [QM]) ∈ (y1, y2) :: ys := by
          rcases List.mem_cons.mp h with h | h
          · exact absurd h.symm hx
          · exact h
        obtain ⟨P1, S1, he, hS⟩ := ih hm
        exact ⟨d1 ++ 32 :: v1 ++ COMMA :: (List.replicate pad 32 ++ P1), S1, by rw [e, he]; simp, hS⟩

theorem sparseRowWOk_parts (n : Nat) (encs : List Enc) (row : List (Text × CellW)) (h : sparseRowWOk n encs row = true) :
    sparseRowOk n (row.map sparseTok) = true ∧
    ∀ x ∈ row, ∃ e, encs[(digitsVal x.1).toNat]? = some e ∧ cellWOk e (false, x.2) = true := by
  unfold sparseRowWOk at h
  simp only [Bool.and_eq_true] at h
  refine ⟨h.1, fun x hx => ?_⟩
  have := List.all_eq_true.mp h.2 x hx
  cases he : encs[(digitsVal x.1).toNat]? with
  | none => rw [he] at this; cases this
  | some e => rw [he] at this; exact ⟨e, rfl, this⟩

theorem sparseMissing_written (pad n : Nat) (encs : List Enc) (row : List (Text × CellW)) (h : sparseRowWOk n encs row = true) :
    sparseMissing (sparseRowLine pad row) = row.any (·.2.isMissing) := by
  obtain ⟨hok, hcells⟩ := sparseRowWOk_parts n encs row h
  obtain ⟨hall, _⟩ := sparseRowOk_parts n _ hok
  cases hany : row.any (·.2.isMissing) with
  | true =>
    obtain ⟨x, hx, hxm⟩ := List.any_eq_true.mp hany
    have hxt : sparseTok x = (x.1, [QM]) := by
      obtain ⟨d, c⟩ := x
      cases c <;> simp [CellW.isMissing] at hxm
      rfl
    have hmem : (x.1, [QM]) ∈ row.map sparseTok := by rw [← hxt]; exact List.mem_map_of_mem hx
    obtain ⟨P, S, he, hS⟩ := sparse_missing_split pad _ x.1 hmem
    unfold sparseMissing sparseRowLine sparseWriteRow
    rw [he]
    rcases hS with hS | ⟨S', hS⟩
    · subst hS
      have : LBRACE :: (P ++ [32, QM] ++ [RBRACE]) = (LBRACE :: P) ++ [32, QM, RBRACE] := by simp
      rw [this, endsWith_suffix]; simp
    · subst hS
      have : LBRACE :: (P ++ 32 :: QM :: COMMA :: S' ++ [RBRACE]) = (LBRACE :: P) ++ 32 :: QM :: COMMA :: (S' ++ [RBRACE]) := by simp
      rw [this, hasSub_sp_mid]; simp
  | false =>
    have hno : ¬ QM ∈ sparseRowLine pad row := by
      intro hq
      unfold sparseRowLine sparseWriteRow at hq
      simp only [List.mem_cons, List.mem_append] at hq
      rcases hq with hq | hq | hq
      · revert hq; decide
      · rcases sparseWriteItems_mem pad _ QM hq with h1 | h1 | ⟨p, hp, h1⟩
        · revert h1; decide
        · revert h1; decide
        · simp only [List.mem_map] at hp
          obtain ⟨x, hx, rfl⟩ := hp
          rcases h1 with h1 | h1
          · have hd := (hall (sparseTok x) (List.mem_map_of_mem hx)).2.1
            have := List.all_eq_true.mp hd QM h1
            revert this; decide
          · obtain ⟨e, _, hce⟩ := hcells x hx
            have hm : x.2.isMissing = false := by
              have := List.any_eq_false.mp hany x hx
              simpa using this
            have hf := (cellWOk_facts e (false, x.2) hce).2 hm
            have hc2 : x.2.text.contains QM = true := by simpa [sparseTok] using h1
            simp only at hf
            rw [hf] at hc2; cases hc2
      · revert hq; decide
    unfold sparseMissing
    have h1 : hasSub [32, QM, COMMA] (sparseRowLine pad row) = false := by
      cases hh : hasSub [32, QM, COMMA] (sparseRowLine pad row) with
      | false => rfl
      | true => exact absurd (hasSub_qm _ hh) hno
    have h2 : endsWith [32, QM, RBRACE] (sparseRowLine pad row) = false := by
      cases hh : endsWith [32, QM, RBRACE] (sparseRowLine pad row) with
      | false => rfl
      | true => exact absurd (endsWith_qm _ hh) hno
    rw [h1, h2]; rfl

/-! ### rows and the whole file -/

theorem sparseRowLine_shape (pad : Nat) (row : List (Text × CellW)) :
    (sparseRowLine pad row).head? = some LBRACE ∧ (sparseRowLine pad row).getLast? = some RBRACE := by
  unfold sparseRowLine sparseWriteRow
  refine ⟨rfl, ?_⟩
  rw [← List.cons_append]
  exact getLast?_append_some _ _ _ rfl

theorem sparseRows_written (names : List Text) (encs : List Enc) (n : Nat) (rows : List (Nat × List (Text × CellW)))
    (hrows : ∀ r ∈ rows, sparseRowWOk n encs r.2 = true) :
    sparseRows names encs n (rows.map (fun r => sparseRowLine r.1 r.2)) =
      .ok (rows.map fun r => ⟨sparseRowOut names encs r.2, r.2.any (·.2.isMissing)⟩) := by
  induction rows with
  | nil => rfl
  | cons r rows ih =>
    have hr := hrows r (by simp)
    obtain ⟨hok, hcells⟩ := sparseRowWOk_parts n encs r.2 hr
    have hpct : ¬ (sparseRowLine r.1 r.2).head? = some PCT := by
      rw [(sparseRowLine_shape r.1 r.2).1]; decide
    have hline : arffSparseLine n (sparseRowLine r.1 r.2) = .ok (r.2.map (fun x => (digitsVal x.1, x.2.text))) := by
      unfold sparseRowLine
      rw [arffSparseLine_written n r.1 _ hok, List.map_map]
      rfl
    have hdef := sparseItems_defaults names encs (r.2.map (fun x => (digitsVal x.1, x.2.text))) (List.range encs.length)
    have hfst : (r.2.map (fun x => (digitsVal x.1, x.2.text))).map (·.1) = r.2.map (fun x => digitsVal x.1) := by
      simp [List.map_map, Function.comp_def]
    rw [hfst] at hdef
    have hitems := sparseItems_written names encs r.2 _ _ (fun x hx e he => by
      obtain ⟨e', he', hc⟩ := hcells x hx
      rw [he] at he'; cases he'; exact hc) hdef
    simp only [List.map_cons, sparseRows, hpct, if_false, hline, notSparse_eq]
    rw [hitems, ih (fun x hx => hrows x (by simp [hx])), sparseMissing_written r.1 n encs r.2 hr]
    rfl

theorem arff_sparse_table' (q : Nat) (hq : q = SQ ∨ q = DQ) (also : Nat → Bool) (attrs : List AttrW) (dkw : Text)
    (rows : List (Nat × List (Text × CellW)))
    (hattrs : attrs ≠ []) (hok : ∀ a ∈ attrs, a.ok false = true) (hnd : (attrs.map (·.name.2)).Nodup)
    (hdkw : lowerAscii dkw = kwData) (hne : rows ≠ [])
    (hrows : ∀ r ∈ rows, sparseRowWOk attrs.length (attrs.map (·.typ.enc false)) r.2 = true) :
    arffReadN (attrs.map (·.line q also) ++ dkw :: rows.map (fun r => sparseRowLine r.1 r.2)) =
      .ok (.sparse (attrs.map (·.name.2))
        (rows.map fun r => ⟨sparseRowOut (attrs.map (·.name.2)) (attrs.map (·.typ.enc false)) r.2, r.2.any (·.2.isMissing)⟩)) := by
  have hp : ∀ l ∈ attrs.map (·.line q also), (fun l => decide (lowerAscii l ≠ kwData)) l = true := by
    intro l hl
    simp only [List.mem_map] at hl
    obtain ⟨a, ha, rfl⟩ := hl
    simpa using (attrW_line_facts false q also a (hok a ha)).2
  have hf : (attrs.map (·.line q also)).filter (fun l => decide (lowerAscii (l.take 5) = kwAttr)) = attrs.map (·.line q also) := by
    rw [List.filter_eq_self]
    intro l hl
    simp only [List.mem_map] at hl
    obtain ⟨a, ha, rfl⟩ := hl
    simpa using (attrW_line_facts false q also a (hok a ha)).1
  rw [arffReadN_parts, takeWhile_all_append _ _ _ hp, dropWhile_all_append _ _ _ hp]
  simp only [List.takeWhile, List.dropWhile, hdkw, ne_eq, not_true_eq_false, decide_false, List.append_nil, List.drop_succ_cons, List.drop_zero, hf]
  cases hrs : rows with
  | nil => exact absurd hrs hne
  | cons r0 rest =>
    rw [← hrs]
    have hdata : rows.map (fun r => sparseRowLine r.1 r.2) = sparseRowLine r0.1 r0.2 :: rest.map (fun r => sparseRowLine r.1 r.2) := by
      rw [hrs]; rfl
    have hshape := sparseRowLine_shape r0.1 r0.2
    unfold arffReadParts
    have hdw : (rows.map (fun r => sparseRowLine r.1 r.2)).dropWhile (fun l => decide (l.head? = some PCT)) =
        rows.map (fun r => sparseRowLine r.1 r.2) := by
      rw [hdata]
      have hd : decide (LBRACE = PCT) = false := by decide
      simp [List.dropWhile, hshape.1, hd]
    rw [hdw, hdata]
    simp only
    have hsparse : (!decide ((sparseRowLine r0.1 r0.2).head? = some LBRACE) || !decide ((sparseRowLine r0.1 r0.2).getLast? = some RBRACE)) = false := by
      rw [hshape.1, hshape.2]; simp
    rw [hsparse, arffAttrs_written false q hq also attrs [] hok hnd (fun _ _ => by simp)]
    cases hat : attrs with
    | nil => exact absurd hat hattrs
    | cons a0 as =>
      rw [← hat]
      have hmapne : attrs.map (fun a => (a.name.2, a.typ.enc false)) = (a0.name.2, a0.typ.enc false) :: as.map (fun a => (a.name.2, a.typ.enc false)) := by
        rw [hat]; rfl
      rw [hmapne]
      simp only [Bool.false_eq_true, if_false]
      rw [← hmapne, ← hdata]
      simp only [List.map_map, List.length_map]
      have hencs : (List.map (Prod.snd ∘ fun a => (a.name.2, a.typ.enc false)) attrs) = attrs.map (·.typ.enc false) := by
        simp [Function.comp_def]
      have hnames : (List.map (Prod.fst ∘ fun a => (a.name.2, a.typ.enc false)) attrs) = attrs.map (·.name.2) := by
        simp [Function.comp_def]
      rw [hencs, hnames, sparseRows_written _ _ _ rows hrows]

/-! ## translator tie: the model's literal tables as lists -/

theorem dropWhile_congr' {α} (p q : α → Bool) (h : ∀ x, p x = q x) (l : List α) : l.dropWhile p = l.dropWhile q := by
  have : p = q := funext h
  rw [this]

theorem compact_eq_filter (t : Text) : compact t = t.filter (fun c => !([32, 9, 10, 13, 11, 12] : List Nat).contains c) := by
  unfold compact
  congr 1
  funext c
  simp [List.contains_cons]
  simp only [Bool.and_assoc]
  rfl

theorem rstripNl_eq_list (t : Text) : rstripNl t = (t.reverse.dropWhile (fun c => ([13, 10] : List Nat).contains c)).reverse := by
  unfold rstripNl
  rw [dropWhile_congr' (fun c => c == CR || c == LF) (fun c => ([13, 10] : List Nat).contains c)
    (fun c => by simp only [List.contains_cons, List.contains_nil, Bool.or_false, CR, LF])]

theorem stripBraces_eq_list (t : Text) :
    stripBraces t = ((t.dropWhile (fun c => ([125, 32, 123] : List Nat).contains c)).reverse.dropWhile (fun c => ([125, 32, 123] : List Nat).contains c)).reverse := by
  unfold stripBraces
  have h : ∀ c : Nat, (c == RBRACE || c == 32 || c == LBRACE) = ([125, 32, 123] : List Nat).contains c := by
    intro c; simp only [List.contains_cons, List.contains_nil, Bool.or_false, RBRACE, LBRACE, Bool.or_assoc]
  have e : (fun c : Nat => c == RBRACE || c == 32 || c == LBRACE) = (fun c => ([125, 32, 123] : List Nat).contains c) := funext h
  simp only [e]

/-! ## G. plain lines: fast path = fallback parser -/

theorem plainTok_parts (v : Text) (h : plainTok v = true) :
    (∃ c t, v = c :: t ∧ isPySpace c = false) ∧
    (∀ c ∈ v, c ≠ COMMA ∧ c ≠ SQ ∧ c ≠ DQ ∧ c ≠ BS ∧ isNl c = false) ∧ bareOk v = true := by
  unfold plainTok at h
  simp only [Bool.and_eq_true] at h
  obtain ⟨hb, hh⟩ := h
  refine ⟨?_, ?_, hb⟩
  · cases v with
    | nil => simp at hh
    | cons c t => exact ⟨c, t, rfl, by simpa using hh⟩
  · intro c hc
    unfold bareOk at hb
    simp only [Bool.and_eq_true] at hb
    have := List.all_eq_true.mp hb.1 c hc
    simp only [Bool.not_eq_true', Bool.or_eq_false_iff, beq_eq_false_iff_ne] at this
    exact ⟨this.1.1.1.1, this.1.1.1.2, this.1.1.2, this.1.2, this.2⟩

theorem plainTok_write (v : Text) (h : plainTok v = true) : arffWriteTok SQ (fun _ => false) (false, v) = v := by
  have := (plainTok_parts v h).2.2
  simp [arffWriteTok, this]

theorem replicate_blank_ne_comma (pad : Nat) : ∀ c ∈ List.replicate pad 32, c ≠ COMMA := by
  intro c hc
  rw [List.mem_replicate] at hc
  rw [hc.2]; decide

theorem splitOnGo_plain (pad : Nat) (v0 : Text) (r : List Text) (cur : Text) (h : ∀ v ∈ v0 :: r, plainTok v = true) :
    splitOnGo COMMA cur (arffWriteRow SQ (fun _ => false) pad ((v0 :: r).map (fun v => (false, v)))) =
      (cur ++ v0) :: r.map (fun v => List.replicate pad 32 ++ v) := by
  induction r generalizing v0 cur with
  | nil =>
    have hv := h v0 (by simp)
    have hc : ∀ c ∈ v0, c ≠ COMMA := fun c hc => ((plainTok_parts v0 hv).2.1 c hc).1
    simp only [List.map_cons, List.map_nil, arffWriteRow, plainTok_write v0 hv]
    have := splitOnGo_tok COMMA cur v0 [] hc
    rw [List.append_nil] at this
    rw [this]; rfl
  | cons y xs ih =>
    have hv := h v0 (by simp)
    have hc : ∀ c ∈ v0, c ≠ COMMA := fun c hc => ((plainTok_parts v0 hv).2.1 c hc).1
    simp only [List.map_cons, arffWriteRow, plainTok_write v0 hv]
    rw [splitOnGo_tok COMMA cur v0 _ hc]
    simp only [splitOnGo, if_true]
    rw [splitOnGo_tok COMMA [] (List.replicate pad 32) _ (replicate_blank_ne_comma pad)]
    have := ih y (List.replicate pad 32) (fun v hv' => h v (by simp at hv' ⊢; right; exact hv'))
    simp only [List.map_cons, List.nil_append] at this ⊢
    rw [this]

theorem advLoop_plain (items : List (Text × Text))
    (h : ∀ it ∈ items, (∀ c ∈ it.1, isPySpace c = true) ∧ plainTok it.2 = true) :
    advLoop none (items.map (fun it => it.1 ++ it.2)) = .ok (items.map (·.2)) := by
  induction items with
  | nil => rfl
  | cons it items ih =>
    obtain ⟨hl, hv⟩ := h it (by simp)
    obtain ⟨⟨c, t, hct, hcs⟩, hall, _⟩ := plainTok_parts it.2 hv
    have hls : lstrip (it.1 ++ it.2) = it.2 := lstrip_lead it.1 it.2 hl (by
      intro x hx; rw [hct] at hx; simp at hx; rw [← hx]; exact hcs)
    have hq : isQuoteCh c = false := by
      have := hall c (by rw [hct]; simp)
      simp [isQuoteCh, this.2.1, this.2.2.1]
    have hf : it.2.filter (· != BS) = it.2 := by
      rw [List.filter_eq_self]
      intro x hx
      simpa using (hall x hx).2.2.2.1
    have ih' := ih (fun x hx => h x (by simp [hx]))
    simp only [List.map_cons, advLoop, hls]
    rw [hct] at hf ⊢
    simp only [hq, Bool.false_eq_true, if_false, ih', hf]

theorem plainRow_split (pad : Nat) (vs : List Text) (hne : vs ≠ []) (h : ∀ v ∈ vs, plainTok v = true) :
    advLoop none (splitOn COMMA (plainRowLine pad vs)) = .ok vs := by
  cases vs with
  | nil => exact absurd rfl hne
  | cons v0 r =>
    unfold splitOn plainRowLine
    rw [splitOnGo_plain pad v0 r [] h]
    have := advLoop_plain (([], v0) :: r.map (fun v => (List.replicate pad 32, v))) (by
      intro it hit
      simp only [List.mem_cons, List.mem_map] at hit
      rcases hit with rfl | ⟨v, hv, rfl⟩
      · exact ⟨by simp, h v0 (by simp)⟩
      · refine ⟨?_, h v (by simp [hv])⟩
        intro c hc
        rw [List.mem_replicate] at hc
        rw [hc.2]; decide)
    simpa [List.map_map, Function.comp_def] using this

theorem plainRow_arffRowOk (vs : List Text) (hne : vs ≠ []) (h : ∀ v ∈ vs, plainTok v = true) :
    arffRowOk SQ (vs.map (fun v => (false, v))) = true := by
  unfold arffRowOk
  simp only [Bool.and_eq_true]
  refine ⟨⟨by simpa using hne, ?_⟩, ?_⟩
  · rw [List.all_eq_true]
    intro x hx
    simp only [List.mem_map] at hx
    obtain ⟨v, hv, rfl⟩ := hx
    rw [List.all_eq_true]
    intro c hc
    have := (plainTok_parts v (h v hv)).2.1 c hc
    simp [this.2.2.2.2, this.2.2.1, this.2.1]
  · cases vs with
    | nil => rfl
    | cons v r =>
      cases r with
      | nil =>
        obtain ⟨⟨c, t, hct, _⟩, _⟩ := plainTok_parts v (h v (by simp))
        simp [hct]
      | cons y ys => rfl

theorem plain_paths_agree' (pad : Nat) (vs : List Text) (hne : vs ≠ []) (h : ∀ v ∈ vs, plainTok v = true) :
    (arffLineStepF vs.length ALRF.init (plainRowLine pad vs)).map (·.2) = .ok vs ∧
    (∀ s : ALRF, s.fallback = some COMMA → (arffAdvanced vs.length s (plainRowLine pad vs)).map (·.2) = .ok vs) ∧
    advLoop none (splitOn COMMA (plainRowLine pad vs)) = .ok vs := by
  refine ⟨?_, ?_, plainRow_split pad vs hne h⟩
  · have hAL := arffLines_written SQ (Or.inl rfl) (fun _ => false) vs.length [(pad, vs.map (fun v => (false, v)))] (by
      intro r hr
      simp only [List.mem_singleton] at hr
      subst hr
      exact ⟨plainRow_arffRowOk vs hne h, by simp⟩) ALR.init (Or.inl rfl)
    simp only [List.map_cons, List.map_nil, arffLines] at hAL
    cases hstep : arffLineStep vs.length ALR.init (arffWriteRow SQ (fun _ => false) pad (vs.map (fun v => (false, v)))) with
    | error e => rw [hstep] at hAL; cases hAL
    | ok p =>
      obtain ⟨s1, r⟩ := p
      rw [hstep] at hAL
      simp only [Except.ok.injEq, List.cons.injEq, and_true] at hAL
      have hfull := arffLineStep_full _ _ _ _ _ hstep
      have htoF : toF ALR.init = ALRF.init := rfl
      rw [htoF] at hfull
      unfold plainRowLine
      rw [hfull]
      simp only [Except.map]
      rw [hAL]
      simp [List.map_map, Function.comp_def]
  · intro s hs
    unfold arffAdvanced
    simp only [hs, plainRow_split pad vs hne h, if_true, Except.map]

/-! ## H. CPython numerals: the enlarged functions are conservative -/

theorem strip_eq (t : Text) : strip t = rstrip (lstrip t) := rfl

theorem strip_idem (t : Text) : strip (strip t) = strip t := by
  rw [strip_eq t]
  obtain ⟨w, hX, _, hlast⟩ := rstrip_spec (lstrip t)
  have hhead : ∀ c, (rstrip (lstrip t)).head? = some c → isPySpace c = false := by
    intro c hc
    cases hR : rstrip (lstrip t) with
    | nil => rw [hR] at hc; simp at hc
    | cons a r =>
      rw [hR] at hc hX
      simp at hc
      subst hc
      exact dropWhile_head_not isPySpace t a (r ++ w) (by unfold lstrip at hX; rw [hX]; rfl)
  rw [strip_eq (rstrip (lstrip t))]
  have : lstrip (rstrip (lstrip t)) = rstrip (lstrip t) := by
    unfold lstrip
    exact dropWhile_head_false isPySpace _ hhead
  rw [this, rstrip_id _ hlast]

theorem dropWhile_congr_mem {α} (p q : α → Bool) (l : List α) (h : ∀ c ∈ l, p c = q c) : l.dropWhile p = l.dropWhile q := by
  induction l with
  | nil => rfl
  | cons a l ih =>
    have ha := h a (by simp)
    simp only [List.dropWhile, ha]
    cases q a
    · rfl
    · exact ih (fun c hc => h c (by simp [hc]))

theorem mem_dropWhile {α} (p : α → Bool) (l : List α) (c : α) (h : c ∈ l.dropWhile p) : c ∈ l := by
  induction l with
  | nil => simp at h
  | cons a l ih =>
    simp only [List.dropWhile] at h
    cases hp : p a
    · rw [hp] at h; exact h
    · rw [hp] at h; exact List.mem_cons_of_mem _ (ih h)

theorem stripNum_eq_strip (t : Text) (h : noFs t = true) : stripNum t = strip t := by
  have hp : ∀ c ∈ t, isNumSpace c = isPySpace c := by
    intro c hc
    have := List.all_eq_true.mp h c hc
    unfold isNumSpace
    rw [this, Bool.and_true]
  unfold stripNum strip
  rw [dropWhile_congr_mem isNumSpace isPySpace t hp]
  rw [dropWhile_congr_mem isNumSpace isPySpace (t.dropWhile isPySpace).reverse (by
    intro c hc
    exact hp c (mem_dropWhile _ _ _ (List.mem_reverse.mp hc)))]

theorem dropUsGo_none (b : Bool) (t : Text) (h : ¬ US ∈ t) : dropUsGo b t = some t := by
  induction t generalizing b with
  | nil => rfl
  | cons c t ih =>
    have hc : c ≠ US := fun e => h (by simp [e])
    simp only [dropUsGo, hc, if_false, ih _ (fun hm => h (List.mem_cons_of_mem _ hm)), Option.map_some]

theorem parseInt_strip (t : Text) : parseInt (strip t) = parseInt t := by
  unfold parseInt
  rw [strip_idem]

theorem isFloatLit_strip (t : Text) : isFloatLit (strip t) = isFloatLit t := by
  unfold isFloatLit
  rw [strip_idem]

theorem numerals_conservative' (tok : Text) (hu : ¬ US ∈ tok) (hf : noFs tok = true) :
    parseIntPy tok = parseInt tok ∧ isFloatLitPy tok = isFloatLit tok := by
  have hu' : ¬ US ∈ strip tok := by
    intro hm
    apply hu
    unfold strip at hm
    exact mem_dropWhile _ _ _ (List.mem_reverse.mp (mem_dropWhile _ _ _ (List.mem_reverse.mp hm)))
  unfold parseIntPy isFloatLitPy dropUs
  rw [stripNum_eq_strip tok hf, dropUsGo_none false _ hu']
  simp only [strip_idem, if_true, parseInt_strip, isFloatLit_strip, beq_self_eq_true, Bool.true_and, and_self]

/-! ## Part I (phase 5): the ARFF reader over CPython's numerals -/

theorem parseKeysG_old (ks : List Text) : parseKeysG parseInt ks = parseKeys ks := by
  induction ks with
  | nil => rfl
  | cons k ks ih => simp only [parseKeysG, parseKeys, ih]

theorem arffSparseLineG_old (n : Nat) (line : Text) : arffSparseLineG parseInt n line = arffSparseLine n line := by
  simp only [arffSparseLineG, arffSparseLine, parseKeysG_old]

theorem encodeCellG_old (e : Enc) (v : Text) : encodeCellG isFloatLit e v = encodeCell e v := by
  cases e <;> rfl

theorem encodeRowG_old (es : List Enc) (vs : List Text) : encodeRowG isFloatLit es vs = encodeRow es vs := by
  induction es generalizing vs with
  | nil => cases vs <;> rfl
  | cons e es ih =>
    cases vs with
    | nil => rfl
    | cons v vs => simp only [encodeRowG, encodeRow, encodeCellG_old, ih]

theorem denseRowsG_old (encs : List Enc) (n : Nat) (s : ALRF) (ls : List Text) :
    denseRowsG isFloatLit encs n s ls = denseRows encs n s ls := by
  induction ls generalizing s with
  | nil => rfl
  | cons l ls ih => simp only [denseRowsG, denseRows, encodeRowG_old, ih]

theorem sparseItemsG_old (names : List Text) (encs : List Enc) (l : List (Int × Text)) :
    sparseItemsG isFloatLit names encs l = sparseItems names encs l := by
  induction l with
  | nil => rfl
  | cons p l ih => obtain ⟨k, v⟩ := p; simp only [sparseItemsG, sparseItems, encodeCellG_old, ih]

theorem sparseRowsG_old (names : List Text) (encs : List Enc) (n : Nat) (ls : List Text) :
    sparseRowsG parseInt isFloatLit names encs n ls = sparseRows names encs n ls := by
  induction ls with
  | nil => rfl
  | cons l ls ih => simp only [sparseRowsG, sparseRows, arffSparseLineG_old, sparseItemsG_old, ih]

theorem arffReadG_old' (lines : List Text) : arffReadG parseInt isFloatLit lines = arffRead lines := by
  simp only [arffReadG, arffRead, arffReadNG, arffReadN, denseRowsG_old, sparseRowsG_old]

/-! ### characters of the tokens come from the lines -/

/-- every character is neither `_` nor `\x1c`–`\x1f` -/
def Cl (t : Text) : Prop := ∀ c ∈ t, numClean c = true

theorem Cl_iff (t : Text) : t.all numClean = true ↔ Cl t := by simp [Cl, List.all_eq_true]

theorem Cl_nil : Cl [] := by intro c hc; cases hc

theorem Cl_subset {a b : Text} (h : a ⊆ b) (hb : Cl b) : Cl a := fun c hc => hb c (h hc)

theorem Cl_append {a b : Text} (ha : Cl a) (hb : Cl b) : Cl (a ++ b) := by
  intro c hc; rcases List.mem_append.mp hc with h | h
  · exact ha c h
  · exact hb c h

theorem Cl_cons {c : Nat} {a : Text} (hc : numClean c = true) (ha : Cl a) : Cl (c :: a) := by
  intro x hx; rcases List.mem_cons.mp hx with rfl | h
  · exact hc
  · exact ha x h

theorem Cl_tail {c : Nat} {a : Text} (h : Cl (c :: a)) : Cl a := fun x hx => h x (List.mem_cons_of_mem _ hx)

theorem strip_subset (t : Text) : strip t ⊆ t := by
  intro c hc
  unfold strip at hc
  have h1 := List.mem_reverse.mp hc
  have h2 := (List.dropWhile_sublist _).subset h1
  have h3 := List.mem_reverse.mp h2
  exact (List.dropWhile_sublist _).subset h3

theorem lstrip_subset (t : Text) : lstrip t ⊆ t := (List.dropWhile_sublist _).subset

theorem rstrip_subset (t : Text) : rstrip t ⊆ t := by
  intro c hc
  unfold rstrip at hc
  have h1 := List.mem_reverse.mp hc
  exact List.mem_reverse.mp ((List.dropWhile_sublist _).subset h1)

theorem stripBraces_subset (t : Text) : stripBraces t ⊆ t := by
  intro c hc
  unfold stripBraces at hc
  have h1 := List.mem_reverse.mp hc
  have h2 := (List.dropWhile_sublist _).subset h1
  have h3 := List.mem_reverse.mp h2
  exact (List.dropWhile_sublist _).subset h3

theorem splitOnGo_clean (sep : Nat) (cur t : Text) (hc : Cl cur) (ht : Cl t) :
    ∀ v ∈ splitOnGo sep cur t, Cl v := by
  induction t generalizing cur with
  | nil => intro v hv; simp only [splitOnGo, List.mem_singleton] at hv; exact hv ▸ hc
  | cons c t ih =>
    intro v hv
    simp only [splitOnGo] at hv
    split at hv
    · rcases List.mem_cons.mp hv with rfl | h
      · exact hc
      · exact ih [] Cl_nil (Cl_tail ht) v h
    · exact ih (cur ++ [c]) (Cl_append hc (Cl_cons (ht c (by simp)) Cl_nil)) (Cl_tail ht) v hv

theorem splitOn_clean (sep : Nat) (t : Text) (ht : Cl t) : ∀ v ∈ splitOn sep t, Cl v :=
  splitOnGo_clean sep [] t Cl_nil ht

theorem sparseSplitGo_clean (cur : Text) (st : Nat) (t : Text) (hc : Cl cur) (ht : Cl t) :
    ∀ v ∈ sparseSplitGo cur st t, Cl v := by
  induction t generalizing cur st with
  | nil =>
    intro v hv
    simp only [sparseSplitGo] at hv
    split at hv <;> simp only [List.mem_singleton] at hv <;> subst hv
    · exact hc
    · exact Cl_nil
  | cons c t ih =>
    have ht' := Cl_tail ht
    have hcc : Cl [c] := Cl_cons (ht c (by simp)) Cl_nil
    intro v hv
    simp only [sparseSplitGo] at hv
    repeat' split at hv
    all_goals first
      | exact ih _ _ Cl_nil ht' v hv
      | exact ih _ _ hcc ht' v hv
      | exact ih _ _ (Cl_append hc hcc) ht' v hv
      | (rcases List.mem_cons.mp hv with rfl | h
         · first | exact hc | exact Cl_nil
         · exact ih _ _ Cl_nil ht' v h)

theorem sparseSplit_clean (t : Text) (ht : Cl t) : ∀ v ∈ sparseSplit t, Cl v :=
  sparseSplitGo_clean [] 0 t Cl_nil ht

/-! ### the csv machine adds only characters of the line (and `\n` after an escape character) -/

def RC (r : CsvR) : Prop := Cl r.field ∧ ∀ f ∈ r.fields, Cl f

theorem RC_reset : RC CsvR.reset := ⟨Cl_nil, by intro f hf; cases hf⟩

theorem RC_saveField {r : CsvR} (h : RC r) (st : CsvSt) : RC (saveField r st) := by
  refine ⟨Cl_nil, ?_⟩
  intro f hf
  simp only [saveField, List.mem_append, List.mem_singleton] at hf
  rcases hf with hf | rfl
  · exact h.2 f hf
  · exact h.1

theorem RC_addChar {r : CsvR} (h : RC r) {c : Nat} (hc : numClean c = true) (st : CsvSt) : RC (addChar r c st) :=
  ⟨Cl_append h.1 (Cl_cons hc Cl_nil), h.2⟩

theorem RC_goto {r : CsvR} (h : RC r) (st : CsvSt) : RC (goto r st) := h

theorem csvStartField_clean (d : Dialect) (r : CsvR) (c : Option Nat) (hr : RC r)
    (hc : ∀ ch, c = some ch → numClean ch = true) : RC (csvStartField d r c) := by
  cases c with
  | none => exact RC_saveField hr _
  | some ch =>
    have hch := hc ch rfl
    simp only [csvStartField]
    repeat' split
    all_goals first | exact RC_saveField hr _ | exact RC_goto hr _ | exact RC_addChar hr hch _

theorem csvInField_clean (d : Dialect) (r : CsvR) (c : Option Nat) (hr : RC r)
    (hc : ∀ ch, c = some ch → numClean ch = true) : RC (csvInField d r c) := by
  cases c with
  | none => exact RC_saveField hr _
  | some ch =>
    have hch := hc ch rfl
    simp only [csvInField]
    repeat' split
    all_goals first | exact RC_saveField hr _ | exact RC_goto hr _ | exact RC_addChar hr hch _

theorem csvChar_clean (d : Dialect) (r : CsvR) (c : Option Nat) (hr : RC r)
    (hc : ∀ ch, c = some ch → numClean ch = true) (r1 : CsvR) (h : csvChar d r c = .ok r1) : RC r1 := by
  have h10 : numClean 10 = true := by decide
  have hsf := csvStartField_clean d r c hr hc
  have hif := csvInField_clean d r c hr hc
  have hgd : numClean (c.getD 10) = true := by
    cases c with
    | none => exact h10
    | some ch => exact hc ch rfl
  unfold csvChar at h
  repeat' split at h
  all_goals first
    | (cases h
       first
        | exact hr
        | exact hsf
        | exact hif
        | exact RC_saveField hr _
        | exact RC_goto hr _
        | exact RC_addChar hr h10 _
        | exact RC_addChar hr hgd _
        | exact RC_addChar hr (hc _ (by assumption)) _)
    | cases h

theorem csvFeed_clean (d : Dialect) (r : CsvR) (t : Text) (hr : RC r) (ht : Cl t) (r1 : CsvR)
    (h : csvFeed d r t = .ok r1) : RC r1 := by
  induction t generalizing r with
  | nil => simp only [csvFeed] at h; cases h; exact hr
  | cons c t ih =>
    simp only [csvFeed] at h
    split at h
    · cases h
    · rename_i r2 h2
      exact ih r2 (csvChar_clean d r (some c) hr (by intro ch hch; cases hch; exact ht c (by simp)) r2 h2) (Cl_tail ht) h

theorem csvLine_clean (d : Dialect) (r : CsvR) (l : Text) (hr : RC r) (hl : Cl l) (r1 : CsvR)
    (h : csvLine d r l = .ok r1) : RC r1 := by
  simp only [csvLine] at h
  split at h
  · cases h
  · rename_i r2 h2
    exact csvChar_clean d r2 none (csvFeed_clean d r l hr hl r2 h2) (by intro ch hch; cases hch) r1 h

theorem csvRecords_clean (d : Dialect) (r : CsvR) (ls : List Text) (hr : RC r) (hl : ∀ l ∈ ls, Cl l)
    (rs : List (List Text)) (h : csvRecords d r ls = .ok rs) : ∀ rec ∈ rs, ∀ f ∈ rec, Cl f := by
  induction ls generalizing r rs with
  | nil =>
    simp only [csvRecords] at h
    split at h <;> cases h
    · intro rec hrec f hf
      simp only [List.mem_singleton] at hrec; subst hrec
      rcases List.mem_append.mp hf with hf | hf
      · exact hr.2 f hf
      · simp only [List.mem_singleton] at hf; exact hf ▸ hr.1
    · intro rec hrec; cases hrec
  | cons l ls ih =>
    simp only [csvRecords] at h
    split at h
    · cases h
    · rename_i r1 h1
      have hr1 := csvLine_clean d r l hr (hl l (by simp)) r1 h1
      have hls : ∀ l ∈ ls, Cl l := fun x hx => hl x (by simp [hx])
      split at h
      · split at h
        · cases h
        · rename_i rs' h'
          cases h
          intro rec hrec
          rcases List.mem_cons.mp hrec with rfl | hrec
          · exact hr1.2
          · exact ih CsvR.reset RC_reset hls rs' h' rec hrec
      · exact ih r1 hr1 hls rs h

theorem csvFirst_clean (d : Dialect) (line : Text) (hl : Cl line) (r : List Text)
    (h : csvFirst d line = .ok r) : ∀ f ∈ r, Cl f := by
  simp only [csvFirst] at h
  split at h
  · cases h
  · cases h
  · rename_i r0 rest h0
    cases h
    exact csvRecords_clean d CsvR.reset [line] RC_reset (by intro l hl'; simp only [List.mem_singleton] at hl'; exact hl' ▸ hl) _ h0 r (by simp)

/-! ### the fallback parser and the complete dense line reader -/

theorem filter_subset' (p : Nat → Bool) (t : Text) : t.filter p ⊆ t := List.filter_sublist.subset

theorem tail_dropLast_subset (t : Text) : t.tail.dropLast ⊆ t :=
  fun _ hc => (List.tail_sublist t).subset ((List.dropLast_sublist _).subset hc)

theorem advItem_clean {item : Text} (h : Cl item) : Cl (((strip item).tail.dropLast).filter (· != BS)) :=
  Cl_subset (fun _ hc => strip_subset _ (tail_dropLast_subset _ (filter_subset' _ _ hc))) h

theorem advLoop_clean (acc : Option Text) (ps : List Text) (ha : ∀ a, acc = some a → Cl a) (hp : ∀ p ∈ ps, Cl p)
    (out : List Text) (h : advLoop acc ps = .ok out) : ∀ v ∈ out, Cl v := by
  induction ps generalizing acc out with
  | nil =>
    cases acc with
    | none => simp only [advLoop] at h; cases h; intro v hv; cases hv
    | some a => simp only [advLoop] at h; cases h
  | cons p ps ih =>
    have hps : ∀ q ∈ ps, Cl q := fun q hq => hp q (by simp [hq])
    have hpp : Cl p := hp p (by simp)
    cases acc with
    | none =>
      have hitem : Cl (lstrip p) := Cl_subset (lstrip_subset p) hpp
      simp only [advLoop] at h
      split at h
      · cases h
      · rename_i c rest hcr
        have hsome : ∀ a, some (lstrip p) = some a → Cl a := by intro a ha'; cases ha'; exact hitem
        have hnone : ∀ a, (none : Option Text) = some a → Cl a := by intro a ha'; cases ha'
        repeat' split at h
        all_goals first
          | exact ih _ hsome hps out h
          | (rename_i rest' hrest
             cases h
             intro v hv
             rcases List.mem_cons.mp hv with rfl | hv
             · first | exact advItem_clean hitem | exact Cl_subset (filter_subset' _ _) hitem
             · exact ih none hnone hps rest' hrest v hv)
          | cases h
    | some item =>
      have hitem1 : Cl (item ++ COMMA :: p) := Cl_append (ha item rfl) (Cl_cons (by decide) hpp)
      have hsome : ∀ a, some (item ++ COMMA :: p) = some a → Cl a := by intro a ha'; cases ha'; exact hitem1
      have hnone : ∀ a, (none : Option Text) = some a → Cl a := by intro a ha'; cases ha'
      simp only [advLoop] at h
      repeat' split at h
      all_goals first
        | exact ih _ hsome hps out h
        | (rename_i rest' hrest
           cases h
           intro v hv
           rcases List.mem_cons.mp hv with rfl | hv
           · exact advItem_clean hitem1
           · exact ih none hnone hps rest' hrest v hv)
        | cases h

theorem arffAdvanced_clean (n : Nat) (s : ALRF) (line : Text) (hl : Cl line) (s1 : ALRF) (raw : List Text)
    (h : arffAdvanced n s line = .ok (s1, raw)) : ∀ v ∈ raw, Cl v := by
  simp only [arffAdvanced] at h
  split at h
  · cases h
  · rename_i parsed hp
    split at h
    · cases h
      exact advLoop_clean none _ (by intro a ha; cases ha) (splitOn_clean _ line hl) _ hp
    · cases h

theorem arffSimpleF_clean (n : Nat) (s : ALRF) (line : Text) (hl : Cl line) (s1 : ALRF) (raw : List Text)
    (h : arffSimpleF n s line = .ok (s1, raw)) : ∀ v ∈ raw, Cl v := by
  simp only [arffSimpleF] at h
  split at h
  · exact arffAdvanced_clean n s line hl s1 raw h
  · split at h
    · cases h
    · rename_i r hr
      split at h
      · cases h; exact csvFirst_clean _ line hl _ hr
      · cases h

theorem arffFirstF_clean (n : Nat) (line : Text) (hl : Cl line) (s1 : ALRF) (raw : List Text)
    (h : arffFirstF n line = .ok (s1, raw)) : ∀ v ∈ raw, Cl v := by
  simp only [arffFirstF] at h
  repeat' split at h
  all_goals first
    | cases h
    | exact arffAdvanced_clean n _ line hl s1 raw h
    | exact arffSimpleF_clean n _ line hl s1 raw h

theorem arffLineStepF_clean (n : Nat) (s : ALRF) (line : Text) (hl : Cl line) (s1 : ALRF) (raw : List Text)
    (h : arffLineStepF n s line = .ok (s1, raw)) : ∀ v ∈ raw, Cl v := by
  simp only [arffLineStepF] at h
  repeat' split at h
  · exact arffAdvanced_clean n s line hl s1 raw h
  · exact arffSimpleF_clean n s line hl s1 raw h
  · exact arffFirstF_clean n line hl s1 raw h

/-! ### the reader depends on the numeral functions only through tokens made of the lines' characters -/

theorem encodeCellG_congr (fl fl' : Text → Bool) (e : Enc) (v : Text) (h : fl v = fl' v) :
    encodeCellG fl e v = encodeCellG fl' e v := by
  cases e <;> simp only [encodeCellG, h]

theorem encodeRowG_congr (fl fl' : Text → Bool) (hfl : ∀ t, Cl t → fl t = fl' t) (es : List Enc) (vs : List Text)
    (hv : ∀ v ∈ vs, Cl v) : encodeRowG fl es vs = encodeRowG fl' es vs := by
  induction es generalizing vs with
  | nil => cases vs <;> rfl
  | cons e es ih =>
    cases vs with
    | nil => rfl
    | cons v vs =>
      simp only [encodeRowG, encodeCellG_congr fl fl' e v (hfl v (hv v (by simp))),
        ih vs (fun x hx => hv x (by simp [hx]))]

theorem denseRowsG_congr (fl fl' : Text → Bool) (hfl : ∀ t, Cl t → fl t = fl' t) (encs : List Enc) (n : Nat)
    (s : ALRF) (ls : List Text) (hl : ∀ l ∈ ls, Cl l) :
    denseRowsG fl encs n s ls = denseRowsG fl' encs n s ls := by
  induction ls generalizing s with
  | nil => rfl
  | cons l ls ih =>
    have hls : ∀ x ∈ ls, Cl x := fun x hx => hl x (by simp [hx])
    simp only [denseRowsG]
    split
    · exact ih s hls
    · cases hstep : arffLineStepF n s l with
      | error e => rfl
      | ok p =>
        obtain ⟨s1, raw⟩ := p
        have hraw := arffLineStepF_clean n s l (hl l (by simp)) s1 raw hstep
        simp only [encodeRowG_congr fl fl' hfl encs raw hraw, ih s1 hls]

theorem parseKeysG_congr (pi pi' : Text → Option Int) (hpi : ∀ t, Cl t → pi t = pi' t) (ks : List Text)
    (hk : ∀ k ∈ ks, Cl k) : parseKeysG pi ks = parseKeysG pi' ks := by
  induction ks with
  | nil => rfl
  | cons k ks ih =>
    simp only [parseKeysG, hpi k (hk k (by simp)), ih (fun x hx => hk x (by simp [hx]))]

theorem evens_subset : ∀ l : List Text, evens l ⊆ l
  | [] => by simp [evens]
  | [x] => by simp [evens]
  | x :: y :: r => by
    intro v hv
    simp only [evens, List.mem_cons] at hv ⊢
    rcases hv with h | h
    · exact Or.inl h
    · exact Or.inr (Or.inr (evens_subset r h))

theorem odds_subset : ∀ l : List Text, odds l ⊆ l
  | [] => by simp [odds]
  | [x] => by simp [odds]
  | x :: y :: r => by
    intro v hv
    simp only [odds, List.mem_cons] at hv ⊢
    rcases hv with h | h
    · exact Or.inr (Or.inl h)
    · exact Or.inr (Or.inr (odds_subset r h))

theorem dictOf_vals (l : List (Int × Text)) : ∀ p ∈ dictOf l, p.2 ∈ l.map (·.2) := by
  induction l with
  | nil => intro p hp; cases hp
  | cons kv r ih =>
    obtain ⟨k, v⟩ := kv
    intro p hp
    simp only [dictOf] at hp
    split at hp
    · rename_i kv' hfind
      rcases List.mem_cons.mp hp with rfl | hp
      · have := ih kv' (List.mem_of_find?_eq_some hfind)
        simp only [List.map_cons, List.mem_cons]; exact Or.inr this
      · have := ih p (List.filter_sublist.subset hp)
        simp only [List.map_cons, List.mem_cons]; exact Or.inr this
    · rcases List.mem_cons.mp hp with rfl | hp
      · simp
      · have := ih p hp
        simp only [List.map_cons, List.mem_cons]; exact Or.inr this

theorem sparseTokens_clean (line : Text) (hl : Cl line) : ∀ v ∈ sparseSplit (stripBraces line), Cl v :=
  sparseSplit_clean _ (Cl_subset (stripBraces_subset line) hl)

theorem arffSparseLineG_congr (pi pi' : Text → Option Int) (hpi : ∀ t, Cl t → pi t = pi' t) (n : Nat) (line : Text)
    (hl : Cl line) : arffSparseLineG pi n line = arffSparseLineG pi' n line := by
  simp only [arffSparseLineG, parseKeysG_congr pi pi' hpi _ (fun k hk => sparseTokens_clean line hl k (evens_subset _ hk))]

theorem arffSparseLineG_clean (pi : Text → Option Int) (n : Nat) (line : Text) (hl : Cl line)
    (raw : List (Int × Text)) (h : arffSparseLineG pi n line = .ok raw) : ∀ p ∈ raw, Cl p.2 := by
  simp only [arffSparseLineG] at h
  split at h
  · cases h; intro p hp; cases hp
  · split at h
    · cases h
    · rename_i keys hkeys
      split at h
      · cases h
      · cases h
        intro p hp
        have h1 := dictOf_vals _ p hp
        obtain ⟨q, hq, hq2⟩ := List.mem_map.mp h1
        have h2 : q.2 ∈ odds (sparseSplit (stripBraces line)) := (List.of_mem_zip (a := q.1) (b := q.2) hq).2
        rw [← hq2]
        exact sparseTokens_clean line hl _ (odds_subset _ h2)

theorem sparseItemsG_congr (fl fl' : Text → Bool) (hfl : ∀ t, Cl t → fl t = fl' t) (names : List Text) (encs : List Enc)
    (l : List (Int × Text)) (hv : ∀ p ∈ l, Cl p.2) :
    sparseItemsG fl names encs l = sparseItemsG fl' names encs l := by
  induction l with
  | nil => rfl
  | cons p l ih =>
    obtain ⟨k, v⟩ := p
    have ih' := ih (fun x hx => hv x (by simp [hx]))
    have hvv : fl v = fl' v := hfl v (hv (k, v) (by simp))
    simp only [sparseItemsG, ih']
    split
    · rw [encodeCellG_congr fl fl' _ v hvv]
    · rfl

theorem sparseRowsG_congr (pi pi' : Text → Option Int) (fl fl' : Text → Bool) (hpi : ∀ t, Cl t → pi t = pi' t)
    (hfl : ∀ t, Cl t → fl t = fl' t) (names : List Text) (encs : List Enc) (n : Nat) (ls : List Text)
    (hl : ∀ l ∈ ls, Cl l) : sparseRowsG pi fl names encs n ls = sparseRowsG pi' fl' names encs n ls := by
  induction ls with
  | nil => rfl
  | cons l ls ih =>
    have ih' := ih (fun x hx => hl x (by simp [hx]))
    have hcl : Cl l := hl l (by simp)
    simp only [sparseRowsG, ih', ← arffSparseLineG_congr pi pi' hpi n l hcl]
    split
    · rfl
    · cases hline : arffSparseLineG pi n l with
      | error e => rfl
      | ok raw =>
        have hraw := arffSparseLineG_clean pi n l hcl raw hline
        have hz : Cl ZERO := by intro c hc; simp only [ZERO, List.mem_singleton] at hc; subst hc; decide
        simp only
        rw [sparseItemsG_congr fl fl' hfl names encs _ (by
          intro p hp
          rcases List.mem_append.mp hp with hp | hp
          · exact hraw p hp
          · obtain ⟨i, _, rfl⟩ := List.mem_map.mp hp
            exact hz)]

theorem arffReadNG_congr (pi pi' : Text → Option Int) (fl fl' : Text → Bool) (hpi : ∀ t, Cl t → pi t = pi' t)
    (hfl : ∀ t, Cl t → fl t = fl' t) (ls : List Text) (hl : ∀ l ∈ ls, Cl l) :
    arffReadNG pi fl ls = arffReadNG pi' fl' ls := by
  have hdata : ∀ l ∈ (((ls.dropWhile (fun l => lowerAscii l ≠ kwData)).drop 1).dropWhile (fun l => l.head? = some PCT)), Cl l := by
    intro l hm
    exact hl l ((List.dropWhile_sublist _).subset ((List.drop_sublist _ _).subset ((List.dropWhile_sublist _).subset hm)))
  simp only [arffReadNG]
  split
  · rfl
  · rename_i first rest hd
    have e1 := fun encs n s => denseRowsG_congr fl fl' hfl encs n s _ hdata
    have e2 := fun names encs n => sparseRowsG_congr pi pi' fl fl' hpi hfl names encs n _ hdata
    simp only [e1, e2]

theorem arffNormalize_clean (lines : List Text) (h : ∀ l ∈ lines, Cl l) : ∀ l ∈ arffNormalize lines, Cl l := by
  intro l hm
  unfold arffNormalize at hm
  have h1 := List.filter_sublist.subset hm
  obtain ⟨l0, hl0, rfl⟩ := List.mem_map.mp h1
  exact Cl_subset (strip_subset l0) (h l0 hl0)

theorem arffReadG_congr' (pi pi' : Text → Option Int) (fl fl' : Text → Bool)
    (hpi : ∀ t, t.all numClean = true → pi t = pi' t) (hfl : ∀ t, t.all numClean = true → fl t = fl' t)
    (lines : List Text) (hl : linesNumClean lines = true) : arffReadG pi fl lines = arffReadG pi' fl' lines := by
  unfold arffReadG
  apply arffReadNG_congr pi pi' fl fl' (fun t ht => hpi t ((Cl_iff t).mpr ht)) (fun t ht => hfl t ((Cl_iff t).mpr ht))
  apply arffNormalize_clean
  intro l hm
  unfold linesNumClean at hl
  exact (Cl_iff l).mp (List.all_eq_true.mp hl l hm)

theorem numClean_tok (t : Text) (h : t.all numClean = true) : ¬ US ∈ t ∧ noFs t = true := by
  have hc := (Cl_iff t).mp h
  constructor
  · intro hm
    have := hc US hm
    revert this; decide
  · unfold noFs
    rw [List.all_eq_true]
    intro c hm
    have := hc c hm
    unfold numClean at this
    simp only [Bool.and_eq_true] at this
    exact this.2

theorem arffReadPy_conservative' (lines : List Text) (hl : linesNumClean lines = true) :
    arffReadPy lines = arffRead lines := by
  rw [← arffReadG_old' lines]
  unfold arffReadPy
  apply arffReadG_congr' _ _ _ _ _ _ lines hl
  · intro t ht; exact (numerals_conservative' t (numClean_tok t ht).1 (numClean_tok t ht).2).1
  · intro t ht; exact (numerals_conservative' t (numClean_tok t ht).1 (numClean_tok t ht).2).2

/-! ## Part J (phase 5): the fallback parser on unquoted pieces, `_fallback_delim` undecided -/

theorem advLoop_unquoted' (ps : List Text) (h : ps.all pieceUnquoted = true) : advLoop none ps = advUnquoted ps := by
  induction ps with
  | nil => simp [advLoop, advUnquoted]
  | cons p ps ih =>
    simp only [List.all_cons, Bool.and_eq_true] at h
    have ih' := ih h.2
    have hp := h.1
    unfold pieceUnquoted at hp
    simp only [advLoop]
    cases hl : lstrip p with
    | nil => simp [advUnquoted, hl]
    | cons c rest =>
      rw [hl] at hp
      have hq : isQuoteCh c = false := by simpa using hp
      simp only [hq, Bool.false_eq_true, if_false, ih']
      unfold advUnquoted
      by_cases hall : ps.all (fun p => lstrip p != []) = true
      · simp [hall, hl, advClean]
      · simp [hall, hl]

theorem arffAdvanced_undecided' (n : Nat) (s : ALRF) (line : Text) (hs : s.fallback = none)
    (h : (splitOn (fallbackDelim line) line).all pieceUnquoted = true) :
    arffAdvanced n s line =
      (match advUnquoted (splitOn (fallbackDelim line) line) with
       | .error e => .error e
       | .ok parsed =>
         if parsed.length = n then .ok ({ s with advanced := true, fallback := some (fallbackDelim line) }, parsed)
         else .error .cobaException) := by
  unfold arffAdvanced
  simp only [hs]
  rw [← advLoop_unquoted' _ h]
  rfl

theorem innerTok_parts (v : Text) (h : innerTok v = true) :
    (∃ c t, v = c :: t ∧ isPySpace c = false ∧ isQuoteCh c = false) ∧ (∀ c ∈ v, c ≠ COMMA ∧ c ≠ BS) := by
  unfold innerTok at h
  simp only [Bool.and_eq_true] at h
  obtain ⟨hh, ha⟩ := h
  constructor
  · cases v with
    | nil => simp at hh
    | cons c t =>
      simp only [Bool.and_eq_true, Bool.not_eq_true'] at hh
      exact ⟨c, t, rfl, hh.1, hh.2⟩
  · intro c hc
    have := List.all_eq_true.mp ha c hc
    simp only [Bool.not_eq_true', Bool.or_eq_false_iff, beq_eq_false_iff_ne] at this
    exact this

theorem innerTok_lstrip (v : Text) (h : innerTok v = true) : lstrip v = v := by
  obtain ⟨⟨c, t, rfl, hs, _⟩, _⟩ := innerTok_parts v h
  simp [lstrip, List.dropWhile, hs]

theorem innerTok_clean (v : Text) (h : innerTok v = true) : advClean v = v := by
  unfold advClean
  rw [innerTok_lstrip v h, List.filter_eq_self]
  intro c hc
  simpa using ((innerTok_parts v h).2 c hc).2

theorem innerTok_unquoted (v : Text) (h : innerTok v = true) : pieceUnquoted v = true := by
  unfold pieceUnquoted
  rw [innerTok_lstrip v h]
  obtain ⟨⟨c, t, rfl, _, hq⟩, _⟩ := innerTok_parts v h
  simp [hq]

theorem innerTok_nonblank (v : Text) (h : innerTok v = true) : (lstrip v != []) = true := by
  rw [innerTok_lstrip v h]
  obtain ⟨⟨c, t, rfl, _, _⟩, _⟩ := innerTok_parts v h
  simp

theorem advUnquoted_inner (vs : List Text) (h : ∀ v ∈ vs, innerTok v = true) : advUnquoted vs = .ok vs := by
  unfold advUnquoted
  have h1 : vs.all (fun p => lstrip p != []) = true := List.all_eq_true.mpr (fun v hv => innerTok_nonblank v (h v hv))
  have h2 : vs.map advClean = vs := by
    conv => rhs; rw [← List.map_id vs]
    exact List.map_congr_left (fun v hv => innerTok_clean v (h v hv))
  simp [h1, h2]

theorem mem_splitOnGo_piece (sep : Nat) (cur t : Text) (c : Nat) (hc : c ∈ cur ∨ c ∈ t) (hne : c ≠ sep) :
    ∃ p ∈ splitOnGo sep cur t, c ∈ p := by
  induction t generalizing cur with
  | nil =>
    rcases hc with hc | hc
    · exact ⟨cur, by simp [splitOnGo], hc⟩
    · cases hc
  | cons a t ih =>
    simp only [splitOnGo]
    split
    · rename_i ha
      rcases hc with hc | hc
      · exact ⟨cur, by simp, hc⟩
      · rcases List.mem_cons.mp hc with rfl | hc
        · exact absurd ha hne
        · obtain ⟨p, hp, hcp⟩ := ih [] (Or.inr hc)
          exact ⟨p, by simp [hp], hcp⟩
    · apply ih
      rcases hc with hc | hc
      · exact Or.inl (by simp [hc])
      · rcases List.mem_cons.mp hc with rfl | hc
        · exact Or.inl (by simp)
        · exact Or.inr hc

theorem splitOnGo_length_pos (sep : Nat) (cur t : Text) : 1 ≤ (splitOnGo sep cur t).length := by
  induction t generalizing cur with
  | nil => simp [splitOnGo]
  | cons a t ih =>
    simp only [splitOnGo]
    split
    · simp
    · exact ih _

theorem splitOnGo_length_ge (sep : Nat) (cur t : Text) (h : sep ∈ t) : 2 ≤ (splitOnGo sep cur t).length := by
  induction t generalizing cur with
  | nil => cases h
  | cons a t ih =>
    simp only [splitOnGo]
    split
    · have := splitOnGo_length_pos sep [] t
      simp only [List.length_cons]; omega
    · rename_i ha
      rcases List.mem_cons.mp h with rfl | h
      · exact absurd rfl ha
      · exact ih _ h

theorem splitOn_no_sep (sep : Nat) (t : Text) (h : ¬ sep ∈ t) : splitOn sep t = [t] := by
  have := splitOnGo_tok sep [] t [] (fun c hc hcs => h (hcs ▸ hc))
  simpa [splitOn, splitOnGo] using this

theorem mem_lstrip_of_not_space (p : Text) (c : Nat) (hc : c ∈ p) (hs : isPySpace c = false) : c ∈ lstrip p := by
  induction p with
  | nil => cases hc
  | cons a p ih =>
    unfold lstrip
    simp only [List.dropWhile]
    cases ha : isPySpace a
    · simpa using hc
    · rcases List.mem_cons.mp hc with rfl | hc
      · rw [hs] at ha; cases ha
      · exact ih hc

theorem comma_mem_join (v1 v2 : Text) (r : List Text) : COMMA ∈ joinWith COMMA (v1 :: v2 :: r) := by
  simp [joinWith]

theorem fallback_undecided_iff' (vs : List Text) (hne : vs ≠ []) (h : ∀ v ∈ vs, innerTok v = true)
    (s : ALRF) (hs : s.fallback = none)
    (hq : (splitOn TAB (joinWith COMMA vs)).all pieceUnquoted = true) :
    (arffAdvanced vs.length s (joinWith COMMA vs)).map (·.2) = .ok vs ↔
      (¬ TAB ∈ joinWith COMMA vs ∨ (splitOn TAB (joinWith COMMA vs)).length < vs.length) := by
  have hcomma : splitOn COMMA (joinWith COMMA vs) = vs :=
    splitOn_join COMMA vs hne (fun t ht c hc => ((innerTok_parts t (h t ht)).2 c hc).1)
  have hvsq : vs.all pieceUnquoted = true := List.all_eq_true.mpr (fun v hv => innerTok_unquoted v (h v hv))
  -- the comma choice reads the row back
  have hC : fallbackDelim (joinWith COMMA vs) = COMMA →
      (arffAdvanced vs.length s (joinWith COMMA vs)).map (·.2) = .ok vs := by
    intro hfd
    rw [arffAdvanced_undecided' _ s _ hs (by rw [hfd, hcomma]; exact hvsq), hfd, hcomma, advUnquoted_inner vs h]
    simp [Except.map]
  constructor
  · intro hok
    by_cases hfd : fallbackDelim (joinWith COMMA vs) = COMMA
    · right
      unfold fallbackDelim at hfd
      rw [hcomma] at hfd
      by_cases hlt : vs.length > (splitOn TAB (joinWith COMMA vs)).length
      · exact hlt
      · rw [if_neg hlt] at hfd; exact absurd hfd (by decide)
    · have hfd' : fallbackDelim (joinWith COMMA vs) = TAB := by
        unfold fallbackDelim at hfd ⊢
        split
        · rename_i hgt; exact absurd (if_pos hgt) hfd
        · rfl
      left
      intro htab
      rw [arffAdvanced_undecided' _ s _ hs (by rw [hfd']; exact hq), hfd'] at hok
      by_cases hall : ((splitOn TAB (joinWith COMMA vs)).all (fun p => lstrip p != [])) = true
      · have hadv : advUnquoted (splitOn TAB (joinWith COMMA vs)) = .ok ((splitOn TAB (joinWith COMMA vs)).map advClean) := by
          simp [advUnquoted, hall]
        rw [hadv] at hok
        by_cases hlen : ((splitOn TAB (joinWith COMMA vs)).map advClean).length = vs.length
        · simp only [hlen, if_true, Except.map] at hok
          injection hok with hok
          cases vs with
          | nil => exact hne rfl
          | cons v1 r =>
            cases r with
            | nil =>
              have h2 := splitOnGo_length_ge TAB [] _ htab
              simp only [List.length_map, List.length_cons, List.length_nil] at hlen
              unfold splitOn at hlen
              omega
            | cons v2 r =>
              obtain ⟨p, hp, hcp⟩ := mem_splitOnGo_piece TAB [] _ COMMA (Or.inr (comma_mem_join v1 v2 r)) (by decide)
              have hmem : advClean p ∈ v1 :: v2 :: r := by
                rw [← hok]; exact List.mem_map.mpr ⟨p, hp, rfl⟩
              have hcc : COMMA ∈ advClean p := by
                unfold advClean
                exact List.mem_filter.mpr ⟨mem_lstrip_of_not_space p COMMA hcp (by decide), by decide⟩
              exact ((innerTok_parts _ (h _ hmem)).2 COMMA hcc).1 rfl
        · simp only [] at hok
          rw [if_neg hlen] at hok
          simp [Except.map] at hok
      · have hadv : advUnquoted (splitOn TAB (joinWith COMMA vs)) = .error .indexError := by
          simp [advUnquoted, hall]
        rw [hadv] at hok
        simp [Except.map] at hok
  · intro hcond
    by_cases hfd : fallbackDelim (joinWith COMMA vs) = COMMA
    · exact hC hfd
    · -- the tab choice: then there is no tab and one value
      have hnlt : ¬ vs.length > (splitOn TAB (joinWith COMMA vs)).length := by
        intro hgt
        apply hfd
        unfold fallbackDelim
        rw [hcomma]; simp [hgt]
      rcases hcond with hnt | hlt
      · have hone := splitOn_no_sep TAB _ hnt
        rw [hone] at hnlt
        simp only [List.length_singleton] at hnlt
        cases vs with
        | nil => exact absurd rfl hne
        | cons v1 r =>
          cases r with
          | nil =>
            have hfd' : fallbackDelim (joinWith COMMA [v1]) = TAB := by
              unfold fallbackDelim; rw [hcomma, hone]; simp
            rw [arffAdvanced_undecided' _ s _ hs (by rw [hfd']; exact hq), hfd', hone]
            have : joinWith COMMA [v1] = v1 := rfl
            rw [this, advUnquoted_inner [v1] h]
            simp [Except.map]
          | cons v2 r => simp only [List.length_cons] at hnlt; omega
      · exact absurd hlt hnlt

/-! ## Part K (phase 5): LibSVM / Manik with CPython's numerals -/

theorem parseIntPy_digits (d : Text) (hne : d ≠ []) (h : d.all isDigit = true) : parseIntPy d = some (digitsVal d) := by
  have hd : ∀ c ∈ d, isDigit c = true := List.all_eq_true.mp h
  have hu : ¬ US ∈ d := by
    intro hm
    have := hd US hm
    revert this; decide
  have hf : noFs d = true := by
    unfold noFs
    rw [List.all_eq_true]
    intro c hc
    have := hd c hc
    unfold isDigit at this
    simp only [Bool.and_eq_true, decide_eq_true_eq] at this
    simp only [Bool.not_eq_true', Bool.and_eq_false_iff, decide_eq_false_iff_not]
    omega
  rw [(numerals_conservative' d hu hf).1, parseInt_digits d hne h]

theorem parseKeysG_digits (ks : List Text) (h : ∀ k ∈ ks, k ≠ [] ∧ k.all isDigit = true) :
    parseKeysG parseIntPy ks = .ok (ks.map digitsVal) := by
  induction ks with
  | nil => rfl
  | cons k ks ih =>
    simp only [parseKeysG, parseIntPy_digits k (h k (by simp)).1 (h k (by simp)).2,
      ih (fun x hx => h x (by simp [hx])), List.map_cons]

theorem svmRowPy_written (r : SvmRow) (h : svmNumOk r = true) : svmRowPy r = .ok (svmRowOutPy r) := by
  unfold svmNumOk at h
  have hall := List.all_eq_true.mp h
  have hk : ∀ k ∈ r.feats.map (·.1), k ≠ [] ∧ k.all isDigit = true := by
    intro k hk
    obtain ⟨kv, hkv, rfl⟩ := List.mem_map.mp hk
    have := hall kv hkv
    simp only [Bool.and_eq_true, decide_eq_true_eq] at this
    exact ⟨this.1.1, this.1.2⟩
  have hv : r.feats.all (fun kv => isFloatLitPy kv.2) = true := by
    rw [List.all_eq_true]
    intro kv hkv
    have := hall kv hkv
    simp only [Bool.and_eq_true] at this
    exact this.2
  unfold svmRowPy svmRowOutPy
  rw [parseKeysG_digits _ hk]
  simp only [hv, if_true]
  congr 2
  rw [List.map_map, List.zip_map', ]
  rfl

theorem svmRowsPy_written (rows : List SvmRow) (h : ∀ r ∈ rows, svmNumOk r = true) :
    svmRowsPy rows = .ok (rows.map svmRowOutPy) := by
  induction rows with
  | nil => rfl
  | cons r rows ih =>
    simp only [svmRowsPy, svmRowPy_written r (h r (by simp)), ih (fun x hx => h x (by simp [hx])), List.map_cons]

theorem libsvm_roundtrip_py' (rows : List SvmRow) (hok : ∀ r ∈ rows, svmRowOk r = true)
    (hnum : ∀ r ∈ rows, svmNumOk r = true) :
    libsvmReadPy (rows.map svmWriteRow) = .ok (rows.map svmRowOutPy) := by
  unfold libsvmReadPy
  rw [libsvm_roundtrip' rows hok]
  exact svmRowsPy_written rows hnum

theorem manik_roundtrip_py' (first : Text) (rows : List SvmRow) (hok : ∀ r ∈ rows, svmRowOk r = true)
    (hnum : ∀ r ∈ rows, svmNumOk r = true) :
    manikReadPy (first :: rows.map svmWriteRow) = .ok (rows.map svmRowOutPy) := by
  unfold manikReadPy
  simp only [List.drop_succ_cons, List.drop_zero]
  exact libsvm_roundtrip_py' rows hok hnum

/-! ## L. (phase 6) histories of DiskSink / DiskSource operations -/

deriving instance DecidableEq for DiskOut

theorem storeGet_append {α : Type} (s : Store α) (p : Nat) (xs : List α) (q : Nat) :
    storeGet (storeAppend s p xs) q = if p = q then some ((storeGet s p).getD [] ++ xs) else storeGet s q := by
  induction s with
  | nil =>
    by_cases h : p = q <;> simp [storeAppend, storeGet, h]
  | cons e r ih =>
    obtain ⟨a, x⟩ := e
    by_cases ha : a = p
    · subst ha
      by_cases h : a = q <;> simp [storeAppend, storeGet, h]
    · by_cases h : p = q
      · subst h
        simp [storeAppend, storeGet, ha, ih]
      · by_cases haq : a = q
        · subst haq
          simp [storeAppend, storeGet, ha, h]
        · simp [storeAppend, storeGet, ha, h, haq, ih]

theorem diskRead_frame (lines : List Text) (bytes : List Nat) (h2 : encode (frame lines) = .ok bytes)
    (hn : ∀ l ∈ lines, noNl l = true) : diskRead bytes = .ok lines := by
  unfold diskRead
  rw [decodeAll_encode _ _ h2]
  simp only
  have hcr : ∀ c ∈ frame lines, c ≠ CR := by
    intro c hc
    simp only [frame, List.mem_flatten, List.mem_map] at hc
    obtain ⟨l', ⟨l, hl, rfl⟩, hc⟩ := hc
    simp only [List.mem_append, List.mem_singleton] at hc
    rcases hc with hc | hc
    · exact (noNl_ne l (hn l hl)).1 c hc
    · subst hc; decide
  unfold universalNl
  rw [universalNlGo_noCr _ hcr, readlines_frame lines (fun l hl => (noNl_ne l (hn l hl)).2)]
  rw [List.map_map]
  congr 1
  have : ∀ l ∈ lines, (rstripNl ∘ fun x => x ++ [LF]) l = id l := by
    intro l hl; simp [rstripNl_line l (hn l hl)]
  rw [List.map_congr_left this]; simp

theorem diskWriteParts_frame (batch : Option Nat) (lines : List Text)
    (hs : ∀ l ∈ lines, ∀ c ∈ l, isScalar c = true) :
    ∃ parts, diskWriteParts batch lines = .ok parts ∧ encode (frame lines) = .ok parts.flatten := by
  obtain ⟨parts, bytes, h1, h2, h3⟩ := diskWriteParts_go_ok (batches batch lines) (by
    intro b hb l hl
    have : l ∈ (batches batch lines).flatten := List.mem_flatten.mpr ⟨b, hb, hl⟩
    rw [batches_flatten] at this
    exact hs l this)
  rw [batches_flatten] at h2
  exact ⟨parts, h1, by rw [h3]; exact h2⟩

/-- the file of a path holds the encoding of the framed lines written to it so far -/
def DiskRel : Option (List (List Nat)) → Option (List Text) → Prop
  | none, none => True
  | some parts, some ls => encode (frame ls) = .ok parts.flatten ∧ ∀ l ∈ ls, noNl l = true
  | _, _ => False

def DiskInv (fs : Store (List Nat)) (st : Store Text) : Prop := ∀ p, DiskRel (storeGet fs p) (storeGet st p)

theorem diskOpOk_write (ls : List Text) (h : (ls.all (fun l => noNl l && l.all isScalar)) = true) :
    (∀ l ∈ ls, ∀ c ∈ l, isScalar c = true) ∧ (∀ l ∈ ls, noNl l = true) := by
  have := List.all_eq_true.mp h
  constructor
  · intro l hl c hc
    have h1 := this l hl
    simp only [Bool.and_eq_true] at h1
    exact List.all_eq_true.mp h1.2 c hc
  · intro l hl
    have h1 := this l hl
    simp only [Bool.and_eq_true] at h1
    exact h1.1

theorem diskInv_write (fs : Store (List Nat)) (st : Store Text) (hinv : DiskInv fs st) (p : Nat) (ls : List Text)
    (parts : List (List Nat)) (henc : encode (frame ls) = .ok parts.flatten) (hn : ∀ l ∈ ls, noNl l = true) :
    DiskInv (storeAppend fs p parts) (storeAppend st p ls) := by
  intro q
  rw [storeGet_append, storeGet_append]
  by_cases h : p = q
  · simp only [h, if_true]
    have hq := hinv q
    cases hf : storeGet fs q with
    | none =>
      cases hs : storeGet st q with
      | none => simpa [DiskRel] using ⟨henc, hn⟩
      | some l0 => rw [hf, hs] at hq; exact hq.elim
    | some p0 =>
      cases hs : storeGet st q with
      | none => rw [hf, hs] at hq; exact hq.elim
      | some l0 =>
        rw [hf, hs] at hq
        obtain ⟨h1, h2⟩ := hq
        refine ⟨?_, ?_⟩
        · simp only [Option.getD_some, frame_append, List.flatten_append]
          exact encode_append _ _ _ _ h1 henc
        · intro l hl
          simp only [Option.getD_some, List.mem_append] at hl
          rcases hl with hl | hl
          · exact h2 l hl
          · exact hn l hl
  · simp only [h, if_false]
    exact hinv q

theorem disk_history' (rd : List (List Nat) → List Nat) (hrd : ∀ parts, rd parts = parts.flatten)
    (ops : List DiskOp) (hok : ∀ op ∈ ops, diskOpOk op = true)
    (fs : Store (List Nat)) (st : Store Text) (hinv : DiskInv fs st) :
    diskRun rd fs ops = .ok (diskSpecRun st ops) := by
  induction ops generalizing fs st with
  | nil => rfl
  | cons op ops ih =>
    have hrest : ∀ o ∈ ops, diskOpOk o = true := fun o ho => hok o (by simp [ho])
    cases op with
    | write p b ls =>
      have hw : diskOpOk (DiskOp.write p b ls) = true := hok _ (by simp)
      obtain ⟨hs, hn⟩ := diskOpOk_write ls hw
      obtain ⟨parts, h1, h2⟩ := diskWriteParts_frame b ls hs
      simp only [diskRun, diskStep, h1, diskSpecRun]
      rw [ih hrest _ _ (diskInv_write fs st hinv p ls parts h2 hn)]
    | read p =>
      have hp := hinv p
      simp only [diskRun, diskStep, diskSpecRun]
      cases hf : storeGet fs p with
      | none =>
        cases hs : storeGet st p with
        | none => simp only [ih hrest fs st hinv]
        | some l0 => rw [hf, hs] at hp; exact hp.elim
      | some p0 =>
        cases hs : storeGet st p with
        | none => rw [hf, hs] at hp; exact hp.elim
        | some l0 =>
          rw [hf, hs] at hp
          simp only [ih hrest fs st hinv, hrd, diskRead_frame l0 _ hp.1 hp.2]
    | readk p k =>
      have hp := hinv p
      simp only [diskRun, diskStep, diskSpecRun]
      cases hf : storeGet fs p with
      | none =>
        cases hs : storeGet st p with
        | none => simp only [ih hrest fs st hinv]
        | some l0 => rw [hf, hs] at hp; exact hp.elim
      | some p0 =>
        cases hs : storeGet st p with
        | none => rw [hf, hs] at hp; exact hp.elim
        | some l0 =>
          rw [hf, hs] at hp
          simp only [ih hrest fs st hinv, hrd, diskRead_frame l0 _ hp.1 hp.2, Except.map]

theorem diskInv_empty : DiskInv [] [] := fun _ => trivial

/-! ## M. (phase 6) the labelled CSV pipeline -/

theorem labelDense_ok (j : Nat) (row : List Text) (h : j < row.length) :
    labelDense (j : Int) row = some (labelSplit j row) := by
  unfold labelDense labelSplit
  have : ¬ ((j : Int) < 0) := by omega
  simp [this, List.getD, h]

theorem labelDenseAll_ok (j n : Nat) (hj : j < n) (rows : List (List Text)) (hw : ∀ r ∈ rows, r.length = n) :
    labelDenseAll (j : Int) rows = some (rows.map (labelSplit j)) := by
  induction rows with
  | nil => rfl
  | cons r rs ih =>
    have h1 := labelDense_ok j r (by rw [hw r (by simp)]; exact hj)
    have h2 := ih (fun r' hr' => hw r' (by simp [hr']))
    simp [labelDenseAll, h1, h2]

theorem headerIndexGo_lt (name : Text) (hs : List Text) (i : Nat) (acc : Option Nat) (j : Nat)
    (hacc : ∀ a, acc = some a → a < i) (h : headerIndexGo name i acc hs = some j) : j < i + hs.length := by
  induction hs generalizing i acc with
  | nil =>
    simp only [headerIndexGo] at h
    have := hacc j h
    simpa using this
  | cons x xs ih =>
    simp only [headerIndexGo] at h
    have := ih (i + 1) _ (by
      intro a ha
      by_cases hx : x = name
      · simp [hx] at ha; omega
      · simp [hx] at ha; have := hacc a ha; omega) h
    simp only [List.length_cons]; omega

theorem headerIndex_lt (hdr : List Text) (name : Text) (j : Nat) (h : headerIndex hdr name = some j) : j < hdr.length := by
  have := headerIndexGo_lt name hdr 0 none j (by intro a ha; cases ha) h
  simpa using this

/-- resolution: on a table of width `n` the code's index is the spec's column -/
theorem labelIndex_col (hdr : Option (List Text)) (n : Nat) (ref : LabelRef) (j : Nat)
    (hh : ∀ h, hdr = some h → h.length = n) (hc : labelCol hdr n ref = some j) :
    labelIndex hdr n ref = some (j : Int) ∧ j < n := by
  cases ref with
  | idx i =>
    simp only [labelCol] at hc
    simp only [labelIndex]
    by_cases h1 : 0 ≤ i ∧ i < n
    · simp only [h1, and_self, if_true, Option.some.injEq] at hc
      have : ¬ i < 0 := by omega
      simp only [this, if_false]
      constructor
      · congr 1; omega
      · omega
    · simp only [h1, if_false] at hc
      by_cases h2 : i < 0 ∧ -(n : Int) ≤ i
      · simp only [h2, and_self, if_true, Option.some.injEq] at hc
        simp only [h2.1, if_true]
        constructor
        · congr 1; omega
        · omega
      · simp [h2] at hc
  | name t =>
    cases hdr with
    | none => simp [labelCol] at hc
    | some h =>
      simp only [labelCol] at hc
      have hlt := headerIndex_lt h t j hc
      rw [hh h rfl] at hlt
      have : ¬ ((j : Int) < 0) := by omega
      simp [labelIndex, hc, this, hlt]

theorem labelRows_ok (hdr : Option (List Text)) (n : Nat) (ref : LabelRef) (j : Nat)
    (hh : ∀ h, hdr = some h → h.length = n) (hc : labelCol hdr n ref = some j)
    (rows : List (List Text)) (hw : ∀ r ∈ rows, r.length = n) :
    labelRows hdr ref rows = some (rows.map (labelSplit j)) := by
  cases rows with
  | nil => rfl
  | cons first rest =>
    obtain ⟨h1, h2⟩ := labelIndex_col hdr n ref j hh hc
    simp only [labelRows, hw first (by simp), h1]
    exact labelDenseAll_ok j n h2 _ hw

theorem csv_label_roundtrip' (delim : Nat) (hd1 : delim ≠ DQ) (hd2 : isNl delim = false)
    (hdr : Option (List (Bool × Text))) (rows : List (List (Bool × Text)))
    (hok : ∀ r ∈ hdr.toList ++ rows, csvRowOk r = true) (n : Nat) (hw : ∀ r ∈ hdr.toList ++ rows, r.length = n)
    (ref : LabelRef) (j : Nat) (hc : labelCol (hdr.map (·.map (·.2))) n ref = some j) :
    csvLabelRead (excel delim) hdr.isSome ref ((hdr.toList ++ rows).map (csvWriteRow delim)) =
      .ok (some ((rows.map (·.map (·.2))).map (labelSplit j))) := by
  unfold csvLabelRead
  rw [csv_roundtrip' delim hdr.isSome (hdr.toList ++ rows) hok hd1 hd2]
  have hwv : ∀ r ∈ rows.map (·.map (·.2)), r.length = n := by
    intro r hr
    obtain ⟨r0, h0, rfl⟩ := List.mem_map.mp hr
    simpa using hw r0 (by simp [h0])
  cases hdr with
  | none =>
    simp only [Option.toList_none, List.nil_append, Option.isSome_none, Option.map_none] at *
    cases hrows : rows.map (·.map (·.2)) with
    | nil => simp [labelRows]
    | cons first rest =>
      simp only [Bool.false_eq_true, if_false]
      rw [hrows] at hwv
      rw [labelRows_ok none n ref j (by intro h hh; cases hh) hc _ hwv]
  | some h =>
    simp only [Option.toList_some, List.cons_append, List.nil_append, List.map_cons, Option.isSome_some, if_true, Option.map_some] at *
    rw [labelRows_ok (some (h.map (·.2))) n ref j (by
      intro h' hh
      cases hh
      simpa using hw h (by simp)) hc _ hwv]

end Coba.C12
