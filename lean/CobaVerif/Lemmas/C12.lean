/-
C12 helper lemmas (delivery independence, framing, CSV / LibSVM round trips).
-/
import CobaVerif.Model.C12

namespace Coba.C12

/-! ## A.1 UTF-8 decoding is a run of one automaton: cutting the input does not matter -/


theorem decodeFrom_append (s : U8) (a b : List Nat) :
    decodeFrom s (a ++ b) =
      match decodeFrom s a with
      | .error e => .error e
      | .ok (s1, t1) => match decodeFrom s1 b with
        | .error e => .error e
        | .ok (s2, t2) => .ok (s2, t1 ++ t2) := by
  induction a generalizing s with
  | nil =>
    simp only [List.nil_append, decodeFrom]
    cases decodeFrom s b with
    | error e => rfl
    | ok r => rfl
  | cons x a ih =>
    simp only [List.cons_append, decodeFrom]
    cases h : u8step s x with
    | error e => rfl
    | ok r =>
      obtain ⟨s1, o⟩ := r
      simp only [ih]
      cases decodeFrom s1 a with
      | error e => rfl
      | ok r2 =>
        obtain ⟨s2, t⟩ := r2
        simp only
        cases decodeFrom s2 b with
        | error e => rfl
        | ok r3 =>
          cases o <;> simp

def decodeFin (s : U8) (bs : List Nat) : Except Err Text :=
  match decodeFrom s bs with
  | .error e => .error e
  | .ok r => finish r

theorem decodeAll_eq (bs) : decodeAll bs = decodeFin U8.init bs := rfl

theorem decodeChunksFix_flatten (s : U8) (cs : List (List Nat)) :
    (match decodeChunksFix s cs with | .error e => Except.error e | .ok ts => .ok ts.flatten) = decodeFin s cs.flatten := by
  induction cs generalizing s with
  | nil =>
    simp only [decodeChunksFix, List.flatten_nil, decodeFin, decodeFrom, finish]
    by_cases h : s.need = 0 <;> simp [h]
  | cons c cs ih =>
    simp only [decodeChunksFix, List.flatten_cons, decodeFin, decodeFrom_append]
    cases h : decodeFrom s c with
    | error e => rfl
    | ok r =>
      obtain ⟨s1, t⟩ := r
      have := ih s1
      simp only [decodeFin] at this
      simp only
      cases h2 : decodeChunksFix s1 cs with
      | error e =>
        rw [h2] at this
        simp only at this
        cases h3 : decodeFrom s1 cs.flatten with
        | error e' => rw [h3] at this; simp_all
        | ok r3 =>
          rw [h3] at this
          obtain ⟨s3, t3⟩ := r3
          simp only [finish] at this ⊢
          split at this <;> simp_all
      | ok ts =>
        rw [h2] at this
        simp only at this
        cases h3 : decodeFrom s1 cs.flatten with
        | error e' => rw [h3] at this; simp_all
        | ok r3 =>
          rw [h3] at this
          obtain ⟨s3, t3⟩ := r3
          simp only [finish, List.flatten_cons] at this ⊢
          split at this <;> simp_all


/-! ## A.2 the line splitter -/


theorem lsRun_append (s : LS) (a b : Text) :
    lsRun s (a ++ b) = ((lsRun (lsRun s a).1 b).1, (lsRun s a).2 ++ (lsRun (lsRun s a).1 b).2) := by
  induction a generalizing s with
  | nil => simp [lsRun]
  | cons c a ih => simp [lsRun, ih, List.append_assoc]

theorem prependFirst_nil (l : List Text) : prependFirst [] l = l := by
  cases l <;> simp [prependFirst]

theorem prependFirst_prependFirst (a b : Text) (l : List Text) :
    prependFirst a (prependFirst b l) = prependFirst (a ++ b) l := by
  cases l <;> simp [prependFirst]

theorem prependFirst_eq_nil (a : Text) (l : List Text) : prependFirst a l = [] ↔ l = [] := by
  cases l <;> simp [prependFirst]

/-- Lemma A: running from a non-empty current line is running from the empty one with the
current line glued in front of the first completed line (or of the new current line). -/
theorem lsRun_cur (cur : Text) (text : Text) :
    lsRun ⟨cur, false⟩ text =
      (if (lsRun ⟨[], false⟩ text).2 = [] then ⟨cur ++ (lsRun ⟨[], false⟩ text).1.cur, (lsRun ⟨[], false⟩ text).1.cr⟩
       else (lsRun ⟨[], false⟩ text).1,
       prependFirst cur (lsRun ⟨[], false⟩ text).2) := by
  induction text generalizing cur with
  | nil => simp [lsRun, prependFirst]
  | cons c t ih =>
    by_cases hb : isBreak c = true
    · simp [lsRun, lsStep, hb, prependFirst]
    · have hb' : isBreak c = false := by simpa using hb
      simp only [lsRun, lsStep, hb', Bool.false_and, Bool.false_eq_true, if_false, List.nil_append]
      rw [ih (cur ++ [c]), ih [c]]
      by_cases he : (lsRun ⟨[], false⟩ t).2 = []
      · simp [he, prependFirst]
      · simp [he, prependFirst_eq_nil, prependFirst_prependFirst]

/-- Lemma B -/
theorem lsRun_cr_lf (cur : Text) (t : Text) : lsRun ⟨cur, true⟩ (LF :: t) = lsRun ⟨cur, false⟩ t := by
  simp [lsRun, lsStep]

theorem lsRun_cr_other (cur : Text) (c : Nat) (t : Text) (h : (c == LF) = false) :
    lsRun ⟨cur, true⟩ (c :: t) = lsRun ⟨cur, false⟩ (c :: t) := by
  simp [lsRun, lsStep, h]

def LS.wf (s : LS) : Prop := s.cr = true → s.cur = []

theorem lsStep_wf (s : LS) (c : Nat) (_h : s.wf) : (lsStep s c).1.wf := by
  unfold lsStep LS.wf at *
  split
  · simp
  · split
    · simp
    · simp

theorem lastIs_cons_cons (a b : Nat) (t : Text) (p : Nat → Bool) : lastIs (a :: b :: t) p = lastIs (b :: t) p := by
  simp [lastIs, List.getLast?_cons_cons]

theorem lastIs_single (a : Nat) (p : Nat → Bool) : lastIs [a] p = p a := by
  simp [lastIs]

theorem isBreak_LF : isBreak LF = true := by decide
theorem isBreak_CR : isBreak CR = true := by decide

/-- C1/C2: after a non-empty text the current line is empty iff the last character was a
boundary, and the CR flag says whether it was a carriage return -/
theorem lsRun_last (s : LS) (text : Text) (hs : s.wf) (hne : text ≠ []) :
    ((lsRun s text).1.cur = [] ↔ lastIs text isBreak = true) ∧
    (lsRun s text).1.cr = lastIs text (· == CR) := by
  induction text generalizing s with
  | nil => exact absurd rfl hne
  | cons c t ih =>
    cases t with
    | nil =>
      simp only [lsRun, lastIs_single]
      unfold lsStep
      by_cases h1 : (s.cr && c == LF) = true
      · simp only [h1, if_true]
        have hc : c = LF := by simp at h1; exact h1.2
        have hcr : s.cr = true := by simp at h1; exact h1.1
        subst hc
        simp [hs hcr, isBreak_LF]; decide
      · simp only [h1]
        by_cases hb : isBreak c = true
        · simp [hb]
        · have hb' : isBreak c = false := by simpa using hb
          have : (c == CR) = false := by
            cases hcc : (c == CR) with
            | false => rfl
            | true =>
              have : c = CR := by simpa using hcc
              subst this; simp [isBreak_CR] at hb'
          simp [hb', this]
    | cons d t' =>
      simp only [lsRun, lastIs_cons_cons]
      have := ih (lsStep s c).1 (lsStep_wf s c hs) (by simp)
      simpa [lsRun] using this

/-- C3: from a state without pending CR, if nothing was emitted no character was a boundary -/
theorem lsRun_no_out (s : LS) (text : Text) (hcr : s.cr = false) (h : (lsRun s text).2 = []) :
    (lsRun s text).1 = ⟨s.cur ++ text, false⟩ := by
  induction text generalizing s with
  | nil => cases s; simp_all [lsRun]
  | cons c t ih =>
    simp only [lsRun] at h ⊢
    unfold lsStep at h ⊢
    simp only [hcr, Bool.false_and, Bool.false_eq_true, if_false] at h ⊢
    by_cases hb : isBreak c = true
    · simp [hb] at h
    · have hb' : isBreak c = false := by simpa using hb
      simp only [hb', Bool.false_eq_true, if_false, List.nil_append] at h ⊢
      rw [ih ⟨s.cur ++ [c], false⟩ rfl h]
      simp


theorem getLast?_cons_concat {α} (a : α) (l : List α) (x : α) : (a :: (l ++ [x])).getLast? = some x := by
  induction l generalizing a with
  | nil => simp
  | cons b l ih => rw [List.cons_append, List.getLast?_cons_cons]; exact ih b

theorem dropLast_cons_concat {α} (a : α) (l : List α) (x : α) : (a :: (l ++ [x])).dropLast = a :: l := by
  induction l generalizing a with
  | nil => simp
  | cons b l ih => rw [List.cons_append, List.dropLast_cons_cons, ih b]

theorem splitlines_eq (t : Text) : splitlines t = (lsRun ⟨[], false⟩ t).2 ++ lsFlush (lsRun ⟨[], false⟩ t).1 := rfl

/-- the relation between the state of the repaired loop and the line splitter -/
def Rel (d : DS) (s : LS) : Prop :=
  s.cur = d.pending.getD [] ∧ s.cr = d.afterCr ∧ (∀ p, d.pending = some p → p ≠ []) ∧
  (d.afterCr = true → d.pending = none)

/-- general step: no pending CR -/
theorem delimFix_general (p : Option Text) (text : Text) (hne : text ≠ [])
    (hp : ∀ q, p = some q → q ≠ []) :
    let lines1 := applyPending p (splitlines text)
    let r : DS × List Text := if lastIs text isBreak then (⟨none, lastIs text (· == CR)⟩, lines1)
                else (⟨lines1.getLast?, false⟩, lines1.dropLast)
    Rel r.1 (lsRun ⟨p.getD [], false⟩ text).1 ∧ r.2 = (lsRun ⟨p.getD [], false⟩ text).2 := by
  intro lines1 r
  have hl : lines1 = prependFirst (p.getD []) (splitlines text) := by
    cases p <;> simp [lines1, applyPending, prependFirst_nil]
  have hlast := lsRun_last ⟨[], false⟩ text (by simp [LS.wf]) hne
  rw [lsRun_cur (p.getD []) text]
  generalize hr0 : lsRun ⟨[], false⟩ text = r0 at *
  obtain ⟨s0, out0⟩ := r0
  by_cases hb : lastIs text isBreak = true
  · have hcur : s0.cur = [] := hlast.1.2 hb
    have hout : out0 ≠ [] := by
      intro h
      have := lsRun_no_out ⟨[], false⟩ text rfl (by rw [hr0]; exact h)
      rw [hr0] at this
      simp only at this
      rw [this] at hcur
      simp at hcur
      exact hne hcur
    have hsl : splitlines text = out0 := by
      rw [splitlines_eq, hr0]; simp [lsFlush, hcur]
    simp only [r, hb, if_true, hl, hsl, hout, if_false]
    refine ⟨⟨?_, ?_, ?_, ?_⟩, ?_⟩
    · simpa using hcur
    · simpa using hlast.2
    · simp
    · simp
    · first | rfl | trivial | simp
  · have hb' : lastIs text isBreak = false := by simpa using hb
    have hcur : s0.cur ≠ [] := fun h => hb (hlast.1.1 h)
    have hcr : s0.cr = false := by
      rw [hlast.2]
      cases hc : lastIs text (· == CR) with
      | false => rfl
      | true =>
        exfalso
        unfold lastIs at hc hb'
        cases hg : text.getLast? with
        | none => simp [hg] at hc
        | some c =>
          simp only [hg] at hc hb'
          have : c = CR := by simpa using hc
          subst this
          simp [isBreak_CR] at hb'
    have hsl : splitlines text = out0 ++ [s0.cur] := by
      rw [splitlines_eq, hr0]; simp [lsFlush, hcur]
    simp only [r, hb', Bool.false_eq_true, if_false, hl, hsl]
    cases out0 with
    | nil =>
      simp only [List.nil_append, prependFirst, if_true]
      refine ⟨⟨?_, ?_, ?_, ?_⟩, ?_⟩
      · simp
      · simpa using hcr
      · intro q hq; simp at hq; subst hq; simp [hcur]
      · simp
      · simp
    | cons l ls =>
      simp only [List.cons_append, prependFirst]
      simp only [getLast?_cons_concat, dropLast_cons_concat]
      refine ⟨⟨?_, ?_, ?_, ?_⟩, ?_⟩
      · simp
      · simpa using hcr
      · intro q hq; simp at hq; subst hq; exact hcur
      · simp
      · simp

@[simp] theorem skipLf_false (t : Text) : skipLf false t = t := by cases t <;> rfl
@[simp] theorem skipLf_true_lf (t : Text) : skipLf true (LF :: t) = t := by simp [skipLf]
theorem skipLf_true_other (c : Nat) (t : Text) (h : (c == LF) = false) : skipLf true (c :: t) = c :: t := by
  simp [skipLf, h]

theorem delimFixStep_rel (d : DS) (s : LS) (text0 : Text) (hne : text0 ≠ []) (h : Rel d s) :
    Rel (delimFixStep d text0).1 (lsRun s text0).1 ∧ (delimFixStep d text0).2 = (lsRun s text0).2 := by
  obtain ⟨hcur, hcr, hp, hac⟩ := h
  obtain ⟨cur, cr⟩ := s
  obtain ⟨pending, afterCr⟩ := d
  simp only at hcur hcr hp hac
  subst hcur hcr
  cases text0 with
  | nil => exact absurd rfl hne
  | cons c t =>
    cases cr with
    | false =>
      have := delimFix_general pending (c :: t) (by simp) hp
      simpa [delimFixStep] using this
    | true =>
      have hpn : pending = none := hac rfl
      subst hpn
      by_cases hc : (c == LF) = true
      · have hc' : c = LF := by simpa using hc
        subst hc'
        simp only [Option.getD_none]
        rw [lsRun_cr_lf]
        by_cases ht : t = []
        · subst ht
          simp [delimFixStep, lsRun, Rel]
        · have := delimFix_general none t ht (by simp)
          simp only [delimFixStep, skipLf_true_lf, ht, if_false]
          simpa using this
      · have hc' : (c == LF) = false := by simpa using hc
        simp only [Option.getD_none]
        rw [lsRun_cr_other [] c t hc']
        have := delimFix_general none (c :: t) (by simp) (by simp)
        simpa [delimFixStep, skipLf_true_other c t hc'] using this

theorem delimFixGo_eq (d : DS) (s : LS) (chunks : List Text) (h : Rel d s) :
    delimFixGo d chunks = (lsRun s chunks.flatten).2 ++ lsFlush (lsRun s chunks.flatten).1 := by
  induction chunks generalizing d s with
  | nil =>
    obtain ⟨hcur, _, hp, _⟩ := h
    simp only [delimFixGo, List.flatten_nil, lsRun, List.nil_append, lsFlush]
    cases hpd : d.pending with
    | none => simp [hcur, hpd]
    | some p => simp [hcur, hpd, hp p hpd]
  | cons t ts ih =>
    simp only [delimFixGo, List.flatten_cons]
    by_cases ht : t = []
    · subst ht; simpa using ih d s h
    · simp only [ht, if_false]
      have hstep := delimFixStep_rel d s t ht h
      rw [lsRun_append, ih _ _ hstep.1, hstep.2]
      simp [List.append_assoc]

/-- DelimSource (repaired): for every way of cutting a text into chunks (empty chunks
included) the lines are those of the whole text -/
theorem delimFix_eq' (chunks : List Text) : delimFix chunks = splitlines chunks.flatten := by
  unfold delimFix
  rw [delimFixGo_eq ⟨none, false⟩ ⟨[], false⟩ chunks (by simp [Rel])]
  rfl



/-! ## A.3 the byte pipeline -/


theorem decompChunks_flatten {σ} (D : Decomp σ) (h : D.Lawful) (s : σ) (cs : List (List Nat)) :
    (decompChunks D s cs).flatten = (D.step s cs.flatten).2 := by
  induction cs generalizing s with
  | nil => simp [decompChunks, h.1]
  | cons c cs ih => simp [decompChunks, h.2, ih]

theorem chunk_invariance' {σ} (D : Decomp σ) (h : D.Lawful) (cs : List (List Nat)) :
    readFix D cs = readWhole D cs.flatten := by
  unfold readFix readWhole Decomp.all
  rw [← decompChunks_flatten D h, decodeAll_eq, ← decodeChunksFix_flatten]
  cases decodeChunksFix U8.init (decompChunks D D.init cs) with
  | error e => rfl
  | ok ts => simp [delimFix_eq']

theorem chunksOf_go_flatten (size : Nat) (hs : 0 < size) (fuel : Nat) (bs : List Nat) (h : bs.length ≤ fuel) :
    (chunksOf.go size fuel bs).flatten = bs := by
  induction fuel generalizing bs with
  | zero =>
    have : bs = [] := by cases bs <;> simp_all
    subst this; simp [chunksOf.go]
  | succ n ih =>
    simp only [chunksOf.go]
    by_cases hb : bs = []
    · simp [hb]
    · simp only [hb, if_false, List.flatten_cons]
      rw [ih (bs.drop size) (by
        have : 0 < bs.length := List.length_pos_iff.mpr hb
        simp only [List.length_drop]; omega)]
      exact List.take_append_drop size bs

theorem chunksOf_flatten (size : Nat) (bs : List Nat) : (chunksOf size bs).flatten = bs := by
  unfold chunksOf
  by_cases hs : size = 0
  · simp [hs]
  · simp only [hs, if_false]
    exact chunksOf_go_flatten size (Nat.pos_of_ne_zero hs) _ bs (Nat.le_refl _)

instance : DecidableEq (Except Err (List Text)) := fun a b =>
  match a, b with
  | .ok x, .ok y => if h : x = y then isTrue (by rw [h]) else isFalse (by intro h'; cases h'; exact h rfl)
  | .error x, .error y => if h : x = y then isTrue (by rw [h]) else isFalse (by intro h'; cases h'; exact h rfl)
  | .ok _, .error _ => isFalse (by intro h; cases h)
  | .error _, .ok _ => isFalse (by intro h; cases h)

theorem cex_utf8 : readCur Decomp.identity [[0x61, 0xC3], [0xA9]] = .error .unicodeDecode ∧
    readWhole Decomp.identity [0x61, 0xC3, 0xA9] = .ok [[0x61, 0xE9]] := by decide
theorem cex_crlf : readCur Decomp.identity [[0x61, 13], [10, 0x62]] = .ok [[0x61], [], [0x62]] ∧
    readWhole Decomp.identity [0x61, 13, 10, 0x62] = .ok [[0x61], [0x62]] := by decide
theorem cex_u2028 : readCur Decomp.identity [[0x61, 0xE2, 0x80, 0xA8], [0x62]] = .ok [[0x61, 0x62]] ∧
    readWhole Decomp.identity [0x61, 0xE2, 0x80, 0xA8, 0x62] = .ok [[0x61], [0x62]] := by decide


/-! ## A.4 the current code is right on good cuts -/


theorem skipLf_eq (ac : Bool) (t : Text) (h1 : (ac && t.head? == some LF) = false) : skipLf ac t = t := by
  cases ac with
  | false => rfl
  | true =>
    cases t with
    | nil => rfl
    | cons c t' =>
      simp only [List.head?_cons, Bool.true_and] at h1
      have : (c == LF) = false := by
        cases hc : (c == LF) with
        | false => rfl
        | true => have : c = LF := by simpa using hc
                  subst this; simp at h1
      simp [skipLf, this]

/-- on a good cut the current loop body does what the repaired one does -/
theorem delimCurStep_eq (d : DS) (s : LS) (t : Text) (hne : t ≠ []) (h : Rel d s)
    (h1 : (d.afterCr && t.head? == some LF) = false)
    (h2 : lastIs t (fun c => isBreak c && !(c == CR || c == LF)) = false) :
    delimCurStep d.pending t = ((delimFixStep d t).1.pending, (delimFixStep d t).2) := by
  obtain ⟨_, _, hp, _⟩ := h
  have hbr : lastIs t isBreak = lastIs t (fun c => c == CR || c == LF) := by
    unfold lastIs at h2 ⊢
    cases hg : t.getLast? with
    | none => rfl
    | some c =>
      simp only [hg] at h2 ⊢
      by_cases hc : (c == CR || c == LF) = true
      · rw [hc]
        have : c = CR ∨ c = LF := by simpa using hc
        rcases this with h | h <;> subst h <;> decide
      · have hc' : (c == CR || c == LF) = false := by simpa using hc
        rw [hc'] at h2 ⊢
        simpa using h2
  have htext := skipLf_eq d.afterCr t h1
  unfold delimFixStep delimCurStep
  simp only [htext, hne, if_false]
  rw [hbr]
  cases hpd : d.pending with
  | none => simp only [applyPending]; split <;> rfl
  | some p =>
    have hpne := hp p hpd
    cases p with
    | nil => exact absurd rfl hpne
    | cons a p' =>
      simp only [applyPending, Option.getD_some, if_true]
      split <;> rfl

theorem goodCuts_step (ac : Bool) (t : Text) (ts : List Text) (hne : t ≠ []) (h : goodCutsGo ac (t :: ts) = true) :
    (ac && t.head? == some LF) = false ∧ lastIs t (fun c => isBreak c && !(c == CR || c == LF)) = false ∧
    goodCutsGo (lastIs t (· == CR)) ts = true := by
  simp only [goodCutsGo, hne, if_false, Bool.and_eq_true, Bool.not_eq_true'] at h
  exact ⟨h.1.1, h.1.2, h.2⟩

theorem delimFixStep_afterCr (d : DS) (t : Text) (hne : t ≠ [])
    (h1 : (d.afterCr && t.head? == some LF) = false) :
    (delimFixStep d t).1.afterCr = lastIs t (· == CR) := by
  have htext := skipLf_eq d.afterCr t h1
  unfold delimFixStep
  simp only [htext, hne, if_false]
  by_cases hb : lastIs t isBreak = true
  · simp [hb]
  · have hb' : lastIs t isBreak = false := by simpa using hb
    simp only [hb', Bool.false_eq_true, if_false]
    unfold lastIs at hb' ⊢
    cases hg : t.getLast? with
    | none => rfl
    | some c =>
      simp only [hg] at hb' ⊢
      cases hc : (c == CR) with
      | false => rfl
      | true => have : c = CR := by simpa using hc
                subst this; simp [isBreak_CR] at hb'

theorem delimCurGo_eq (d : DS) (s : LS) (ts : List Text) (h : Rel d s) (hg : goodCutsGo d.afterCr ts = true) :
    delimCurGo d.pending ts = delimFixGo d ts := by
  induction ts generalizing d s with
  | nil => simp [delimCurGo, delimFixGo]
  | cons t ts ih =>
    by_cases hne : t = []
    · subst hne
      simp only [delimCurGo, delimFixGo, if_true]
      exact ih d s h (by simpa [goodCutsGo] using hg)
    · obtain ⟨g1, g2, g3⟩ := goodCuts_step d.afterCr t ts hne hg
      simp only [delimCurGo, delimFixGo, hne, if_false]
      rw [delimCurStep_eq d s t hne h g1 g2]
      simp only
      have hrel := (delimFixStep_rel d s t hne h).1
      rw [ih (delimFixStep d t).1 _ hrel (by rw [delimFixStep_afterCr d t hne g1]; exact g3)]

theorem delimCur_eq_of_good (ts : List Text) (hg : goodCuts ts = true) : delimCur ts = splitlines ts.flatten := by
  rw [← delimFix_eq']
  exact delimCurGo_eq ⟨none, false⟩ ⟨[], false⟩ ts (by simp [Rel]) hg

/-- a decoder that has no character outstanding is in its initial state -/
theorem u8step_need0 (s : U8) (b : Nat) (s' : U8) (o : Option Nat) (h : u8step s b = .ok (s', o)) (h0 : s'.need = 0) :
    s' = U8.init := by
  unfold u8step at h
  repeat' split at h
  all_goals (first | (cases h; rfl) | (cases h; simp at h0; done) | (cases h; simp at h0; exfalso; omega) | cases h)

theorem decodeFrom_need0 (s : U8) (bs : List Nat) (s' : U8) (t : Text) (h : decodeFrom s bs = .ok (s', t))
    (h0 : s'.need = 0) : s' = U8.init ∨ (bs = [] ∧ s' = s) := by
  induction bs generalizing s t with
  | nil => simp [decodeFrom] at h; right; exact ⟨rfl, h.1.symm⟩
  | cons b bs ih =>
    left
    simp only [decodeFrom] at h
    cases h1 : u8step s b with
    | error e => simp [h1] at h
    | ok r =>
      obtain ⟨s1, o⟩ := r
      simp only [h1] at h
      cases h2 : decodeFrom s1 bs with
      | error e => simp [h2] at h
      | ok r2 =>
        obtain ⟨s2, t2⟩ := r2
        simp only [h2] at h
        cases h
        rcases ih s1 t2 h2 with h3 | ⟨_, h3⟩
        · exact h3
        · subst h3; exact u8step_need0 s b s' o h1 h0

theorem decodeChunksCur_fix (cs : List (List Nat)) (ts : List Text) (h : decodeChunksCur cs = .ok ts) :
    decodeChunksFix U8.init cs = .ok ts := by
  induction cs generalizing ts with
  | nil => simp [decodeChunksCur] at h; subst h; simp [decodeChunksFix, U8.init]
  | cons c cs ih =>
    simp only [decodeChunksCur, decodeAll] at h
    cases h1 : decodeFrom U8.init c with
    | error e => simp [h1] at h
    | ok r =>
      obtain ⟨s1, t⟩ := r
      simp only [h1, finish] at h
      by_cases hn : s1.need = 0
      · simp only [hn, if_true] at h
        have hs1 : s1 = U8.init := by
          rcases decodeFrom_need0 _ _ _ _ h1 hn with h | ⟨_, h⟩ <;> exact h
        subst hs1
        cases h2 : decodeChunksCur cs with
        | error e => simp [h2] at h
        | ok ts' =>
          simp only [h2] at h
          cases h
          simp [decodeChunksFix, h1, ih ts' h2]
      · simp [hn] at h

theorem chunk_invariance_partial' {σ} (D : Decomp σ) (hD : D.Lawful) (cs : List (List Nat)) (ts : List Text)
    (hdec : decodeChunksCur (decompChunks D D.init cs) = .ok ts) (hg : goodCuts ts = true) :
    readCur D cs = readWhole D cs.flatten := by
  rw [← chunk_invariance' D hD]
  unfold readCur readFix
  rw [hdec, decodeChunksCur_fix _ _ hdec]
  simp only
  rw [delimCur_eq_of_good ts hg, delimFix_eq']



/-! ## B.1 UTF-8 encode/decode round trip -/


theorem u8step_cont_last (s : U8) (b : Nat) (h1 : s.need = 1) (hlo : s.lo ≤ b) (hhi : b ≤ s.hi) :
    u8step s b = .ok (U8.init, some (s.acc * 64 + (b - 0x80))) := by
  unfold u8step
  simp [h1, hlo, hhi]

theorem u8step_cont_more (s : U8) (b : Nat) (n : Nat) (h1 : s.need = n + 2) (hlo : s.lo ≤ b) (hhi : b ≤ s.hi) :
    u8step s b = .ok (⟨n + 1, s.acc * 64 + (b - 0x80), 0x80, 0xBF⟩, none) := by
  unfold u8step
  simp [h1, hlo, hhi]

/-- decoding the encoding of one scalar value yields it and returns to the initial state -/
theorem decode_encodeCP (c : Nat) (bs rest : List Nat) (h : encodeCP c = .ok bs) :
    decodeFrom U8.init (bs ++ rest) =
      match decodeFrom U8.init rest with
      | .error e => .error e
      | .ok (s, t) => .ok (s, c :: t) := by
  unfold encodeCP at h
  split at h
  · cases h
    rename_i h1
    have : u8step U8.init c = .ok (U8.init, some c) := by simp [u8step, U8.init, h1]
    simp only [List.cons_append, List.nil_append, decodeFrom, this]
    cases decodeFrom U8.init rest <;> rfl
  · split at h
    · cases h
      rename_i h1 h2
      have e1 : u8step U8.init (0xC0 + c / 64) = .ok (⟨1, c / 64, 0x80, 0xBF⟩, none) := by
        have a1 : ¬ (0xC0 + c / 64 < 0x80) := by omega
        have a2 : 0xC2 ≤ 0xC0 + c / 64 ∧ 0xC0 + c / 64 ≤ 0xDF := by omega
        simp [u8step, U8.init, a1, a2]
      have e2 := u8step_cont_last ⟨1, c / 64, 0x80, 0xBF⟩ (0x80 + c % 64) rfl (by simp) (by simp; omega)
      have e3 : c / 64 * 64 + (0x80 + c % 64 - 0x80) = c := by omega
      simp only [e3] at e2
      simp only [List.cons_append, List.nil_append, decodeFrom, e1, e2]
      cases decodeFrom U8.init rest <;> rfl
    · split at h
      · cases h
      · split at h
        · cases h
          rename_i h1 h2 h3 h4
          have hs : c < 0xD800 ∨ 0xDFFF < c := by omega
          have e3 : ∀ a, (a * 64 + (0x80 + c / 64 % 64 - 0x80)) * 64 + (0x80 + c % 64 - 0x80) = a * 4096 + (c / 64 % 64) * 64 + c % 64 := by
            intro a; omega
          -- lead byte
          by_cases k0 : c / 4096 = 0
          · have e1 : u8step U8.init (0xE0 + c / 4096) = .ok (⟨2, 0, 0xA0, 0xBF⟩, none) := by
              simp [u8step, U8.init, k0]
            have e2 := u8step_cont_more ⟨2, 0, 0xA0, 0xBF⟩ (0x80 + c / 64 % 64) 0 rfl (by simp; omega) (by simp; omega)
            have e4 := u8step_cont_last ⟨1, 0 * 64 + (0x80 + c / 64 % 64 - 0x80), 0x80, 0xBF⟩ (0x80 + c % 64) rfl (by simp) (by simp; omega)
            have e5 : (0 * 64 + (0x80 + c / 64 % 64 - 0x80)) * 64 + (0x80 + c % 64 - 0x80) = c := by omega
            simp only [e5] at e4
            simp only [List.cons_append, List.nil_append, decodeFrom, e1, e2, e4]
            cases decodeFrom U8.init rest <;> rfl
          · by_cases k13 : c / 4096 = 13
            · have e1 : u8step U8.init (0xE0 + c / 4096) = .ok (⟨2, 13, 0x80, 0x9F⟩, none) := by
                simp [u8step, U8.init, k13]
              have e2 := u8step_cont_more ⟨2, 13, 0x80, 0x9F⟩ (0x80 + c / 64 % 64) 0 rfl (by simp) (by simp; omega)
              have e4 := u8step_cont_last ⟨1, 13 * 64 + (0x80 + c / 64 % 64 - 0x80), 0x80, 0xBF⟩ (0x80 + c % 64) rfl (by simp) (by simp; omega)
              have e5 : (13 * 64 + (0x80 + c / 64 % 64 - 0x80)) * 64 + (0x80 + c % 64 - 0x80) = c := by omega
              simp only [e5] at e4
              simp only [List.cons_append, List.nil_append, decodeFrom, e1, e2, e4]
              cases decodeFrom U8.init rest <;> rfl
            · have e1 : u8step U8.init (0xE0 + c / 4096) = .ok (⟨2, c / 4096, 0x80, 0xBF⟩, none) := by
                have a1 : ¬ (0xE0 + c / 4096 < 0x80) := by omega
                have a2 : ¬ (0xC2 ≤ 0xE0 + c / 4096 ∧ 0xE0 + c / 4096 ≤ 0xDF) := by omega
                have a3 : ¬ (0xE0 + c / 4096 = 0xE0) := by omega
                have a4 : ¬ (0xE0 + c / 4096 = 0xED) := by omega
                have a5 : 0xE1 ≤ 0xE0 + c / 4096 ∧ 0xE0 + c / 4096 ≤ 0xEF := by omega
                simp [u8step, U8.init, a1, a2, a4, a5]
                omega
              have e2 := u8step_cont_more ⟨2, c / 4096, 0x80, 0xBF⟩ (0x80 + c / 64 % 64) 0 rfl (by simp) (by simp; omega)
              have e4 := u8step_cont_last ⟨1, c / 4096 * 64 + (0x80 + c / 64 % 64 - 0x80), 0x80, 0xBF⟩ (0x80 + c % 64) rfl (by simp) (by simp; omega)
              have e5 : (c / 4096 * 64 + (0x80 + c / 64 % 64 - 0x80)) * 64 + (0x80 + c % 64 - 0x80) = c := by omega
              simp only [e5] at e4
              simp only [List.cons_append, List.nil_append, decodeFrom, e1, e2, e4]
              cases decodeFrom U8.init rest <;> rfl
        · split at h
          · cases h
            rename_i h1 h2 h3 h4 h5
            have hs : 0x10000 ≤ c := by omega
            by_cases k0 : c / 262144 = 0
            · have e1 : u8step U8.init (0xF0 + c / 262144) = .ok (⟨3, 0, 0x90, 0xBF⟩, none) := by
                simp [u8step, U8.init, k0]
              have e2 := u8step_cont_more ⟨3, 0, 0x90, 0xBF⟩ (0x80 + c / 4096 % 64) 1 rfl (by simp; omega) (by simp; omega)
              have e3 := u8step_cont_more ⟨2, 0 * 64 + (0x80 + c / 4096 % 64 - 0x80), 0x80, 0xBF⟩ (0x80 + c / 64 % 64) 0 rfl (by simp) (by simp; omega)
              have e4 := u8step_cont_last ⟨1, (0 * 64 + (0x80 + c / 4096 % 64 - 0x80)) * 64 + (0x80 + c / 64 % 64 - 0x80), 0x80, 0xBF⟩ (0x80 + c % 64) rfl (by simp) (by simp; omega)
              have e5 : ((0 * 64 + (0x80 + c / 4096 % 64 - 0x80)) * 64 + (0x80 + c / 64 % 64 - 0x80)) * 64 + (0x80 + c % 64 - 0x80) = c := by omega
              simp only [e5] at e4
              simp only [List.cons_append, List.nil_append, decodeFrom, e1, e2, e3, e4]
              cases decodeFrom U8.init rest <;> rfl
            · by_cases k4 : c / 262144 = 4
              · have e1 : u8step U8.init (0xF0 + c / 262144) = .ok (⟨3, 4, 0x80, 0x8F⟩, none) := by
                  simp [u8step, U8.init, k4]
                have e2 := u8step_cont_more ⟨3, 4, 0x80, 0x8F⟩ (0x80 + c / 4096 % 64) 1 rfl (by simp) (by simp; omega)
                have e3 := u8step_cont_more ⟨2, 4 * 64 + (0x80 + c / 4096 % 64 - 0x80), 0x80, 0xBF⟩ (0x80 + c / 64 % 64) 0 rfl (by simp) (by simp; omega)
                have e4 := u8step_cont_last ⟨1, (4 * 64 + (0x80 + c / 4096 % 64 - 0x80)) * 64 + (0x80 + c / 64 % 64 - 0x80), 0x80, 0xBF⟩ (0x80 + c % 64) rfl (by simp) (by simp; omega)
                have e5 : ((4 * 64 + (0x80 + c / 4096 % 64 - 0x80)) * 64 + (0x80 + c / 64 % 64 - 0x80)) * 64 + (0x80 + c % 64 - 0x80) = c := by omega
                simp only [e5] at e4
                simp only [List.cons_append, List.nil_append, decodeFrom, e1, e2, e3, e4]
                cases decodeFrom U8.init rest <;> rfl
              · have e1 : u8step U8.init (0xF0 + c / 262144) = .ok (⟨3, c / 262144, 0x80, 0xBF⟩, none) := by
                  have a1 : ¬ (0xF0 + c / 262144 < 0x80) := by omega
                  have a2 : ¬ (0xC2 ≤ 0xF0 + c / 262144 ∧ 0xF0 + c / 262144 ≤ 0xDF) := by omega
                  have a3 : ¬ (0xF0 + c / 262144 = 0xE0) := by omega
                  have a4 : ¬ (0xF0 + c / 262144 = 0xED) := by omega
                  have a5 : ¬ (0xE1 ≤ 0xF0 + c / 262144 ∧ 0xF0 + c / 262144 ≤ 0xEF) := by omega
                  have a6 : ¬ (0xF0 + c / 262144 = 0xF0) := by omega
                  have a7 : ¬ (0xF0 + c / 262144 = 0xF4) := by omega
                  have a8 : 0xF1 ≤ 0xF0 + c / 262144 ∧ 0xF0 + c / 262144 ≤ 0xF3 := by omega
                  simp only [u8step, U8.init, a1, a2, a3, a4, a5, a6, a7, a8, if_true, if_false, and_self]
                  simp
                have e2 := u8step_cont_more ⟨3, c / 262144, 0x80, 0xBF⟩ (0x80 + c / 4096 % 64) 1 rfl (by simp) (by simp; omega)
                have e3 := u8step_cont_more ⟨2, c / 262144 * 64 + (0x80 + c / 4096 % 64 - 0x80), 0x80, 0xBF⟩ (0x80 + c / 64 % 64) 0 rfl (by simp) (by simp; omega)
                have e4 := u8step_cont_last ⟨1, (c / 262144 * 64 + (0x80 + c / 4096 % 64 - 0x80)) * 64 + (0x80 + c / 64 % 64 - 0x80), 0x80, 0xBF⟩ (0x80 + c % 64) rfl (by simp) (by simp; omega)
                have e5 : ((c / 262144 * 64 + (0x80 + c / 4096 % 64 - 0x80)) * 64 + (0x80 + c / 64 % 64 - 0x80)) * 64 + (0x80 + c % 64 - 0x80) = c := by omega
                simp only [e5] at e4
                simp only [List.cons_append, List.nil_append, decodeFrom, e1, e2, e3, e4]
                cases decodeFrom U8.init rest <;> rfl
          · cases h


end Coba.C12
