/-
C12 helper lemmas (delivery independence, framing, CSV / LibSVM round trips).
-/
import CobaVerif.Model.C12

namespace Coba.C12

/-! ## A.1 UTF-8 decoding is a run of one automaton: cutting the input does not matter -/


theorem decodeFrom_append (s : U8) (a b : List Nat) :
    decodeFrom s (a ++ b) =
      match decodeFrom s a with
      | .error e => .error e
      | .ok (s1, t1) => match decodeFrom s1 b with
        | .error e => .error e
        | .ok (s2, t2) => .ok (s2, t1 ++ t2) := by
  induction a generalizing s with
  | nil =>
    simp only [List.nil_append, decodeFrom]
    cases decodeFrom s b with
    | error e => rfl
    | ok r => rfl
  | cons x a ih =>
    simp only [List.cons_append, decodeFrom]
    cases h : u8step s x with
    | error e => rfl
    | ok r =>
      obtain ⟨s1, o⟩ := r
      simp only [ih]
      cases decodeFrom s1 a with
      | error e => rfl
      | ok r2 =>
        obtain ⟨s2, t⟩ := r2
        simp only
        cases decodeFrom s2 b with
        | error e => rfl
        | ok r3 =>
          cases o <;> simp

def decodeFin (s : U8) (bs : List Nat) : Except Err Text :=
  match decodeFrom s bs with
  | .error e => .error e
  | .ok r => finish r

theorem decodeAll_eq (bs) : decodeAll bs = decodeFin U8.init bs := rfl

theorem decodeChunksFix_flatten (s : U8) (cs : List (List Nat)) :
    (match decodeChunksFix s cs with | .error e => Except.error e | .ok ts => .ok ts.flatten) = decodeFin s cs.flatten := by
  induction cs generalizing s with
  | nil =>
    simp only [decodeChunksFix, List.flatten_nil, decodeFin, decodeFrom, finish]
    by_cases h : s.need = 0 <;> simp [h]
  | cons c cs ih =>
    simp only [decodeChunksFix, List.flatten_cons, decodeFin, decodeFrom_append]
    cases h : decodeFrom s c with
    | error e => rfl
    | ok r =>
      obtain ⟨s1, t⟩ := r
      have := ih s1
      simp only [decodeFin] at this
      simp only
      cases h2 : decodeChunksFix s1 cs with
      | error e =>
        rw [h2] at this
        simp only at this
        cases h3 : decodeFrom s1 cs.flatten with
        | error e' => rw [h3] at this; simp_all
        | ok r3 =>
          rw [h3] at this
          obtain ⟨s3, t3⟩ := r3
          simp only [finish] at this ⊢
          split at this <;> simp_all
      | ok ts =>
        rw [h2] at this
        simp only at this
        cases h3 : decodeFrom s1 cs.flatten with
        | error e' => rw [h3] at this; simp_all
        | ok r3 =>
          rw [h3] at this
          obtain ⟨s3, t3⟩ := r3
          simp only [finish, List.flatten_cons] at this ⊢
          split at this <;> simp_all


/-! ## A.2 the line splitter -/


theorem lsRun_append (s : LS) (a b : Text) :
    lsRun s (a ++ b) = ((lsRun (lsRun s a).1 b).1, (lsRun s a).2 ++ (lsRun (lsRun s a).1 b).2) := by
  induction a generalizing s with
  | nil => simp [lsRun]
  | cons c a ih => simp [lsRun, ih, List.append_assoc]

theorem prependFirst_nil (l : List Text) : prependFirst [] l = l := by
  cases l <;> simp [prependFirst]

theorem prependFirst_prependFirst (a b : Text) (l : List Text) :
    prependFirst a (prependFirst b l) = prependFirst (a ++ b) l := by
  cases l <;> simp [prependFirst]

theorem prependFirst_eq_nil (a : Text) (l : List Text) : prependFirst a l = [] ↔ l = [] := by
  cases l <;> simp [prependFirst]

/-- Lemma A: running from a non-empty current line is running from the empty one with the
current line glued in front of the first completed line (or of the new current line). -/
theorem lsRun_cur (cur : Text) (text : Text) :
    lsRun ⟨cur, false⟩ text =
      (if (lsRun ⟨[], false⟩ text).2 = [] then ⟨cur ++ (lsRun ⟨[], false⟩ text).1.cur, (lsRun ⟨[], false⟩ text).1.cr⟩
       else (lsRun ⟨[], false⟩ text).1,
       prependFirst cur (lsRun ⟨[], false⟩ text).2) := by
  induction text generalizing cur with
  | nil => simp [lsRun, prependFirst]
  | cons c t ih =>
    by_cases hb : isBreak c = true
    · simp [lsRun, lsStep, hb, prependFirst]
    · have hb' : isBreak c = false := by simpa using hb
      simp only [lsRun, lsStep, hb', Bool.false_and, Bool.false_eq_true, if_false, List.nil_append]
      rw [ih (cur ++ [c]), ih [c]]
      by_cases he : (lsRun ⟨[], false⟩ t).2 = []
      · simp [he, prependFirst]
      · simp [he, prependFirst_eq_nil, prependFirst_prependFirst]

/-- Lemma B -/
theorem lsRun_cr_lf (cur : Text) (t : Text) : lsRun ⟨cur, true⟩ (LF :: t) = lsRun ⟨cur, false⟩ t := by
  simp [lsRun, lsStep]

theorem lsRun_cr_other (cur : Text) (c : Nat) (t : Text) (h : (c == LF) = false) :
    lsRun ⟨cur, true⟩ (c :: t) = lsRun ⟨cur, false⟩ (c :: t) := by
  simp [lsRun, lsStep, h]

def LS.wf (s : LS) : Prop := s.cr = true → s.cur = []

theorem lsStep_wf (s : LS) (c : Nat) (_h : s.wf) : (lsStep s c).1.wf := by
  unfold lsStep LS.wf at *
  split
  · simp
  · split
    · simp
    · simp

theorem lastIs_cons_cons (a b : Nat) (t : Text) (p : Nat → Bool) : lastIs (a :: b :: t) p = lastIs (b :: t) p := by
  simp [lastIs, List.getLast?_cons_cons]

theorem lastIs_single (a : Nat) (p : Nat → Bool) : lastIs [a] p = p a := by
  simp [lastIs]

theorem isBreak_LF : isBreak LF = true := by decide
theorem isBreak_CR : isBreak CR = true := by decide

/-- C1/C2: after a non-empty text the current line is empty iff the last character was a
boundary, and the CR flag says whether it was a carriage return -/
theorem lsRun_last (s : LS) (text : Text) (hs : s.wf) (hne : text ≠ []) :
    ((lsRun s text).1.cur = [] ↔ lastIs text isBreak = true) ∧
    (lsRun s text).1.cr = lastIs text (· == CR) := by
  induction text generalizing s with
  | nil => exact absurd rfl hne
  | cons c t ih =>
    cases t with
    | nil =>
      simp only [lsRun, lastIs_single]
      unfold lsStep
      by_cases h1 : (s.cr && c == LF) = true
      · simp only [h1, if_true]
        have hc : c = LF := by simp at h1; exact h1.2
        have hcr : s.cr = true := by simp at h1; exact h1.1
        subst hc
        simp [hs hcr, isBreak_LF]; decide
      · simp only [h1]
        by_cases hb : isBreak c = true
        · simp [hb]
        · have hb' : isBreak c = false := by simpa using hb
          have : (c == CR) = false := by
            cases hcc : (c == CR) with
            | false => rfl
            | true =>
              have : c = CR := by simpa using hcc
              subst this; simp [isBreak_CR] at hb'
          simp [hb', this]
    | cons d t' =>
      simp only [lsRun, lastIs_cons_cons]
      have := ih (lsStep s c).1 (lsStep_wf s c hs) (by simp)
      simpa [lsRun] using this

/-- C3: from a state without pending CR, if nothing was emitted no character was a boundary -/
theorem lsRun_no_out (s : LS) (text : Text) (hcr : s.cr = false) (h : (lsRun s text).2 = []) :
    (lsRun s text).1 = ⟨s.cur ++ text, false⟩ := by
  induction text generalizing s with
  | nil => cases s; simp_all [lsRun]
  | cons c t ih =>
    simp only [lsRun] at h ⊢
    unfold lsStep at h ⊢
    simp only [hcr, Bool.false_and, Bool.false_eq_true, if_false] at h ⊢
    by_cases hb : isBreak c = true
    · simp [hb] at h
    · have hb' : isBreak c = false := by simpa using hb
      simp only [hb', Bool.false_eq_true, if_false, List.nil_append] at h ⊢
      rw [ih ⟨s.cur ++ [c], false⟩ rfl h]
      simp


theorem getLast?_cons_concat {α} (a : α) (l : List α) (x : α) : (a :: (l ++ [x])).getLast? = some x := by
  induction l generalizing a with
  | nil => simp
  | cons b l ih => rw [List.cons_append, List.getLast?_cons_cons]; exact ih b

theorem dropLast_cons_concat {α} (a : α) (l : List α) (x : α) : (a :: (l ++ [x])).dropLast = a :: l := by
  induction l generalizing a with
  | nil => simp
  | cons b l ih => rw [List.cons_append, List.dropLast_cons_cons, ih b]

theorem splitlines_eq (t : Text) : splitlines t = (lsRun ⟨[], false⟩ t).2 ++ lsFlush (lsRun ⟨[], false⟩ t).1 := rfl

/-- the relation between the state of the repaired loop and the line splitter -/
def Rel (d : DS) (s : LS) : Prop :=
  s.cur = d.pending.getD [] ∧ s.cr = d.afterCr ∧ (∀ p, d.pending = some p → p ≠ []) ∧
  (d.afterCr = true → d.pending = none)

/-- general step: no pending CR -/
theorem delimFix_general (p : Option Text) (text : Text) (hne : text ≠ [])
    (hp : ∀ q, p = some q → q ≠ []) :
    let lines1 := applyPending p (splitlines text)
    let r : DS × List Text := if lastIs text isBreak then (⟨none, lastIs text (· == CR)⟩, lines1)
                else (⟨lines1.getLast?, false⟩, lines1.dropLast)
    Rel r.1 (lsRun ⟨p.getD [], false⟩ text).1 ∧ r.2 = (lsRun ⟨p.getD [], false⟩ text).2 := by
  intro lines1 r
  have hl : lines1 = prependFirst (p.getD []) (splitlines text) := by
    cases p <;> simp [lines1, applyPending, prependFirst_nil]
  have hlast := lsRun_last ⟨[], false⟩ text (by simp [LS.wf]) hne
  rw [lsRun_cur (p.getD []) text]
  generalize hr0 : lsRun ⟨[], false⟩ text = r0 at *
  obtain ⟨s0, out0⟩ := r0
  by_cases hb : lastIs text isBreak = true
  · have hcur : s0.cur = [] := hlast.1.2 hb
    have hout : out0 ≠ [] := by
      intro h
      have := lsRun_no_out ⟨[], false⟩ text rfl (by rw [hr0]; exact h)
      rw [hr0] at this
      simp only at this
      rw [this] at hcur
      simp at hcur
      exact hne hcur
    have hsl : splitlines text = out0 := by
      rw [splitlines_eq, hr0]; simp [lsFlush, hcur]
    simp only [r, hb, if_true, hl, hsl, hout, if_false]
    refine ⟨⟨?_, ?_, ?_, ?_⟩, ?_⟩
    · simpa using hcur
    · simpa using hlast.2
    · simp
    · simp
    · first | rfl | trivial | simp
  · have hb' : lastIs text isBreak = false := by simpa using hb
    have hcur : s0.cur ≠ [] := fun h => hb (hlast.1.1 h)
    have hcr : s0.cr = false := by
      rw [hlast.2]
      cases hc : lastIs text (· == CR) with
      | false => rfl
      | true =>
        exfalso
        unfold lastIs at hc hb'
        cases hg : text.getLast? with
        | none => simp [hg] at hc
        | some c =>
          simp only [hg] at hc hb'
          have : c = CR := by simpa using hc
          subst this
          simp [isBreak_CR] at hb'
    have hsl : splitlines text = out0 ++ [s0.cur] := by
      rw [splitlines_eq, hr0]; simp [lsFlush, hcur]
    simp only [r, hb', Bool.false_eq_true, if_false, hl, hsl]
    cases out0 with
    | nil =>
      simp only [List.nil_append, prependFirst, if_true]
      refine ⟨⟨?_, ?_, ?_, ?_⟩, ?_⟩
      · simp
      · simpa using hcr
      · intro q hq; simp at hq; subst hq; simp [hcur]
      · simp
      · simp
    | cons l ls =>
      simp only [List.cons_append, prependFirst]
      simp only [getLast?_cons_concat, dropLast_cons_concat]
      refine ⟨⟨?_, ?_, ?_, ?_⟩, ?_⟩
      · simp
      · simpa using hcr
      · intro q hq; simp at hq; subst hq; exact hcur
      · simp
      · simp

@[simp] theorem skipLf_false (t : Text) : skipLf false t = t := by cases t <;> rfl
@[simp] theorem skipLf_true_lf (t : Text) : skipLf true (LF :: t) = t := by simp [skipLf]
theorem skipLf_true_other (c : Nat) (t : Text) (h : (c == LF) = false) : skipLf true (c :: t) = c :: t := by
  simp [skipLf, h]

theorem delimFixStep_rel (d : DS) (s : LS) (text0 : Text) (hne : text0 ≠ []) (h : Rel d s) :
    Rel (delimFixStep d text0).1 (lsRun s text0).1 ∧ (delimFixStep d text0).2 = (lsRun s text0).2 := by
  obtain ⟨hcur, hcr, hp, hac⟩ := h
  obtain ⟨cur, cr⟩ := s
  obtain ⟨pending, afterCr⟩ := d
  simp only at hcur hcr hp hac
  subst hcur hcr
  cases text0 with
  | nil => exact absurd rfl hne
  | cons c t =>
    cases cr with
    | false =>
      have := delimFix_general pending (c :: t) (by simp) hp
      simpa [delimFixStep] using this
    | true =>
      have hpn : pending = none := hac rfl
      subst hpn
      by_cases hc : (c == LF) = true
      · have hc' : c = LF := by simpa using hc
        subst hc'
        simp only [Option.getD_none]
        rw [lsRun_cr_lf]
        by_cases ht : t = []
        · subst ht
          simp [delimFixStep, lsRun, Rel]
        · have := delimFix_general none t ht (by simp)
          simp only [delimFixStep, skipLf_true_lf, ht, if_false]
          simpa using this
      · have hc' : (c == LF) = false := by simpa using hc
        simp only [Option.getD_none]
        rw [lsRun_cr_other [] c t hc']
        have := delimFix_general none (c :: t) (by simp) (by simp)
        simpa [delimFixStep, skipLf_true_other c t hc'] using this

theorem delimFixGo_eq (d : DS) (s : LS) (chunks : List Text) (h : Rel d s) :
    delimFixGo d chunks = (lsRun s chunks.flatten).2 ++ lsFlush (lsRun s chunks.flatten).1 := by
  induction chunks generalizing d s with
  | nil =>
    obtain ⟨hcur, _, hp, _⟩ := h
    simp only [delimFixGo, List.flatten_nil, lsRun, List.nil_append, lsFlush]
    cases hpd : d.pending with
    | none => simp [hcur, hpd]
    | some p => simp [hcur, hpd, hp p hpd]
  | cons t ts ih =>
    simp only [delimFixGo, List.flatten_cons]
    by_cases ht : t = []
    · subst ht; simpa using ih d s h
    · simp only [ht, if_false]
      have hstep := delimFixStep_rel d s t ht h
      rw [lsRun_append, ih _ _ hstep.1, hstep.2]
      simp [List.append_assoc]

/-- DelimSource (repaired): for every way of cutting a text into chunks (empty chunks
included) the lines are those of the whole text -/
theorem delimFix_eq' (chunks : List Text) : delimFix chunks = splitlines chunks.flatten := by
  unfold delimFix
  rw [delimFixGo_eq ⟨none, false⟩ ⟨[], false⟩ chunks (by simp [Rel])]
  rfl



/-! ## A.3 the byte pipeline -/


theorem decompChunks_flatten {σ} (D : Decomp σ) (h : D.Lawful) (s : σ) (cs : List (List Nat)) :
    (decompChunks D s cs).flatten = (D.step s cs.flatten).2 := by
  induction cs generalizing s with
  | nil => simp [decompChunks, h.1]
  | cons c cs ih => simp [decompChunks, h.2, ih]

theorem chunk_invariance' {σ} (D : Decomp σ) (h : D.Lawful) (cs : List (List Nat)) :
    readFix D cs = readWhole D cs.flatten := by
  unfold readFix readWhole Decomp.all
  rw [← decompChunks_flatten D h, decodeAll_eq, ← decodeChunksFix_flatten]
  cases decodeChunksFix U8.init (decompChunks D D.init cs) with
  | error e => rfl
  | ok ts => simp [delimFix_eq']

theorem chunksOf_go_flatten (size : Nat) (hs : 0 < size) (fuel : Nat) (bs : List Nat) (h : bs.length ≤ fuel) :
    (chunksOf.go size fuel bs).flatten = bs := by
  induction fuel generalizing bs with
  | zero =>
    have : bs = [] := by cases bs <;> simp_all
    subst this; simp [chunksOf.go]
  | succ n ih =>
    simp only [chunksOf.go]
    by_cases hb : bs = []
    · simp [hb]
    · simp only [hb, if_false, List.flatten_cons]
      rw [ih (bs.drop size) (by
        have : 0 < bs.length := List.length_pos_iff.mpr hb
        simp only [List.length_drop]; omega)]
      exact List.take_append_drop size bs

theorem chunksOf_flatten (size : Nat) (bs : List Nat) : (chunksOf size bs).flatten = bs := by
  unfold chunksOf
  by_cases hs : size = 0
  · simp [hs]
  · simp only [hs, if_false]
    exact chunksOf_go_flatten size (Nat.pos_of_ne_zero hs) _ bs (Nat.le_refl _)

instance instDecEqExcept {ε α} [DecidableEq ε] [DecidableEq α] : DecidableEq (Except ε α) := fun a b =>
  match a, b with
  | .ok x, .ok y => if h : x = y then isTrue (by rw [h]) else isFalse (by intro h'; cases h'; exact h rfl)
  | .error x, .error y => if h : x = y then isTrue (by rw [h]) else isFalse (by intro h'; cases h'; exact h rfl)
  | .ok _, .error _ => isFalse (by intro h; cases h)
  | .error _, .ok _ => isFalse (by intro h; cases h)

theorem cex_utf8 : readCur Decomp.identity [[0x61, 0xC3], [0xA9]] = .error .unicodeDecode ∧
    readWhole Decomp.identity [0x61, 0xC3, 0xA9] = .ok [[0x61, 0xE9]] := by decide
theorem cex_crlf : readCur Decomp.identity [[0x61, 13], [10, 0x62]] = .ok [[0x61], [], [0x62]] ∧
    readWhole Decomp.identity [0x61, 13, 10, 0x62] = .ok [[0x61], [0x62]] := by decide
theorem cex_u2028 : readCur Decomp.identity [[0x61, 0xE2, 0x80, 0xA8], [0x62]] = .ok [[0x61, 0x62]] ∧
    readWhole Decomp.identity [0x61, 0xE2, 0x80, 0xA8, 0x62] = .ok [[0x61], [0x62]] := by decide


/-! ## A.4 the current code is right on good cuts -/


theorem skipLf_eq (ac : Bool) (t : Text) (h1 : (ac && t.head? == some LF) = false) : skipLf ac t = t := by
  cases ac with
  | false => rfl
  | true =>
    cases t with
    | nil => rfl
    | cons c t' =>
      simp only [List.head?_cons, Bool.true_and] at h1
      have : (c == LF) = false := by
        cases hc : (c == LF) with
        | false => rfl
        | true => have : c = LF := by simpa using hc
                  subst this; simp at h1
      simp [skipLf, this]

/-- on a good cut the current loop body does what the repaired one does -/
theorem delimCurStep_eq (d : DS) (s : LS) (t : Text) (hne : t ≠ []) (h : Rel d s)
    (h1 : (d.afterCr && t.head? == some LF) = false)
    (h2 : lastIs t (fun c => isBreak c && !(c == CR || c == LF)) = false) :
    delimCurStep d.pending t = ((delimFixStep d t).1.pending, (delimFixStep d t).2) := by
  obtain ⟨_, _, hp, _⟩ := h
  have hbr : lastIs t isBreak = lastIs t (fun c => c == CR || c == LF) := by
    unfold lastIs at h2 ⊢
    cases hg : t.getLast? with
    | none => rfl
    | some c =>
      simp only [hg] at h2 ⊢
      by_cases hc : (c == CR || c == LF) = true
      · rw [hc]
        have : c = CR ∨ c = LF := by simpa using hc
        rcases this with h | h <;> subst h <;> decide
      · have hc' : (c == CR || c == LF) = false := by simpa using hc
        rw [hc'] at h2 ⊢
        simpa using h2
  have htext := skipLf_eq d.afterCr t h1
  unfold delimFixStep delimCurStep
  simp only [htext, hne, if_false]
  rw [hbr]
  cases hpd : d.pending with
  | none => simp only [applyPending]; split <;> rfl
  | some p =>
    have hpne := hp p hpd
    cases p with
    | nil => exact absurd rfl hpne
    | cons a p' =>
      simp only [applyPending, Option.getD_some, if_true]
      split <;> rfl

theorem goodCuts_step (ac : Bool) (t : Text) (ts : List Text) (hne : t ≠ []) (h : goodCutsGo ac (t :: ts) = true) :
    (ac && t.head? == some LF) = false ∧ lastIs t (fun c => isBreak c && !(c == CR || c == LF)) = false ∧
    goodCutsGo (lastIs t (· == CR)) ts = true := by
  simp only [goodCutsGo, hne, if_false, Bool.and_eq_true, Bool.not_eq_true'] at h
  exact ⟨h.1.1, h.1.2, h.2⟩

theorem delimFixStep_afterCr (d : DS) (t : Text) (hne : t ≠ [])
    (h1 : (d.afterCr && t.head? == some LF) = false) :
    (delimFixStep d t).1.afterCr = lastIs t (· == CR) := by
  have htext := skipLf_eq d.afterCr t h1
  unfold delimFixStep
  simp only [htext, hne, if_false]
  by_cases hb : lastIs t isBreak = true
  · simp [hb]
  · have hb' : lastIs t isBreak = false := by simpa using hb
    simp only [hb', Bool.false_eq_true, if_false]
    unfold lastIs at hb' ⊢
    cases hg : t.getLast? with
    | none => rfl
    | some c =>
      simp only [hg] at hb' ⊢
      cases hc : (c == CR) with
      | false => rfl
      | true => have : c = CR := by simpa using hc
                subst this; simp [isBreak_CR] at hb'

theorem delimCurGo_eq (d : DS) (s : LS) (ts : List Text) (h : Rel d s) (hg : goodCutsGo d.afterCr ts = true) :
    delimCurGo d.pending ts = delimFixGo d ts := by
  induction ts generalizing d s with
  | nil => simp [delimCurGo, delimFixGo]
  | cons t ts ih =>
    by_cases hne : t = []
    · subst hne
      simp only [delimCurGo, delimFixGo, if_true]
      exact ih d s h (by simpa [goodCutsGo] using hg)
    · obtain ⟨g1, g2, g3⟩ := goodCuts_step d.afterCr t ts hne hg
      simp only [delimCurGo, delimFixGo, hne, if_false]
      rw [delimCurStep_eq d s t hne h g1 g2]
      simp only
      have hrel := (delimFixStep_rel d s t hne h).1
      rw [ih (delimFixStep d t).1 _ hrel (by rw [delimFixStep_afterCr d t hne g1]; exact g3)]

theorem delimCur_eq_of_good (ts : List Text) (hg : goodCuts ts = true) : delimCur ts = splitlines ts.flatten := by
  rw [← delimFix_eq']
  exact delimCurGo_eq ⟨none, false⟩ ⟨[], false⟩ ts (by simp [Rel]) hg

/-- a decoder that has no character outstanding is in its initial state -/
theorem u8step_need0 (s : U8) (b : Nat) (s' : U8) (o : Option Nat) (h : u8step s b = .ok (s', o)) (h0 : s'.need = 0) :
    s' = U8.init := by
  unfold u8step at h
  repeat' split at h
  all_goals (first | (cases h; rfl) | (cases h; simp at h0; done) | (cases h; simp at h0; exfalso; omega) | cases h)

theorem decodeFrom_need0 (s : U8) (bs : List Nat) (s' : U8) (t : Text) (h : decodeFrom s bs = .ok (s', t))
    (h0 : s'.need = 0) : s' = U8.init ∨ (bs = [] ∧ s' = s) := by
  induction bs generalizing s t with
  | nil => simp [decodeFrom] at h; right; exact ⟨rfl, h.1.symm⟩
  | cons b bs ih =>
    left
    simp only [decodeFrom] at h
    cases h1 : u8step s b with
    | error e => simp [h1] at h
    | ok r =>
      obtain ⟨s1, o⟩ := r
      simp only [h1] at h
      cases h2 : decodeFrom s1 bs with
      | error e => simp [h2] at h
      | ok r2 =>
        obtain ⟨s2, t2⟩ := r2
        simp only [h2] at h
        cases h
        rcases ih s1 t2 h2 with h3 | ⟨_, h3⟩
        · exact h3
        · subst h3; exact u8step_need0 s b s' o h1 h0

theorem decodeChunksCur_fix (cs : List (List Nat)) (ts : List Text) (h : decodeChunksCur cs = .ok ts) :
    decodeChunksFix U8.init cs = .ok ts := by
  induction cs generalizing ts with
  | nil => simp [decodeChunksCur] at h; subst h; simp [decodeChunksFix, U8.init]
  | cons c cs ih =>
    simp only [decodeChunksCur, decodeAll] at h
    cases h1 : decodeFrom U8.init c with
    | error e => simp [h1] at h
    | ok r =>
      obtain ⟨s1, t⟩ := r
      simp only [h1, finish] at h
      by_cases hn : s1.need = 0
      · simp only [hn, if_true] at h
        have hs1 : s1 = U8.init := by
          rcases decodeFrom_need0 _ _ _ _ h1 hn with h | ⟨_, h⟩ <;> exact h
        subst hs1
        cases h2 : decodeChunksCur cs with
        | error e => simp [h2] at h
        | ok ts' =>
          simp only [h2] at h
          cases h
          simp [decodeChunksFix, h1, ih ts' h2]
      · simp [hn] at h

theorem chunk_invariance_partial' {σ} (D : Decomp σ) (hD : D.Lawful) (cs : List (List Nat)) (ts : List Text)
    (hdec : decodeChunksCur (decompChunks D D.init cs) = .ok ts) (hg : goodCuts ts = true) :
    readCur D cs = readWhole D cs.flatten := by
  rw [← chunk_invariance' D hD]
  unfold readCur readFix
  rw [hdec, decodeChunksCur_fix _ _ hdec]
  simp only
  rw [delimCur_eq_of_good ts hg, delimFix_eq']



/-! ## B.1 UTF-8 encode/decode round trip -/


theorem u8step_cont_last (s : U8) (b : Nat) (h1 : s.need = 1) (hlo : s.lo ≤ b) (hhi : b ≤ s.hi) :
    u8step s b = .ok (U8.init, some (s.acc * 64 + (b - 0x80))) := by
  unfold u8step
  simp [h1, hlo, hhi]

theorem u8step_cont_more (s : U8) (b : Nat) (n : Nat) (h1 : s.need = n + 2) (hlo : s.lo ≤ b) (hhi : b ≤ s.hi) :
    u8step s b = .ok (⟨n + 1, s.acc * 64 + (b - 0x80), 0x80, 0xBF⟩, none) := by
  unfold u8step
  simp [h1, hlo, hhi]

/-- decoding the encoding of one scalar value yields it and returns to the initial state -/
theorem decode_encodeCP (c : Nat) (bs rest : List Nat) (h : encodeCP c = .ok bs) :
    decodeFrom U8.init (bs ++ rest) =
      match decodeFrom U8.init rest with
      | .error e => .error e
      | .ok (s, t) => .ok (s, c :: t) := by
  unfold encodeCP at h
  split at h
  · cases h
    rename_i h1
    have : u8step U8.init c = .ok (U8.init, some c) := by simp [u8step, U8.init, h1]
    simp only [List.cons_append, List.nil_append, decodeFrom, this]
    cases decodeFrom U8.init rest <;> rfl
  · split at h
    · cases h
      rename_i h1 h2
      have e1 : u8step U8.init (0xC0 + c / 64) = .ok (⟨1, c / 64, 0x80, 0xBF⟩, none) := by
        have a1 : ¬ (0xC0 + c / 64 < 0x80) := by omega
        have a2 : 0xC2 ≤ 0xC0 + c / 64 ∧ 0xC0 + c / 64 ≤ 0xDF := by omega
        simp [u8step, U8.init, a1, a2]
      have e2 := u8step_cont_last ⟨1, c / 64, 0x80, 0xBF⟩ (0x80 + c % 64) rfl (by simp) (by simp; omega)
      have e3 : c / 64 * 64 + (0x80 + c % 64 - 0x80) = c := by omega
      simp only [e3] at e2
      simp only [List.cons_append, List.nil_append, decodeFrom, e1, e2]
      cases decodeFrom U8.init rest <;> rfl
    · split at h
      · cases h
      · split at h
        · cases h
          rename_i h1 h2 h3 h4
          have hs : c < 0xD800 ∨ 0xDFFF < c := by omega
          have e3 : ∀ a, (a * 64 + (0x80 + c / 64 % 64 - 0x80)) * 64 + (0x80 + c % 64 - 0x80) = a * 4096 + (c / 64 % 64) * 64 + c % 64 := by
            intro a; omega
          -- lead byte
          by_cases k0 : c / 4096 = 0
          · have e1 : u8step U8.init (0xE0 + c / 4096) = .ok (⟨2, 0, 0xA0, 0xBF⟩, none) := by
              simp [u8step, U8.init, k0]
            have e2 := u8step_cont_more ⟨2, 0, 0xA0, 0xBF⟩ (0x80 + c / 64 % 64) 0 rfl (by simp; omega) (by simp; omega)
            have e4 := u8step_cont_last ⟨1, 0 * 64 + (0x80 + c / 64 % 64 - 0x80), 0x80, 0xBF⟩ (0x80 + c % 64) rfl (by simp) (by simp; omega)
            have e5 : (0 * 64 + (0x80 + c / 64 % 64 - 0x80)) * 64 + (0x80 + c % 64 - 0x80) = c := by omega
            simp only [e5] at e4
            simp only [List.cons_append, List.nil_append, decodeFrom, e1, e2, e4]
            cases decodeFrom U8.init rest <;> rfl
          · by_cases k13 : c / 4096 = 13
            · have e1 : u8step U8.init (0xE0 + c / 4096) = .ok (⟨2, 13, 0x80, 0x9F⟩, none) := by
                simp [u8step, U8.init, k13]
              have e2 := u8step_cont_more ⟨2, 13, 0x80, 0x9F⟩ (0x80 + c / 64 % 64) 0 rfl (by simp) (by simp; omega)
              have e4 := u8step_cont_last ⟨1, 13 * 64 + (0x80 + c / 64 % 64 - 0x80), 0x80, 0xBF⟩ (0x80 + c % 64) rfl (by simp) (by simp; omega)
              have e5 : (13 * 64 + (0x80 + c / 64 % 64 - 0x80)) * 64 + (0x80 + c % 64 - 0x80) = c := by omega
              simp only [e5] at e4
              simp only [List.cons_append, List.nil_append, decodeFrom, e1, e2, e4]
              cases decodeFrom U8.init rest <;> rfl
            · have e1 : u8step U8.init (0xE0 + c / 4096) = .ok (⟨2, c / 4096, 0x80, 0xBF⟩, none) := by
                have a1 : ¬ (0xE0 + c / 4096 < 0x80) := by omega
                have a2 : ¬ (0xC2 ≤ 0xE0 + c / 4096 ∧ 0xE0 + c / 4096 ≤ 0xDF) := by omega
                have a3 : ¬ (0xE0 + c / 4096 = 0xE0) := by omega
                have a4 : ¬ (0xE0 + c / 4096 = 0xED) := by omega
                have a5 : 0xE1 ≤ 0xE0 + c / 4096 ∧ 0xE0 + c / 4096 ≤ 0xEF := by omega
                simp [u8step, U8.init, a1, a2, a4, a5]
                omega
              have e2 := u8step_cont_more ⟨2, c / 4096, 0x80, 0xBF⟩ (0x80 + c / 64 % 64) 0 rfl (by simp) (by simp; omega)
              have e4 := u8step_cont_last ⟨1, c / 4096 * 64 + (0x80 + c / 64 % 64 - 0x80), 0x80, 0xBF⟩ (0x80 + c % 64) rfl (by simp) (by simp; omega)
              have e5 : (c / 4096 * 64 + (0x80 + c / 64 % 64 - 0x80)) * 64 + (0x80 + c % 64 - 0x80) = c := by omega
              simp only [e5] at e4
              simp only [List.cons_append, List.nil_append, decodeFrom, e1, e2, e4]
              cases decodeFrom U8.init rest <;> rfl
        · split at h
          · cases h
            rename_i h1 h2 h3 h4 h5
            have hs : 0x10000 ≤ c := by omega
            by_cases k0 : c / 262144 = 0
            · have e1 : u8step U8.init (0xF0 + c / 262144) = .ok (⟨3, 0, 0x90, 0xBF⟩, none) := by
                simp [u8step, U8.init, k0]
              have e2 := u8step_cont_more ⟨3, 0, 0x90, 0xBF⟩ (0x80 + c / 4096 % 64) 1 rfl (by simp; omega) (by simp; omega)
              have e3 := u8step_cont_more ⟨2, 0 * 64 + (0x80 + c / 4096 % 64 - 0x80), 0x80, 0xBF⟩ (0x80 + c / 64 % 64) 0 rfl (by simp) (by simp; omega)
              have e4 := u8step_cont_last ⟨1, (0 * 64 + (0x80 + c / 4096 % 64 - 0x80)) * 64 + (0x80 + c / 64 % 64 - 0x80), 0x80, 0xBF⟩ (0x80 + c % 64) rfl (by simp) (by simp; omega)
              have e5 : ((0 * 64 + (0x80 + c / 4096 % 64 - 0x80)) * 64 + (0x80 + c / 64 % 64 - 0x80)) * 64 + (0x80 + c % 64 - 0x80) = c := by omega
              simp only [e5] at e4
              simp only [List.cons_append, List.nil_append, decodeFrom, e1, e2, e3, e4]
              cases decodeFrom U8.init rest <;> rfl
            · by_cases k4 : c / 262144 = 4
              · have e1 : u8step U8.init (0xF0 + c / 262144) = .ok (⟨3, 4, 0x80, 0x8F⟩, none) := by
                  simp [u8step, U8.init, k4]
                have e2 := u8step_cont_more ⟨3, 4, 0x80, 0x8F⟩ (0x80 + c / 4096 % 64) 1 rfl (by simp) (by simp; omega)
                have e3 := u8step_cont_more ⟨2, 4 * 64 + (0x80 + c / 4096 % 64 - 0x80), 0x80, 0xBF⟩ (0x80 + c / 64 % 64) 0 rfl (by simp) (by simp; omega)
                have e4 := u8step_cont_last ⟨1, (4 * 64 + (0x80 + c / 4096 % 64 - 0x80)) * 64 + (0x80 + c / 64 % 64 - 0x80), 0x80, 0xBF⟩ (0x80 + c % 64) rfl (by simp) (by simp; omega)
                have e5 : ((4 * 64 + (0x80 + c / 4096 % 64 - 0x80)) * 64 + (0x80 + c / 64 % 64 - 0x80)) * 64 + (0x80 + c % 64 - 0x80) = c := by omega
                simp only [e5] at e4
                simp only [List.cons_append, List.nil_append, decodeFrom, e1, e2, e3, e4]
                cases decodeFrom U8.init rest <;> rfl
              · have e1 : u8step U8.init (0xF0 + c / 262144) = .ok (⟨3, c / 262144, 0x80, 0xBF⟩, none) := by
                  have a1 : ¬ (0xF0 + c / 262144 < 0x80) := by omega
                  have a2 : ¬ (0xC2 ≤ 0xF0 + c / 262144 ∧ 0xF0 + c / 262144 ≤ 0xDF) := by omega
                  have a3 : ¬ (0xF0 + c / 262144 = 0xE0) := by omega
                  have a4 : ¬ (0xF0 + c / 262144 = 0xED) := by omega
                  have a5 : ¬ (0xE1 ≤ 0xF0 + c / 262144 ∧ 0xF0 + c / 262144 ≤ 0xEF) := by omega
                  have a6 : ¬ (0xF0 + c / 262144 = 0xF0) := by omega
                  have a7 : ¬ (0xF0 + c / 262144 = 0xF4) := by omega
                  have a8 : 0xF1 ≤ 0xF0 + c / 262144 ∧ 0xF0 + c / 262144 ≤ 0xF3 := by omega
                  simp only [u8step, U8.init, a1, a2, a3, a4, a5, a6, a7, a8, if_true, if_false, and_self]
                  simp
                have e2 := u8step_cont_more ⟨3, c / 262144, 0x80, 0xBF⟩ (0x80 + c / 4096 % 64) 1 rfl (by simp) (by simp; omega)
                have e3 := u8step_cont_more ⟨2, c / 262144 * 64 + (0x80 + c / 4096 % 64 - 0x80), 0x80, 0xBF⟩ (0x80 + c / 64 % 64) 0 rfl (by simp) (by simp; omega)
                have e4 := u8step_cont_last ⟨1, (c / 262144 * 64 + (0x80 + c / 4096 % 64 - 0x80)) * 64 + (0x80 + c / 64 % 64 - 0x80), 0x80, 0xBF⟩ (0x80 + c % 64) rfl (by simp) (by simp; omega)
                have e5 : ((c / 262144 * 64 + (0x80 + c / 4096 % 64 - 0x80)) * 64 + (0x80 + c / 64 % 64 - 0x80)) * 64 + (0x80 + c % 64 - 0x80) = c := by omega
                simp only [e5] at e4
                simp only [List.cons_append, List.nil_append, decodeFrom, e1, e2, e3, e4]
                cases decodeFrom U8.init rest <;> rfl
          · cases h



/-! ## B.2 DiskSink / DiskSource framing -/


theorem decode_encode (t : Text) (bs rest : List Nat) (h : encode t = .ok bs) :
    decodeFrom U8.init (bs ++ rest) =
      match decodeFrom U8.init rest with
      | .error e => .error e
      | .ok (s, t') => .ok (s, t ++ t') := by
  induction t generalizing bs with
  | nil =>
    simp [encode] at h; subst h
    simp only [List.nil_append]
    cases decodeFrom U8.init rest <;> rfl
  | cons c t ih =>
    simp only [encode] at h
    cases h1 : encodeCP c with
    | error e => simp [h1] at h
    | ok b1 =>
      simp only [h1] at h
      cases h2 : encode t with
      | error e => simp [h2] at h
      | ok b2 =>
        simp only [h2] at h
        cases h
        rw [List.append_assoc, decode_encodeCP c b1 (b2 ++ rest) h1, ih b2 h2]
        cases decodeFrom U8.init rest <;> rfl

theorem decodeAll_encode (t : Text) (bs : List Nat) (h : encode t = .ok bs) : decodeAll bs = .ok t := by
  have := decode_encode t bs [] h
  simp only [List.append_nil, decodeFrom] at this
  unfold decodeAll
  rw [this]
  rfl

theorem encodeCP_ok (c : Nat) (h : isScalar c = true) : ∃ bs, encodeCP c = .ok bs := by
  unfold isScalar at h
  simp only [Bool.and_eq_true, Bool.or_eq_true, decide_eq_true_eq] at h
  unfold encodeCP
  split
  · exact ⟨_, rfl⟩
  · split
    · exact ⟨_, rfl⟩
    · split
      · exfalso; omega
      · split
        · exact ⟨_, rfl⟩
        · split
          · exact ⟨_, rfl⟩
          · exfalso; omega

theorem encode_ok (t : Text) (h : ∀ c ∈ t, isScalar c = true) : ∃ bs, encode t = .ok bs := by
  induction t with
  | nil => exact ⟨[], rfl⟩
  | cons c t ih =>
    obtain ⟨b1, h1⟩ := encodeCP_ok c (h c (by simp))
    obtain ⟨b2, h2⟩ := ih (fun d hd => h d (by simp [hd]))
    exact ⟨b1 ++ b2, by simp [encode, h1, h2]⟩

theorem encode_append (a b : Text) (x y : List Nat) (ha : encode a = .ok x) (hb : encode b = .ok y) :
    encode (a ++ b) = .ok (x ++ y) := by
  induction a generalizing x with
  | nil => simp [encode] at ha; subst ha; simpa using hb
  | cons c a ih =>
    simp only [encode] at ha
    cases h1 : encodeCP c with
    | error e => simp [h1] at ha
    | ok b1 =>
      simp only [h1] at ha
      cases h2 : encode a with
      | error e => simp [h2] at ha
      | ok b2 =>
        simp only [h2] at ha
        cases ha
        simp [encode, h1, ih b2 h2]

/-- the text a list of lines is framed into -/
def frame (ls : List Text) : Text := (ls.map (· ++ [LF])).flatten

theorem isScalar_LF : isScalar LF = true := by decide

theorem encodeLines_ok (ls : List Text) (h : ∀ l ∈ ls, ∀ c ∈ l, isScalar c = true) :
    ∃ bs, encodeLines ls = .ok bs ∧ encode (frame ls) = .ok bs := by
  induction ls with
  | nil => exact ⟨[], rfl, rfl⟩
  | cons l ls ih =>
    obtain ⟨b2, h2, h3⟩ := ih (fun l' hl' => h l' (by simp [hl']))
    obtain ⟨b1, h1⟩ := encode_ok (l ++ [LF]) (by
      intro c hc
      simp only [List.mem_append, List.mem_singleton] at hc
      rcases hc with hc | hc
      · exact h l (by simp) c hc
      · subst hc; exact isScalar_LF)
    refine ⟨b1 ++ b2, by simp [encodeLines, h1, h2], ?_⟩
    simp only [frame, List.map_cons, List.flatten_cons]
    exact encode_append _ _ _ _ h1 h3

theorem batches_go_flatten (n : Nat) (hn : 0 < n) (fuel : Nat) (ls : List Text) (h : ls.length < fuel) :
    (batches.go n fuel ls).flatten = ls := by
  induction fuel generalizing ls with
  | zero => omega
  | succ k ih =>
    simp only [batches.go]
    by_cases hb : (ls.take n).length = n
    · simp only [hb, if_true, List.flatten_cons]
      rw [ih (ls.drop n) (by
        simp only [List.length_take] at hb
        simp only [List.length_drop]; omega)]
      exact List.take_append_drop n ls
    · simp only [hb, if_false, List.flatten_cons, List.flatten_nil, List.append_nil]
      simp only [List.length_take] at hb
      exact List.take_of_length_le (by omega)

theorem batches_flatten (b : Option Nat) (ls : List Text) : (batches b ls).flatten = ls := by
  unfold batches
  cases b with
  | none => simp
  | some n =>
    cases n with
    | zero => simp
    | succ m => exact batches_go_flatten (m + 1) (by omega) _ ls (by omega)

theorem frame_append (a b : List Text) : frame (a ++ b) = frame a ++ frame b := by
  simp [frame]

theorem diskWriteParts_go_ok (bs : List (List Text)) (h : ∀ b ∈ bs, ∀ l ∈ b, ∀ c ∈ l, isScalar c = true) :
    ∃ parts bytes, diskWriteParts.go bs = .ok parts ∧ encode (frame bs.flatten) = .ok bytes ∧ parts.flatten = bytes := by
  induction bs with
  | nil => exact ⟨[], [], rfl, rfl, rfl⟩
  | cons b bs ih =>
    obtain ⟨parts, bytes, h1, h2, h3⟩ := ih (fun b' hb' => h b' (by simp [hb']))
    obtain ⟨x, hx, hx2⟩ := encodeLines_ok b (h b (by simp))
    refine ⟨x :: parts, x ++ bytes, by simp [diskWriteParts.go, hx, h1], ?_, by simp [h3]⟩
    simp only [List.flatten_cons, frame_append]
    exact encode_append _ _ _ _ hx2 h2

theorem universalNlGo_noCr (t : Text) (h : ∀ c ∈ t, c ≠ CR) : universalNlGo false t = t := by
  induction t with
  | nil => rfl
  | cons c t ih =>
    have hc : (c == CR) = false := by simpa using h c (by simp)
    simp [universalNlGo, hc, ih (fun d hd => h d (by simp [hd]))]

theorem readlinesGo_line (cur l : Text) (rest : Text) (h : ∀ c ∈ l, c ≠ LF) :
    readlinesGo cur (l ++ LF :: rest) = (cur ++ l ++ [LF]) :: readlinesGo [] rest := by
  induction l generalizing cur with
  | nil => simp [readlinesGo]
  | cons c l ih =>
    have hc : (c == LF) = false := by simpa using h c (by simp)
    simp only [List.cons_append, readlinesGo, hc, Bool.false_eq_true, if_false]
    rw [ih (cur ++ [c]) (fun d hd => h d (by simp [hd]))]
    simp

theorem readlines_frame (ls : List Text) (h : ∀ l ∈ ls, ∀ c ∈ l, c ≠ LF) :
    readlinesGo [] (frame ls) = ls.map (· ++ [LF]) := by
  induction ls with
  | nil => simp [frame, readlinesGo]
  | cons l ls ih =>
    simp only [frame, List.map_cons, List.flatten_cons, List.append_assoc, List.singleton_append]
    rw [readlinesGo_line [] l _ (h l (by simp))]
    have := ih (fun l' hl' => h l' (by simp [hl']))
    simp only [frame] at this
    simp [this]

theorem rstripNl_line (l : Text) (h : noNl l = true) : rstripNl (l ++ [LF]) = l := by
  unfold rstripNl
  simp only [List.reverse_append, List.reverse_cons, List.reverse_nil, List.nil_append, List.singleton_append]
  have h1 : List.dropWhile (fun c => c == CR || c == LF) (LF :: l.reverse) = List.dropWhile (fun c => c == CR || c == LF) l.reverse := by
    simp [List.dropWhile]
  rw [h1]
  have h2 : List.dropWhile (fun c => c == CR || c == LF) l.reverse = l.reverse := by
    cases hr : l.reverse with
    | nil => rfl
    | cons a r =>
      have : a ∈ l := by
        have : a ∈ l.reverse := by rw [hr]; simp
        simpa using this
      unfold noNl at h
      have := List.all_eq_true.mp h a this
      simp only [Bool.not_eq_true'] at this
      simp [List.dropWhile, this]
  rw [h2, List.reverse_reverse]

theorem noNl_ne (l : Text) (h : noNl l = true) : (∀ c ∈ l, c ≠ CR) ∧ (∀ c ∈ l, c ≠ LF) := by
  unfold noNl at h
  have := List.all_eq_true.mp h
  constructor <;> intro c hc <;> have := this c hc <;> simp at this <;> intro heq <;> subst heq <;> simp [CR, LF] at this

theorem disk_roundtrip' (batch : Option Nat) (lines : List Text)
    (hs : ∀ l ∈ lines, ∀ c ∈ l, isScalar c = true) (hn : ∀ l ∈ lines, noNl l = true) :
    ∃ parts, diskWriteParts batch lines = .ok parts ∧ diskRead parts.flatten = .ok lines := by
  obtain ⟨parts, bytes, h1, h2, h3⟩ := diskWriteParts_go_ok (batches batch lines) (by
    intro b hb l hl
    have : l ∈ (batches batch lines).flatten := List.mem_flatten.mpr ⟨b, hb, hl⟩
    rw [batches_flatten] at this
    exact hs l this)
  refine ⟨parts, h1, ?_⟩
  rw [batches_flatten] at h2
  rw [h3]
  unfold diskRead
  rw [decodeAll_encode _ _ h2]
  simp only
  have hcr : ∀ c ∈ frame lines, c ≠ CR := by
    intro c hc
    simp only [frame, List.mem_flatten, List.mem_map] at hc
    obtain ⟨l', ⟨l, hl, rfl⟩, hc⟩ := hc
    simp only [List.mem_append, List.mem_singleton] at hc
    rcases hc with hc | hc
    · exact (noNl_ne l (hn l hl)).1 c hc
    · subst hc; decide
  unfold universalNl
  rw [universalNlGo_noCr _ hcr, readlines_frame lines (fun l hl => (noNl_ne l (hn l hl)).2)]
  rw [List.map_map]
  congr 1
  have : ∀ l ∈ lines, (rstripNl ∘ fun x => x ++ [LF]) l = id l := by
    intro l hl; simp [rstripNl_line l (hn l hl)]
  rw [List.map_congr_left this]; simp



/-! ## C.1 csv.reader on RFC 4180 output -/


section csv
variable (delim : Nat) (hd1 : delim ≠ DQ) (hd2 : isNl delim = false)

theorem isNl_DQ : isNl DQ = false := by decide

theorem csv_inField_char (acc : Text) (fs : List Text) (c : Nat) (h1 : isNl c = false) (h2 : c ≠ delim) :
    csvChar (excel delim) ⟨.inField, acc, fs⟩ (some c) = .ok ⟨.inField, acc ++ [c], fs⟩ := by
  simp [csvChar, csvInField, excel, h1, h2, addChar]

theorem csv_inField_delim (acc : Text) (fs : List Text) (hd2 : isNl delim = false) :
    csvChar (excel delim) ⟨.inField, acc, fs⟩ (some delim) = .ok ⟨.startField, [], fs ++ [acc]⟩ := by
  simp [csvChar, csvInField, excel, hd2, saveField]

theorem csv_inField_eol (acc : Text) (fs : List Text) :
    csvChar (excel delim) ⟨.inField, acc, fs⟩ none = .ok ⟨.startRecord, [], fs ++ [acc]⟩ := by
  simp [csvChar, csvInField, saveField]

theorem csv_startField_char (fs : List Text) (c : Nat) (h1 : isNl c = false) (h2 : c ≠ delim) (h3 : c ≠ DQ) :
    csvChar (excel delim) ⟨.startField, [], fs⟩ (some c) = .ok ⟨.inField, [c], fs⟩ := by
  have : ¬ (34 = c) := fun h => h3 (by simp [DQ, h])
  simp [csvChar, csvStartField, excel, h1, h2, this, addChar]

theorem csv_startField_delim (fs : List Text) (hd1 : delim ≠ DQ) (hd2 : isNl delim = false) :
    csvChar (excel delim) ⟨.startField, [], fs⟩ (some delim) = .ok ⟨.startField, [], fs ++ [[]]⟩ := by
  have : ¬ (34 = delim) := fun h => hd1 (by simp [DQ, h])
  simp [csvChar, csvStartField, excel, hd2, this, saveField]

theorem csv_startField_eol (fs : List Text) :
    csvChar (excel delim) ⟨.startField, [], fs⟩ none = .ok ⟨.startRecord, [], fs ++ [[]]⟩ := by
  simp [csvChar, csvStartField, saveField]

theorem csv_startField_dq (fs : List Text) :
    csvChar (excel delim) ⟨.startField, [], fs⟩ (some DQ) = .ok ⟨.inQuoted, [], fs⟩ := by
  have h : isNl 34 = false := by decide
  simp [csvChar, csvStartField, excel, DQ, goto, h]

theorem csv_inQuoted_char (acc : Text) (fs : List Text) (c : Nat) (h : c ≠ DQ) :
    csvChar (excel delim) ⟨.inQuoted, acc, fs⟩ (some c) = .ok ⟨.inQuoted, acc ++ [c], fs⟩ := by
  have : ¬ (34 = c) := fun h' => h (by simp [DQ, h'])
  simp [csvChar, excel, this, addChar]

theorem csv_inQuoted_dq (acc : Text) (fs : List Text) :
    csvChar (excel delim) ⟨.inQuoted, acc, fs⟩ (some DQ) = .ok ⟨.quoteInQuoted, acc, fs⟩ := by
  simp [csvChar, excel, DQ, goto]

theorem csv_qiq_dq (acc : Text) (fs : List Text) :
    csvChar (excel delim) ⟨.quoteInQuoted, acc, fs⟩ (some DQ) = .ok ⟨.inQuoted, acc ++ [DQ], fs⟩ := by
  simp [csvChar, excel, DQ, addChar]

theorem csv_qiq_delim (acc : Text) (fs : List Text) (hd1 : delim ≠ DQ) :
    csvChar (excel delim) ⟨.quoteInQuoted, acc, fs⟩ (some delim) = .ok ⟨.startField, [], fs ++ [acc]⟩ := by
  have : ¬ (34 = delim) := fun h => hd1 (by simp [DQ, h])
  simp [csvChar, excel, this, saveField]

theorem csv_qiq_eol (acc : Text) (fs : List Text) :
    csvChar (excel delim) ⟨.quoteInQuoted, acc, fs⟩ none = .ok ⟨.startRecord, [], fs ++ [acc]⟩ := by
  simp [csvChar, saveField]

/-- F1 -/
theorem csvFeed_bare (f : Text) (acc : Text) (fs : List Text) (rest : Text)
    (h : ∀ c ∈ f, isNl c = false ∧ c ≠ delim) :
    csvFeed (excel delim) ⟨.inField, acc, fs⟩ (f ++ rest) = csvFeed (excel delim) ⟨.inField, acc ++ f, fs⟩ rest := by
  induction f generalizing acc with
  | nil => simp
  | cons c f ih =>
    have hc := h c (by simp)
    simp only [List.cons_append, csvFeed, csv_inField_char delim acc fs c hc.1 hc.2]
    rw [ih (acc ++ [c]) (fun d hd => h d (by simp [hd]))]
    simp

/-- F2 -/
theorem csvFeed_quoted (f : Text) (acc : Text) (fs : List Text) (rest : Text) :
    csvFeed (excel delim) ⟨.inQuoted, acc, fs⟩ (csvEscape f ++ rest) = csvFeed (excel delim) ⟨.inQuoted, acc ++ f, fs⟩ rest := by
  induction f generalizing acc with
  | nil => simp [csvEscape]
  | cons c f ih =>
    by_cases hc : c = DQ
    · subst hc
      simp only [csvEscape, if_true, List.cons_append, csvFeed, csv_inQuoted_dq, csv_qiq_dq]
      rw [ih]; simp
    · simp only [csvEscape, hc, if_false, List.cons_append, csvFeed, csv_inQuoted_char delim acc fs c hc]
      rw [ih]; simp

theorem not_mustQuote (f : Text) (h : mustQuote delim f = false) :
    ∀ c ∈ f, isNl c = false ∧ c ≠ delim ∧ c ≠ DQ := by
  intro c hc
  unfold mustQuote at h
  have := (List.any_eq_false.mp h) c hc
  simp only [Bool.or_eq_true, beq_iff_eq, not_or] at this
  exact ⟨by simpa using this.2, this.1.1, this.1.2⟩

/-- F3a: a written field followed by the delimiter -/
theorem csvFeed_field_delim (x : Bool × Text) (fs : List Text) (rest : Text)
    (hd1 : delim ≠ DQ) (hd2 : isNl delim = false) :
    csvFeed (excel delim) ⟨.startField, [], fs⟩ (csvWriteField delim x ++ delim :: rest) =
      csvFeed (excel delim) ⟨.startField, [], fs ++ [x.2]⟩ rest := by
  unfold csvWriteField
  by_cases hq : (x.1 || mustQuote delim x.2) = true
  · simp only [hq, if_true, List.cons_append, List.append_assoc, csvFeed, csv_startField_dq]
    rw [csvFeed_quoted]
    simp only [List.nil_append, List.cons_append, csvFeed, csv_inQuoted_dq, csv_qiq_delim delim _ _ hd1]
  · have hq' : (x.1 || mustQuote delim x.2) = false := by simpa using hq
    have hm : mustQuote delim x.2 = false := by
      cases hx : x.1 <;> simp_all
    have hall := not_mustQuote delim x.2 hm
    simp only [hq', Bool.false_eq_true, if_false]
    cases hf : x.2 with
    | nil => simp only [List.nil_append, csvFeed, csv_startField_delim delim fs hd1 hd2]
    | cons c f =>
      rw [hf] at hall
      have hc := hall c (by simp)
      simp only [List.cons_append, csvFeed, csv_startField_char delim fs c hc.1 hc.2.1 hc.2.2]
      rw [csvFeed_bare delim f [c] fs _ (fun d hd => ⟨(hall d (by simp [hd])).1, (hall d (by simp [hd])).2.1⟩)]
      simp only [List.singleton_append, csvFeed, csv_inField_delim delim _ _ hd2]

/-- F3b: a written field at the end of the line -/
theorem csvLine_field (x : Bool × Text) (fs : List Text) :
    csvLine (excel delim) ⟨.startField, [], fs⟩ (csvWriteField delim x) = .ok ⟨.startRecord, [], fs ++ [x.2]⟩ := by
  unfold csvWriteField csvLine
  by_cases hq : (x.1 || mustQuote delim x.2) = true
  · simp only [hq, if_true, csvFeed, csv_startField_dq]
    rw [csvFeed_quoted]
    simp only [List.nil_append, csvFeed, csv_inQuoted_dq, csv_qiq_eol]
  · have hq' : (x.1 || mustQuote delim x.2) = false := by simpa using hq
    have hm : mustQuote delim x.2 = false := by
      cases hx : x.1 <;> simp_all
    have hall := not_mustQuote delim x.2 hm
    simp only [hq', Bool.false_eq_true, if_false]
    cases hf : x.2 with
    | nil => simp only [csvFeed, csv_startField_eol]
    | cons c f =>
      rw [hf] at hall
      have hc := hall c (by simp)
      simp only [csvFeed, csv_startField_char delim fs c hc.1 hc.2.1 hc.2.2]
      have := csvFeed_bare delim f [c] fs [] (fun d hd => ⟨(hall d (by simp [hd])).1, (hall d (by simp [hd])).2.1⟩)
      simp only [List.append_nil] at this
      rw [this]
      simp only [List.singleton_append, csvFeed, csv_inField_eol]

theorem csvFeed_append (d : Dialect) (r : CsvR) (a b : Text) :
    csvFeed d r (a ++ b) = match csvFeed d r a with | .error e => .error e | .ok r1 => csvFeed d r1 b := by
  induction a generalizing r with
  | nil => simp [csvFeed]
  | cons c a ih =>
    simp only [List.cons_append, csvFeed]
    cases csvChar d r (some c) with
    | error e => rfl
    | ok r1 => exact ih r1

/-- F4: a written row from START_FIELD -/
theorem csvLine_row (row : List (Bool × Text)) (fs : List Text) (hne : row ≠ [])
    (hd1 : delim ≠ DQ) (hd2 : isNl delim = false) :
    csvLine (excel delim) ⟨.startField, [], fs⟩ (csvWriteRow delim row) =
      .ok ⟨.startRecord, [], fs ++ row.map (·.2)⟩ := by
  induction row generalizing fs with
  | nil => exact absurd rfl hne
  | cons x xs ih =>
    cases xs with
    | nil => simp [csvWriteRow, csvLine_field]
    | cons y ys =>
      have := ih (fs ++ [x.2]) (by simp)
      simp only [csvWriteRow, csvLine] at this ⊢
      rw [csvFeed_field_delim delim x fs _ hd1 hd2, this]
      simp

theorem csv_startRecord_eq (d : Dialect) (a : Text) (fs : List Text) (c : Nat) (h : isNl c = false) :
    csvChar d ⟨.startRecord, a, fs⟩ (some c) = csvChar d ⟨.startField, a, fs⟩ (some c) := by
  simp [csvChar, h, csvStartField, saveField, addChar, goto]

theorem csvWriteField_head (x : Bool × Text) (h : x.2.all (fun c => !isNl c) = true) :
    ∀ c t, csvWriteField delim x = c :: t → isNl c = false := by
  intro c t he
  unfold csvWriteField at he
  split at he
  · cases he; exact isNl_DQ
  · have : c ∈ x.2 := by rw [he]; simp
    have := List.all_eq_true.mp h c this
    simpa using this

/-- the first character of a written row is not a line break, and the row is not empty -/
theorem csvWriteRow_head (row : List (Bool × Text)) (hok : csvRowOk row = true) (hd2 : isNl delim = false) :
    ∃ c t, csvWriteRow delim row = c :: t ∧ isNl c = false := by
  unfold csvRowOk at hok
  simp only [Bool.and_eq_true, decide_eq_true_eq] at hok
  obtain ⟨⟨hne, hall⟩, hlone⟩ := hok
  cases row with
  | nil => exact absurd rfl hne
  | cons x xs =>
    have hx : x.2.all (fun c => !isNl c) = true := (List.all_eq_true.mp hall) x (by simp)
    cases xs with
    | nil =>
      simp only [csvWriteRow]
      cases hw : csvWriteField delim x with
      | nil =>
        exfalso
        unfold csvWriteField at hw
        split at hw
        · cases hw
        · rename_i hq
          simp only [Bool.or_eq_true, not_or] at hq
          simp only [Bool.or_eq_true, decide_eq_true_eq] at hlone
          rcases hlone with h | h
          · exact h hw
          · exact hq.1 h
      | cons c t => exact ⟨c, t, rfl, csvWriteField_head delim x hx c t hw⟩
    | cons y ys =>
      simp only [csvWriteRow]
      cases hw : csvWriteField delim x with
      | nil => exact ⟨delim, _, by simp; rfl, hd2⟩
      | cons c t => exact ⟨c, _, by simp; rfl, csvWriteField_head delim x hx c t hw⟩

theorem csvLine_row_reset (row : List (Bool × Text)) (hok : csvRowOk row = true)
    (hd1 : delim ≠ DQ) (hd2 : isNl delim = false) :
    csvLine (excel delim) CsvR.reset (csvWriteRow delim row) = .ok ⟨.startRecord, [], row.map (·.2)⟩ := by
  obtain ⟨c, t, he, hc⟩ := csvWriteRow_head delim row hok hd2
  have hne : row ≠ [] := by
    unfold csvRowOk at hok
    simp only [Bool.and_eq_true, decide_eq_true_eq] at hok
    exact hok.1.1
  have := csvLine_row delim row [] hne hd1 hd2
  rw [he] at this ⊢
  simp only [csvLine, csvFeed, CsvR.reset, csv_startRecord_eq _ _ _ c hc] at this ⊢
  simpa using this

/-- F6 -/
theorem csvRecords_rows (rows : List (List (Bool × Text))) (hok : ∀ r ∈ rows, csvRowOk r = true)
    (hd1 : delim ≠ DQ) (hd2 : isNl delim = false) :
    csvRecords (excel delim) CsvR.reset (rows.map (csvWriteRow delim)) = .ok (rows.map (·.map (·.2))) := by
  induction rows with
  | nil => simp [csvRecords, CsvR.reset]
  | cons r rs ih =>
    simp only [List.map_cons, csvRecords, csvLine_row_reset delim r (hok r (by simp)) hd1 hd2, if_true]
    rw [ih (fun r' hr' => hok r' (by simp [hr']))]

end csv


/-! ## C.2 CsvReader, LibsvmReader, ManikReader round trips -/


theorem dropWhile_head_false {α} (p : α → Bool) (l : List α) (h : ∀ a, l.head? = some a → p a = false) :
    l.dropWhile p = l := by
  cases l with
  | nil => rfl
  | cons a l => simp [List.dropWhile, h a rfl]

theorem rstripNl_id (t : Text) (h : ∀ c, t.getLast? = some c → isNl c = false) : rstripNl t = t := by
  unfold rstripNl
  rw [dropWhile_head_false, List.reverse_reverse]
  intro a ha
  rw [List.head?_reverse] at ha
  have := h a ha
  simpa [isNl, CR, LF, Bool.or_comm] using this

theorem strip_id (t : Text) (h1 : ∀ c, t.head? = some c → isPySpace c = false)
    (h2 : ∀ c, t.getLast? = some c → isPySpace c = false) : strip t = t := by
  unfold strip
  rw [dropWhile_head_false isPySpace t h1, dropWhile_head_false, List.reverse_reverse]
  intro a ha
  rw [List.head?_reverse] at ha
  exact h2 a ha

section csv
variable (delim : Nat)

theorem csvEscape_mem (f : Text) (c : Nat) (h : c ∈ csvEscape f) : c ∈ f ∨ c = DQ := by
  induction f with
  | nil => simp [csvEscape] at h
  | cons a f ih =>
    simp only [csvEscape] at h
    split at h
    · simp only [List.mem_cons] at h
      rcases h with h | h | h
      · right; exact h
      · right; exact h
      · rcases ih h with h | h
        · left; simp [h]
        · right; exact h
    · simp only [List.mem_cons] at h
      rcases h with h | h
      · left; simp [h]
      · rcases ih h with h | h
        · left; simp [h]
        · right; exact h

theorem csvWriteField_noNl (x : Bool × Text) (h : x.2.all (fun c => !isNl c) = true) :
    ∀ c ∈ csvWriteField delim x, isNl c = false := by
  intro c hc
  have hx : ∀ c ∈ x.2, isNl c = false := fun c hc => by simpa using List.all_eq_true.mp h c hc
  unfold csvWriteField at hc
  split at hc
  · simp only [List.mem_cons, List.mem_append, List.mem_singleton, List.not_mem_nil, or_false] at hc
    rcases hc with hc | hc | hc
    · subst hc; exact isNl_DQ
    · rcases csvEscape_mem _ _ hc with h' | h'
      · exact hx c h'
      · subst h'; exact isNl_DQ
    · subst hc; exact isNl_DQ
  · exact hx c hc

theorem csvWriteRow_noNl (row : List (Bool × Text)) (h : row.all (fun x => x.2.all (fun c => !isNl c)) = true)
    (hd2 : isNl delim = false) : ∀ c ∈ csvWriteRow delim row, isNl c = false := by
  induction row with
  | nil => simp [csvWriteRow]
  | cons x xs ih =>
    have hx := List.all_eq_true.mp h x (by simp)
    have hxs : xs.all (fun x => x.2.all (fun c => !isNl c)) = true := by
      simp only [List.all_cons, Bool.and_eq_true] at h; exact h.2
    cases xs with
    | nil => simpa [csvWriteRow] using csvWriteField_noNl delim x hx
    | cons y ys =>
      intro c hc
      simp only [csvWriteRow, List.mem_append, List.mem_cons] at hc
      rcases hc with hc | hc | hc
      · exact csvWriteField_noNl delim x hx c hc
      · subst hc; exact hd2
      · exact ih hxs c hc

theorem csvRowOk_parts (row : List (Bool × Text)) (h : csvRowOk row = true) :
    row ≠ [] ∧ row.all (fun x => x.2.all (fun c => !isNl c)) = true := by
  unfold csvRowOk at h
  simp only [Bool.and_eq_true, decide_eq_true_eq] at h
  exact ⟨h.1.1, h.1.2⟩

theorem csv_lines_clean (rows : List (List (Bool × Text))) (hok : ∀ r ∈ rows, csvRowOk r = true)
    (hd2 : isNl delim = false) :
    ((rows.map (csvWriteRow delim)).map rstripNl).filter (· ≠ []) = rows.map (csvWriteRow delim) := by
  induction rows with
  | nil => rfl
  | cons r rs ih =>
    have hr := hok r (by simp)
    obtain ⟨c, t, he, _⟩ := csvWriteRow_head delim r hr hd2
    have hnn := csvWriteRow_noNl delim r (csvRowOk_parts r hr).2 hd2
    have hid : rstripNl (csvWriteRow delim r) = csvWriteRow delim r :=
      rstripNl_id _ (fun c hc => hnn c (List.mem_of_getLast? hc))
    simp only [List.map_cons, hid]
    rw [List.filter_cons_of_pos (by simp [he])]
    rw [ih (fun r' hr' => hok r' (by simp [hr']))]

/-- CsvReader (repaired) on the output of an RFC 4180 writer -/
theorem csv_roundtrip' (hasHeader : Bool) (rows : List (List (Bool × Text)))
    (hok : ∀ r ∈ rows, csvRowOk r = true) (hd1 : delim ≠ DQ) (hd2 : isNl delim = false) :
    csvReaderFix (excel delim) hasHeader (rows.map (csvWriteRow delim)) =
      match rows.map (·.map (·.2)) with
      | [] => .ok (none, [])
      | first :: rest => if hasHeader then .ok (some first, rest) else .ok (none, first :: rest) := by
  unfold csvReaderFix
  rw [csv_lines_clean delim rows hok hd2, csvRecords_rows delim rows hok hd1 hd2]
  cases rows.map (·.map (·.2)) <;> rfl

/-- CsvReader as written: additionally no written line may begin or end with white space
(`str.strip`); without any record `next` raises StopIteration -/
theorem csv_roundtrip_cur' (hasHeader : Bool) (rows : List (List (Bool × Text)))
    (hok : ∀ r ∈ rows, csvRowOk r = true) (hd1 : delim ≠ DQ) (hd2 : isNl delim = false)
    (hedge : ∀ r ∈ rows, strip (csvWriteRow delim r) = csvWriteRow delim r) :
    csvReaderCur (excel delim) hasHeader (rows.map (csvWriteRow delim)) =
      match rows.map (·.map (·.2)) with
      | [] => .error .stopIteration
      | first :: rest => if hasHeader then .ok (some first, rest) else .ok (none, first :: rest) := by
  unfold csvReaderCur
  have h1 : (rows.map (csvWriteRow delim)).map strip = rows.map (csvWriteRow delim) := by
    rw [List.map_map]
    exact List.map_congr_left (fun r hr => by simp [hedge r hr])
  have h2 : (rows.map (csvWriteRow delim)).filter (· ≠ []) = rows.map (csvWriteRow delim) := by
    rw [List.filter_eq_self]
    intro l hl
    simp only [List.mem_map] at hl
    obtain ⟨r, hr, rfl⟩ := hl
    obtain ⟨c, t, he, _⟩ := csvWriteRow_head delim r (hok r hr) hd2
    simp [he]
  rw [h1, h2, csvRecords_rows delim rows hok hd1 hd2]
  cases rows.map (·.map (·.2)) <;> rfl

end csv

/-! ### LibSVM -/

theorem splitOnGo_tok (sep : Nat) (cur tok rest : Text) (h : ∀ c ∈ tok, c ≠ sep) :
    splitOnGo sep cur (tok ++ rest) = splitOnGo sep (cur ++ tok) rest := by
  induction tok generalizing cur with
  | nil => simp
  | cons c tok ih =>
    have hc := h c (by simp)
    simp only [List.cons_append, splitOnGo, hc, if_false]
    rw [ih (cur ++ [c]) (fun d hd => h d (by simp [hd]))]
    simp

theorem splitOnGo_join (sep : Nat) (cur : Text) (x : Text) (xs : List Text)
    (h : ∀ t ∈ x :: xs, ∀ c ∈ t, c ≠ sep) :
    splitOnGo sep cur (joinWith sep (x :: xs)) = (cur ++ x) :: xs := by
  induction xs generalizing cur x with
  | nil =>
    have := splitOnGo_tok sep cur x [] (h x (by simp))
    simp only [List.append_nil] at this
    simp [joinWith, this, splitOnGo]
  | cons y ys ih =>
    simp only [joinWith]
    rw [splitOnGo_tok sep cur x _ (h x (by simp))]
    simp only [splitOnGo, if_true]
    rw [ih [] y (fun t ht => h t (by simp at ht ⊢; right; exact ht))]
    simp

theorem splitOn_join (sep : Nat) (toks : List Text) (hne : toks ≠ []) (h : ∀ t ∈ toks, ∀ c ∈ t, c ≠ sep) :
    splitOn sep (joinWith sep toks) = toks := by
  cases toks with
  | nil => exact absurd rfl hne
  | cons x xs => simpa [splitOn] using splitOnGo_join sep [] x xs h

def svmItem (kv : Text × Text) : Text := kv.1 ++ COLON :: kv.2

theorem svmWrite_eq_join (a : Text) (fs : List (Text × Text)) :
    a ++ svmWriteFeats fs = joinWith SP (a :: fs.map svmItem) := by
  induction fs generalizing a with
  | nil => simp [svmWriteFeats, joinWith]
  | cons kv fs ih =>
    obtain ⟨k, v⟩ := kv
    simp only [svmWriteFeats, List.map_cons, joinWith]
    have := ih (k ++ COLON :: v)
    simp only [svmItem] at this ⊢
    rw [← this]
    simp

theorem svmFeats_items (fs : List (Text × Text))
    (h : ∀ kv ∈ fs, (∀ c ∈ kv.1, c ≠ COLON) ∧ (∀ c ∈ kv.2, c ≠ COLON)) :
    svmFeats (fs.map svmItem) = .ok fs := by
  induction fs with
  | nil => rfl
  | cons kv fs ih =>
    obtain ⟨k, v⟩ := kv
    have hk := h (k, v) (by simp)
    have : splitOn COLON (svmItem (k, v)) = [k, v] := by
      have := splitOn_join COLON [k, v] (by simp) (by
        intro t ht c hc
        simp only [List.mem_cons, List.not_mem_nil, or_false] at ht
        rcases ht with rfl | rfl
        · exact hk.1 c hc
        · exact hk.2 c hc)
      simpa [joinWith, svmItem] using this
    simp only [List.map_cons, svmFeats, this]
    rw [ih (fun kv hkv => h kv (by simp [hkv]))]

theorem tokenOk_mem (bad : List Nat) (t : Text) (h : tokenOk bad t = true) :
    ∀ c ∈ t, isPySpace c = false ∧ c ∉ bad := by
  intro c hc
  have := List.all_eq_true.mp h c hc
  simpa using this

theorem isPySpace_SP : isPySpace SP = true := by decide
theorem isPySpace_COLON : isPySpace COLON = false := by decide
theorem isPySpace_COMMA : isPySpace COMMA = false := by decide

theorem joinWith_mem (sep : Nat) (toks : List Text) (c : Nat) (h : c ∈ joinWith sep toks) :
    c = sep ∨ ∃ t ∈ toks, c ∈ t := by
  induction toks with
  | nil => simp [joinWith] at h
  | cons x xs ih =>
    cases xs with
    | nil => right; exact ⟨x, by simp, by simpa [joinWith] using h⟩
    | cons y ys =>
      simp only [joinWith, List.mem_append, List.mem_cons] at h
      rcases h with h | h | h
      · right; exact ⟨x, by simp, h⟩
      · left; exact h
      · rcases ih h with h' | ⟨t, ht, hc⟩
        · left; exact h'
        · right; exact ⟨t, by simp at ht ⊢; right; exact ht, hc⟩

/-- the last character of a written line is not white space -/
theorem svm_last (a : Text) (fs : List (Text × Text))
    (ha : ∀ c, a.getLast? = some c → isPySpace c = false)
    (h : ∀ kv ∈ fs, ∀ c ∈ kv.2, isPySpace c = false) :
    ∀ c, (a ++ svmWriteFeats fs).getLast? = some c → isPySpace c = false := by
  induction fs generalizing a with
  | nil => simpa [svmWriteFeats] using ha
  | cons kv fs ih =>
    obtain ⟨k, v⟩ := kv
    have e : a ++ svmWriteFeats ((k, v) :: fs) = (a ++ SP :: (k ++ COLON :: v)) ++ svmWriteFeats fs := by
      simp [svmWriteFeats]
    rw [e]
    apply ih
    · intro c hc
      have e2 : a ++ SP :: (k ++ COLON :: v) = (a ++ SP :: k) ++ (COLON :: v) := by simp
      rw [e2, List.getLast?_append] at hc
      cases v with
      | nil =>
        simp at hc; subst hc; exact isPySpace_COLON
      | cons d v' =>
        have hv : ((COLON :: d :: v').getLast?) = (d :: v').getLast? := List.getLast?_cons_cons
        rw [hv] at hc
        cases hl : (d :: v').getLast? with
        | none => simp at hl
        | some z =>
          rw [hl] at hc
          simp at hc
          subst hc
          exact h (k, d :: v') (by simp) z (List.mem_of_getLast? hl)
    · intro kv hkv; exact h kv (by simp [hkv])

theorem svmLine_write (r : SvmRow) (hok : svmRowOk r = true) : svmLine (svmWriteRow r) = .ok (some r) := by
  unfold svmRowOk at hok
  simp only [Bool.and_eq_true, decide_eq_true_eq] at hok
  obtain ⟨⟨⟨hl1, hl2⟩, hlab⟩, hfe⟩ := hok
  have hlabc : ∀ t ∈ r.labels, ∀ c ∈ t, isPySpace c = false ∧ c ≠ COMMA ∧ c ≠ COLON := by
    intro t ht c hc
    have := tokenOk_mem _ t (List.all_eq_true.mp hlab t ht) c hc
    simp only [List.mem_cons, List.not_mem_nil, or_false, not_or] at this
    exact ⟨this.1, this.2.1, this.2.2⟩
  have hfec : ∀ kv ∈ r.feats, (∀ c ∈ kv.1, isPySpace c = false ∧ c ≠ COLON) ∧ (∀ c ∈ kv.2, isPySpace c = false ∧ c ≠ COLON) := by
    intro kv hkv
    have := List.all_eq_true.mp hfe kv hkv
    simp only [Bool.and_eq_true] at this
    constructor
    · intro c hc
      have := tokenOk_mem _ _ this.1 c hc
      simpa using this
    · intro c hc
      have := tokenOk_mem _ _ this.2 c hc
      simpa using this
  -- the label group
  have hlabmem : ∀ c ∈ joinWith COMMA r.labels, isPySpace c = false ∧ c ≠ COLON := by
    intro c hc
    rcases joinWith_mem _ _ _ hc with h | ⟨t, ht, hc'⟩
    · subst h; exact ⟨isPySpace_COMMA, by decide⟩
    · exact ⟨(hlabc t ht c hc').1, (hlabc t ht c hc').2.2⟩
  have hsp : ∀ c, isPySpace c = false → c ≠ SP := by
    intro c hc heq; subst heq; simp [isPySpace_SP] at hc
  -- strip is the identity
  have hstrip : strip (svmWriteRow r) = svmWriteRow r := by
    apply strip_id
    · intro c hc
      unfold svmWriteRow at hc
      cases hj : joinWith COMMA r.labels with
      | nil => exact absurd hj hl2
      | cons a t =>
        rw [hj] at hc
        simp at hc; subst hc
        exact (hlabmem a (by rw [hj]; simp)).1
    · unfold svmWriteRow
      apply svm_last
      · intro c hc; exact (hlabmem c (List.mem_of_getLast? hc)).1
      · intro kv hkv c hc; exact ((hfec kv hkv).2 c hc).1
  unfold svmLine
  rw [hstrip]
  unfold svmWriteRow
  rw [svmWrite_eq_join, splitOn_join SP _ (by simp) (by
    intro t ht c hc
    simp only [List.mem_cons, List.mem_map] at ht
    rcases ht with rfl | ⟨kv, hkv, rfl⟩
    · exact hsp c (hlabmem c hc).1
    · simp only [svmItem, List.mem_append, List.mem_cons] at hc
      rcases hc with hc | hc | hc
      · exact hsp c ((hfec kv hkv).1 c hc).1
      · subst hc; decide
      · exact hsp c ((hfec kv hkv).2 c hc).1)]
  have hcol : ¬ (joinWith COMMA r.labels = [] ∨ COLON ∈ joinWith COMMA r.labels) := by
    intro h
    rcases h with h | h
    · exact hl2 h
    · exact (hlabmem COLON h).2 rfl
  simp only [hcol, if_false]
  rw [svmFeats_items r.feats (fun kv hkv => ⟨fun c hc => ((hfec kv hkv).1 c hc).2, fun c hc => ((hfec kv hkv).2 c hc).2⟩)]
  simp only
  rw [splitOn_join COMMA r.labels hl1 (fun t ht c hc => (hlabc t ht c hc).2.1)]

theorem svmWriteRow_ne (r : SvmRow) (hok : svmRowOk r = true) : svmWriteRow r ≠ [] := by
  unfold svmRowOk at hok
  simp only [Bool.and_eq_true, decide_eq_true_eq] at hok
  intro h
  unfold svmWriteRow at h
  simp at h
  exact hok.1.1.2 h.1

theorem libsvm_roundtrip' (rows : List SvmRow) (hok : ∀ r ∈ rows, svmRowOk r = true) :
    libsvmRead (rows.map svmWriteRow) = .ok rows := by
  induction rows with
  | nil => rfl
  | cons r rs ih =>
    simp only [List.map_cons, libsvmRead, svmWriteRow_ne r (hok r (by simp)), if_false,
      svmLine_write r (hok r (by simp)), ih (fun r' hr' => hok r' (by simp [hr']))]

theorem manik_roundtrip' (first : Text) (rows : List SvmRow) (hok : ∀ r ∈ rows, svmRowOk r = true) :
    manikRead (first :: rows.map svmWriteRow) = .ok rows := by
  simp [manikRead, libsvm_roundtrip' rows hok]



/-! ## C.3 ARFF dense data lines -/


section arff
variable (qc : Option Nat)

/-- the effective quote character is one of the two quote characters -/
def QeOk (qc : Option Nat) : Prop := qc.getD DQ = SQ ∨ qc.getD DQ = DQ

theorem arff_sf_space (fs : List Text) (h : QeOk qc) :
    csvChar (arffDialect COMMA qc) ⟨.startField, [], fs⟩ (some 32) = .ok ⟨.startField, [], fs⟩ := by
  have h1 : ¬ (qc.getD DQ = 32) := by rcases h with h | h <;> rw [h] <;> decide
  have h2 : isNl 32 = false := by decide
  simp [csvChar, csvStartField, arffDialect, h1, h2, goto, BS]

theorem arff_sf_quote (fs : List Text) (h : QeOk qc) :
    csvChar (arffDialect COMMA qc) ⟨.startField, [], fs⟩ (some (qc.getD DQ)) = .ok ⟨.inQuoted, [], fs⟩ := by
  have h2 : isNl (qc.getD DQ) = false := by rcases h with h | h <;> rw [h] <;> decide
  simp [csvChar, csvStartField, arffDialect, h2, goto]

theorem arff_sf_bare (fs : List Text) (c : Nat) (h : QeOk qc) (h1 : isNl c = false) (h2 : c ≠ COMMA) (h3 : c ≠ SQ)
    (h4 : c ≠ DQ) (h5 : c ≠ BS) (h6 : c ≠ 32) :
    csvChar (arffDialect COMMA qc) ⟨.startField, [], fs⟩ (some c) = .ok ⟨.inField, [c], fs⟩ := by
  have hq : ¬ (qc.getD DQ = c) := by rcases h with h | h <;> rw [h] <;> intro e <;> simp_all
  have hb : ¬ (BS = c) := fun e => h5 e.symm
  simp [csvChar, csvStartField, arffDialect, h1, hq, hb, h6, h2, addChar]

theorem arff_sf_delim (fs : List Text) (h : QeOk qc) :
    csvChar (arffDialect COMMA qc) ⟨.startField, [], fs⟩ (some COMMA) = .ok ⟨.startField, [], fs ++ [[]]⟩ := by
  have hq : ¬ (qc.getD DQ = COMMA) := by rcases h with h | h <;> rw [h] <;> decide
  have h2 : isNl COMMA = false := by decide
  have h3 : ¬ (BS = COMMA) := by decide
  have h4 : ¬ (COMMA = 32) := by decide
  simp [csvChar, csvStartField, arffDialect, h2, hq, h3, h4, saveField]

theorem arff_sf_eol (fs : List Text) :
    csvChar (arffDialect COMMA qc) ⟨.startField, [], fs⟩ none = .ok ⟨.startRecord, [], fs ++ [[]]⟩ := by
  simp [csvChar, csvStartField, saveField]

theorem arff_if_char (acc : Text) (fs : List Text) (c : Nat) (h1 : isNl c = false) (h2 : c ≠ COMMA) (h5 : c ≠ BS) :
    csvChar (arffDialect COMMA qc) ⟨.inField, acc, fs⟩ (some c) = .ok ⟨.inField, acc ++ [c], fs⟩ := by
  have hb : ¬ (BS = c) := fun e => h5 e.symm
  simp [csvChar, csvInField, arffDialect, h1, hb, h2, addChar]

theorem arff_if_delim (acc : Text) (fs : List Text) :
    csvChar (arffDialect COMMA qc) ⟨.inField, acc, fs⟩ (some COMMA) = .ok ⟨.startField, [], fs ++ [acc]⟩ := by
  have h2 : isNl COMMA = false := by decide
  have h3 : ¬ (BS = COMMA) := by decide
  simp [csvChar, csvInField, arffDialect, h2, h3, saveField]

theorem arff_if_eol (acc : Text) (fs : List Text) :
    csvChar (arffDialect COMMA qc) ⟨.inField, acc, fs⟩ none = .ok ⟨.startRecord, [], fs ++ [acc]⟩ := by
  simp [csvChar, csvInField, saveField]

theorem arff_iq_esc (acc : Text) (fs : List Text) :
    csvChar (arffDialect COMMA qc) ⟨.inQuoted, acc, fs⟩ (some BS) = .ok ⟨.escInQuoted, acc, fs⟩ := by
  simp [csvChar, arffDialect, goto]

theorem arff_eq_any (acc : Text) (fs : List Text) (c : Nat) :
    csvChar (arffDialect COMMA qc) ⟨.escInQuoted, acc, fs⟩ (some c) = .ok ⟨.inQuoted, acc ++ [c], fs⟩ := by
  simp [csvChar, addChar]

theorem arff_iq_quote (acc : Text) (fs : List Text) (h : QeOk qc) :
    csvChar (arffDialect COMMA qc) ⟨.inQuoted, acc, fs⟩ (some (qc.getD DQ)) = .ok ⟨.inField, acc, fs⟩ := by
  have hb : ¬ (BS = qc.getD DQ) := by rcases h with h | h <;> rw [h] <;> decide
  simp [csvChar, arffDialect, hb, goto]

theorem arff_iq_char (acc : Text) (fs : List Text) (c : Nat) (h1 : c ≠ qc.getD DQ) (h2 : c ≠ BS) :
    csvChar (arffDialect COMMA qc) ⟨.inQuoted, acc, fs⟩ (some c) = .ok ⟨.inQuoted, acc ++ [c], fs⟩ := by
  have hb : ¬ (BS = c) := fun e => h2 e.symm
  have hq : ¬ (qc.getD DQ = c) := fun e => h1 e.symm
  simp [csvChar, arffDialect, hb, hq, addChar]

theorem arffFeed_spaces (fs : List Text) (k : Nat) (rest : Text) (h : QeOk qc) :
    csvFeed (arffDialect COMMA qc) ⟨.startField, [], fs⟩ (List.replicate k 32 ++ rest) =
      csvFeed (arffDialect COMMA qc) ⟨.startField, [], fs⟩ rest := by
  induction k with
  | zero => simp
  | succ k ih => simp only [List.replicate_succ, List.cons_append, csvFeed, arff_sf_space qc fs h]; exact ih

theorem arffFeed_quoted (also : Nat → Bool) (v acc : Text) (fs : List Text) (rest : Text) :
    csvFeed (arffDialect COMMA qc) ⟨.inQuoted, acc, fs⟩ (arffEscape (qc.getD DQ) also v ++ rest) =
      csvFeed (arffDialect COMMA qc) ⟨.inQuoted, acc ++ v, fs⟩ rest := by
  induction v generalizing acc with
  | nil => simp [arffEscape]
  | cons c v ih =>
    by_cases hc : c = qc.getD DQ ∨ c = BS ∨ also c = true
    · simp only [arffEscape, hc, if_true, List.cons_append, csvFeed, arff_iq_esc, arff_eq_any]
      rw [ih]; simp
    · have hc' := hc
      simp only [not_or] at hc'
      simp only [arffEscape, hc, if_false, List.cons_append, csvFeed, arff_iq_char qc acc fs c hc'.1 hc'.2.1]
      rw [ih]; simp

theorem arffFeed_bare (f acc : Text) (fs : List Text) (rest : Text)
    (h : ∀ c ∈ f, isNl c = false ∧ c ≠ COMMA ∧ c ≠ BS) :
    csvFeed (arffDialect COMMA qc) ⟨.inField, acc, fs⟩ (f ++ rest) = csvFeed (arffDialect COMMA qc) ⟨.inField, acc ++ f, fs⟩ rest := by
  induction f generalizing acc with
  | nil => simp
  | cons c f ih =>
    have hc := h c (by simp)
    simp only [List.cons_append, csvFeed, arff_if_char qc acc fs c hc.1 hc.2.1 hc.2.2]
    rw [ih (acc ++ [c]) (fun d hd => h d (by simp [hd]))]
    simp

theorem bareOk_mem (v : Text) (h : bareOk v = true) :
    (∀ c ∈ v, isNl c = false ∧ c ≠ COMMA ∧ c ≠ SQ ∧ c ≠ DQ ∧ c ≠ BS) ∧ (∀ c t, v = c :: t → c ≠ 32) := by
  unfold bareOk at h
  simp only [Bool.and_eq_true] at h
  constructor
  · intro c hc
    have := List.all_eq_true.mp h.1 c hc
    simp only [Bool.not_eq_true', Bool.or_eq_false_iff, beq_eq_false_iff_ne] at this
    exact ⟨this.2, this.1.1.1.1, this.1.1.1.2, this.1.1.2, this.1.2⟩
  · intro c t hv
    subst hv
    simpa using h.2

/-- a token is written quoted -/
def tokQuoted (x : Bool × Text) : Bool := x.1 || !bareOk x.2

/-- a written token followed by `,` and blanks -/
theorem arffFeed_tok_delim (also : Nat → Bool) (x : Bool × Text) (fs : List Text) (pad : Nat) (rest : Text)
    (h : QeOk qc) :
    csvFeed (arffDialect COMMA qc) ⟨.startField, [], fs⟩
        (arffWriteTok (qc.getD DQ) also x ++ COMMA :: (List.replicate pad 32 ++ rest)) =
      csvFeed (arffDialect COMMA qc) ⟨.startField, [], fs ++ [x.2]⟩ rest := by
  unfold arffWriteTok
  by_cases hq : (x.1 || !bareOk x.2) = true
  · simp only [hq, if_true, List.cons_append, List.append_assoc, csvFeed, arff_sf_quote qc fs h]
    rw [arffFeed_quoted]
    simp only [List.nil_append, List.cons_append, csvFeed, arff_iq_quote qc _ _ h, arff_if_delim]
    exact arffFeed_spaces qc _ pad rest h
  · have hq' : (x.1 || !bareOk x.2) = false := by simpa using hq
    have hb : bareOk x.2 = true := by
      cases hx : x.1 <;> simp_all
    obtain ⟨hall, hfirst⟩ := bareOk_mem x.2 hb
    simp only [hq', Bool.false_eq_true, if_false]
    cases hf : x.2 with
    | nil =>
      simp only [List.nil_append, csvFeed, arff_sf_delim qc fs h]
      exact arffFeed_spaces qc _ pad rest h
    | cons c f =>
      rw [hf] at hall
      have hc := hall c (by simp)
      simp only [List.cons_append, csvFeed,
        arff_sf_bare qc fs c h hc.1 hc.2.1 hc.2.2.1 hc.2.2.2.1 hc.2.2.2.2 (hfirst c f hf)]
      rw [arffFeed_bare qc f [c] fs _ (fun d hd => ⟨(hall d (by simp [hd])).1, (hall d (by simp [hd])).2.1, (hall d (by simp [hd])).2.2.2.2⟩)]
      simp only [List.singleton_append, csvFeed, arff_if_delim]
      exact arffFeed_spaces qc _ pad rest h

/-- a written token at the end of the line -/
theorem arffLine_tok (also : Nat → Bool) (x : Bool × Text) (fs : List Text) (h : QeOk qc) :
    csvLine (arffDialect COMMA qc) ⟨.startField, [], fs⟩ (arffWriteTok (qc.getD DQ) also x) =
      .ok ⟨.startRecord, [], fs ++ [x.2]⟩ := by
  unfold arffWriteTok csvLine
  by_cases hq : (x.1 || !bareOk x.2) = true
  · simp only [hq, if_true, csvFeed, arff_sf_quote qc fs h]
    rw [arffFeed_quoted]
    simp only [List.nil_append, csvFeed, arff_iq_quote qc _ _ h, arff_if_eol]
  · have hq' : (x.1 || !bareOk x.2) = false := by simpa using hq
    have hb : bareOk x.2 = true := by
      cases hx : x.1 <;> simp_all
    obtain ⟨hall, hfirst⟩ := bareOk_mem x.2 hb
    simp only [hq', Bool.false_eq_true, if_false]
    cases hf : x.2 with
    | nil => simp only [csvFeed, arff_sf_eol]
    | cons c f =>
      rw [hf] at hall
      have hc := hall c (by simp)
      simp only [csvFeed, arff_sf_bare qc fs c h hc.1 hc.2.1 hc.2.2.1 hc.2.2.2.1 hc.2.2.2.2 (hfirst c f hf)]
      have := arffFeed_bare qc f [c] fs [] (fun d hd => ⟨(hall d (by simp [hd])).1, (hall d (by simp [hd])).2.1, (hall d (by simp [hd])).2.2.2.2⟩)
      simp only [List.append_nil] at this
      rw [this]
      simp only [List.singleton_append, csvFeed, arff_if_eol]

/-- a written row from START_FIELD, when its quoted tokens use the reader's effective quote character -/
theorem arffLine_row (also : Nat → Bool) (pad : Nat) (row : List (Bool × Text)) (fs : List Text) (hne : row ≠ [])
    (h : QeOk qc) :
    csvLine (arffDialect COMMA qc) ⟨.startField, [], fs⟩ (arffWriteRow (qc.getD DQ) also pad row) =
      .ok ⟨.startRecord, [], fs ++ row.map (·.2)⟩ := by
  induction row generalizing fs with
  | nil => exact absurd rfl hne
  | cons x xs ih =>
    cases xs with
    | nil => simp [arffWriteRow, arffLine_tok qc also x fs h]
    | cons y ys =>
      have := ih (fs ++ [x.2]) (by simp)
      simp only [arffWriteRow, csvLine] at this ⊢
      rw [arffFeed_tok_delim qc also x fs pad _ h, this]
      simp

end arff




def otherQ (q : Nat) : Nat := if q = SQ then DQ else SQ

theorem arffEscape_mem (q : Nat) (also : Nat → Bool) (v : Text) (c : Nat) (h : c ∈ arffEscape q also v) : c = BS ∨ c ∈ v := by
  induction v with
  | nil => simp [arffEscape] at h
  | cons a v ih =>
    simp only [arffEscape] at h
    split at h
    · simp only [List.mem_cons] at h
      rcases h with h | h | h
      · left; exact h
      · right; simp [h]
      · rcases ih h with h | h
        · left; exact h
        · right; simp [h]
    · simp only [List.mem_cons] at h
      rcases h with h | h
      · right; simp [h]
      · rcases ih h with h | h
        · left; exact h
        · right; simp [h]

theorem arffWriteTok_mem (q : Nat) (also : Nat → Bool) (x : Bool × Text) (c : Nat) (h : c ∈ arffWriteTok q also x) :
    (c = q ∧ tokQuoted x = true) ∨ c = BS ∨ c ∈ x.2 := by
  unfold arffWriteTok at h
  split at h
  · rename_i hq
    simp only [List.mem_cons, List.mem_append, List.not_mem_nil, or_false] at h
    rcases h with h | h | h
    · left; exact ⟨h, hq⟩
    · rcases arffEscape_mem _ _ _ _ h with h | h
      · right; left; exact h
      · right; right; exact h
    · left; exact ⟨h, hq⟩
  · right; right; exact h

theorem arffWriteRow_mem (q : Nat) (also : Nat → Bool) (pad : Nat) (row : List (Bool × Text)) (c : Nat)
    (h : c ∈ arffWriteRow q also pad row) :
    c = COMMA ∨ c = 32 ∨ c = BS ∨ (c = q ∧ ∃ x ∈ row, tokQuoted x = true) ∨ ∃ x ∈ row, c ∈ x.2 := by
  induction row with
  | nil => simp [arffWriteRow] at h
  | cons x xs ih =>
    have tok : c ∈ arffWriteTok q also x → c = COMMA ∨ c = 32 ∨ c = BS ∨ (c = q ∧ ∃ y ∈ x :: xs, tokQuoted y = true) ∨ ∃ y ∈ x :: xs, c ∈ y.2 := by
      intro h
      rcases arffWriteTok_mem q also x c h with h | h | h
      · right; right; right; left; exact ⟨h.1, x, by simp, h.2⟩
      · right; right; left; exact h
      · right; right; right; right; exact ⟨x, by simp, h⟩
    cases xs with
    | nil => exact tok (by simpa [arffWriteRow] using h)
    | cons y ys =>
      simp only [arffWriteRow, List.mem_append, List.mem_cons, List.mem_replicate] at h
      rcases h with h | h | h | h
      · exact tok h
      · left; exact h
      · right; left; exact h.2
      · rcases ih h with h | h | h | h | h
        · left; exact h
        · right; left; exact h
        · right; right; left; exact h
        · right; right; right; left
          obtain ⟨hq, z, hz, hz2⟩ := h
          exact ⟨hq, z, by simp at hz ⊢; right; exact hz, hz2⟩
        · right; right; right; right
          obtain ⟨z, hz, hz2⟩ := h
          exact ⟨z, by simp at hz ⊢; right; exact hz, hz2⟩

theorem arffWriteTok_sub (q : Nat) (also : Nat → Bool) (pad : Nat) (row : List (Bool × Text)) (x : Bool × Text)
    (hx : x ∈ row) : ∀ c ∈ arffWriteTok q also x, c ∈ arffWriteRow q also pad row := by
  induction row with
  | nil => simp at hx
  | cons y ys ih =>
    intro c hc
    cases ys with
    | nil =>
      simp only [List.mem_singleton] at hx
      subst hx; simpa [arffWriteRow] using hc
    | cons z zs =>
      simp only [List.mem_cons] at hx
      simp only [arffWriteRow, List.mem_append, List.mem_cons]
      rcases hx with hx | hx
      · subst hx; left; exact hc
      · right; right; right
        exact ih (by simpa using hx) c hc

section
variable (q : Nat) (hq : q = SQ ∨ q = DQ)

theorem rowOk_parts (row : List (Bool × Text)) (h : arffRowOk q row = true) :
    row ≠ [] ∧ (∀ x ∈ row, ∀ c ∈ x.2, isNl c = false ∧ ((c = SQ ∨ c = DQ) → c = q)) ∧
    (∀ x, row = [x] → x.2 ≠ [] ∨ x.1 = true) := by
  unfold arffRowOk at h
  simp only [Bool.and_eq_true, decide_eq_true_eq] at h
  refine ⟨h.1.1, ?_, ?_⟩
  · intro x hx c hc
    have := List.all_eq_true.mp (List.all_eq_true.mp h.1.2 x hx) c hc
    simp only [Bool.and_eq_true, ne_eq, Bool.and_eq_false_iff,
      Bool.or_eq_false_iff, beq_eq_false_iff_ne, Bool.not_eq_eq_eq_not, Bool.not_true, bne_eq_false_iff_eq] at this
    refine ⟨this.1, ?_⟩
    intro hc2
    rcases this.2 with h' | h'
    · rcases hc2 with h2 | h2
      · exact absurd h2 h'.1
      · exact absurd h2 h'.2
    · exact h'
  · intro x hr
    subst hr
    simpa using h.2

/-- the file's quote character is in a written line exactly when some value was written quoted;
the other quote character never is -/
theorem line_quotes (also : Nat → Bool) (pad : Nat) (row : List (Bool × Text)) (hq : q = SQ ∨ q = DQ)
    (h : arffRowOk q row = true) :
    ((arffWriteRow q also pad row).contains q = row.any tokQuoted) ∧
    (arffWriteRow q also pad row).contains (otherQ q) = false := by
  obtain ⟨_, hvals, _⟩ := rowOk_parts q row h
  have hqne : q ≠ COMMA ∧ q ≠ 32 ∧ q ≠ BS := by rcases hq with h | h <;> subst h <;> decide
  have hone : otherQ q ≠ COMMA ∧ otherQ q ≠ 32 ∧ otherQ q ≠ BS ∧ otherQ q ≠ q ∧ (otherQ q = SQ ∨ otherQ q = DQ) := by
    rcases hq with h | h <;> subst h <;> decide
  constructor
  · apply Bool.eq_iff_iff.mpr
    simp only [List.contains_iff_mem, List.any_eq_true]
    constructor
    · intro hm
      rcases arffWriteRow_mem q also pad row q hm with h | h | h | h | h
      · exact absurd h hqne.1
      · exact absurd h hqne.2.1
      · exact absurd h hqne.2.2
      · exact h.2
      · obtain ⟨x, hx, hc⟩ := h
        refine ⟨x, hx, ?_⟩
        unfold tokQuoted
        have hb : bareOk x.2 = false := by
          cases hbb : bareOk x.2 with
          | false => rfl
          | true =>
            have := (bareOk_mem x.2 hbb).1 q hc
            rcases hq with h | h
            · exact absurd h this.2.2.1
            · exact absurd h this.2.2.2.1
        simp [hb]
    · intro ⟨x, hx, hxq⟩
      apply arffWriteTok_sub q also pad row x hx
      unfold arffWriteTok
      unfold tokQuoted at hxq
      simp [hxq]
  · cases hcont : (arffWriteRow q also pad row).contains (otherQ q) with
    | false => rfl
    | true =>
      exfalso
      simp only [List.contains_iff_mem] at hcont
      rcases arffWriteRow_mem q also pad row _ hcont with h | h | h | h | h
      · exact hone.1 h
      · exact hone.2.1 h
      · exact hone.2.2.1 h
      · exact hone.2.2.2.1 h.1
      · obtain ⟨x, hx, hc⟩ := h
        exact hone.2.2.2.1 ((hvals x hx _ hc).2 hone.2.2.2.2)
end

theorem arffWriteRow_unquoted (q q' : Nat) (also : Nat → Bool) (pad : Nat) (row : List (Bool × Text))
    (h : row.any tokQuoted = false) : arffWriteRow q also pad row = arffWriteRow q' also pad row := by
  induction row with
  | nil => rfl
  | cons x xs ih =>
    simp only [List.any_cons, Bool.or_eq_false_iff] at h
    have hx : arffWriteTok q also x = arffWriteTok q' also x := by
      unfold arffWriteTok
      have := h.1
      unfold tokQuoted at this
      simp [this]
    cases xs with
    | nil => simp [arffWriteRow, hx]
    | cons y ys =>
      simp only [arffWriteRow, hx]
      rw [ih (by simpa using h.2)]

/-- the bookkeeping of `_dense_simple` on a written line: the quote character becomes the file's
one as soon as a quoted value is seen -/
theorem simpleQuote_written (q : Nat) (hq : q = SQ ∨ q = DQ) (qc : Option Nat) (hqc : qc = none ∨ qc = some q)
    (line : Text) (hasQ : Bool) (h1 : line.contains q = hasQ) (h2 : line.contains (otherQ q) = false) :
    simpleQuote qc line = some (if hasQ then some q else qc) := by
  unfold simpleQuote
  rcases hq with h | h <;> subst h
  · have e : otherQ SQ = DQ := by decide
    rw [e] at h2
    simp only [h1, h2]
    rcases hqc with h | h <;> subst h <;> cases hasQ <;> decide
  · have e : otherQ DQ = SQ := by decide
    rw [e] at h2
    simp only [h1, h2]
    rcases hqc with h | h <;> subst h <;> cases hasQ <;> decide





theorem arffWriteRow_head (q : Nat) (hq : q = SQ ∨ q = DQ) (also : Nat → Bool) (pad : Nat) (row : List (Bool × Text))
    (h : arffRowOk q row = true) : ∃ c t, arffWriteRow q also pad row = c :: t ∧ isNl c = false := by
  obtain ⟨hne, hvals, hlone⟩ := rowOk_parts q row h
  have hnl : ∀ c ∈ arffWriteRow q also pad row, isNl c = false := by
    intro c hc
    rcases arffWriteRow_mem q also pad row c hc with h | h | h | h | h
    · subst h; decide
    · subst h; decide
    · subst h; decide
    · rw [h.1]; rcases hq with h' | h' <;> subst h' <;> decide
    · obtain ⟨x, hx, hcx⟩ := h
      exact (hvals x hx c hcx).1
  have hnonempty : arffWriteRow q also pad row ≠ [] := by
    cases row with
    | nil => exact absurd rfl hne
    | cons x xs =>
      cases xs with
      | nil =>
        simp only [arffWriteRow]
        unfold arffWriteTok
        split
        · simp
        · rename_i hnq
          rcases hlone x rfl with h' | h'
          · exact h'
          · simp [h'] at hnq
      | cons y ys => simp [arffWriteRow]
  cases hl : arffWriteRow q also pad row with
  | nil => exact absurd hl hnonempty
  | cons c t => exact ⟨c, t, rfl, hnl c (by rw [hl]; simp)⟩

/-- `csv.reader([line], **dialect)` on a written line, for every reader state the file can produce -/
theorem csvFirst_written (q : Nat) (hq : q = SQ ∨ q = DQ) (also : Nat → Bool) (pad : Nat) (row : List (Bool × Text))
    (h : arffRowOk q row = true) (qc : Option Nat) (hqc : qc = none ∨ qc = some q)
    (hquoted : row.any tokQuoted = true → qc = some q) :
    csvFirst (arffDialect COMMA qc) (arffWriteRow q also pad row) = .ok (row.map (·.2)) := by
  have hqe : QeOk qc := by
    unfold QeOk
    rcases hqc with h' | h' <;> subst h'
    · right; rfl
    · simpa using hq
  have hline : arffWriteRow q also pad row = arffWriteRow (qc.getD DQ) also pad row := by
    cases hany : row.any tokQuoted with
    | true => rw [hquoted hany]; rfl
    | false => exact arffWriteRow_unquoted q _ also pad row hany
  obtain ⟨c, t, he, hc⟩ := arffWriteRow_head q hq also pad row h
  have hne : row ≠ [] := (rowOk_parts q row h).1
  have hrow := arffLine_row qc also pad row [] hne hqe
  rw [← hline, he] at hrow
  unfold csvFirst
  simp only [csvRecords, he]
  have : csvLine (arffDialect COMMA qc) CsvR.reset (c :: t) = .ok ⟨.startRecord, [], row.map (·.2)⟩ := by
    simp only [csvLine, csvFeed, CsvR.reset, csv_startRecord_eq _ _ _ c hc] at hrow ⊢
    simpa using hrow
  rw [this]
  simp [CsvR.reset]

def ALR.Inv (q : Nat) (s : ALR) : Prop :=
  s = ALR.init ∨ (s.started = true ∧ s.delim = COMMA ∧ (s.qc = none ∨ s.qc = some q))

theorem arffSimple_written (q : Nat) (hq : q = SQ ∨ q = DQ) (also : Nat → Bool) (pad : Nat) (row : List (Bool × Text))
    (h : arffRowOk q row = true) (s : ALR) (hd : s.delim = COMMA) (hqc : s.qc = none ∨ s.qc = some q) :
    arffSimple row.length s (arffWriteRow q also pad row) =
      .ok ({ s with qc := if row.any tokQuoted then some q else s.qc }, row.map (·.2)) := by
  obtain ⟨hc1, hc2⟩ := line_quotes q also pad row hq h
  unfold arffSimple
  rw [simpleQuote_written q hq s.qc hqc _ _ hc1 hc2, hd]
  simp only
  rw [csvFirst_written q hq also pad row h _ (by
        cases row.any tokQuoted <;> simp [hqc]) (by
        intro ha; simp [ha])]
  simp

theorem arffFirst_written (q : Nat) (hq : q = SQ ∨ q = DQ) (also : Nat → Bool) (pad : Nat) (row : List (Bool × Text))
    (h : arffRowOk q row = true) :
    arffFirst row.length (arffWriteRow q also pad row) =
      .ok (⟨true, false, if row.any tokQuoted then some q else none, COMMA⟩, row.map (·.2)) := by
  obtain ⟨hc1, hc2⟩ := line_quotes q also pad row hq h
  have hqc0 : (if (arffWriteRow q also pad row).contains DQ then some DQ else if (arffWriteRow q also pad row).contains SQ then some SQ else none)
      = (if row.any tokQuoted then some q else none) := by
    rcases hq with h' | h' <;> subst h'
    · have e : otherQ SQ = DQ := by decide
      rw [e] at hc2
      rw [hc1, hc2]; simp
    · have e : otherQ DQ = SQ := by decide
      rw [e] at hc2
      rw [hc1, hc2]; cases row.any tokQuoted <;> simp
  have hboth : ((arffWriteRow q also pad row).contains DQ && (arffWriteRow q also pad row).contains SQ) = false := by
    rcases hq with h' | h' <;> subst h'
    · have e : otherQ SQ = DQ := by decide
      rw [e] at hc2; rw [hc2]; rfl
    · have e : otherQ DQ = SQ := by decide
      rw [e] at hc2; rw [hc2]; exact Bool.and_false _
  unfold arffFirst
  simp only [hboth, Bool.false_eq_true, if_false, hqc0]
  have hq2 : (if row.any tokQuoted then some q else (none : Option Nat)) = none ∨ (if row.any tokQuoted then some q else (none : Option Nat)) = some q := by
    cases row.any tokQuoted <;> simp
  rw [csvFirst_written q hq also pad row h _ hq2 (by intro ha; simp [ha])]
  simp only [List.length_map, if_true]
  have := arffSimple_written q hq also pad row h ⟨true, false, if row.any tokQuoted then some q else none, COMMA⟩ rfl hq2
  rw [this]
  cases row.any tokQuoted <;> simp

theorem arffLines_written (q : Nat) (hq : q = SQ ∨ q = DQ) (also : Nat → Bool) (n : Nat)
    (rows : List (Nat × List (Bool × Text))) (hok : ∀ r ∈ rows, arffRowOk q r.2 = true ∧ r.2.length = n)
    (s : ALR) (hs : ALR.Inv q s) :
    arffLines n s (rows.map (fun r => arffWriteRow q also r.1 r.2)) = .ok (rows.map (·.2.map (·.2))) := by
  induction rows generalizing s with
  | nil => rfl
  | cons r rs ih =>
    obtain ⟨hr, hlen⟩ := hok r (by simp)
    simp only [List.map_cons, arffLines, arffLineStep]
    rcases hs with hs | ⟨hst, hd, hqc⟩
    · subst hs
      simp only [ALR.init, Bool.false_eq_true, if_false]
      rw [← hlen, arffFirst_written q hq also r.1 r.2 hr]
      simp only
      rw [hlen, ih (fun r' hr' => hok r' (by simp [hr'])) _ (Or.inr ⟨rfl, rfl, by cases r.2.any tokQuoted <;> simp⟩)]
    · simp only [hst, if_true]
      rw [← hlen, arffSimple_written q hq also r.1 r.2 hr s hd hqc]
      simp only
      rw [hlen, ih (fun r' hr' => hok r' (by simp [hr'])) { s with qc := if r.2.any tokQuoted then some q else s.qc }
        (Or.inr ⟨hst, hd, by cases r.2.any tokQuoted <;> simp [hqc]⟩)]



/-- the reader only sees the delivered lines through "strip the terminators, drop the empty ones" -/
theorem csv_roundtrip_framing' (delim : Nat) (hasHeader : Bool) (rows : List (List (Bool × Text)))
    (hok : ∀ r ∈ rows, csvRowOk r = true) (hd1 : delim ≠ DQ) (hd2 : isNl delim = false) (delivered : List Text)
    (hdel : (delivered.map rstripNl).filter (· ≠ []) = rows.map (csvWriteRow delim)) :
    csvReaderFix (excel delim) hasHeader delivered =
      match rows.map (·.map (·.2)) with
      | [] => .ok (none, [])
      | first :: rest => if hasHeader then .ok (some first, rest) else .ok (none, first :: rest) := by
  unfold csvReaderFix
  rw [hdel, csvRecords_rows delim rows hok hd1 hd2]
  cases rows.map (·.map (·.2)) <;> rfl

end Coba.C12
