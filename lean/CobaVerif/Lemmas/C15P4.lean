/-
Phase-4 lemmas for C15: the format decided by the first call is kept over every history (batched, unbatched, mixed);
`predictCore` reads the wrapper state only through (rng, method, layout, hasKw, fmt); `==` on nested tuples/lists.
-/
import CobaVerif.Lemmas.C15Hist
import CobaVerif.Generated.C15Consts

namespace Coba.C15
open PyVal

/-! ### the format is decided once -/

theorem parseNot_frame (st st' : State) (f : PFmt) (as : List PyVal) (p : PyVal) (h1 : st'.rng = st.rng) (h2 : st'.hasKw = st.hasKw) :
    parseNot st' f as p = parseNot st f as p := by
  unfold parseNot; rw [h1, h2]

theorem parseRow_frame (st st' : State) (f : PFmt) (rows : List (List PyVal)) (p : PyVal) (h1 : st'.rng = st.rng) (h2 : st'.hasKw = st.hasKw) :
    parseRow st' f rows p = parseRow st f rows p := by
  unfold parseRow; rw [h1, h2]

theorem parseCol_frame (fx : Fixes) (st st' : State) (f : PFmt) (rows : List (List PyVal)) (p : PyVal) (h1 : st'.rng = st.rng)
    (h2 : st'.hasKw = st.hasKw) : parseCol fx st' f rows p = parseCol fx st f rows p := by
  unfold parseCol; rw [h1, h2]

/-- every successful `parse` changes the generator state only -/
theorem parse_state (fx : Fixes) (st : State) (sarg : Arg) (pred : PyVal) (r : Result) (st' : State)
    (h : parse fx st sarg pred = .ok (r, st')) : ∃ s, st' = { st with rng := s } := by
  unfold parse at h
  split at h
  · split at h <;>
      (simp only [bind, Except.bind] at h
       split at h
       · cases h
       · rename_i v _; cases v; simp only [pure, Except.pure, Except.ok.injEq, Prod.mk.injEq] at h; exact ⟨_, h.2.symm⟩)
  · cases h

/-- `parse` reads the state only through layout / fmt / hasKw / rng -/
theorem parse_frame (fx : Fixes) (st : State) (sarg : Arg) (pred : PyVal) :
    parse fx st sarg pred = (parse fx st.core sarg pred).map (fun p => (p.1, p.2.withCache st)) := by
  have e1 : st.core.rng = st.rng := rfl
  have e2 : st.core.hasKw = st.hasKw := rfl
  unfold parse
  show (match st.layout, st.fmt with | some lay, some f => _ | _, _ => _) = Except.map _ (match st.layout, st.fmt with | some lay, some f => _ | _, _ => _)
  split
  · rename_i lay f _ _
    split <;>
      simp only [parseNot_frame st st.core _ _ _ e1 e2, parseRow_frame st st.core _ _ _ e1 e2, parseCol_frame fx st st.core _ _ _ e1 e2] <;>
      (simp only [bind, Except.bind]
       split
       · simp [Except.map, *]
       · rename_i v hv; cases v; simp [Except.map, hv, pure, Except.pure, State.withCache, State.core])
  · rfl

theorem prepare_keeps (fx : Fixes) (st : State) (arg : Arg) :
    (prepare fx st arg).1.layout = st.layout ∧ (prepare fx st arg).1.hasKw = st.hasKw ∧ (prepare fx st arg).1.fmt = st.fmt := by
  unfold prepare
  simp only
  split <;> (try split) <;> simp

theorem detect_decided (fx : Fixes) (L : Learner) (st : State) (sarg : Arg) (pred : PyVal) (m : Nat) (h : st.layout.isSome = true) :
    detect fx L st sarg pred m = .ok st := by
  unfold detect
  cases hl : st.layout with
  | none => simp [hl] at h
  | some lay => rfl

theorem predictCore_keeps_decided (fx : Fixes) (L : Learner) (st : State) (sarg : Arg) (d : Decided) (r : Result) (st' : State)
    (hd : st.decidedAs d) (h : predictCore fx L st sarg = .ok (r, st')) : st'.decidedAs d := by
  obtain ⟨hl, hk, hf⟩ := hd
  unfold predictCore at h
  simp only [bind, Except.bind] at h
  split at h
  · cases h
  · rename_i v _
    obtain ⟨pred, m⟩ := v
    simp only at h
    have hdet : detect fx L { st with method := some m } sarg pred m = .ok { st with method := some m } :=
      detect_decided fx L _ sarg pred m (by simp [hl])
    rw [hdet] at h
    simp only at h
    obtain ⟨s, hs⟩ := parse_state fx _ _ _ _ _ h
    subst hs
    exact ⟨hl, hk, hf⟩

/-- **decided once.**  A call on a wrapper whose format is decided - batched or not, whatever the learner answers - leaves
layout, kwargs flag and format as they are. -/
theorem predict_keeps_decided' (fx : Fixes) (L : Learner) (st : State) (arg : Arg) (d : Decided) (r : Result) (st' : State)
    (hd : st.decidedAs d) (h : predict fx L st arg = .ok (r, st')) : st'.decidedAs d := by
  obtain ⟨hl, hk, hf⟩ := hd
  obtain ⟨p1, p2, p3⟩ := prepare_keeps fx st arg
  unfold predict at h
  exact predictCore_keeps_decided fx L _ _ d r st' ⟨p1.trans hl, p2.trans hk, p3.trans hf⟩ h

/-- the first successful call decides the format -/
theorem predict_decides' (fx : Fixes) (L : Learner) (st : State) (arg : Arg) (r : Result) (st' : State)
    (h : predict fx L st arg = .ok (r, st')) : ∃ d, st'.decidedAs d := by
  unfold predict at h
  simp only at h
  unfold predictCore at h
  simp only [bind, Except.bind] at h
  split at h
  · cases h
  · split at h
    · cases h
    · rename_i st2 _
      obtain ⟨s, hs⟩ := parse_state fx _ _ _ _ _ h
      subst hs
      unfold parse at h
      split at h
      · rename_i lay f hl hf
        exact ⟨⟨lay, st2.hasKw, f⟩, hl, rfl, hf⟩
      · cases h

theorem run_frozen' (fx : Fixes) (L : Learner) (d : Decided) (args : List Arg) :
    ∀ st : State, st.decidedAs d → run fx L st args = runFrozen fx L d st args := by
  induction args with
  | nil => intro st _; rfl
  | cons a as ih =>
    intro st hd
    have hst : { st with layout := some d.lay, hasKw := d.kw, fmt := some d.f } = st := by
      obtain ⟨h1, h2, h3⟩ := hd
      cases st; simp_all
    unfold run runFrozen
    rw [hst]
    simp only [bind, Except.bind]
    cases hp : predict fx L st a with
    | error e => rfl
    | ok v =>
      obtain ⟨r, st'⟩ := v
      simp only
      rw [ih st' (predict_keeps_decided' fx L st a d r st' hd hp)]

/-- **whole histories, any mix of batched and unbatched calls.**  If the first call succeeds it decides a format `d`, and
the rest of the history - for every learner and every list of calls - is what a wrapper with exactly that format decided
returns call by call. -/
theorem history_format_decided_once' (fx : Fixes) (L : Learner) (st : State) (a : Arg) (as : List Arg) (r : Result) (st' : State)
    (h : predict fx L st a = .ok (r, st')) :
    ∃ d, st'.decidedAs d ∧ run fx L st (a :: as) = (runFrozen fx L d st' as).map (fun rs => r :: rs) := by
  obtain ⟨d, hd⟩ := predict_decides' fx L st a r st' h
  refine ⟨d, hd, ?_⟩
  unfold run
  simp only [bind, Except.bind, h]
  rw [run_frozen' fx L d as st' hd]
  cases runFrozen fx L d st' as <;> rfl

/-- `predictCore` (the call on the argument the learner is given) on a decided wrapper = the same call on a wrapper that
knows nothing but the decided format, the generator state and the call-style memo; the action cache is carried along. -/
theorem predictCore_frame' (fx : Fixes) (L : Learner) (st : State) (sarg : Arg) (hl : st.layout.isSome = true) :
    predictCore fx L st sarg = (predictCore fx L st.core sarg).map (fun p => (p.1, p.2.withCache st)) := by
  have hm : st.core.method = st.method := rfl
  unfold predictCore
  simp only [bind, Except.bind]
  rw [hm]
  cases safeCall fx L st.method sarg with
  | error e => rfl
  | ok v =>
    obtain ⟨pred, m⟩ := v
    simp only
    rw [detect_decided fx L { st with method := some m } sarg pred m hl,
      detect_decided fx L { st.core with method := some m } sarg pred m hl]
    simp only
    rw [parse_frame fx { st with method := some m }]
    rfl

/-! ### the executable splittings of `run` the driver evaluates; memo-aware learn -/

theorem decided?_of (st : State) (d : Decided) (hd : st.decidedAs d) : st.decided? = some d := by
  obtain ⟨h1, h2, h3⟩ := hd
  cases d
  simp_all [State.decided?]

theorem run_eq_runSplit' (fx : Fixes) (L : Learner) (st : State) (args : List Arg) : run fx L st args = runSplit fx L st args := by
  cases args with
  | nil => rfl
  | cons a as =>
    cases hp : predict fx L st a with
    | error e => simp [run, runSplit, hp, bind, Except.bind]
    | ok v =>
      obtain ⟨r, st'⟩ := v
      obtain ⟨d, hd, hrun⟩ := history_format_decided_once' fx L st a as r st' hp
      rw [hrun]
      simp [runSplit, bind, Except.bind, hp, decided?_of st' d hd]

theorem run_eq_runCore' (fx : Fixes) (L : Learner) (args : List Arg) : ∀ st : State, run fx L st args = runCore fx L st args := by
  induction args with
  | nil => intro st; rfl
  | cons a as ih =>
    intro st
    unfold run runCore predict
    simp only
    by_cases hl : (prepare fx st a).1.layout.isSome = true
    · rw [if_pos hl, ← predictCore_frame' fx L _ _ hl]
      simp only [bind, Except.bind]
      cases predictCore fx L (prepare fx st a).1 (prepare fx st a).2 with
      | error e => rfl
      | ok v => obtain ⟨r, st'⟩ := v; simp only [ih st']
    · rw [if_neg hl]
      simp only [bind, Except.bind]
      cases predictCore fx L (prepare fx st a).1 (prepare fx st a).2 with
      | error e => rfl
      | ok v => obtain ⟨r, st'⟩ := v; simp only [ih st']

theorem learnM_uniform' (batchable : Bool) (memo : Option Nat) (arg : Arg) (res : Result) (rw : PyVal)
    (h : learnMemoOK batchable memo arg = true) :
    (learnM batchable memo arg res rw).map Prod.fst = learn batchable arg res rw := by
  unfold learnM learn
  cases hk : res.kw <;> simp only [] <;> try rfl
  rename_i r ks vs
  cases arg <;> cases batchable <;> (rcases memo with _ | _ | _ | _ | n) <;> simp [learnMemoOK] at h <;>
    simp only [Except.map, pure, Except.pure, bind, Except.bind, Bool.false_eq_true, if_false, if_true] <;>
    (try rfl) <;>
    (cases itemsE res.a <;> try rfl) <;> (cases itemsE rw <;> try rfl) <;> (cases itemsE res.p <;> try rfl) <;>
    (rename_i ctxs _ A R P; cases hlr : learnRows 0 ctxs A R P ks vs <;> simp [hlr]) <;> (rename_i lc; by_cases he : lc = [] <;> simp_all)

theorem learnM_switched_counterexample' :
    (learnM false (some 1) (.batch [.int 0] [[.int 5]]) ⟨.list .tmp [.int 5], .list .tmp [.none], .dict .tmp [] []⟩ (.list .tmp [.int 1])).toOption.isNone = true ∧
    (learn false (.batch [.int 0] [[.int 5]]) ⟨.list .tmp [.int 5], .list .tmp [.none], .dict .tmp [] []⟩ (.list .tmp [.int 1])).toOption.isSome = true := by
  decide

/-! ### one statement per format: parse, kwargs as finite maps in any key order, score -/

theorem format_roundtrip_full' (fx : Fixes) (sp : Spec) (pol : Policy) (st : State) (cs : List PyVal) (rows : List (List PyVal))
    (tup : Bool) (m : Option Nat)
    (hinv : Inv sp true st) (hlen : cs.length = rows.length) (hne : rows ≠ [])
    (hU : Unambiguous fx sp st (rowsOf pol cs rows) = true) (hm : ScoreInv (sp.layout != .single) m) :
    Delivers (predictCore fx (scripted sp pol) st (.batch cs rows)) (wantBatch sp st.rng (rowsOf pol cs rows)) (stAfter sp true st) ∧
    (sp.kw = true → sameKeys (rowsOf pol cs rows) = true → ∀ j r, (rowsOf pol cs rows)[j]? = some r →
      kwEquiv (wantKw sp (rowsOf pol cs rows)).1 ((wantKw sp (rowsOf pol cs rows)).2.map (fun c => c.getD j .none)) r.1.kwKeys r.1.kwVals) ∧
    (∀ acts, cs ≠ [] → acts.length = cs.length → (∀ c a x, (scoreOf pol c a x).isDict = false) →
      ∃ v, score fx (some (scriptedScore pol (sp.layout != .single) tup)) m (.batch cs rows acts) =
          .ok (v, if (sp.layout != .single) then 1 else 2) ∧ v.items = some (scoresOf pol cs rows acts)) :=
  ⟨format_roundtrip_batch' fx sp pol st cs rows hinv hlen hne hU,
   fun hk hs j r hj => kwargs_row_map' sp (rowsOf pol cs rows) hk hs j r hj,
   fun acts hcs ha hd => (score_roundtrip' fx pol (sp.layout != .single) tup m hm).2 cs rows acts hcs hlen.symm ha hd⟩

/-! ### has_score: exactly when the substring probe is wrong -/

theorem has_score_wrong_iff' (p : ScoreProbe) :
    hasScore (probeOf (.implemented p)) = false ↔ ∃ f, p = .raises f ∧ strContains f.msg "score" = true := by
  cases p <;> simp [probeOf, hasScore]

theorem has_score_never_for_missing' (k : ScoreKind) (h : ∀ p, k ≠ .implemented p) : hasScore (probeOf k) = false := by
  have hi := has_score_iff' k (by intro f hk; exact absurd hk (h _))
  cases hs : hasScore (probeOf k) with
  | false => rfl
  | true => obtain ⟨p, hp⟩ := hi.mp hs; exact absurd hp (h p)

theorem has_score_substring_counterexample' :
    hasScore (probeOf (.implemented (.raises ⟨false, "bad underscore in name"⟩))) = false ∧
    hasScore (probeOf (.implemented (.raises ⟨false, "Scoreboard is missing"⟩))) = true := by
  decide

/-! ### `==` on nested tuples / lists -/

/-- values built from scalars with tuples and lists only (no dict inside) -/
def seqVal : PyVal → Bool
  | .tuple _ xs => seqVals xs
  | .list _ xs => seqVals xs
  | .dict .. => false
  | _ => true
where seqVals : List PyVal → Bool
  | [] => true
  | x :: xs => seqVal x && seqVals xs

mutual
theorem pyEq_refl_seq : ∀ x : PyVal, seqVal x = true → pyEq x x = true
  | .none, _ => by simp [pyEq]
  | .bool b, _ => by cases b <;> simp [pyEq, PyVal.num]
  | .int i, _ => by simp [pyEq, PyVal.num]
  | .flt _ q, _ => by simp [pyEq, PyVal.num]
  | .str _ s, _ => by simp [pyEq]
  | .tuple _ xs, h => by simp only [pyEq]; exact pyEqList_refl_seq xs (by simpa [seqVal] using h)
  | .list _ xs, h => by simp only [pyEq]; exact pyEqList_refl_seq xs (by simpa [seqVal] using h)
  | .dict .., h => by simp [seqVal] at h
theorem pyEqList_refl_seq : ∀ xs : List PyVal, seqVal.seqVals xs = true → pyEqList xs xs = true
  | [], _ => by simp [pyEqList]
  | x :: xs, h => by
    simp only [seqVal.seqVals, Bool.and_eq_true] at h
    simp only [pyEqList, Bool.and_eq_true]
    exact ⟨pyEq_refl_seq x h.1, pyEqList_refl_seq xs h.2⟩
end

mutual
theorem pyEq_symm_seq (x y : PyVal) (hx : seqVal x = true) (hy : seqVal y = true) : pyEq x y = pyEq y x := by
  cases x <;> cases y <;> try (simp [pyEq, PyVal.num, eq_comm]; done)
  case tuple.tuple r xs r' ys =>
    simp only [pyEq]; exact pyEqList_symm_seq xs ys (by simpa [seqVal] using hx) (by simpa [seqVal] using hy)
  case list.list r xs r' ys =>
    simp only [pyEq]; exact pyEqList_symm_seq xs ys (by simpa [seqVal] using hx) (by simpa [seqVal] using hy)
  all_goals (first | simp [seqVal] at hx | simp [seqVal] at hy)
theorem pyEqList_symm_seq (xs ys : List PyVal) (hx : seqVal.seqVals xs = true) (hy : seqVal.seqVals ys = true) :
    pyEqList xs ys = pyEqList ys xs := by
  cases xs <;> cases ys <;> try (simp [pyEqList]; done)
  case cons.cons x xs y ys =>
    simp only [seqVal.seqVals, Bool.and_eq_true] at hx hy
    simp only [pyEqList]
    rw [pyEq_symm_seq x y hx.1 hy.1, pyEqList_symm_seq xs ys hx.2 hy.2]
end

mutual
theorem pyEq_trans_seq (x y z : PyVal) (hx : seqVal x = true) (hy : seqVal y = true) (hz : seqVal z = true)
    (h1 : pyEq x y = true) (h2 : pyEq y z = true) : pyEq x z = true := by
  cases y
  case tuple r ys =>
    cases x <;> simp [pyEq, PyVal.num] at h1
    cases z <;> simp [pyEq, PyVal.num] at h2
    rename_i r1 xs r2 zs
    simp only [pyEq]
    exact pyEqList_trans_seq xs ys zs (by simpa [seqVal] using hx) (by simpa [seqVal] using hy) (by simpa [seqVal] using hz) h1 h2
  case list r ys =>
    cases x <;> simp [pyEq, PyVal.num] at h1
    cases z <;> simp [pyEq, PyVal.num] at h2
    rename_i r1 xs r2 zs
    simp only [pyEq]
    exact pyEqList_trans_seq xs ys zs (by simpa [seqVal] using hx) (by simpa [seqVal] using hy) (by simpa [seqVal] using hz) h1 h2
  case dict => simp [seqVal] at hy
  all_goals (cases x <;> simp [pyEq, PyVal.num] at h1 <;> cases z <;> simp [pyEq, PyVal.num] at h2 <;> simp [pyEq, PyVal.num] <;> simp_all)
theorem pyEqList_trans_seq (xs ys zs : List PyVal) (hx : seqVal.seqVals xs = true) (hy : seqVal.seqVals ys = true)
    (hz : seqVal.seqVals zs = true) (h1 : pyEqList xs ys = true) (h2 : pyEqList ys zs = true) : pyEqList xs zs = true := by
  cases ys
  case nil =>
    cases xs <;> simp [pyEqList] at h1
    cases zs <;> simp [pyEqList] at h2
    simp [pyEqList]
  case cons y ys =>
    cases xs <;> simp [pyEqList] at h1
    cases zs <;> simp [pyEqList] at h2
    rename_i x xs z zs
    simp only [seqVal.seqVals, Bool.and_eq_true] at hx hy hz
    simp only [pyEqList, Bool.and_eq_true]
    exact ⟨pyEq_trans_seq x y z hx.1 hy.1 hz.1 h1.1 h2.1, pyEqList_trans_seq xs ys zs hx.2 hy.2 hz.2 h1.2 h2.2⟩
end

/-- `==` is an equivalence on scalars nested in tuples and lists to any depth -/
theorem pyEq_seq_equiv' (x y z : PyVal) (hx : seqVal x = true) (hy : seqVal y = true) (hz : seqVal z = true) :
    pyEq x x = true ∧ (pyEq x y = pyEq y x) ∧ (pyEq x y = true → pyEq y z = true → pyEq x z = true) :=
  ⟨pyEq_refl_seq x hx, pyEq_symm_seq x y hx hy, pyEq_trans_seq x y z hx hy hz⟩

/-- the model's dict values are lists of keys and values; with a repeated key (no Python dict has one) `pyEq` is not symmetric -/
theorem pyEq_dict_dupkeys_counterexample' :
    pyEq (.dict .tmp ["a", "a"] [.int 1, .int 1]) (.dict .tmp ["a", "b"] [.int 1, .int 2]) = true ∧
    pyEq (.dict .tmp ["a", "b"] [.int 1, .int 2]) (.dict .tmp ["a", "a"] [.int 1, .int 1]) = false := by
  decide


/-! ### translator obligations: the constants read from coba/safety.py are the ones the model uses -/

theorem source_constants_match' :
    Generated.C15.hintSites ≠ [] ∧ Generated.C15.hintSites.all (fun s => s == ["action", "action_prob", "pmf"]) = true ∧
    Generated.C15.pmfTotal = 1 ∧ Generated.C15.absTolNum = 1 ∧ Generated.C15.absTolDen = 1000 ∧
    Generated.C15.hasScoreNeedle = "score" ∧ Generated.C15.scoreNeedle = "'score'" ∧ Generated.C15.zeroOne = [0, 1] := by
  decide

theorem isHint_generated' (r : Ref) (ks : List String) (vs : List PyVal) :
    ∀ site ∈ Generated.C15.hintSites, isHint (.dict r ks vs) = site.any (fun k => ks.contains k) := by
  intro site hs
  simp only [Generated.C15.hintSites, List.mem_cons, List.mem_nil_iff, or_false, or_self] at hs
  subst hs
  simp [isHint, List.any, Bool.or_assoc]

theorem hasScore_generated' (f : ScoreFailure) : hasScore (.raises f) = !strContains f.msg Generated.C15.hasScoreNeedle := rfl

theorem scoreRaises_generated' (f : ScoreFailure) :
    scoreRaises f = if f.attr && strContains f.msg Generated.C15.scoreNeedle then .coba else if f.attr then .attr else .learner := rfl

end Coba.C15
