import CobaVerif.Lemmas.C05
import Mathlib.Analysis.SpecialFunctions.Log.Basic
import Mathlib.Analysis.SpecialFunctions.Trigonometric.Basic
import Mathlib.Analysis.SpecialFunctions.Sqrt

namespace Coba.C05
open Real

/-- Box–Muller over the reals: the value computed from uniform numerators `k1 ∈ [1,M)`, `k2`. -/
noncomputable def boxMuller (k1 k2 : Nat) (isCos : Bool) : ℝ :=
  Real.sqrt (-2 * Real.log ((k1 : ℝ) / (M : ℝ))) *
    (if isCos then Real.cos (2 * Real.pi * ((k2 : ℝ) / (M : ℝ))) else Real.sin (2 * Real.pi * ((k2 : ℝ) / (M : ℝ))))

theorem boxMuller_bound' (k1 k2 : Nat) (isCos : Bool) (h1 : 0 < k1) (h2 : k1 < M) :
    |boxMuller k1 k2 isCos| ≤ Real.sqrt (60 * Real.log 2) := by
  unfold boxMuller
  have hM : (0 : ℝ) < (M : ℝ) := by exact_mod_cast M_pos
  have hk : (0 : ℝ) < (k1 : ℝ) := by exact_mod_cast h1
  have hx0 : 0 < (k1 : ℝ) / (M : ℝ) := div_pos hk hM
  have hx1 : (k1 : ℝ) / (M : ℝ) ≤ 1 := by
    rw [div_le_one hM]; exact_mod_cast h2.le
  have hlog_nonpos : Real.log ((k1 : ℝ) / (M : ℝ)) ≤ 0 := Real.log_nonpos hx0.le hx1
  -- lower bound: k1/M ≥ 1/M = 2^-30
  have hge : (1 : ℝ) / (M : ℝ) ≤ (k1 : ℝ) / (M : ℝ) := by
    apply div_le_div_of_nonneg_right _ hM.le
    exact_mod_cast h1
  have hlogM : Real.log ((1 : ℝ) / (M : ℝ)) = -(30 * Real.log 2) := by
    have : (M : ℝ) = 2 ^ (30 : ℕ) := by norm_num [M]
    rw [one_div, Real.log_inv, this, Real.log_pow]; norm_num
  have hlog_ge : -(30 * Real.log 2) ≤ Real.log ((k1 : ℝ) / (M : ℝ)) := by
    rw [← hlogM]
    exact Real.log_le_log (by positivity) hge
  have hR : Real.sqrt (-2 * Real.log ((k1 : ℝ) / (M : ℝ))) ≤ Real.sqrt (60 * Real.log 2) := by
    apply Real.sqrt_le_sqrt
    linarith
  have hR0 : 0 ≤ Real.sqrt (-2 * Real.log ((k1 : ℝ) / (M : ℝ))) := Real.sqrt_nonneg _
  rw [abs_mul, abs_of_nonneg hR0]
  have htrig : |(if isCos then Real.cos (2 * Real.pi * ((k2 : ℝ) / (M : ℝ))) else Real.sin (2 * Real.pi * ((k2 : ℝ) / (M : ℝ))))| ≤ 1 := by
    split
    · exact Real.abs_cos_le_one _
    · exact Real.abs_sin_le_one _
  calc _ ≤ Real.sqrt (-2 * Real.log ((k1 : ℝ) / (M : ℝ))) * 1 := by
        apply mul_le_mul_of_nonneg_left htrig hR0
    _ ≤ Real.sqrt (60 * Real.log 2) := by simpa using hR

/-- standard model of floating point for `floor((b-a+1)*u)`: with relative errors `e1` (int→float
conversion of the range) and `e2` (the multiplication) bounded by 2^-53 the product stays
strictly below the range, so the floor is at most `range-1` — for every range and every state. -/
theorem randint_float_model' (n : Rat) (s : Nat) (e1 e2 : Rat) (hn : 0 < n)
    (h1 : |e1| ≤ 1 / 2 ^ 53) (h2 : |e2| ≤ 1 / 2 ^ 53) :
    0 ≤ n * (1 + e1) * u s * (1 + e2) ∧ n * (1 + e1) * u s * (1 + e2) < n := by
  have hu0 := u_nonneg s
  have hu1 : u s ≤ 1 - 1 / 2 ^ 30 := by
    unfold u
    have hM : (0 : Rat) < (M : Rat) := MQ_pos
    rw [div_le_iff₀ hM]
    have : (unum s : Rat) ≤ (M : Rat) - 1 := by
      have := unum_lt s
      have h' : unum s + 1 ≤ M := this
      have : ((unum s + 1 : Nat) : Rat) ≤ (M : Rat) := by exact_mod_cast h'
      push_cast at this; linarith
    have hM' : (M : Rat) = 2 ^ 30 := by norm_num [M]
    rw [hM'] at this ⊢
    nlinarith
  obtain ⟨h1a, h1b⟩ := abs_le.mp h1
  obtain ⟨h2a, h2b⟩ := abs_le.mp h2
  have p1 : 0 < 1 + e1 := by norm_num at h1a; linarith
  have p2 : 0 < 1 + e2 := by norm_num at h2a; linarith
  constructor
  · positivity
  · have hb1 : 1 + e1 ≤ 1 + 1 / 2 ^ 53 := by linarith
    have hb2 : 1 + e2 ≤ 1 + 1 / 2 ^ 53 := by linarith
    have hprod : (1 + e1) * u s * (1 + e2) < 1 := by
      have a1 : (1 + e1) * u s ≤ (1 + 1 / 2 ^ 53) * (1 - 1 / 2 ^ 30) :=
        mul_le_mul hb1 hu1 hu0 (by positivity)
      have a2 : (1 + e1) * u s * (1 + e2) ≤ (1 + 1 / 2 ^ 53) * (1 - 1 / 2 ^ 30) * (1 + 1 / 2 ^ 53) :=
        mul_le_mul a1 hb2 p2.le (by norm_num)
      have a3 : ((1 : Rat) + 1 / 2 ^ 53) * (1 - 1 / 2 ^ 30) * (1 + 1 / 2 ^ 53) < 1 := by norm_num
      linarith
    calc n * (1 + e1) * u s * (1 + e2) = n * ((1 + e1) * u s * (1 + e2)) := by ring
      _ < n * 1 := by apply mul_lt_mul_of_pos_left hprod hn
      _ = n := by ring

end Coba.C05
