/-
Helper lemmas for C01 / C03 (property theorems are in Props/C01.lean and Props/C03.lean).
-/
import CobaVerif.Model.C01
import Mathlib.Data.List.Perm.Basic
import Mathlib.Data.List.Basic
import Mathlib.Data.List.Nodup
import Mathlib.Data.List.Induction

namespace Coba.C01
open List

/-! ### ids by first appearance -/

theorem mem_firsts {x : Nat} : ∀ {xs : List Nat}, x ∈ firsts xs ↔ x ∈ xs
  | [] => by simp [firsts]
  | y :: ys => by
    simp only [firsts, mem_cons, mem_filter, decide_eq_true_eq]
    rw [mem_firsts (xs := ys)]
    by_cases h : x = y <;> simp [h]

theorem firsts_nodup : ∀ xs : List Nat, (firsts xs).Nodup
  | [] => by simp [firsts]
  | y :: ys => by
    simp only [firsts, nodup_cons, mem_filter, decide_eq_true_eq]
    exact ⟨fun h => h.2 rfl, (firsts_nodup ys).filter _⟩

/-- the dict built left to right is the list of distinct objects in order of first appearance -/
theorem foldl_addFirst (xs : List Nat) : ∀ acc : List Nat,
    xs.foldl addFirst acc = acc ++ (firsts xs).filter (fun y => y ∉ acc) := by
  induction xs with
  | nil => intro acc; simp [firsts]
  | cons x xs ih =>
    intro acc
    simp only [foldl_cons, firsts]
    rw [ih]
    by_cases hx : x ∈ acc
    · simp only [addFirst, hx, if_true]
      congr 1
      simp only [filter_cons, hx, not_true_eq_false, decide_false, filter_filter]
      simp only [Bool.false_eq_true, if_false]
      apply filter_congr
      intro y _
      by_cases hy : y = x <;> simp [hy, hx]
    · simp only [addFirst, hx, if_false, append_assoc]
      congr 1
      simp only [filter_cons, hx, not_false_eq_true, decide_true, if_true, filter_filter, singleton_append]
      congr 1
      apply filter_congr
      intro y _
      by_cases hy : y = x <;> simp [hy, hx]

theorem foldl_addFirst_nil (xs : List Nat) : xs.foldl addFirst [] = firsts xs := by
  rw [foldl_addFirst]; simp

theorem idxOf_foldl_addFirst {x : Nat} (xs : List Nat) {acc : List Nat} (h : x ∈ acc) :
    (xs.foldl addFirst acc).idxOf x = acc.idxOf x := by
  rw [foldl_addFirst]; exact idxOf_append_of_mem h

theorem mem_addFirst_self (acc : List Nat) (x : Nat) : x ∈ addFirst acc x := by
  unfold addFirst; split <;> simp [*]

theorem idOf_inj {xs : List Nat} {x y : Nat} (hx : x ∈ xs) (h : idOf xs x = idOf xs y) : x = y := by
  unfold idOf at h
  have hx' : x ∈ firsts xs := mem_firsts.2 hx
  by_contra hne
  by_cases hy : y ∈ firsts xs
  · exact hne ((idxOf_inj hx').1 h)
  · have := idxOf_lt_length_of_mem hx'
    rw [h, idxOf_eq_length_iff.2 hy] at this
    exact absurd this (Nat.lt_irrefl _)


/-! ### MakeTasks -/

def Task.env? : Task → Option (Nat × Nat) | .env i e => some (e, i) | _ => none
def Task.lrn? : Task → Option (Nat × Nat) | .lrn i l => some (l, i) | _ => none
def Task.val? : Task → Option (Nat × Nat) | .val i v => some (v, i) | _ => none
def Task.eval? : Task → Option (Key3 × Triple × Bool)
  | .eval ei e li l vi v c => some ((ei, li, vi), (e, l, v), c)
  | _ => none

theorem filter_notMem_append_singleton (ys acc : List Nat) (e : Nat) :
    ys.filter (fun y => decide (y ∉ acc ++ [e])) = (ys.filter (fun y => decide (y ≠ e))).filter (fun y => decide (y ∉ acc)) := by
  rw [filter_filter]
  apply filter_congr
  intro y _
  by_cases h1 : y = e <;> by_cases h2 : y ∈ acc <;> simp [h1, h2]

theorem filter_notMem_of_mem (ys acc : List Nat) (e : Nat) (he : e ∈ acc) :
    (ys.filter (fun y => decide (y ≠ e))).filter (fun y => decide (y ∉ acc)) = ys.filter (fun y => decide (y ∉ acc)) := by
  rw [filter_filter]
  apply filter_congr
  intro y _
  by_cases h1 : y = e <;> by_cases h2 : y ∈ acc <;> simp [h1, h2] <;> exact he

/-- the environment tasks: one per distinct environment, id = position among the distinct ones -/
theorem makeAux_env (cnt : Nat → Nat) : ∀ (ts : List Triple) (envs lrns vals : List Nat),
    (makeAux cnt .none envs lrns vals ts).filterMap Task.env? =
      ((firsts (envsOf ts)).filter (fun y => decide (y ∉ envs))).zipIdx envs.length
  | [], _, _, _ => by simp [makeAux, envsOf, firsts]
  | (e, l, v) :: ts, envs, lrns, vals => by
    have ih := makeAux_env cnt ts (addFirst envs e) (addFirst lrns l) (addFirst vals v)
    simp only [makeAux, Restored.none, not_mem_nil, if_false, filterMap_append, envsOf, map_cons, firsts] at ih ⊢
    rw [ih]
    by_cases he : e ∈ envs
    · have h2 : (if l ∈ lrns then ([] : List Task) else [Task.lrn lrns.length l]).filterMap Task.env? = [] := by
        split <;> simp [Task.env?]
      have h3 : (if v ∈ vals then ([] : List Task) else [Task.val vals.length v]).filterMap Task.env? = [] := by
        split <;> simp [Task.env?]
      simp only [he, if_true, filterMap_nil, nil_append, h2, h3, filterMap_cons, Task.env?, addFirst,
        filter_cons, not_true_eq_false, decide_false, Bool.false_eq_true, if_false]
      rw [filter_notMem_of_mem _ _ _ he]
    · have h2 : (if l ∈ lrns then ([] : List Task) else [Task.lrn lrns.length l]).filterMap Task.env? = [] := by
        split <;> simp [Task.env?]
      have h3 : (if v ∈ vals then ([] : List Task) else [Task.val vals.length v]).filterMap Task.env? = [] := by
        split <;> simp [Task.env?]
      simp only [he, if_false, filterMap_nil, nil_append, h2, h3, filterMap_cons, Task.env?, addFirst,
        filter_cons, not_false_eq_true, decide_true, if_true, zipIdx_cons, length_append, length_singleton,
        singleton_append]
      rw [filter_notMem_append_singleton]


theorem makeAux_lrn (cnt : Nat → Nat) : ∀ (ts : List Triple) (envs lrns vals : List Nat),
    (makeAux cnt .none envs lrns vals ts).filterMap Task.lrn? =
      ((firsts (lrnsOf ts)).filter (fun y => decide (y ∉ lrns))).zipIdx lrns.length
  | [], _, _, _ => by simp [makeAux, lrnsOf, firsts]
  | (e, l, v) :: ts, envs, lrns, vals => by
    have ih := makeAux_lrn cnt ts (addFirst envs e) (addFirst lrns l) (addFirst vals v)
    simp only [makeAux, Restored.none, not_mem_nil, if_false, filterMap_append, lrnsOf, map_cons, firsts] at ih ⊢
    rw [ih]
    have h2 : (if e ∈ envs then ([] : List Task) else [Task.env envs.length e]).filterMap Task.lrn? = [] := by
      split <;> simp [Task.lrn?]
    have h3 : (if v ∈ vals then ([] : List Task) else [Task.val vals.length v]).filterMap Task.lrn? = [] := by
      split <;> simp [Task.lrn?]
    by_cases he : l ∈ lrns
    · simp only [he, if_true, filterMap_nil, nil_append, h2, h3, filterMap_cons, Task.lrn?, addFirst,
        filter_cons, not_true_eq_false, decide_false, Bool.false_eq_true, if_false]
      rw [filter_notMem_of_mem _ _ _ he]
    · simp only [he, if_false, filterMap_nil, nil_append, h2, h3, filterMap_cons, Task.lrn?, addFirst,
        filter_cons, not_false_eq_true, decide_true, if_true, zipIdx_cons, length_append, length_singleton,
        singleton_append]
      rw [filter_notMem_append_singleton]

theorem makeAux_val (cnt : Nat → Nat) : ∀ (ts : List Triple) (envs lrns vals : List Nat),
    (makeAux cnt .none envs lrns vals ts).filterMap Task.val? =
      ((firsts (valsOf ts)).filter (fun y => decide (y ∉ vals))).zipIdx vals.length
  | [], _, _, _ => by simp [makeAux, valsOf, firsts]
  | (e, l, v) :: ts, envs, lrns, vals => by
    have ih := makeAux_val cnt ts (addFirst envs e) (addFirst lrns l) (addFirst vals v)
    simp only [makeAux, Restored.none, not_mem_nil, if_false, filterMap_append, valsOf, map_cons, firsts] at ih ⊢
    rw [ih]
    have h2 : (if e ∈ envs then ([] : List Task) else [Task.env envs.length e]).filterMap Task.val? = [] := by
      split <;> simp [Task.val?]
    have h3 : (if l ∈ lrns then ([] : List Task) else [Task.lrn lrns.length l]).filterMap Task.val? = [] := by
      split <;> simp [Task.val?]
    by_cases he : v ∈ vals
    · simp only [he, if_true, filterMap_nil, nil_append, h2, h3, filterMap_cons, Task.val?, addFirst,
        filter_cons, not_true_eq_false, decide_false, Bool.false_eq_true, if_false]
      rw [filter_notMem_of_mem _ _ _ he]
    · simp only [he, if_false, filterMap_nil, nil_append, h2, h3, filterMap_cons, Task.val?, addFirst,
        filter_cons, not_false_eq_true, decide_true, if_true, zipIdx_cons, length_append, length_singleton,
        singleton_append]
      rw [filter_notMem_append_singleton]

/-- the evaluation tasks: one per listed triple, in order, keyed by the ids of its objects -/
theorem makeAux_eval (cnt : Nat → Nat) : ∀ (ts : List Triple) (envs lrns vals : List Nat),
    (makeAux cnt .none envs lrns vals ts).filterMap Task.eval? =
      ts.map (fun t => ((((envsOf ts).foldl addFirst envs).idxOf t.1, ((lrnsOf ts).foldl addFirst lrns).idxOf t.2.1,
        ((valsOf ts).foldl addFirst vals).idxOf t.2.2), t, decide (cnt t.2.1 > 1)))
  | [], _, _, _ => by simp [makeAux]
  | (e, l, v) :: ts, envs, lrns, vals => by
    have ih := makeAux_eval cnt ts (addFirst envs e) (addFirst lrns l) (addFirst vals v)
    have h1 : (if e ∈ envs then ([] : List Task) else [Task.env envs.length e]).filterMap Task.eval? = [] := by
      split <;> simp [Task.eval?]
    have h2 : (if l ∈ lrns then ([] : List Task) else [Task.lrn lrns.length l]).filterMap Task.eval? = [] := by
      split <;> simp [Task.eval?]
    have h3 : (if v ∈ vals then ([] : List Task) else [Task.val vals.length v]).filterMap Task.eval? = [] := by
      split <;> simp [Task.eval?]
    simp only [makeAux, Restored.none, not_mem_nil, if_false, filterMap_append, h1, h2, h3, nil_append,
      filterMap_cons, Task.eval?, map_cons, envsOf, lrnsOf, valsOf, foldl_cons, singleton_append]
    simp only [envsOf, lrnsOf, valsOf, Restored.none] at ih
    rw [ih]
    congr 1
    rw [idxOf_foldl_addFirst _ (mem_addFirst_self envs e), idxOf_foldl_addFirst _ (mem_addFirst_self lrns l),
      idxOf_foldl_addFirst _ (mem_addFirst_self vals v)]

theorem makeTasks_env (ts : List Triple) :
    (makeTasks .none ts).filterMap Task.env? = (firsts (envsOf ts)).zipIdx := by
  simp [makeTasks, makeAux_env]

theorem makeTasks_lrn (ts : List Triple) :
    (makeTasks .none ts).filterMap Task.lrn? = (firsts (lrnsOf ts)).zipIdx := by
  simp [makeTasks, makeAux_lrn]

theorem makeTasks_val (ts : List Triple) :
    (makeTasks .none ts).filterMap Task.val? = (firsts (valsOf ts)).zipIdx := by
  simp [makeTasks, makeAux_val]

theorem makeTasks_eval (ts : List Triple) :
    (makeTasks .none ts).filterMap Task.eval? =
      ts.map (fun t => (idKey ts t, t, decide (lrnCount ts t.2.1 > 1))) := by
  simp [makeTasks, makeAux_eval, foldl_addFirst_nil, idKey, idOf]


/-! ### ChunkTasks: every task in exactly one chunk -/

theorem maxChunkAux_flatten {α} (n : Nat) : ∀ (l : List α) (room : Nat) (cur : List α),
    (maxChunkAux n l room cur).flatten = cur.reverse ++ l
  | [], _, cur => by
    unfold maxChunkAux
    by_cases h : cur.isEmpty
    · have : cur = [] := by simpa using h
      simp [this]
    · simp [h]
  | x :: xs, room, cur => by
    unfold maxChunkAux
    by_cases h : room = 0
    · simp [h, maxChunkAux_flatten n xs (n - 1) [x]]
    · simp [h, maxChunkAux_flatten n xs (room - 1) (x :: cur)]

theorem maxChunker_flatten {α} (mt : Nat) (l : List α) : (maxChunker mt l).flatten = l := by
  unfold maxChunker
  by_cases h : mt = 0
  · by_cases h2 : l.isEmpty
    · have : l = [] := by simpa using h2
      simp [h, this]
    · simp [h, h2]
  · simp [h, maxChunkAux_flatten]

theorem groupInsert_flatten (k : Nat) (t : Task) : ∀ acc : List (Nat × List Task),
    ((groupInsert k t acc).map (·.2)).flatten ~ (acc.map (·.2)).flatten ++ [t]
  | [] => by simp [groupInsert]
  | (k', g) :: rest => by
    unfold groupInsert
    by_cases h : k = k'
    · simp only [h, if_true, map_cons, flatten_cons, append_assoc]
      exact (perm_append_left_iff g).2 perm_append_comm
    · simp only [h, if_false, map_cons, flatten_cons, append_assoc]
      exact (perm_append_left_iff g).2 (groupInsert_flatten k t rest)

theorem groupTasks_flatten_aux (ckey : Nat → Option Nat) : ∀ (ts : List Task) (acc : List (Nat × List Task)),
    ((ts.foldl (groupStep ckey) acc).map (·.2)).flatten ~
      (acc.map (·.2)).flatten ++ ts.filter (fun t => (ckey t.envObj).isSome)
  | [], acc => by simp
  | t :: ts, acc => by
    simp only [foldl_cons, filter_cons, groupStep]
    cases h : ckey t.envObj with
    | none =>
      simpa [h] using groupTasks_flatten_aux ckey ts acc
    | some k =>
      simp only [Option.isSome_some, if_true]
      refine (groupTasks_flatten_aux ckey ts (groupInsert k t acc)).trans ?_
      have := (groupInsert_flatten k t acc).append_right (ts.filter (fun t => (ckey t.envObj).isSome))
      simpa [append_assoc] using this

theorem groupTasks_flatten (ckey : Nat → Option Nat) (ts : List Task) :
    ((groupTasks ckey ts).map (·.2)).flatten ~ ts.filter (fun t => (ckey t.envObj).isSome) := by
  simpa [groupTasks] using groupTasks_flatten_aux ckey ts []

theorem flatMap_maxChunker_flatten (mt : Nat) (f : List Task → List Task) (hf : ∀ g, f g ~ g) :
    ∀ gs : List (List Task), (gs.flatMap (fun g => maxChunker mt (f g))).flatten ~ gs.flatten
  | [] => by simp
  | g :: gs => by
    simp only [flatMap_cons, flatten_append, flatten_cons, maxChunker_flatten]
    exact (hf g).append (flatMap_maxChunker_flatten mt f hf gs)

theorem flatten_map_singleton {α} (l : List α) : (l.map (fun t => [t])).flatten = l := by
  induction l <;> simp [*]

/-- `chunks_partition_tasks`: for every `maxtasksperchunk` the chunks are a partition of the tasks -/
theorem chunkTasks_flatten (mt : Nat) (ckey : Nat → Option Nat) (ts : List Task) :
    (chunkTasks mt ckey ts).flatten ~ ts := by
  unfold chunkTasks
  simp only [flatten_append, flatten_map_singleton]
  have h3 : ((((groupTasks ckey (ts.filter fun t => t.hasEnv)).map (·.2)).mergeSort
      (fun a b => decide (minEnv a ≤ minEnv b))).flatMap (fun g => maxChunker mt (g.mergeSort taskLe))).flatten ~
      (ts.filter fun t => t.hasEnv).filter (fun t => (ckey t.envObj).isSome) := by
    refine (flatMap_maxChunker_flatten mt (fun g => g.mergeSort taskLe) (fun g => mergeSort_perm g _) _).trans ?_
    refine ((mergeSort_perm _ _).flatten).trans ?_
    exact groupTasks_flatten ckey _
  have h4 : (ts.filter fun t => t.hasEnv).filter (fun t => (ckey t.envObj).isNone) ++
      (ts.filter fun t => t.hasEnv).filter (fun t => (ckey t.envObj).isSome) ~ ts.filter fun t => t.hasEnv := by
    have := filter_append_perm (fun t : Task => (ckey t.envObj).isNone) (ts.filter fun t => t.hasEnv)
    refine Perm.trans ?_ this
    apply Perm.append_left
    apply Perm.of_eq
    apply filter_congr
    intro t _
    cases ckey t.envObj <;> simp
  have h5 : (ts.filter fun t => !t.hasEnv) ++ (ts.filter fun t => t.hasEnv) ~ ts := by
    have := filter_append_perm (fun t : Task => t.hasEnv) ts
    refine Perm.trans perm_append_comm ?_
    refine Perm.trans ?_ this
    apply Perm.append_left
    apply Perm.of_eq
    apply filter_congr
    intro t _
    simp
  refine Perm.trans ?_ h5
  apply Perm.append_left
  refine Perm.trans ?_ h4
  exact Perm.append_left _ h3


/-! ### ProcessTasks in an address space -/

theorem procOrder_perm (ch : List Task) : procOrder ch ~ ch :=
  (reverse_perm _).trans (mergeSort_perm _ _)

/-- the task evaluates learner object `l` -/
def Task.uses (l : Nat) : Task → Prop
  | .eval _ _ _ l' _ _ _ => l' = l
  | _ => False

instance (l : Nat) (t : Task) : Decidable (t.uses l) := by
  cases t <;> simp only [Task.uses] <;> infer_instance

/-- the task evaluates learner object `l` in place (no deepcopy) -/
def Task.mutates (l : Nat) : Task → Prop
  | .eval _ _ _ l' _ _ c => l' = l ∧ c = false
  | _ => False

theorem Task.mutates.uses {l : Nat} {t : Task} (h : t.mutates l) : t.uses l := by
  cases t <;> simp_all [Task.mutates, Task.uses]

/-- the event of a task when its learner cell is pristine -/
def pristineEv {S P Row} (c : Comps S P Row) (seed : Nat) (t : Task) : Ev P Row := (runTask c seed c.init t).1

theorem runTask_ev_congr {S P Row} (c : Comps S P Row) (seed : Nat) (h h' : Heap S) (t : Task)
    (hh : ∀ l, t.uses l → h l = h' l) : (runTask c seed h t).1 = (runTask c seed h' t).1 := by
  cases t with
  | eval ei e li l vi v cp =>
    have := hh l rfl
    simp only [runTask, this]
  | _ => rfl

theorem runTask_heap {S P Row} (c : Comps S P Row) (seed : Nat) (h : Heap S) (t : Task) (l : Nat)
    (hm : ¬ t.mutates l) : (runTask c seed h t).2 l = h l := by
  cases t with
  | eval ei e li l' vi v cp =>
    cases cp with
    | true => simp [runTask]
    | false =>
      have : l ≠ l' := fun hl => hm ⟨hl.symm, rfl⟩
      simp [runTask, Heap.set, this]
  | _ => rfl

/-- an in-place evaluation is never followed by another use of the same cell -/
def NoReuse : List Task → Prop
  | [] => True
  | t :: ts => (∀ l, t.mutates l → ∀ t' ∈ ts, ¬ t'.uses l) ∧ NoReuse ts

/-- invariant of `ProcessTasks`: if every cell that is still going to be used is pristine and no cell
is used again after having been evaluated in place, every task sees a pristine learner -/
theorem runSeq_pristine {S P Row} (c : Comps S P Row) (seed : Nat) : ∀ (ts : List Task) (h : Heap S),
    (∀ t ∈ ts, ∀ l, t.uses l → h l = c.init l) → NoReuse ts →
    (runSeq c seed h ts).1 = ts.map (pristineEv c seed)
  | [], _, _, _ => rfl
  | t :: ts, h, hA, hN => by
    simp only [runSeq, map_cons]
    have h1 : (runTask c seed h t).1 = pristineEv c seed t :=
      runTask_ev_congr c seed h c.init t (fun l hl => hA t (mem_cons_self) l hl)
    rw [h1]
    congr 1
    apply runSeq_pristine c seed ts _ _ hN.2
    intro t' ht' l hl
    have hm : ¬ t.mutates l := fun hm => hN.1 l hm t' ht' hl
    rw [runTask_heap c seed h t l hm]
    exact hA t' (mem_cons_of_mem _ ht') l hl

/-- cells that are only ever copied keep their state -/
theorem runSeq_heap {S P Row} (c : Comps S P Row) (seed : Nat) (l : Nat) : ∀ (ts : List Task) (h : Heap S),
    (∀ t ∈ ts, ¬ t.mutates l) → (runSeq c seed h ts).2 l = h l
  | [], _, _ => rfl
  | t :: ts, h, hm => by
    simp only [runSeq]
    rw [runSeq_heap c seed l ts _ (fun t' ht' => hm t' (mem_cons_of_mem _ ht'))]
    exact runTask_heap c seed h t l (hm t mem_cons_self)

/-- counting form of `NoReuse` (stable under permutation and under taking sublists) -/
def AtMostOnce (ts : List Task) : Prop :=
  ∀ t ∈ ts, ∀ l, t.mutates l → (ts.filter (fun t' => decide (t'.uses l))).length ≤ 1

theorem AtMostOnce.perm {ts ts' : List Task} (h : AtMostOnce ts) (p : ts ~ ts') : AtMostOnce ts' := by
  intro t ht l hm
  rw [← (p.filter _).length_eq]
  exact h t (p.mem_iff.2 ht) l hm

theorem AtMostOnce.sublist {ts ts' : List Task} (h : AtMostOnce ts) (p : ts' <+ ts) : AtMostOnce ts' := by
  intro t ht l hm
  exact Nat.le_trans (p.filter _).length_le (h t (p.subset ht) l hm)

theorem AtMostOnce.noReuse : ∀ {ts : List Task}, AtMostOnce ts → NoReuse ts
  | [], _ => trivial
  | t :: ts, h => by
    refine ⟨?_, AtMostOnce.noReuse (h.sublist (sublist_cons_self t ts))⟩
    intro l hm t' ht' hu
    have h1 := h t mem_cons_self l hm
    have h2 : decide (t.uses l) = true := by simpa using hm.uses
    rw [filter_cons, h2, if_pos rfl, length_cons] at h1
    have h3 : t' ∈ ts.filter (fun t' => decide (t'.uses l)) := by
      simp [mem_filter, ht', hu]
    have := length_pos_of_mem h3
    omega


@[simp] theorem Task.uses_eval (l ei e li l' vi v : Nat) (c : Bool) : (Task.eval ei e li l' vi v c).uses l ↔ l' = l := Iff.rfl
@[simp] theorem Task.uses_env (l i e : Nat) : (Task.env i e).uses l ↔ False := Iff.rfl
@[simp] theorem Task.uses_lrn (l i e : Nat) : (Task.lrn i e).uses l ↔ False := Iff.rfl
@[simp] theorem Task.uses_val (l i e : Nat) : (Task.val i e).uses l ↔ False := Iff.rfl

theorem uses_filter_length (l : Nat) : ∀ tasks : List Task,
    (tasks.filter (fun t => decide (t.uses l))).length =
      ((tasks.filterMap Task.eval?).filter (fun x => decide (x.2.1.2.1 = l))).length
  | [] => rfl
  | t :: tasks => by
    have ih := uses_filter_length l tasks
    cases t with
    | eval ei e li l' vi v cp =>
      by_cases h : l' = l
      · simp only [filter_cons, Task.uses_eval, h, decide_true, if_true, length_cons, filterMap_cons, Task.eval?, ih]
      · simp only [filter_cons, Task.uses_eval, h, decide_false, Bool.false_eq_true, if_false, filterMap_cons, Task.eval?, ih]
    | env i e => simp only [filter_cons, Task.uses_env, decide_false, Bool.false_eq_true, if_false, filterMap_cons, Task.eval?, ih]
    | lrn i e => simp only [filter_cons, Task.uses_lrn, decide_false, Bool.false_eq_true, if_false, filterMap_cons, Task.eval?, ih]
    | val i e => simp only [filter_cons, Task.uses_val, decide_false, Bool.false_eq_true, if_false, filterMap_cons, Task.eval?, ih]

theorem makeTasks_uses_length (ts : List Triple) (l : Nat) :
    ((makeTasks .none ts).filter (fun t => decide (t.uses l))).length = lrnCount ts l := by
  rw [uses_filter_length, makeTasks_eval, filter_map, length_map, lrnCount]
  congr 1

theorem makeTasks_atMostOnce (ts : List Triple) : AtMostOnce (makeTasks .none ts) := by
  intro t ht l hm
  rw [makeTasks_uses_length]
  cases t with
  | eval ei e li l' vi v cp =>
    obtain ⟨rfl, rfl⟩ := hm
    have : (((ei, li, vi), (e, l', v), false) : Key3 × Triple × Bool) ∈ (makeTasks .none ts).filterMap Task.eval? :=
      mem_filterMap.2 ⟨_, ht, rfl⟩
    rw [makeTasks_eval] at this
    obtain ⟨t, _, h⟩ := mem_map.1 this
    simp only [Prod.mk.injEq] at h
    obtain ⟨_, rfl, hc⟩ := h
    simpa using hc
  | _ => exact absurd hm (by simp [Task.mutates])


/-! ### schedules -/

theorem popAt_perm {α} : ∀ (i : Nat) (qs : List (List α)) (x : α) (qs' : List (List α)),
    popAt i qs = some (x, qs') → qs.flatten ~ x :: qs'.flatten
  | _, [], _, _, h => by simp [popAt] at h
  | 0, [] :: _, _, _, h => by simp [popAt] at h
  | 0, (y :: q) :: qs, x, qs', h => by
    simp only [popAt, Option.some.injEq, Prod.mk.injEq] at h
    obtain ⟨rfl, rfl⟩ := h
    simp
  | i + 1, q :: qs, x, qs', h => by
    simp only [popAt, Option.map_eq_some_iff] at h
    obtain ⟨⟨y, r⟩, hr, h2⟩ := h
    simp only [Prod.mk.injEq] at h2
    obtain ⟨rfl, rfl⟩ := h2
    have ih := popAt_perm i qs y r hr
    simp only [flatten_cons]
    exact (ih.append_left q).trans perm_middle

theorem popAt_none {α} : ∀ (i : Nat) (qs : List (List α)), popAt i qs = none →
    (∀ q ∈ qs, q ≠ []) → qs.length ≤ i
  | _, [], _, _ => by simp
  | 0, [] :: qs, _, hne => absurd rfl (hne [] mem_cons_self)
  | 0, (y :: q) :: qs, h, _ => by simp [popAt] at h
  | i + 1, q :: qs, h, hne => by
    simp only [popAt, Option.map_eq_none_iff] at h
    have := popAt_none i qs h (fun q' hq' => hne q' (mem_cons_of_mem _ hq'))
    simp only [length_cons]
    omega

theorem flatten_filter_nonempty {α} : ∀ qs : List (List α), (qs.filter (fun q => !q.isEmpty)).flatten = qs.flatten
  | [] => rfl
  | [] :: qs => by simp [flatten_filter_nonempty qs]
  | (x :: q) :: qs => by simp [flatten_filter_nonempty qs]

/-- every schedule emits exactly the records of the chunks (each once) -/
theorem interleave_perm {α} : ∀ (picks : List Nat) (qs : List (List α)), interleave qs picks ~ qs.flatten
  | [], qs => by simp [interleave]
  | p :: ps, qs => by
    unfold interleave
    simp only
    cases h : popAt (p % (qs.filter (fun q => !q.isEmpty)).length) (qs.filter (fun q => !q.isEmpty)) with
    | none =>
      have hne : ∀ q ∈ qs.filter (fun q => !q.isEmpty), q ≠ [] := by
        intro q hq
        have := (mem_filter.1 hq).2
        intro hq'
        simp [hq'] at this
      have hlen := popAt_none _ _ h hne
      have hnil : qs.filter (fun q => !q.isEmpty) = [] := by
        by_contra hcon
        have hpos : 0 < (qs.filter (fun q => !q.isEmpty)).length := length_pos_iff.2 hcon
        have := Nat.mod_lt p hpos
        omega
      rw [← flatten_filter_nonempty, hnil]
      simp
    | some r =>
      obtain ⟨x, qs'⟩ := r
      simp only
      have h1 := popAt_perm _ _ _ _ h
      rw [flatten_filter_nonempty] at h1
      exact ((interleave_perm ps qs').cons x).trans h1.symm

/-! ### every configuration and every schedule emits the pristine events of the tasks -/

theorem flatten_map_perm {α} (f : List α → List α) (hf : ∀ l, f l ~ l) :
    ∀ ls : List (List α), (ls.map f).flatten ~ ls.flatten
  | [] => by simp
  | l :: ls => by
    simp only [map_cons, flatten_cons]
    exact (hf l).append (flatten_map_perm f hf ls)

theorem chunksOf_flatten {S P Row} (c : Comps S P Row) (cfg : Cfg) (ts : List Triple) :
    (chunksOf c cfg ts).flatten ~ makeTasks .none ts :=
  (flatten_map_perm procOrder procOrder_perm _).trans (chunkTasks_flatten _ _ _)

theorem flatten_map_runSeq {S P Row} (c : Comps S P Row) (seed : Nat) : ∀ chunks : List (List Task),
    (∀ ch ∈ chunks, AtMostOnce ch) →
    (chunks.map (fun ch => (runSeq c seed c.init ch).1)).flatten = chunks.flatten.map (pristineEv c seed)
  | [], _ => rfl
  | ch :: chunks, h => by
    simp only [map_cons, flatten_cons, map_append]
    rw [flatten_map_runSeq c seed chunks (fun ch' h' => h ch' (mem_cons_of_mem _ h'))]
    rw [runSeq_pristine c seed ch c.init (fun _ _ _ _ => rfl) (h ch mem_cons_self).noReuse]

/-- `pristine`: under every configuration and every schedule the events of a run are exactly the
events the tasks produce on pristine learner cells -/
theorem runEvents_perm {S P Row} (c : Comps S P Row) (cfg : Cfg) (picks : List Nat) (seed : Nat)
    (ts : List Triple) :
    (runEvents c cfg picks seed ts).1 ~ (makeTasks .none ts).map (pristineEv c seed) := by
  have hflat := chunksOf_flatten c cfg ts
  have hAll : AtMostOnce (chunksOf c cfg ts).flatten := (makeTasks_atMostOnce ts).perm hflat.symm
  unfold runEvents
  by_cases hm : cfg.multi = true
  · simp only [hm, if_true]
    refine (interleave_perm _ _).trans ?_
    rw [flatten_map_runSeq c seed _ (fun ch hch => hAll.sublist (sublist_flatten_of_mem hch))]
    exact hflat.map _
  · have hm' : cfg.multi = false := by simpa using hm
    simp only [hm', Bool.false_eq_true, if_false]
    rw [runSeq_pristine c seed _ c.init (fun _ _ _ _ => rfl) hAll.noReuse]
    exact hflat.map _


/-! ### the result does not depend on the order of the records -/

structure StrictTotal {K} (lt : K → K → Bool) : Prop where
  irrefl : ∀ a, lt a a = false
  trans : ∀ a b c, lt a b = true → lt b c = true → lt a c = true
  tri : ∀ a b, lt a b = true ∨ a = b ∨ lt b a = true

theorem StrictTotal.asymm {K} {lt : K → K → Bool} (h : StrictTotal lt) {a b : K} (hab : lt a b = true) :
    lt b a = false := by
  cases hba : lt b a with
  | false => rfl
  | true => have := h.trans a b a hab hba; rw [h.irrefl] at this; exact absurd this (by simp)

theorem StrictTotal.ne {K} {lt : K → K → Bool} (h : StrictTotal lt) {a b : K} (hab : lt a b = true) : a ≠ b := by
  rintro rfl; rw [h.irrefl] at hab; exact absurd hab (by simp)

theorem natLt_strictTotal : StrictTotal natLt where
  irrefl a := by simp [natLt]
  trans a b c := by simp only [natLt, decide_eq_true_eq]; omega
  tri a b := by simp only [natLt, decide_eq_true_eq]; omega

theorem key3Lt_strictTotal : StrictTotal key3Lt where
  irrefl a := by simp [key3Lt]
  trans a b c := by
    obtain ⟨a1, a2, a3⟩ := a; obtain ⟨b1, b2, b3⟩ := b; obtain ⟨c1, c2, c3⟩ := c
    simp only [key3Lt, decide_eq_true_eq]; omega
  tri a b := by
    obtain ⟨a1, a2, a3⟩ := a; obtain ⟨b1, b2, b3⟩ := b
    simp only [key3Lt, decide_eq_true_eq, Prod.mk.injEq]; omega

set_option linter.unusedSimpArgs false in
theorem upsert_comm {K V} [DecidableEq K] {lt : K → K → Bool} (hlt : StrictTotal lt)
    (k1 k2 : K) (v1 v2 : V) (hne : k1 ≠ k2) : ∀ t : List (K × V),
    upsert lt k1 v1 (upsert lt k2 v2 t) = upsert lt k2 v2 (upsert lt k1 v1 t)
  | [] => by
    rcases hlt.tri k1 k2 with h | h | h
    · simp [upsert, h, hlt.asymm h, hne.symm]
    · exact absurd h hne
    · simp [upsert, h, hlt.asymm h, hne, hne.symm]
  | (k, v) :: t => by
    have ih := upsert_comm hlt k1 k2 v1 v2 hne t
    rcases hlt.tri k1 k with h1 | h1 | h1 <;> rcases hlt.tri k2 k with h2 | h2 | h2
    · -- k1 < k, k2 < k
      rcases hlt.tri k1 k2 with h | h | h
      · simp [upsert, h1, h2, h, hlt.asymm h, hne.symm]
      · exact absurd h hne
      · simp [upsert, h1, h2, h, hlt.asymm h, hne, hne.symm]
    · -- k1 < k, k2 = k
      subst h2
      simp [upsert, h1, hlt.asymm h1, hlt.irrefl, hne.symm]
    · -- k1 < k < k2
      have h12 : lt k1 k2 = true := hlt.trans _ _ _ h1 h2
      simp [upsert, h1, h2, hlt.asymm h2, (hlt.ne h2).symm, h12, hlt.asymm h12, (hlt.ne h1), hlt.asymm h1, hne, hne.symm]
    · -- k1 = k, k2 < k
      subst h1
      simp [upsert, h2, hlt.asymm h2, hlt.irrefl, hne]
    · exact absurd (h1.trans h2.symm) hne
    · -- k1 = k < k2
      subst h1
      simp [upsert, h2, hlt.asymm h2, hlt.irrefl, hne, hne.symm]
    · -- k2 < k < k1
      have h21 : lt k2 k1 = true := hlt.trans _ _ _ h2 h1
      simp [upsert, h1, h2, hlt.asymm h1, (hlt.ne h1).symm, h21, hlt.asymm h21, (hlt.ne h2), hlt.asymm h2, hne, hne.symm]
    · -- k2 = k < k1
      subst h2
      simp [upsert, h1, hlt.asymm h1, hlt.irrefl, hne, hne.symm]
    · -- k < k1, k < k2
      simp [upsert, hlt.asymm h1, hlt.asymm h2, (hlt.ne h1).symm, (hlt.ne h2).symm, ih]

/-- same key ⇒ same entry -/
def Functional {K V} (kvs : List (K × V)) : Prop := ∀ x ∈ kvs, ∀ y ∈ kvs, x.1 = y.1 → x = y

theorem tableOf_perm {K V} [DecidableEq K] {lt : K → K → Bool} (hlt : StrictTotal lt)
    {l₁ l₂ : List (K × V)} (p : l₁ ~ l₂) (hf : Functional l₁) : tableOf lt l₁ = tableOf lt l₂ := by
  unfold tableOf
  apply p.foldl_eq'
  intro x hx y hy z
  by_cases h : x.1 = y.1
  · rw [hf x hx y hy h]
  · exact (upsert_comm hlt y.1 x.1 y.2 x.2 (Ne.symm h) z)

theorem perm_eq_of_all_eq {α} {l l' : List α} (p : l ~ l') (h : ∀ x ∈ l, ∀ y ∈ l, x = y) : l = l' := by
  cases l with
  | nil => exact (perm_nil.1 p.symm).symm
  | cons a t =>
    have h1 : a :: t = replicate (a :: t).length a :=
      eq_replicate_iff.2 ⟨rfl, fun b hb => h b hb a mem_cons_self⟩
    have h2 : l' = replicate (a :: t).length a :=
      eq_replicate_iff.2 ⟨p.length_eq.symm, fun b hb => h b (p.mem_iff.2 hb) a mem_cons_self⟩
    rw [h2]; exact h1

/-- tag + key of a record -/
def Rec.rkey {P Row} : Rec P Row → Nat × Key3
  | .T0 _ => (0, (0, 0, 0))
  | .T1 i _ => (1, (i, 0, 0))
  | .T2 i _ => (2, (i, 0, 0))
  | .T3 i _ => (3, (i, 0, 0))
  | .T4 k _ => (4, k)

/-- records with the same tag and key are the same record (in particular: keys distinct) -/
def KeysFunctional {P Row} (recs : List (Rec P Row)) : Prop :=
  ∀ r ∈ recs, ∀ r' ∈ recs, r.rkey = r'.rkey → r = r'

theorem KeysFunctional.of_nodup {P Row} {recs : List (Rec P Row)} (h : (recs.map Rec.rkey).Nodup) :
    KeysFunctional recs := by
  intro r hr r' hr' hk
  exact inj_on_of_nodup_map h hr hr' hk

theorem functional_filterMap {P Row K V} {recs : List (Rec P Row)} (hk : KeysFunctional recs)
    (f : Rec P Row → Option (K × V))
    (hf : ∀ r r' x x', f r = some x → f r' = some x' → x.1 = x'.1 → r.rkey = r'.rkey) :
    Functional (recs.filterMap f) := by
  intro x hx y hy hxy
  obtain ⟨r, hr, hrx⟩ := mem_filterMap.1 hx
  obtain ⟨r', hr', hry⟩ := mem_filterMap.1 hy
  have := hk r hr r' hr' (hf r r' x y hrx hry hxy)
  subst this
  rw [hrx] at hry
  exact Option.some.inj hry

theorem result_perm {P Row} {recs recs' : List (Rec P Row)} (p : recs ~ recs') (hk : KeysFunctional recs) :
    result recs = result recs' := by
  unfold result
  have e0 : recs.filterMap Rec.t0? = recs'.filterMap Rec.t0? := by
    apply perm_eq_of_all_eq (p.filterMap _)
    intro x hx y hy
    obtain ⟨r, hr, hrx⟩ := mem_filterMap.1 hx
    obtain ⟨r', hr', hry⟩ := mem_filterMap.1 hy
    cases r <;> simp [Rec.t0?] at hrx
    cases r' <;> simp [Rec.t0?] at hry
    have := hk _ hr _ hr' rfl
    subst hrx hry
    simpa using this
  have e1 : tableOf natLt (recs.filterMap Rec.t1?) = tableOf natLt (recs'.filterMap Rec.t1?) := by
    apply tableOf_perm natLt_strictTotal (p.filterMap _)
    apply functional_filterMap hk
    intro r r' x x' h h' hx
    cases r <;> simp [Rec.t1?] at h
    cases r' <;> simp [Rec.t1?] at h'
    subst h h'
    simp only [Rec.rkey] at hx ⊢
    simp_all
  have e2 : tableOf natLt (recs.filterMap Rec.t2?) = tableOf natLt (recs'.filterMap Rec.t2?) := by
    apply tableOf_perm natLt_strictTotal (p.filterMap _)
    apply functional_filterMap hk
    intro r r' x x' h h' hx
    cases r <;> simp [Rec.t2?] at h
    cases r' <;> simp [Rec.t2?] at h'
    subst h h'
    simp only [Rec.rkey] at hx ⊢
    simp_all
  have e3 : tableOf natLt (recs.filterMap Rec.t3?) = tableOf natLt (recs'.filterMap Rec.t3?) := by
    apply tableOf_perm natLt_strictTotal (p.filterMap _)
    apply functional_filterMap hk
    intro r r' x x' h h' hx
    cases r <;> simp [Rec.t3?] at h
    cases r' <;> simp [Rec.t3?] at h'
    subst h h'
    simp only [Rec.rkey] at hx ⊢
    simp_all
  have e4 : tableOf key3Lt (recs.filterMap Rec.t4?) = tableOf key3Lt (recs'.filterMap Rec.t4?) := by
    apply tableOf_perm key3Lt_strictTotal (p.filterMap _)
    apply functional_filterMap hk
    intro r r' x x' h h' hx
    cases r <;> simp [Rec.t4?] at h
    cases r' <;> simp [Rec.t4?] at h'
    subst h h'
    simp only [Rec.rkey] at hx ⊢
    simp_all
  rw [e0, e1, e2, e3, e4]


/-! ### run = spec -/

/-- a parameter row `(id, params)` for an object/position pair whose `params` does not raise -/
def okPair {P} (params : Nat → Except Err P) (oi : Nat × Nat) : Option (Nat × P) :=
  match params oi.1 with
  | .ok p => some (oi.2, p)
  | .error _ => none

/-- the rows of a triple evaluated alone on a pristine learner, keyed -/
def okRows {S P Row} (c : Comps S P Row) (seed : Nat) (x : Key3 × Triple × Bool) : Option (Key3 × List Row) :=
  match evalS c seed x.2.1 with
  | .ok rows => some (x.1, rows)
  | .error _ => none

section pristine
variable {S P Row : Type} (c : Comps S P Row) (seed : Nat)

def pristineRec (t : Task) : Option (Rec P Row) := (pristineEv c seed t).rec?

theorem pristineRec_env (i e : Nat) : pristineRec c seed (.env i e) =
    match c.envParams e with | .ok p => some (Rec.T1 i p) | .error _ => none := by
  simp only [pristineRec, pristineEv, runTask, paramEv]; cases c.envParams e <;> rfl

theorem pristineRec_lrn (i e : Nat) : pristineRec c seed (.lrn i e) =
    match c.lrnParams e with | .ok p => some (Rec.T2 i p) | .error _ => none := by
  simp only [pristineRec, pristineEv, runTask, paramEv]; cases c.lrnParams e <;> rfl

theorem pristineRec_val (i e : Nat) : pristineRec c seed (.val i e) =
    match c.valParams e with | .ok p => some (Rec.T3 i p) | .error _ => none := by
  simp only [pristineRec, pristineEv, runTask, paramEv]; cases c.valParams e <;> rfl

theorem pristineRec_eval (ei e li l vi v : Nat) (cp : Bool) : pristineRec c seed (.eval ei e li l vi v cp) =
    match evalS c seed (e, l, v) with | .ok rows => some (Rec.T4 (ei, li, vi) rows) | .error _ => none := by
  simp only [pristineRec, pristineEv, runTask, evalS]
  cases (c.eval v e (c.init l) (effSeed c seed v)).1 <;> rfl

theorem filterMap_pristine {β} (f : Rec P Row → Option β) (tasks : List Task) :
    ((tasks.map (pristineEv c seed)).filterMap Ev.rec?).filterMap f =
      tasks.filterMap (fun t => (pristineRec c seed t).bind f) := by
  rw [filterMap_map, filterMap_filterMap]; rfl

theorem pristine_t0 (tasks : List Task) :
    ((tasks.map (pristineEv c seed)).filterMap Ev.rec?).filterMap Rec.t0? = [] := by
  rw [filterMap_pristine, filterMap_eq_nil_iff]
  intro t _
  cases t with
  | env i e => rw [pristineRec_env]; cases c.envParams e <;> rfl
  | lrn i e => rw [pristineRec_lrn]; cases c.lrnParams e <;> rfl
  | val i e => rw [pristineRec_val]; cases c.valParams e <;> rfl
  | eval ei e li l vi v cp => rw [pristineRec_eval]; cases evalS c seed (e, l, v) <;> rfl

theorem pristine_t1 (tasks : List Task) :
    ((tasks.map (pristineEv c seed)).filterMap Ev.rec?).filterMap Rec.t1? =
      (tasks.filterMap Task.env?).filterMap (okPair c.envParams) := by
  rw [filterMap_pristine, filterMap_filterMap]
  apply filterMap_congr
  intro t _
  cases t with
  | env i e => rw [pristineRec_env]; simp only [Task.env?, Option.bind_some, okPair]; cases c.envParams e <;> rfl
  | lrn i e => rw [pristineRec_lrn]; cases c.lrnParams e <;> rfl
  | val i e => rw [pristineRec_val]; cases c.valParams e <;> rfl
  | eval ei e li l vi v cp => rw [pristineRec_eval]; cases evalS c seed (e, l, v) <;> rfl

theorem pristine_t2 (tasks : List Task) :
    ((tasks.map (pristineEv c seed)).filterMap Ev.rec?).filterMap Rec.t2? =
      (tasks.filterMap Task.lrn?).filterMap (okPair c.lrnParams) := by
  rw [filterMap_pristine, filterMap_filterMap]
  apply filterMap_congr
  intro t _
  cases t with
  | env i e => rw [pristineRec_env]; cases c.envParams e <;> rfl
  | lrn i e => rw [pristineRec_lrn]; simp only [Task.lrn?, Option.bind_some, okPair]; cases c.lrnParams e <;> rfl
  | val i e => rw [pristineRec_val]; cases c.valParams e <;> rfl
  | eval ei e li l vi v cp => rw [pristineRec_eval]; cases evalS c seed (e, l, v) <;> rfl

theorem pristine_t3 (tasks : List Task) :
    ((tasks.map (pristineEv c seed)).filterMap Ev.rec?).filterMap Rec.t3? =
      (tasks.filterMap Task.val?).filterMap (okPair c.valParams) := by
  rw [filterMap_pristine, filterMap_filterMap]
  apply filterMap_congr
  intro t _
  cases t with
  | env i e => rw [pristineRec_env]; cases c.envParams e <;> rfl
  | lrn i e => rw [pristineRec_lrn]; cases c.lrnParams e <;> rfl
  | val i e => rw [pristineRec_val]; simp only [Task.val?, Option.bind_some, okPair]; cases c.valParams e <;> rfl
  | eval ei e li l vi v cp => rw [pristineRec_eval]; cases evalS c seed (e, l, v) <;> rfl

theorem pristine_t4 (tasks : List Task) :
    ((tasks.map (pristineEv c seed)).filterMap Ev.rec?).filterMap Rec.t4? =
      (tasks.filterMap Task.eval?).filterMap (okRows c seed) := by
  rw [filterMap_pristine, filterMap_filterMap]
  apply filterMap_congr
  intro t _
  cases t with
  | env i e => rw [pristineRec_env]; cases c.envParams e <;> rfl
  | lrn i e => rw [pristineRec_lrn]; cases c.lrnParams e <;> rfl
  | val i e => rw [pristineRec_val]; cases c.valParams e <;> rfl
  | eval ei e li l vi v cp =>
    rw [pristineRec_eval]; simp only [Task.eval?, Option.bind_some, okRows]; cases evalS c seed (e, l, v) <;> rfl

end pristine


section spec
variable {S P Row : Type} (c : Comps S P Row) (seed : Nat)

theorem paramRecs_eq (mk : Nat → P → Rec P Row) (params : Nat → Except Err P) (objs : List Nat) :
    paramRecs mk params objs = (firsts objs).zipIdx.filterMap (fun oi => (okPair params oi).map (fun ip => mk ip.1 ip.2)) := by
  unfold paramRecs
  apply filterMap_congr
  intro oi _
  simp only [okPair]
  cases params oi.1 <;> rfl

theorem paramRecs_proj {β} (mk : Nat → P → Rec P Row) (f : Rec P Row → Option β) (params : Nat → Except Err P)
    (objs : List Nat) : (paramRecs mk params objs).filterMap f =
      (firsts objs).zipIdx.filterMap (fun oi => (okPair params oi).bind (fun ip => f (mk ip.1 ip.2))) := by
  rw [paramRecs_eq, filterMap_filterMap]
  apply filterMap_congr
  intro oi _
  cases okPair params oi <;> rfl

theorem evalRecs_proj {β} (f : Rec P Row → Option β) (ts : List Triple) : (evalRecs c seed ts).filterMap f =
    ts.filterMap (fun t => (okRows c seed (idKey ts t, t, true)).bind (fun kr => f (Rec.T4 kr.1 kr.2))) := by
  unfold evalRecs
  rw [filterMap_filterMap]
  apply filterMap_congr
  intro t _
  simp only [okRows]
  cases evalS c seed t <;> rfl

theorem filterMap_none {α β} (l : List α) : l.filterMap (fun _ => (none : Option β)) = [] := by
  induction l <;> simp [*]

theorem bind_okPair_same (params : Nat → Except Err P) (oi : Nat × Nat) :
    ((okPair params oi).bind fun ip => some (ip.1, ip.2)) = okPair params oi := by
  cases okPair params oi <;> rfl

theorem bind_okPair_none {β} (params : Nat → Except Err P) (oi : Nat × Nat) :
    ((okPair params oi).bind fun _ => (none : Option β)) = none := by
  cases okPair params oi <;> rfl

theorem bind_okRows_none {β} (x : Key3 × Triple × Bool) :
    ((okRows c seed x).bind fun _ => (none : Option β)) = none := by
  cases okRows c seed x <;> rfl

theorem spec_t0 (ts : List Triple) : (specRecs c seed ts).filterMap Rec.t0? = [metaOf seed ts] := by
  simp only [specRecs, filterMap_cons, Rec.t0?, filterMap_append, paramRecs_proj, evalRecs_proj,
    bind_okPair_none, bind_okRows_none, filterMap_none, append_nil]

theorem spec_t1 (ts : List Triple) : (specRecs c seed ts).filterMap Rec.t1? =
    (firsts (envsOf ts)).zipIdx.filterMap (okPair c.envParams) := by
  simp only [specRecs, filterMap_cons, Rec.t1?, filterMap_append, paramRecs_proj, evalRecs_proj,
    bind_okPair_same, bind_okPair_none, bind_okRows_none, filterMap_none, append_nil]

theorem spec_t2 (ts : List Triple) : (specRecs c seed ts).filterMap Rec.t2? =
    (firsts (lrnsOf ts)).zipIdx.filterMap (okPair c.lrnParams) := by
  simp only [specRecs, filterMap_cons, Rec.t2?, filterMap_append, paramRecs_proj, evalRecs_proj,
    bind_okPair_same, bind_okPair_none, bind_okRows_none, filterMap_none, append_nil, nil_append]

theorem spec_t3 (ts : List Triple) : (specRecs c seed ts).filterMap Rec.t3? =
    (firsts (valsOf ts)).zipIdx.filterMap (okPair c.valParams) := by
  simp only [specRecs, filterMap_cons, Rec.t3?, filterMap_append, paramRecs_proj, evalRecs_proj,
    bind_okPair_same, bind_okPair_none, bind_okRows_none, filterMap_none, append_nil, nil_append]

theorem spec_t4 (ts : List Triple) : (specRecs c seed ts).filterMap Rec.t4? =
    ts.filterMap (fun t => okRows c seed (idKey ts t, t, true)) := by
  simp only [specRecs, filterMap_cons, Rec.t4?, filterMap_append, paramRecs_proj, evalRecs_proj,
    bind_okPair_none, filterMap_none, nil_append]
  apply filterMap_congr
  intro t _
  cases okRows c seed (idKey ts t, t, true) <;> rfl

end spec


theorem functional_zipIdx {P} (params : Nat → Except Err P) (objs : List Nat) :
    Functional ((objs.zipIdx).filterMap (okPair params)) := by
  intro x hx y hy hxy
  obtain ⟨⟨o, i⟩, ho, hox⟩ := mem_filterMap.1 hx
  obtain ⟨⟨o', i'⟩, ho', hoy⟩ := mem_filterMap.1 hy
  simp only [okPair] at hox hoy
  cases hp : params o with
  | error _ => simp [hp] at hox
  | ok p =>
    cases hp' : params o' with
    | error _ => simp [hp'] at hoy
    | ok p' =>
      simp only [hp, Option.some.injEq] at hox
      simp only [hp', Option.some.injEq] at hoy
      subst hox hoy
      simp only at hxy
      subst hxy
      rw [mem_zipIdx_iff_getElem?] at ho ho'
      have : o = o' := by
        have := ho.symm.trans ho'
        simpa using this
      subst this
      rw [hp] at hp'
      cases hp'
      rfl

theorem idKey_inj {ts : List Triple} {t t' : Triple} (ht : t ∈ ts) (h : idKey ts t = idKey ts t') : t = t' := by
  obtain ⟨e, l, v⟩ := t
  obtain ⟨e', l', v'⟩ := t'
  simp only [idKey, Prod.mk.injEq] at h
  obtain ⟨h1, h2, h3⟩ := h
  have he : e ∈ envsOf ts := mem_map.2 ⟨_, ht, rfl⟩
  have hl : l ∈ lrnsOf ts := mem_map.2 ⟨_, ht, rfl⟩
  have hv : v ∈ valsOf ts := mem_map.2 ⟨_, ht, rfl⟩
  rw [idOf_inj he h1, idOf_inj hl h2, idOf_inj hv h3]

theorem functional_okRows {S P Row} (c : Comps S P Row) (seed : Nat) (ts : List Triple) :
    Functional (ts.filterMap (fun t => okRows c seed (idKey ts t, t, true))) := by
  intro x hx y hy hxy
  obtain ⟨t, ht, htx⟩ := mem_filterMap.1 hx
  obtain ⟨t', ht', hty⟩ := mem_filterMap.1 hy
  simp only [okRows] at htx hty
  cases hr : evalS c seed t with
  | error _ => simp [hr] at htx
  | ok rows =>
    cases hr' : evalS c seed t' with
    | error _ => simp [hr'] at hty
    | ok rows' =>
      simp only [hr, Option.some.injEq] at htx
      simp only [hr', Option.some.injEq] at hty
      subst htx hty
      simp only at hxy
      have := idKey_inj ht hxy
      subst this
      rw [hr] at hr'
      cases hr'
      rfl

section main
variable {S P Row : Type} (c : Comps S P Row) (cfg : Cfg) (picks : List Nat) (seed : Nat) (ts : List Triple)

theorem runRecords_proj {β} (f : Rec P Row → Option β) (hf : ∀ m, f (Rec.T0 m) = none) :
    (runRecords c cfg picks seed ts).filterMap f ~
      (((makeTasks .none ts).map (pristineEv c seed)).filterMap Ev.rec?).filterMap f := by
  simp only [runRecords, filterMap_cons, hf]
  exact ((runEvents_perm c cfg picks seed ts).filterMap _).filterMap _

theorem runRecords_t0 : (runRecords c cfg picks seed ts).filterMap Rec.t0? = [metaOf seed ts] := by
  simp only [runRecords, filterMap_cons, Rec.t0?]
  congr 1
  have := ((runEvents_perm c cfg picks seed ts).filterMap Ev.rec?).filterMap Rec.t0?
  rw [pristine_t0] at this
  exact perm_nil.1 this

/-- `run_eq_spec`: every configuration and every schedule gives the specified result -/
theorem run_eq_spec' : run c cfg picks seed ts = resultS c seed ts := by
  unfold run resultS result
  have e0 := runRecords_t0 c cfg picks seed ts
  have p1 := runRecords_proj c cfg picks seed ts Rec.t1? (fun _ => rfl)
  have p2 := runRecords_proj c cfg picks seed ts Rec.t2? (fun _ => rfl)
  have p3 := runRecords_proj c cfg picks seed ts Rec.t3? (fun _ => rfl)
  have p4 := runRecords_proj c cfg picks seed ts Rec.t4? (fun _ => rfl)
  rw [pristine_t1, makeTasks_env] at p1
  rw [pristine_t2, makeTasks_lrn] at p2
  rw [pristine_t3, makeTasks_val] at p3
  rw [pristine_t4, makeTasks_eval, filterMap_map] at p4
  have q4 : (ts.filterMap ((okRows c seed) ∘ fun t => (idKey ts t, t, decide (lrnCount ts t.2.1 > 1)))) =
      ts.filterMap (fun t => okRows c seed (idKey ts t, t, true)) := by
    apply filterMap_congr; intro t _; rfl
  rw [q4] at p4
  rw [e0, spec_t0, spec_t1, spec_t2, spec_t3, spec_t4]
  rw [tableOf_perm natLt_strictTotal p1.symm (functional_zipIdx _ _),
    tableOf_perm natLt_strictTotal p2.symm (functional_zipIdx _ _),
    tableOf_perm natLt_strictTotal p3.symm (functional_zipIdx _ _),
    tableOf_perm key3Lt_strictTotal p4.symm (functional_okRows c seed ts)]

end main


/-! ### looking up rows in the result (C03) -/

def SortedKeys {K V} (lt : K → K → Bool) (t : List (K × V)) : Prop := t.Pairwise (fun a b => lt a.1 b.1 = true)

theorem mem_upsert {K V} [DecidableEq K] {lt : K → K → Bool} (hlt : StrictTotal lt) (k : K) (v : V) (x : K × V) :
    ∀ t : List (K × V), SortedKeys lt t → (x ∈ upsert lt k v t ↔ x = (k, v) ∨ (x ∈ t ∧ x.1 ≠ k))
  | [], _ => by simp [upsert]
  | (k', v') :: t, hs => by
    have hs' : SortedKeys lt t := (pairwise_cons.1 hs).2
    have hall : ∀ b ∈ t, lt k' b.1 = true := (pairwise_cons.1 hs).1
    unfold upsert
    by_cases h1 : lt k k' = true
    · simp only [h1, if_true, mem_cons]
      constructor
      · rintro (h | h | h)
        · exact Or.inl h
        · subst h; exact Or.inr ⟨Or.inl rfl, (hlt.ne h1).symm⟩
        · refine Or.inr ⟨Or.inr h, ?_⟩
          exact (hlt.ne (hlt.trans _ _ _ h1 (hall x h))).symm
      · rintro (h | ⟨h | h, _⟩)
        · exact Or.inl h
        · exact Or.inr (Or.inl h)
        · exact Or.inr (Or.inr h)
    · by_cases h2 : k = k'
      · subst h2
        simp only [h1, if_true, mem_cons, Bool.false_eq_true, if_false]
        constructor
        · rintro (h | h)
          · exact Or.inl h
          · exact Or.inr ⟨Or.inr h, (hlt.ne (hall x h)).symm⟩
        · rintro (h | ⟨h | h, hne⟩)
          · exact Or.inl h
          · subst h; exact absurd rfl hne
          · exact Or.inr h
      · simp only [h1, h2, if_false, mem_cons, Bool.false_eq_true]
        rw [mem_upsert hlt k v x t hs']
        constructor
        · rintro (h | h | ⟨h, hne⟩)
          · subst h; exact Or.inr ⟨Or.inl rfl, fun h => h2 h.symm⟩
          · exact Or.inl h
          · exact Or.inr ⟨Or.inr h, hne⟩
        · rintro (h | ⟨h | h, hne⟩)
          · exact Or.inr (Or.inl h)
          · exact Or.inl h
          · exact Or.inr (Or.inr ⟨h, hne⟩)

theorem upsert_sorted {K V} [DecidableEq K] {lt : K → K → Bool} (hlt : StrictTotal lt) (k : K) (v : V) :
    ∀ t : List (K × V), SortedKeys lt t → SortedKeys lt (upsert lt k v t)
  | [], _ => by simp [upsert, SortedKeys]
  | (k', v') :: t, hs => by
    have hs' : SortedKeys lt t := (pairwise_cons.1 hs).2
    have hall : ∀ b ∈ t, lt k' b.1 = true := (pairwise_cons.1 hs).1
    unfold upsert
    by_cases h1 : lt k k' = true
    · simp only [h1, if_true]
      refine pairwise_cons.2 ⟨?_, hs⟩
      intro b hb
      rcases mem_cons.1 hb with rfl | hb
      · exact h1
      · exact hlt.trans _ _ _ h1 (hall b hb)
    · by_cases h2 : k = k'
      · subst h2
        simp only [h1, if_true, Bool.false_eq_true, if_false]
        exact pairwise_cons.2 ⟨hall, hs'⟩
      · simp only [h1, h2, if_false, Bool.false_eq_true]
        refine pairwise_cons.2 ⟨?_, upsert_sorted hlt k v t hs'⟩
        intro b hb
        rcases (mem_upsert hlt k v b t hs').1 hb with rfl | ⟨hb, _⟩
        · rcases hlt.tri k k' with h | h | h
          · exact absurd h h1
          · exact absurd h h2
          · exact h
        · exact hall b hb

theorem tableOf_append_singleton {K V} [DecidableEq K] (lt : K → K → Bool) (l : List (K × V)) (kv : K × V) :
    tableOf lt (l ++ [kv]) = upsert lt kv.1 kv.2 (tableOf lt l) := by
  simp [tableOf, foldl_append]

theorem tableOf_sorted {K V} [DecidableEq K] {lt : K → K → Bool} (hlt : StrictTotal lt) (l : List (K × V)) :
    SortedKeys lt (tableOf lt l) := by
  induction l using List.reverseRec with
  | nil => simp [tableOf, SortedKeys]
  | append_singleton l kv ih => rw [tableOf_append_singleton]; exact upsert_sorted hlt _ _ _ ih

theorem mem_tableOf {K V} [DecidableEq K] {lt : K → K → Bool} (hlt : StrictTotal lt) (x : K × V) (l : List (K × V)) :
    Functional l → (x ∈ tableOf lt l ↔ x ∈ l) := by
  induction l using List.reverseRec with
  | nil => intro _; simp [tableOf]
  | append_singleton l kv ih =>
    intro hf
    have hf' : Functional l := fun a ha b hb => hf a (mem_append_left _ ha) b (mem_append_left _ hb)
    rw [tableOf_append_singleton, mem_upsert hlt _ _ _ _ (tableOf_sorted hlt l), ih hf']
    simp only [mem_append, mem_singleton]
    constructor
    · rintro (h | ⟨h, _⟩)
      · exact Or.inr h
      · exact Or.inl h
    · rintro (h | h)
      · by_cases hk : x.1 = kv.1
        · exact Or.inl (hf x (mem_append_left _ h) kv (mem_append_right _ (mem_singleton.2 rfl)) hk)
        · exact Or.inr ⟨h, hk⟩
      · exact Or.inl h

theorem filter_key_sorted {K V} [DecidableEq K] {lt : K → K → Bool} (hlt : StrictTotal lt) (k : K) (v : V) :
    ∀ t : List (K × V), SortedKeys lt t → (k, v) ∈ t → t.filter (fun x => decide (x.1 = k)) = [(k, v)]
  | [], _, h => by simp at h
  | a :: t, hs, h => by
    have hs' : SortedKeys lt t := (pairwise_cons.1 hs).2
    have hall : ∀ b ∈ t, lt a.1 b.1 = true := (pairwise_cons.1 hs).1
    rcases mem_cons.1 h with h | h
    · subst h
      have : t.filter (fun x => decide (x.1 = k)) = [] := by
        rw [filter_eq_nil_iff]
        intro b hb
        have := hlt.ne (hall b hb)
        simpa using fun h' => this h'.symm
      simp [this]
    · have hne : a.1 ≠ k := hlt.ne (hall _ h)
      simp only [filter_cons, hne, decide_false, Bool.false_eq_true, if_false]
      exact filter_key_sorted hlt k v t hs' h

theorem filter_flatMap_numberRows {Row} (k : Key3) : ∀ tbl : List (Key3 × List Row),
    (tbl.flatMap numberRows).filter (fun x => decide (x.1 = k)) =
      (tbl.filter (fun x => decide (x.1 = k))).flatMap numberRows
  | [] => rfl
  | kr :: tbl => by
    simp only [flatMap_cons, filter_append, filter_flatMap_numberRows k tbl, filter_cons]
    by_cases h : kr.1 = k
    · have : (numberRows kr).filter (fun x => decide (x.1 = k)) = numberRows kr := by
        rw [filter_eq_self]
        intro x hx
        simp only [numberRows, mem_map] at hx
        obtain ⟨_, _, rfl⟩ := hx
        simpa using h
      simp [h, this]
    · have : (numberRows kr).filter (fun x => decide (x.1 = k)) = [] := by
        rw [filter_eq_nil_iff]
        intro x hx
        simp only [numberRows, mem_map] at hx
        obtain ⟨_, _, rfl⟩ := hx
        simpa using h
      simp [h, this]

/-- rows numbered 1..N -/
def numbered {Row} (rows : List Row) : List (Nat × Row) := (rows.zipIdx 1).map (fun ri => (ri.2, ri.1))

/-- C03: the rows the spec result holds for a listed triple are those of evaluating it alone on a
pristine learner; nothing when that raises -/
theorem rowsOf_resultS {S P Row} (c : Comps S P Row) (seed : Nat) (ts : List Triple) (t : Triple) (ht : t ∈ ts) :
    (resultS c seed ts).rowsOf (idKey ts t) =
      match evalS c seed t with
      | .ok rows => numbered rows
      | .error _ => [] := by
  unfold Result.rowsOf resultS result
  simp only
  rw [spec_t4, filter_flatMap_numberRows]
  have hsorted := tableOf_sorted key3Lt_strictTotal (ts.filterMap (fun t => okRows c seed (idKey ts t, t, true)))
  have hfun := functional_okRows c seed ts
  cases hr : evalS c seed t with
  | ok rows =>
    have hmem : (idKey ts t, rows) ∈ tableOf key3Lt (ts.filterMap (fun t => okRows c seed (idKey ts t, t, true))) := by
      rw [mem_tableOf key3Lt_strictTotal _ _ hfun]
      exact mem_filterMap.2 ⟨t, ht, by simp [okRows, hr]⟩
    rw [filter_key_sorted key3Lt_strictTotal _ _ _ hsorted hmem]
    simp [numberRows, numbered, Function.comp_def]
  | error e =>
    have : (tableOf key3Lt (ts.filterMap (fun t => okRows c seed (idKey ts t, t, true)))).filter
        (fun x => decide (x.1 = idKey ts t)) = [] := by
      rw [filter_eq_nil_iff]
      intro x hx
      rw [mem_tableOf key3Lt_strictTotal _ _ hfun] at hx
      obtain ⟨t', ht', hx'⟩ := mem_filterMap.1 hx
      simp only [okRows] at hx'
      cases hr' : evalS c seed t' with
      | error _ => simp [hr'] at hx'
      | ok rows' =>
        simp only [hr', Option.some.injEq] at hx'
        subst hx'
        simp only [decide_eq_true_eq]
        intro hk
        have := idKey_inj ht' hk
        subst this
        rw [hr] at hr'
        cases hr'
    rw [this]
    rfl


/-! ### shapes of the tasks, the log, the caller's objects -/

theorem mem_makeTasks_eval {ts : List Triple} {ei e li l vi v : Nat} {cp : Bool}
    (h : Task.eval ei e li l vi v cp ∈ makeTasks .none ts) :
    (e, l, v) ∈ ts ∧ (ei, li, vi) = idKey ts (e, l, v) ∧ cp = decide (lrnCount ts l > 1) := by
  have : (((ei, li, vi), (e, l, v), cp) : Key3 × Triple × Bool) ∈ (makeTasks .none ts).filterMap Task.eval? :=
    mem_filterMap.2 ⟨_, h, rfl⟩
  rw [makeTasks_eval] at this
  obtain ⟨t, ht, h⟩ := mem_map.1 this
  simp only [Prod.mk.injEq] at h
  obtain ⟨hk, rfl, hc⟩ := h
  exact ⟨ht, hk.symm, hc.symm⟩

theorem evalTask_mem_makeTasks {ts : List Triple} {t : Triple} (ht : t ∈ ts) :
    Task.eval (idKey ts t).1 t.1 (idKey ts t).2.1 t.2.1 (idKey ts t).2.2 t.2.2 (decide (lrnCount ts t.2.1 > 1))
      ∈ makeTasks .none ts := by
  have : ((idKey ts t, t, decide (lrnCount ts t.2.1 > 1)) : Key3 × Triple × Bool) ∈
      (makeTasks .none ts).filterMap Task.eval? := by
    rw [makeTasks_eval]; exact mem_map.2 ⟨t, ht, rfl⟩
  obtain ⟨task, htask, h⟩ := mem_filterMap.1 this
  cases task with
  | eval ei e li l vi v cp =>
    simp only [Task.eval?, Option.some.injEq, Prod.mk.injEq] at h
    obtain ⟨hk, ht', hc⟩ := h
    subst ht' hc
    rw [← hk]
    exact htask
  | _ => simp [Task.eval?] at h

theorem zipIdx_idxOf {l : List Nat} (hl : l.Nodup) {x i : Nat} (h : (x, i) ∈ l.zipIdx) : l.idxOf x = i := by
  rw [mem_zipIdx_iff_getElem?] at h
  simp only at h
  obtain ⟨hi, hx⟩ := List.getElem?_eq_some_iff.1 h
  rw [← hx]
  exact hl.idxOf_getElem i hi

theorem mem_makeTasks_env {ts : List Triple} {i e : Nat} (h : Task.env i e ∈ makeTasks .none ts) :
    e ∈ envsOf ts ∧ i = idOf (envsOf ts) e := by
  have : ((e, i) : Nat × Nat) ∈ (makeTasks .none ts).filterMap Task.env? := mem_filterMap.2 ⟨_, h, rfl⟩
  rw [makeTasks_env] at this
  refine ⟨mem_firsts.1 ?_, (zipIdx_idxOf (firsts_nodup _) this).symm⟩
  rw [mem_zipIdx_iff_getElem?] at this
  exact mem_of_getElem? this

theorem mem_makeTasks_lrn {ts : List Triple} {i l : Nat} (h : Task.lrn i l ∈ makeTasks .none ts) :
    l ∈ lrnsOf ts ∧ i = idOf (lrnsOf ts) l := by
  have : ((l, i) : Nat × Nat) ∈ (makeTasks .none ts).filterMap Task.lrn? := mem_filterMap.2 ⟨_, h, rfl⟩
  rw [makeTasks_lrn] at this
  refine ⟨mem_firsts.1 ?_, (zipIdx_idxOf (firsts_nodup _) this).symm⟩
  rw [mem_zipIdx_iff_getElem?] at this
  exact mem_of_getElem? this

theorem mem_makeTasks_val {ts : List Triple} {i v : Nat} (h : Task.val i v ∈ makeTasks .none ts) :
    v ∈ valsOf ts ∧ i = idOf (valsOf ts) v := by
  have : ((v, i) : Nat × Nat) ∈ (makeTasks .none ts).filterMap Task.val? := mem_filterMap.2 ⟨_, h, rfl⟩
  rw [makeTasks_val] at this
  refine ⟨mem_firsts.1 ?_, (zipIdx_idxOf (firsts_nodup _) this).symm⟩
  rw [mem_zipIdx_iff_getElem?] at this
  exact mem_of_getElem? this

theorem mem_chunksOf {S P Row} (c : Comps S P Row) (cfg : Cfg) (ts : List Triple) {ch : List Task} {t : Task}
    (hch : ch ∈ chunksOf c cfg ts) (ht : t ∈ ch) : t ∈ makeTasks .none ts :=
  (chunksOf_flatten c cfg ts).mem_iff.1 (mem_flatten.2 ⟨ch, hch, ht⟩)

section log
variable {S P Row : Type} (c : Comps S P Row) (cfg : Cfg) (picks : List Nat) (seed : Nat) (ts : List Triple)

theorem runLog_perm : runLog c cfg picks seed ts ~
    ((makeTasks .none ts).map (pristineEv c seed)).filterMap Ev.err? :=
  (runEvents_perm c cfg picks seed ts).filterMap _

theorem pristineEv_err_eval (ei e li l vi v : Nat) (cp : Bool) :
    (pristineEv c seed (.eval ei e li l vi v cp)).err? =
      match evalS c seed (e, l, v) with
      | .ok _ => none
      | .error _ => some (.eval ei e li l vi v cp) := by
  simp only [pristineEv, runTask, evalS]
  cases (c.eval v e (c.init l) (effSeed c seed v)).1 <;> rfl

theorem pristineEv_err_self (t t' : Task) (h : (pristineEv c seed t).err? = some t') : t' = t := by
  cases t with
  | env i e => simp only [pristineEv, runTask, paramEv] at h; cases hp : c.envParams e <;> simp_all [Ev.err?]
  | lrn i e => simp only [pristineEv, runTask, paramEv] at h; cases hp : c.lrnParams e <;> simp_all [Ev.err?]
  | val i e => simp only [pristineEv, runTask, paramEv] at h; cases hp : c.valParams e <;> simp_all [Ev.err?]
  | eval ei e li l vi v cp =>
    rw [pristineEv_err_eval] at h
    cases hr : evalS c seed (e, l, v) <;> simp_all

/-- a triple whose evaluation raises is reported in the log -/
theorem failing_logged (t : Triple) (ht : t ∈ ts) (e : Err) (hfail : evalS c seed t = .error e) :
    Task.eval (idKey ts t).1 t.1 (idKey ts t).2.1 t.2.1 (idKey ts t).2.2 t.2.2 (decide (lrnCount ts t.2.1 > 1))
      ∈ runLog c cfg picks seed ts := by
  rw [(runLog_perm c cfg picks seed ts).mem_iff]
  refine mem_filterMap.2 ⟨_, mem_map.2 ⟨_, evalTask_mem_makeTasks ht, rfl⟩, ?_⟩
  rw [pristineEv_err_eval]
  obtain ⟨e', l', v'⟩ := t
  simp only at hfail ⊢
  rw [hfail]

/-- … and nothing else is: a logged evaluation task is a listed triple whose evaluation raises -/
theorem logged_failing (ei e li l vi v : Nat) (cp : Bool)
    (h : Task.eval ei e li l vi v cp ∈ runLog c cfg picks seed ts) :
    (e, l, v) ∈ ts ∧ ∃ err, evalS c seed (e, l, v) = .error err := by
  rw [(runLog_perm c cfg picks seed ts).mem_iff] at h
  obtain ⟨ev, hev, herr⟩ := mem_filterMap.1 h
  obtain ⟨t, ht, rfl⟩ := mem_map.1 hev
  have := pristineEv_err_self c seed t _ herr
  subst this
  refine ⟨(mem_makeTasks_eval ht).1, ?_⟩
  rw [pristineEv_err_eval] at herr
  cases hr : evalS c seed (e, l, v) with
  | ok rows => simp [hr] at herr
  | error err => exact ⟨err, rfl⟩

theorem mutates_count {t : Task} {l : Nat} (ht : t ∈ makeTasks .none ts) (hm : t.mutates l) : lrnCount ts l ≤ 1 := by
  cases t with
  | eval ei e li l' vi v cp =>
    obtain ⟨rfl, rfl⟩ := hm
    have := (mem_makeTasks_eval ht).2.2
    simpa using this.symm
  | _ => exact absurd hm (by simp [Task.mutates])

/-- `user_objects`: a learner object listed in more than one triple is in its pristine state after
the run (in every configuration); with worker processes no object of the caller is touched -/
theorem user_objects' (l : Nat) (h : lrnCount ts l > 1 ∨ cfg.multi = true) :
    (runEvents c cfg picks seed ts).2 l = c.init l := by
  unfold runEvents
  by_cases hm : cfg.multi = true
  · simp [hm]
  · have hm' : cfg.multi = false := by simpa using hm
    simp only [hm', Bool.false_eq_true, if_false]
    rcases h with h | h
    · apply runSeq_heap
      intro t ht hmut
      have := mutates_count ts ((chunksOf_flatten c cfg ts).mem_iff.1 ht) hmut
      omega
    · exact absurd h hm

end log


/-! ### size of the chunks -/

theorem maxChunkAux_bound {α} (n : Nat) (hn : 0 < n) : ∀ (l : List α) (room : Nat) (cur : List α),
    room + cur.length = n → ∀ ch ∈ maxChunkAux n l room cur, ch ≠ [] ∧ ch.length ≤ n
  | [], room, cur, hinv, ch, hch => by
    unfold maxChunkAux at hch
    by_cases h : cur.isEmpty
    · simp [h] at hch
    · simp only [h, Bool.false_eq_true, if_false, mem_singleton] at hch
      subst hch
      refine ⟨?_, by simp; omega⟩
      intro hnil
      apply h
      simpa using hnil
  | x :: xs, room, cur, hinv, ch, hch => by
    unfold maxChunkAux at hch
    by_cases h : room = 0
    · simp only [h, if_true, mem_cons] at hch
      rcases hch with rfl | hch
      · subst h
        refine ⟨?_, by simp; omega⟩
        intro hnil
        have : cur = [] := by simpa using hnil
        subst this
        simp at hinv
        omega
      · exact maxChunkAux_bound n hn xs (n - 1) [x] (by simp; omega) ch hch
    · simp only [h, if_false] at hch
      exact maxChunkAux_bound n hn xs (room - 1) (x :: cur) (by simp; omega) ch hch

theorem maxChunker_bound {α} (mt : Nat) (l : List α) : ∀ ch ∈ maxChunker mt l, ch ≠ [] ∧ (0 < mt → ch.length ≤ mt) := by
  intro ch hch
  unfold maxChunker at hch
  by_cases h : mt = 0
  · by_cases h2 : l.isEmpty
    · simp [h, h2] at hch
    · simp only [h, if_true, h2, Bool.false_eq_true, if_false, mem_singleton] at hch
      subst hch
      exact ⟨fun hnil => h2 (by simpa using hnil), fun hp => absurd h (by omega)⟩
  · simp only [h, if_false] at hch
    have := maxChunkAux_bound mt (by omega) l mt [] (by simp) ch hch
    exact ⟨this.1, fun _ => this.2⟩

/-- chunks are never empty and never exceed `maxtasksperchunk` (when it is not 0) -/
theorem chunkTasks_bound (mt : Nat) (ckey : Nat → Option Nat) (ts : List Task) :
    ∀ ch ∈ chunkTasks mt ckey ts, ch ≠ [] ∧ (0 < mt → ch.length ≤ mt) := by
  intro ch hch
  unfold chunkTasks at hch
  simp only [mem_append, mem_map, mem_flatMap] at hch
  rcases hch with ⟨t, _, rfl⟩ | ⟨t, _, rfl⟩ | ⟨g, _, hg⟩
  · exact ⟨by simp, fun h => by simp; omega⟩
  · exact ⟨by simp, fun h => by simp; omega⟩
  · exact maxChunker_bound mt _ ch hg


section final
variable {S P Row : Type} (c : Comps S P Row) (cfg : Cfg) (picks : List Nat) (seed : Nat) (ts : List Triple)

/-- whatever order the records of a run arrive in, the result is the specified one -/
theorem result_of_records_perm (recs : List (Rec P Row)) (h : recs ~ runRecords c cfg picks seed ts) :
    result recs = resultS c seed ts := by
  unfold resultS result
  have e0 : recs.filterMap Rec.t0? = [metaOf seed ts] := by
    have := h.filterMap Rec.t0?
    rw [runRecords_t0] at this
    exact perm_singleton.1 this
  have p1 := (h.filterMap Rec.t1?).trans (runRecords_proj c cfg picks seed ts Rec.t1? (fun _ => rfl))
  have p2 := (h.filterMap Rec.t2?).trans (runRecords_proj c cfg picks seed ts Rec.t2? (fun _ => rfl))
  have p3 := (h.filterMap Rec.t3?).trans (runRecords_proj c cfg picks seed ts Rec.t3? (fun _ => rfl))
  have p4 := (h.filterMap Rec.t4?).trans (runRecords_proj c cfg picks seed ts Rec.t4? (fun _ => rfl))
  rw [pristine_t1, makeTasks_env] at p1
  rw [pristine_t2, makeTasks_lrn] at p2
  rw [pristine_t3, makeTasks_val] at p3
  rw [pristine_t4, makeTasks_eval, filterMap_map] at p4
  have q4 : (ts.filterMap ((okRows c seed) ∘ fun t => (idKey ts t, t, decide (lrnCount ts t.2.1 > 1)))) =
      ts.filterMap (fun t => okRows c seed (idKey ts t, t, true)) := by
    apply filterMap_congr; intro t _; rfl
  rw [q4] at p4
  rw [e0, spec_t0, spec_t1, spec_t2, spec_t3, spec_t4]
  rw [tableOf_perm natLt_strictTotal p1.symm (functional_zipIdx _ _),
    tableOf_perm natLt_strictTotal p2.symm (functional_zipIdx _ _),
    tableOf_perm natLt_strictTotal p3.symm (functional_zipIdx _ _),
    tableOf_perm key3Lt_strictTotal p4.symm (functional_okRows c seed ts)]

theorem ids_config_independent' : ∀ ch ∈ chunksOf c cfg ts, ∀ t ∈ ch,
    match t with
    | .env i e => i = idOf (envsOf ts) e
    | .lrn i l => i = idOf (lrnsOf ts) l
    | .val i v => i = idOf (valsOf ts) v
    | .eval ei e li l vi v _ => (ei, li, vi) = idKey ts (e, l, v) := by
  intro ch hch t ht
  have hm := mem_chunksOf c cfg ts hch ht
  cases t with
  | env i e => exact (mem_makeTasks_env hm).2
  | lrn i l => exact (mem_makeTasks_lrn hm).2
  | val i v => exact (mem_makeTasks_val hm).2
  | eval ei e li l vi v cp => exact (mem_makeTasks_eval hm).2.1

theorem rowsOf_run' (t : Triple) (ht : t ∈ ts) :
    (run c cfg picks seed ts).rowsOf (idKey ts t) =
      match evalS c seed t with
      | .ok rows => numbered rows
      | .error _ => [] := by
  rw [run_eq_spec']; exact rowsOf_resultS c seed ts t ht

theorem idKey_singleton (t : Triple) : idKey [t] t = (0, 0, 0) := by
  obtain ⟨e, l, v⟩ := t
  simp [idKey, idOf, envsOf, lrnsOf, valsOf, firsts]

/-- a task list evaluated in one address space whose used cells are pristine -/
theorem pristine_address_space' (h : Heap S) (tasks : List Task)
    (hA : ∀ t ∈ tasks, ∀ l, t.uses l → h l = c.init l) (hN : AtMostOnce tasks) :
    (runSeq c seed h tasks).1 = tasks.map (pristineEv c seed) :=
  runSeq_pristine c seed tasks h hA hN.noReuse

end final


/-! ## phase 2: process-level state, worker lifetimes, un-copyable learners -/

theorem putAt_flatten {α} (x : α) : ∀ (k : Nat) (ls : List (List α)), (putAt k x ls).flatten ~ ls.flatten ++ [x]
  | _, [] => by simp [putAt]
  | 0, l :: ls => by
    simp only [putAt, flatten_cons, append_assoc]
    exact (perm_append_left_iff l).2 perm_append_comm
  | k + 1, l :: ls => by
    simp only [putAt, flatten_cons, append_assoc]
    exact (perm_append_left_iff l).2 (putAt_flatten x k ls)

theorem foldl_putAt_flatten {α} (f : α × Nat → Nat) : ∀ (l : List (α × Nat)) (acc : List (List α)),
    (l.foldl (fun acc ci => putAt (f ci) ci.1 acc) acc).flatten ~ acc.flatten ++ l.map (·.1)
  | [], acc => by simp
  | ci :: l, acc => by
    simp only [foldl_cons, map_cons]
    refine (foldl_putAt_flatten f l _).trans ?_
    have := (putAt_flatten ci.1 (f ci) acc).append_right (l.map (·.1))
    simpa [append_assoc] using this

/-- every chunk is pulled by exactly one worker -/
theorem livesOf_flatten {α} (assign : List Nat) (chunks : List α) : (livesOf assign chunks).flatten ~ chunks := by
  unfold livesOf
  have := foldl_putAt_flatten (fun ci : α × Nat => assign.getD ci.2 0) chunks.zipIdx []
  simpa using this

theorem retire_flatten {α} (mc : Nat) : ∀ lives : List (List α), (retire mc lives).flatten = lives.flatten
  | [] => rfl
  | l :: ls => by
    have ih := retire_flatten mc ls
    simp only [retire, flatMap_cons, flatten_append, flatten_cons] at ih ⊢
    rw [ih, maxChunker_flatten]

/-- the heap of the σ-free clean components that corresponds to a heap of the process-state model -/
def liftHeap {S} (h : Heap S) : Heap (Nat × S) := fun l => (l, h l)

/-- `copy` is what `MakeTasks` sets for this triple list -/
def Task.copyOK (ts : List Triple) : Task → Prop
  | .eval _ _ _ l _ _ c => c = decide (lrnCount ts l > 1)
  | _ => True

theorem copyOK_of_mem {ts : List Triple} {t : Task} (h : t ∈ makeTasks .none ts) : t.copyOK ts := by
  cases t with
  | eval ei e li l vi v cp => exact (mem_makeTasks_eval h).2.2
  | _ => trivial

section plc
variable {G S P Row : Type} {cp : CompsP G S P Row} {Clean : G → Prop} (hc : ProcessLocalClean cp Clean)
  (seed : Nat) (ts : List Triple)
include hc

theorem runTaskP_clean (σ : G) (hσ : Clean σ) (h : Heap S) (t : Task) (ht : t.copyOK ts) :
    (runTaskP cp seed (σ, h) t).1 = (runTask (cp.clean ts) seed (liftHeap h) t).1 ∧
    Clean (runTaskP cp seed (σ, h) t).2.1 ∧
    liftHeap (runTaskP cp seed (σ, h) t).2.2 = (runTask (cp.clean ts) seed (liftHeap h) t).2 := by
  cases t with
  | env i e => exact ⟨rfl, hσ, rfl⟩
  | lrn i e => exact ⟨rfl, hσ, rfl⟩
  | val i e => exact ⟨rfl, hσ, rfl⟩
  | eval ei e li l vi v c =>
    have hcopy : c = decide (lrnCount ts l > 1) := ht
    have he : effSeed (cp.clean ts) seed v = effSeedP cp seed v := rfl
    by_cases hb : (c && !cp.copyable l) = true
    · have hctrue : c = true := by cases c <;> simp_all
      have hcop : cp.copyable l = false := by cases hcl : cp.copyable l <;> simp_all
      have hb' : cp.blocked ts l = true := by simp [CompsP.blocked, ← hcopy, hctrue, hcop]
      subst hctrue
      refine ⟨?_, ?_, ?_⟩
      · simp only [runTaskP, hb, if_true, runTask, he]
        simp only [CompsP.clean, liftHeap, hb', if_true]
      · simp only [runTaskP, hb, if_true]; exact hσ
      · simp only [runTaskP, hb, if_true, runTask, he]
    · have hb2 : (c && !cp.copyable l) = false := by simpa using hb
      have hb' : cp.blocked ts l = false := by simpa [CompsP.blocked, ← hcopy] using hb2
      have hsame := hc.same σ hσ v e (h l) (effSeedP cp seed v)
      have hst := hc.stays σ hσ v e (h l) (effSeedP cp seed v)
      refine ⟨?_, ?_, ?_⟩
      · simp only [runTaskP, hb2, Bool.false_eq_true, if_false, runTask, he]
        simp only [CompsP.clean, liftHeap, hb', Bool.false_eq_true, if_false, hsame]
      · simp only [runTaskP, hb2, Bool.false_eq_true, if_false]; exact hst
      · simp only [runTaskP, hb2, Bool.false_eq_true, if_false, runTask, he]
        simp only [CompsP.clean, liftHeap, hb', Bool.false_eq_true, if_false, hsame]
        cases c with
        | true => rfl
        | false =>
          funext x
          simp only [Bool.false_eq_true, if_false, Heap.set]
          by_cases hx : x = l
          · simp [hx, liftHeap, Heap.set]
          · simp [hx, liftHeap, Heap.set]

theorem runSeqP_clean : ∀ (tasks : List Task) (σ : G) (h : Heap S), Clean σ → (∀ t ∈ tasks, t.copyOK ts) →
    (runSeqP cp seed (σ, h) tasks).1 = (runSeq (cp.clean ts) seed (liftHeap h) tasks).1 ∧
    Clean (runSeqP cp seed (σ, h) tasks).2.1
  | [], σ, h, hσ, _ => ⟨rfl, hσ⟩
  | t :: tasks, σ, h, hσ, hts => by
    obtain ⟨h1, h2, h3⟩ := runTaskP_clean hc seed ts σ hσ h t (hts t mem_cons_self)
    have ih := runSeqP_clean tasks (runTaskP cp seed (σ, h) t).2.1 (runTaskP cp seed (σ, h) t).2.2 h2
      (fun t' ht' => hts t' (mem_cons_of_mem _ ht'))
    simp only [runSeqP, runSeq]
    rw [h1, ← h3]
    exact ⟨by rw [ih.1], ih.2⟩

theorem runLifeP_clean : ∀ (life : List (List Task)) (σ : G), Clean σ → (∀ ch ∈ life, ∀ t ∈ ch, t.copyOK ts) →
    (runLifeP cp seed σ life).1 = life.map (fun ch => (runSeq (cp.clean ts) seed (cp.clean ts).init ch).1) ∧
    Clean (runLifeP cp seed σ life).2
  | [], σ, hσ, _ => ⟨rfl, hσ⟩
  | ch :: life, σ, hσ, hts => by
    have h1 := runSeqP_clean hc seed ts ch σ cp.init hσ (hts ch mem_cons_self)
    have ih := runLifeP_clean life (runSeqP cp seed (σ, cp.init) ch).2.1 h1.2
      (fun ch' hch' => hts ch' (mem_cons_of_mem _ hch'))
    simp only [runLifeP, map_cons]
    exact ⟨by rw [h1.1, ih.1]; rfl, ih.2⟩

theorem flatMap_runLifeP (lives : List (List (List Task))) (hts : ∀ life ∈ lives, ∀ ch ∈ life, ∀ t ∈ ch, t.copyOK ts) :
    lives.flatMap (fun life => (runLifeP cp seed cp.σ0 life).1) =
      lives.flatten.map (fun ch => (runSeq (cp.clean ts) seed (cp.clean ts).init ch).1) := by
  induction lives with
  | nil => rfl
  | cons life lives ih =>
    simp only [flatMap_cons, flatten_cons, map_append]
    rw [(runLifeP_clean hc seed ts life cp.σ0 hc.fresh (hts life mem_cons_self)).1,
      ih (fun l hl => hts l (mem_cons_of_mem _ hl))]

end plc


section plc2
variable {G S P Row : Type} {cp : CompsP G S P Row} {Clean : G → Prop} (hc : ProcessLocalClean cp Clean)
  (cfg : Cfg) (sched : Sched) (seed : Nat) (ts : List Triple)
include hc

omit hc in
theorem chunksOfP_eq : chunksOfP cp cfg ts = chunksOf (cp.clean ts) cfg ts := rfl

/-- with process state: under the isolation hypothesis the events of a run — in-process from any
clean state, or on workers with any distribution of the chunks, any retirement and any interleaving
— are, each once, the pristine events of the tasks -/
theorem runEventsPFrom_perm (σ : G) (hσ : Clean σ) :
    (runEventsPFrom cp cfg sched seed σ ts).1 ~ (makeTasks .none ts).map (pristineEv (cp.clean ts) seed) := by
  have hflat := chunksOf_flatten (cp.clean ts) cfg ts
  have hAll : AtMostOnce (chunksOf (cp.clean ts) cfg ts).flatten := (makeTasks_atMostOnce ts).perm hflat.symm
  have hok : ∀ t ∈ (chunksOf (cp.clean ts) cfg ts).flatten, t.copyOK ts :=
    fun t ht => copyOK_of_mem (hflat.mem_iff.1 ht)
  unfold runEventsPFrom
  rw [chunksOfP_eq]
  by_cases hm : cfg.multi = true
  · simp only [hm, if_true]
    have hl : (retire cfg.mc (livesOf sched.assign (chunksOf (cp.clean ts) cfg ts))).flatten ~ chunksOf (cp.clean ts) cfg ts := by
      rw [retire_flatten]; exact livesOf_flatten _ _
    refine (interleave_perm _ _).trans ?_
    rw [flatMap_runLifeP hc seed ts]
    · refine ((hl.map _).flatten).trans ?_
      rw [flatten_map_runSeq (cp.clean ts) seed _ (fun ch hch => hAll.sublist (sublist_flatten_of_mem hch))]
      exact hflat.map _
    · intro life hlife ch hch t ht
      have : ch ∈ chunksOf (cp.clean ts) cfg ts := hl.mem_iff.1 (mem_flatten.2 ⟨life, hlife, hch⟩)
      exact hok t (mem_flatten.2 ⟨ch, this, ht⟩)
  · have hm' : cfg.multi = false := by simpa using hm
    simp only [hm', Bool.false_eq_true, if_false]
    rw [(runSeqP_clean hc seed ts _ σ cp.init hσ hok).1]
    have : liftHeap cp.init = (cp.clean ts).init := rfl
    rw [this, runSeq_pristine (cp.clean ts) seed _ _ (fun _ _ _ _ => rfl) hAll.noReuse]
    exact hflat.map _

theorem stateAfter_clean (σ : G) (hσ : Clean σ) : Clean (stateAfter cp cfg sched seed σ ts) := by
  unfold stateAfter runEventsPFrom
  by_cases hm : cfg.multi = true
  · simp only [hm, if_true]; exact hσ
  · have hm' : cfg.multi = false := by simpa using hm
    simp only [hm', Bool.false_eq_true, if_false]
    have hflat := chunksOf_flatten (cp.clean ts) cfg ts
    exact (runSeqP_clean hc seed ts _ σ cp.init hσ (fun t ht => copyOK_of_mem (hflat.mem_iff.1 ht))).2

/-- `run_eq_spec` with process state -/
theorem runPFrom_eq_spec' (σ : G) (hσ : Clean σ) : runPFrom cp cfg sched seed σ ts = resultSP cp seed ts := by
  unfold runPFrom resultSP
  apply result_of_records_perm (cp.clean ts) cfg [] seed ts
  unfold runRecords
  refine Perm.cons _ (Perm.filterMap _ ?_)
  exact (runEventsPFrom_perm hc cfg sched seed ts σ hσ).trans (runEvents_perm (cp.clean ts) cfg [] seed ts).symm

theorem runLogP_perm : runLogP cp cfg sched seed ts ~
    ((makeTasks .none ts).map (pristineEv (cp.clean ts) seed)).filterMap Ev.err? :=
  (runEventsPFrom_perm hc cfg sched seed ts cp.σ0 hc.fresh).filterMap _

end plc2

/-! ### the log at full strength -/

/-- the task raises when it is processed on pristine objects -/
def Task.fails {S P Row} (c : Comps S P Row) (seed : Nat) : Task → Bool
  | .env _ e => match c.envParams e with | .ok _ => false | .error _ => true
  | .lrn _ l => match c.lrnParams l with | .ok _ => false | .error _ => true
  | .val _ v => match c.valParams v with | .ok _ => false | .error _ => true
  | .eval _ e _ l _ v _ => match evalS c seed (e, l, v) with | .ok _ => false | .error _ => true

theorem pristineEv_err {S P Row} (c : Comps S P Row) (seed : Nat) (t : Task) :
    (pristineEv c seed t).err? = if t.fails c seed then some t else none := by
  cases t with
  | env i e => cases h : c.envParams e <;> simp [pristineEv, runTask, paramEv, Task.fails, h, Ev.err?]
  | lrn i e => cases h : c.lrnParams e <;> simp [pristineEv, runTask, paramEv, Task.fails, h, Ev.err?]
  | val i e => cases h : c.valParams e <;> simp [pristineEv, runTask, paramEv, Task.fails, h, Ev.err?]
  | eval ei e li l vi v cp =>
    rw [pristineEv_err_eval]; cases h : evalS c seed (e, l, v) <;> simp [Task.fails, h]

theorem filterMap_err_eq_filter {S P Row} (c : Comps S P Row) (seed : Nat) (tasks : List Task) :
    (tasks.map (pristineEv c seed)).filterMap Ev.err? = tasks.filter (fun t => t.fails c seed) := by
  induction tasks with
  | nil => rfl
  | cons t tasks ih =>
    simp only [map_cons, filterMap_cons, filter_cons, pristineEv_err, ih]
    cases t.fails c seed <;> rfl

/-- `log_exact`: the log holds, each exactly once, the tasks that raise on pristine objects — a
parameter task whose `params` raises, an evaluation task whose evaluation (wherever: read, predict,
learn, the evaluator itself) raises — and nothing else -/
theorem runLog_exact' {S P Row} (c : Comps S P Row) (cfg : Cfg) (picks : List Nat) (seed : Nat) (ts : List Triple) :
    runLog c cfg picks seed ts ~ (makeTasks .none ts).filter (fun t => t.fails c seed) := by
  rw [← filterMap_err_eq_filter]; exact runLog_perm c cfg picks seed ts

theorem runLogP_exact' {G S P Row} {cp : CompsP G S P Row} {Clean : G → Prop} (hc : ProcessLocalClean cp Clean)
    (cfg : Cfg) (sched : Sched) (seed : Nat) (ts : List Triple) :
    runLogP cp cfg sched seed ts ~ (makeTasks .none ts).filter (fun t => t.fails (cp.clean ts) seed) := by
  rw [← filterMap_err_eq_filter]; exact runLogP_perm hc cfg sched seed ts

/-- a parameter failure is logged for exactly that object and costs exactly its parameter row -/
theorem env_task_mem_makeTasks {ts : List Triple} {e : Nat} (he : e ∈ envsOf ts) :
    Task.env (idOf (envsOf ts) e) e ∈ makeTasks .none ts := by
  have h1 : e ∈ firsts (envsOf ts) := mem_firsts.2 he
  have h2 : ((e, idOf (envsOf ts) e) : Nat × Nat) ∈ (firsts (envsOf ts)).zipIdx := by
    rw [mem_zipIdx_iff_getElem?]
    simp only [idOf]
    exact getElem?_idxOf h1
  rw [← makeTasks_env] at h2
  obtain ⟨t, ht, h⟩ := mem_filterMap.1 h2
  cases t with
  | env i e' =>
    simp only [Task.env?, Option.some.injEq, Prod.mk.injEq] at h
    obtain ⟨rfl, rfl⟩ := h
    exact ht
  | _ => simp [Task.env?] at h


section plc3
variable {G S P Row : Type} {cp : CompsP G S P Row} {Clean : G → Prop} (hc : ProcessLocalClean cp Clean)
  (cfg : Cfg) (sched : Sched) (seed : Nat) (ts : List Triple)

theorem evalS_clean_blocked (t : Triple) (hb : cp.blocked ts t.2.1 = true) :
    evalS (cp.clean ts) seed t = .error .raised := by
  simp [evalS, CompsP.clean, hb]

theorem evalS_clean_free (t : Triple) (hb : cp.blocked ts t.2.1 = false) :
    evalS (cp.clean ts) seed t = (cp.evalP cp.σ0 t.2.2 t.1 (cp.init t.2.1) (effSeedP cp seed t.2.2)).1.1 := by
  simp [evalS, CompsP.clean, hb, effSeed, effSeedP]

include hc

theorem rowsOf_runP' (t : Triple) (ht : t ∈ ts) :
    (runP cp cfg sched seed ts).rowsOf (idKey ts t) =
      match evalS (cp.clean ts) seed t with
      | .ok rows => numbered rows
      | .error _ => [] := by
  rw [runP, runPFrom_eq_spec' hc cfg sched seed ts cp.σ0 hc.fresh]
  exact rowsOf_resultS (cp.clean ts) seed ts t ht

theorem failing_logged_P (t : Triple) (ht : t ∈ ts) (e : Err) (hfail : evalS (cp.clean ts) seed t = .error e) :
    Task.eval (idKey ts t).1 t.1 (idKey ts t).2.1 t.2.1 (idKey ts t).2.2 t.2.2 (decide (lrnCount ts t.2.1 > 1))
      ∈ runLogP cp cfg sched seed ts := by
  rw [(runLogP_exact' hc cfg sched seed ts).mem_iff, mem_filter]
  refine ⟨evalTask_mem_makeTasks ht, ?_⟩
  obtain ⟨e', l', v'⟩ := t
  simp only [Task.fails] at hfail ⊢
  rw [hfail]

/-- a learner object that cannot be copied and is listed in several triples: every one of its
triples is reported in the log, has no rows, and no other triple is affected -/
theorem copy_error_logged_per_triple' (t : Triple) (ht : t ∈ ts) (hb : cp.blocked ts t.2.1 = true) :
    Task.eval (idKey ts t).1 t.1 (idKey ts t).2.1 t.2.1 (idKey ts t).2.2 t.2.2 (decide (lrnCount ts t.2.1 > 1))
      ∈ runLogP cp cfg sched seed ts ∧
    (runP cp cfg sched seed ts).rowsOf (idKey ts t) = [] ∧
    ∀ t' ∈ ts, cp.blocked ts t'.2.1 = false → ∀ rows,
      (cp.evalP cp.σ0 t'.2.2 t'.1 (cp.init t'.2.1) (effSeedP cp seed t'.2.2)).1.1 = .ok rows →
      (runP cp cfg sched seed ts).rowsOf (idKey ts t') = numbered rows := by
  refine ⟨failing_logged_P hc cfg sched seed ts t ht _ (evalS_clean_blocked seed ts t hb), ?_, ?_⟩
  · rw [rowsOf_runP' hc cfg sched seed ts t ht, evalS_clean_blocked seed ts t hb]
  · intro t' ht' hb' rows hrows
    rw [rowsOf_runP' hc cfg sched seed ts t' ht', evalS_clean_free seed ts t' hb', hrows]

/-- `second_run_eq`: a run in a process that already executed another run (any triple list, seed,
configuration, schedule) gives what a run in a fresh process gives -/
theorem second_run_eq' (cfg₁ : Cfg) (sched₁ : Sched) (s₁ : Nat) (ts₁ : List Triple) :
    runPFrom cp cfg sched seed (stateAfter cp cfg₁ sched₁ s₁ cp.σ0 ts₁) ts = runP cp cfg sched seed ts := by
  rw [runP, runPFrom_eq_spec' hc cfg sched seed ts cp.σ0 hc.fresh,
    runPFrom_eq_spec' hc cfg sched seed ts _ (stateAfter_clean hc cfg₁ sched₁ s₁ ts₁ cp.σ0 hc.fresh)]

/-- `retire_invisible`: neither `maxchunksperchild` nor the number of processes, the distribution of
the chunks over the workers or the interleaving is visible in the result -/
theorem retire_invisible' (cfg' : Cfg) (sched' : Sched) :
    runP cp cfg sched seed ts = runP cp cfg' sched' seed ts := by
  rw [runP, runP, runPFrom_eq_spec' hc cfg sched seed ts cp.σ0 hc.fresh,
    runPFrom_eq_spec' hc cfg' sched' seed ts cp.σ0 hc.fresh]

end plc3

/-- `_max_chunker`: consecutive batches, none empty, none longer than `maxtasksperchunk` -/
theorem chunker_partition' {α} (mt : Nat) (l : List α) :
    (maxChunker mt l).flatten = l ∧ ∀ ch ∈ maxChunker mt l, ch ≠ [] ∧ (0 < mt → ch.length ≤ mt) :=
  ⟨maxChunker_flatten mt l, maxChunker_bound mt l⟩

/-! ### the parameter tables, row by row -/

theorem mem_paramTable {P} (params : Nat → Except Err P) (objs : List Nat) (i : Nat) (p : P) :
    (i, p) ∈ tableOf natLt ((firsts objs).zipIdx.filterMap (okPair params)) ↔
      ∃ o ∈ objs, i = idOf objs o ∧ params o = .ok p := by
  rw [mem_tableOf natLt_strictTotal _ _ (functional_zipIdx _ _), mem_filterMap]
  constructor
  · rintro ⟨⟨o, j⟩, hmem, hok⟩
    simp only [okPair] at hok
    cases hp : params o with
    | error _ => simp [hp] at hok
    | ok p' =>
      simp only [hp, Option.some.injEq, Prod.mk.injEq] at hok
      obtain ⟨rfl, rfl⟩ := hok
      have hj := zipIdx_idxOf (firsts_nodup objs) hmem
      rw [mem_zipIdx_iff_getElem?] at hmem
      exact ⟨o, mem_firsts.1 (mem_of_getElem? hmem), hj.symm, hp⟩
  · rintro ⟨o, ho, rfl, hp⟩
    refine ⟨(o, idOf objs o), ?_, by simp [okPair, hp]⟩
    rw [mem_zipIdx_iff_getElem?]
    exact getElem?_idxOf (mem_firsts.2 ho)

section tables
variable {S P Row : Type} (c : Comps S P Row) (cfg : Cfg) (picks : List Nat) (seed : Nat) (ts : List Triple)

theorem env_row_iff' (i : Nat) (p : P) : (i, p) ∈ (run c cfg picks seed ts).envs ↔
    ∃ e ∈ envsOf ts, i = idOf (envsOf ts) e ∧ c.envParams e = .ok p := by
  rw [run_eq_spec']; unfold resultS result; simp only; rw [spec_t1]; exact mem_paramTable _ _ _ _

theorem lrn_row_iff' (i : Nat) (p : P) : (i, p) ∈ (run c cfg picks seed ts).lrns ↔
    ∃ l ∈ lrnsOf ts, i = idOf (lrnsOf ts) l ∧ c.lrnParams l = .ok p := by
  rw [run_eq_spec']; unfold resultS result; simp only; rw [spec_t2]; exact mem_paramTable _ _ _ _

theorem val_row_iff' (i : Nat) (p : P) : (i, p) ∈ (run c cfg picks seed ts).vals ↔
    ∃ v ∈ valsOf ts, i = idOf (valsOf ts) v ∧ c.valParams v = .ok p := by
  rw [run_eq_spec']; unfold resultS result; simp only; rw [spec_t3]; exact mem_paramTable _ _ _ _

theorem exp_eq' : (run c cfg picks seed ts).exp = some (metaOf seed ts) := by
  rw [run_eq_spec']; unfold resultS result; simp only; rw [spec_t0]; rfl

/-- an environment whose `params` raises is reported in the log (once) and only its own row is missing -/
theorem env_params_failure' (e : Nat) (he : e ∈ envsOf ts) (err : Err) (hf : c.envParams e = .error err) :
    Task.env (idOf (envsOf ts) e) e ∈ runLog c cfg picks seed ts ∧
    ∀ p, (idOf (envsOf ts) e, p) ∉ (run c cfg picks seed ts).envs := by
  constructor
  · rw [(runLog_exact' c cfg picks seed ts).mem_iff, mem_filter]
    exact ⟨env_task_mem_makeTasks he, by simp [Task.fails, hf]⟩
  · intro p hp
    obtain ⟨e', he', hid, hok⟩ := (env_row_iff' c cfg picks seed ts _ p).1 hp
    have := idOf_inj he hid
    subst this
    rw [hf] at hok
    cases hok

end tables


/-! ### the isolation hypothesis is forced -/

/-- components whose evaluation leaks through the process state: it records the number of
evaluations this process has seen before (finding F3 has this shape: what an earlier evaluation left
in `learning_info` ends up in the rows of the next one) -/
def leakyComps : CompsP Nat Nat Nat Nat :=
  { envParams := fun e => .ok e, lrnParams := fun l => .ok l, valParams := fun v => .ok v,
    chunkKey := fun _ => none, init := fun _ => 0, valSeed := fun _ => none, copyable := fun _ => true,
    σ0 := 0, evalP := fun σ _ e s _ => ((.ok [e * 10 + σ], s), σ + 1) }

def leakyTriples : List Triple := [(0, 0, 0), (1, 1, 0)]

/-- not clean: the outcome depends on σ -/
theorem leaky_not_clean' : ¬ ∃ Clean, ProcessLocalClean leakyComps Clean := by
  rintro ⟨Clean, h⟩
  have h1 := h.stays 0 h.fresh 0 0 0 0
  have h2 := h.same 1 h1 0 0 0 0
  simp [leakyComps] at h2

theorem leaky_inprocess_ints' :
    (runP leakyComps ⟨1, 0, 0⟩ ⟨[], []⟩ 1 leakyTriples).ints = [((0, 0, 0), 1, 0), ((1, 1, 0), 1, 11)] := by
  decide +kernel

theorem leaky_workers_ints' :
    (runP leakyComps ⟨2, 0, 0⟩ ⟨[0, 1, 2, 3, 4, 5, 6], []⟩ 1 leakyTriples).ints = [((0, 0, 0), 1, 0), ((1, 1, 0), 1, 10)] := by
  decide +kernel

/-- one worker that is never retired behaves like the caller's process, retiring it after every chunk
restores the fresh-process rows: `maxchunksperchild` becomes visible -/
theorem leaky_one_worker_ints' :
    (runP leakyComps ⟨1, 7, 0⟩ ⟨[], []⟩ 1 leakyTriples).ints = [((0, 0, 0), 1, 0), ((1, 1, 0), 1, 11)] ∧
    (runP leakyComps ⟨1, 1, 0⟩ ⟨[], []⟩ 1 leakyTriples).ints = [((0, 0, 0), 1, 0), ((1, 1, 0), 1, 10)] := by
  decide +kernel

/-- … and a second run in the same process differs from a fresh one -/
theorem leaky_second_run' :
    (runPFrom leakyComps ⟨1, 0, 0⟩ ⟨[], []⟩ 1 (stateAfter leakyComps ⟨1, 0, 0⟩ ⟨[], []⟩ 1 0 leakyTriples) leakyTriples).ints
      = [((0, 0, 0), 1, 2), ((1, 1, 0), 1, 13)] := by
  decide +kernel


theorem lrn_task_mem_makeTasks {ts : List Triple} {l : Nat} (hl : l ∈ lrnsOf ts) :
    Task.lrn (idOf (lrnsOf ts) l) l ∈ makeTasks .none ts := by
  have h2 : ((l, idOf (lrnsOf ts) l) : Nat × Nat) ∈ (firsts (lrnsOf ts)).zipIdx := by
    rw [mem_zipIdx_iff_getElem?]; exact getElem?_idxOf (mem_firsts.2 hl)
  rw [← makeTasks_lrn] at h2
  obtain ⟨t, ht, h⟩ := mem_filterMap.1 h2
  cases t with
  | lrn i l' =>
    simp only [Task.lrn?, Option.some.injEq, Prod.mk.injEq] at h
    obtain ⟨rfl, rfl⟩ := h
    exact ht
  | _ => simp [Task.lrn?] at h

theorem val_task_mem_makeTasks {ts : List Triple} {v : Nat} (hv : v ∈ valsOf ts) :
    Task.val (idOf (valsOf ts) v) v ∈ makeTasks .none ts := by
  have h2 : ((v, idOf (valsOf ts) v) : Nat × Nat) ∈ (firsts (valsOf ts)).zipIdx := by
    rw [mem_zipIdx_iff_getElem?]; exact getElem?_idxOf (mem_firsts.2 hv)
  rw [← makeTasks_val] at h2
  obtain ⟨t, ht, h⟩ := mem_filterMap.1 h2
  cases t with
  | val i v' =>
    simp only [Task.val?, Option.some.injEq, Prod.mk.injEq] at h
    obtain ⟨rfl, rfl⟩ := h
    exact ht
  | _ => simp [Task.val?] at h

section tables2
variable {S P Row : Type} (c : Comps S P Row) (cfg : Cfg) (picks : List Nat) (seed : Nat) (ts : List Triple)

theorem lrn_params_failure' (l : Nat) (hl : l ∈ lrnsOf ts) (err : Err) (hf : c.lrnParams l = .error err) :
    Task.lrn (idOf (lrnsOf ts) l) l ∈ runLog c cfg picks seed ts ∧
    ∀ p, (idOf (lrnsOf ts) l, p) ∉ (run c cfg picks seed ts).lrns := by
  constructor
  · rw [(runLog_exact' c cfg picks seed ts).mem_iff, mem_filter]
    exact ⟨lrn_task_mem_makeTasks hl, by simp [Task.fails, hf]⟩
  · intro p hp
    obtain ⟨l', hl', hid, hok⟩ := (lrn_row_iff' c cfg picks seed ts _ p).1 hp
    have := idOf_inj hl hid
    subst this
    rw [hf] at hok
    cases hok

theorem val_params_failure' (v : Nat) (hv : v ∈ valsOf ts) (err : Err) (hf : c.valParams v = .error err) :
    Task.val (idOf (valsOf ts) v) v ∈ runLog c cfg picks seed ts ∧
    ∀ p, (idOf (valsOf ts) v, p) ∉ (run c cfg picks seed ts).vals := by
  constructor
  · rw [(runLog_exact' c cfg picks seed ts).mem_iff, mem_filter]
    exact ⟨val_task_mem_makeTasks hv, by simp [Task.fails, hf]⟩
  · intro p hp
    obtain ⟨v', hv', hid, hok⟩ := (val_row_iff' c cfg picks seed ts _ p).1 hp
    have := idOf_inj hv hid
    subst this
    rw [hf] at hok
    cases hok

/-- a parameter failure costs no interaction row: the rows of every triple are still those of `evalS` -/
theorem params_failure_keeps_rows' (t : Triple) (ht : t ∈ ts) :
    (run c cfg picks seed ts).rowsOf (idKey ts t) =
      match evalS c seed t with
      | .ok rows => numbered rows
      | .error _ => [] := rowsOf_run' c cfg picks seed ts t ht

end tables2

theorem rows_alone_P' {G S P Row : Type} {cp : CompsP G S P Row} {Clean : G → Prop} (hc : ProcessLocalClean cp Clean)
    (cfg : Cfg) (sched : Sched) (seed : Nat) (t : Triple) :
    (runP cp cfg sched seed [t]).rowsOf (0, 0, 0) =
      match (cp.evalP cp.σ0 t.2.2 t.1 (cp.init t.2.1) (effSeedP cp seed t.2.2)).1.1 with
      | .ok rows => numbered rows
      | .error _ => [] := by
  have h := rowsOf_runP' hc cfg sched seed [t] t (mem_singleton.2 rfl)
  rw [idKey_singleton] at h
  have hb : cp.blocked [t] t.2.1 = false := by
    obtain ⟨e, l, v⟩ := t
    simp [CompsP.blocked, lrnCount]
  rw [evalS_clean_free seed [t] t hb] at h
  exact h

theorem workers_partition_chunks' {α} (mc : Nat) (assign : List Nat) (chunks : List α) :
    (retire mc (livesOf assign chunks)).flatten ~ chunks := by
  rw [retire_flatten]; exact livesOf_flatten assign chunks


/-! ## phase 3: resumed runs -/

theorem makeAux_filter (cnt : Nat → Nat) (R : Restored) : ∀ (ts : List Triple) (envs lrns vals : List Nat),
    makeAux cnt R envs lrns vals ts = (makeAux cnt .none envs lrns vals ts).filter (Task.keep R)
  | [], _, _, _ => by simp [makeAux]
  | (e, l, v) :: ts, envs, lrns, vals => by
    have ih := makeAux_filter cnt R ts (addFirst envs e) (addFirst lrns l) (addFirst vals v)
    simp only [makeAux, Restored.none, not_mem_nil, if_false, filter_append, ih]
    congr 1
    · by_cases h : e ∈ envs <;> by_cases h2 : envs.length ∈ R.envs <;> simp [h, h2, Task.keep]
    congr 1
    · by_cases h : l ∈ lrns <;> by_cases h2 : lrns.length ∈ R.lrns <;> simp [h, h2, Task.keep]
    congr 1
    · by_cases h : v ∈ vals <;> by_cases h2 : vals.length ∈ R.vals <;> simp [h, h2, Task.keep]
    congr 1
    · by_cases h : ((addFirst envs e).idxOf e, (addFirst lrns l).idxOf l, (addFirst vals v).idxOf v) ∈ R.outs <;>
        simp [h, Task.keep]

/-- `MakeTasks` with a restored Result lists the tasks of the fresh run minus the restored ones -/
theorem makeTasks_restored (R : Restored) (ts : List Triple) :
    makeTasks R ts = (makeTasks .none ts).filter (Task.keep R) := makeAux_filter _ R ts [] [] []

theorem chunksOn_flatten {S P Row} (c : Comps S P Row) (cfg : Cfg) (tasks : List Task) :
    (chunksOn c cfg tasks).flatten ~ tasks :=
  (flatten_map_perm procOrder procOrder_perm _).trans (chunkTasks_flatten _ _ _)

/-- the events of any task list that never re-uses a learner cell after an in-place evaluation -/
theorem runEventsOn_perm {S P Row} (c : Comps S P Row) (cfg : Cfg) (picks : List Nat) (seed : Nat)
    (tasks : List Task) (hA : AtMostOnce tasks) :
    (runEventsOn c cfg picks seed tasks).1 ~ tasks.map (pristineEv c seed) := by
  have hflat := chunksOn_flatten c cfg tasks
  have hAll : AtMostOnce (chunksOn c cfg tasks).flatten := hA.perm hflat.symm
  unfold runEventsOn
  by_cases hm : cfg.multi = true
  · simp only [hm, if_true]
    refine (interleave_perm _ _).trans ?_
    rw [flatten_map_runSeq c seed _ (fun ch hch => hAll.sublist (sublist_flatten_of_mem hch))]
    exact hflat.map _
  · have hm' : cfg.multi = false := by simpa using hm
    simp only [hm', Bool.false_eq_true, if_false]
    rw [runSeq_pristine c seed _ c.init (fun _ _ _ _ => rfl) hAll.noReuse]
    exact hflat.map _

/-- tag + key of a task (the key of the record it yields) -/
def Task.tkey : Task → Nat × Key3
  | .env i _ => (1, (i, 0, 0))
  | .lrn i _ => (2, (i, 0, 0))
  | .val i _ => (3, (i, 0, 0))
  | .eval ei _ li _ vi _ _ => (4, (ei, li, vi))

set_option linter.unnecessarySeqFocus false in
theorem pristineRec_rkey {S P Row} (c : Comps S P Row) (seed : Nat) (t : Task) (r : Rec P Row)
    (h : pristineRec c seed t = some r) : r.rkey = t.tkey := by
  cases t with
  | env i e => rw [pristineRec_env] at h; cases hp : c.envParams e <;> simp_all [Rec.rkey, Task.tkey] <;> subst h <;> rfl
  | lrn i e => rw [pristineRec_lrn] at h; cases hp : c.lrnParams e <;> simp_all [Rec.rkey, Task.tkey] <;> subst h <;> rfl
  | val i e => rw [pristineRec_val] at h; cases hp : c.valParams e <;> simp_all [Rec.rkey, Task.tkey] <;> subst h <;> rfl
  | eval ei e li l vi v cp =>
    rw [pristineRec_eval] at h; cases hp : evalS c seed (e, l, v) <;> simp_all [Rec.rkey, Task.tkey] <;> subst h <;> rfl

/-- in the task list of a fresh run a task is determined by its tag and key -/
theorem tkey_inj {ts : List Triple} {t t' : Task} (ht : t ∈ makeTasks .none ts) (ht' : t' ∈ makeTasks .none ts)
    (h : t.tkey = t'.tkey) : t = t' := by
  cases t <;> cases t' <;> simp only [Task.tkey, Prod.mk.injEq] at h <;> try (exact absurd h.1 (by decide))
  · obtain ⟨_, ⟨rfl, _⟩⟩ := h
    have h1 := mem_makeTasks_env ht; have h2 := mem_makeTasks_env ht'
    rw [idOf_inj h1.1 (h1.2.symm.trans h2.2)]
  · obtain ⟨_, ⟨rfl, _⟩⟩ := h
    have h1 := mem_makeTasks_lrn ht; have h2 := mem_makeTasks_lrn ht'
    rw [idOf_inj h1.1 (h1.2.symm.trans h2.2)]
  · obtain ⟨_, ⟨rfl, _⟩⟩ := h
    have h1 := mem_makeTasks_val ht; have h2 := mem_makeTasks_val ht'
    rw [idOf_inj h1.1 (h1.2.symm.trans h2.2)]
  · obtain ⟨_, ⟨rfl, rfl, rfl⟩⟩ := h
    have h1 := mem_makeTasks_eval ht; have h2 := mem_makeTasks_eval ht'
    have := idKey_inj h1.1 (h1.2.1.symm.trans h2.2.1)
    simp only [Prod.mk.injEq] at this
    obtain ⟨rfl, rfl, rfl⟩ := this
    rw [h1.2.2, h2.2.2]

theorem keep_restoredOf {P Row} (old : List (Rec P Row)) (t : Task) :
    Task.keep (restoredOf old) t = true ↔ ∀ r ∈ old, r.rkey ≠ t.tkey := by
  cases t with
  | env i e =>
    simp only [Task.keep, Task.tkey]
    rw [decide_eq_true_iff]
    simp only [restoredOf]
    constructor
    · intro h r hr hk
      cases r <;> simp only [Rec.rkey, Prod.mk.injEq] at hk <;> try (exact absurd hk.1 (by decide))
      obtain ⟨_, ⟨rfl, _⟩⟩ := hk
      exact h (mem_map.2 ⟨_, mem_filterMap.2 ⟨_, hr, rfl⟩, rfl⟩)
    · intro h hmem
      obtain ⟨⟨j, p⟩, hjp, rfl⟩ := mem_map.1 hmem
      obtain ⟨r, hr, hrp⟩ := mem_filterMap.1 hjp
      cases r <;> simp [Rec.t1?] at hrp
      obtain ⟨rfl, rfl⟩ := hrp
      exact h _ hr rfl
  | lrn i e =>
    simp only [Task.keep, Task.tkey]
    rw [decide_eq_true_iff]
    simp only [restoredOf]
    constructor
    · intro h r hr hk
      cases r <;> simp only [Rec.rkey, Prod.mk.injEq] at hk <;> try (exact absurd hk.1 (by decide))
      obtain ⟨_, ⟨rfl, _⟩⟩ := hk
      exact h (mem_map.2 ⟨_, mem_filterMap.2 ⟨_, hr, rfl⟩, rfl⟩)
    · intro h hmem
      obtain ⟨⟨j, p⟩, hjp, rfl⟩ := mem_map.1 hmem
      obtain ⟨r, hr, hrp⟩ := mem_filterMap.1 hjp
      cases r <;> simp [Rec.t2?] at hrp
      obtain ⟨rfl, rfl⟩ := hrp
      exact h _ hr rfl
  | val i e =>
    simp only [Task.keep, Task.tkey]
    rw [decide_eq_true_iff]
    simp only [restoredOf]
    constructor
    · intro h r hr hk
      cases r <;> simp only [Rec.rkey, Prod.mk.injEq] at hk <;> try (exact absurd hk.1 (by decide))
      obtain ⟨_, ⟨rfl, _⟩⟩ := hk
      exact h (mem_map.2 ⟨_, mem_filterMap.2 ⟨_, hr, rfl⟩, rfl⟩)
    · intro h hmem
      obtain ⟨⟨j, p⟩, hjp, rfl⟩ := mem_map.1 hmem
      obtain ⟨r, hr, hrp⟩ := mem_filterMap.1 hjp
      cases r <;> simp [Rec.t3?] at hrp
      obtain ⟨rfl, rfl⟩ := hrp
      exact h _ hr rfl
  | eval ei e li l vi v cp =>
    simp only [Task.keep, Task.tkey]
    rw [decide_eq_true_iff]
    simp only [restoredOf]
    constructor
    · intro h r hr hk
      cases r <;> simp only [Rec.rkey, Prod.mk.injEq] at hk <;> try (exact absurd hk.1 (by decide))
      obtain ⟨_, rfl⟩ := hk
      exact h (mem_map.2 ⟨_, mem_filterMap.2 ⟨_, hr, rfl⟩, rfl⟩)
    · intro h hmem
      obtain ⟨⟨k, rows⟩, hkr, hk⟩ := mem_map.1 hmem
      obtain ⟨r, hr, hrp⟩ := mem_filterMap.1 hkr
      cases r <;> simp [Rec.t4?] at hrp
      obtain ⟨rfl, rfl⟩ := hrp
      simp only at hk
      subst hk
      exact h _ hr rfl


section resumed
variable {S P Row : Type} (c : Comps S P Row) (cfg : Cfg) (picks : List Nat) (seed : Nat) (ts : List Triple)

/-- the records the log holds when the tasks selected by `done` were finished before the interruption (a finished
task that raised left none) -/
def doneRecs (done : Task → Bool) : List (Rec P Row) :=
  ((makeTasks .none ts).filter done).filterMap (pristineRec c seed)

theorem filterMap_rec_eq (tasks : List Task) :
    (tasks.map (pristineEv c seed)).filterMap Ev.rec? = tasks.filterMap (pristineRec c seed) := by
  rw [filterMap_map]; rfl

/-- which tasks a resumed run keeps: exactly those that left no record -/
theorem keep_iff (done : Task → Bool) (old : List (Rec P Row)) (hold : old ~ doneRecs c seed ts done)
    (t : Task) (ht : t ∈ makeTasks .none ts) :
    Task.keep (restoredOf old) t = !(done t && (pristineRec c seed t).isSome) := by
  rw [Bool.eq_iff_iff, keep_restoredOf]
  simp only [Bool.not_eq_true', Bool.and_eq_false_imp, Option.isSome_eq_false_iff, Option.isNone_iff_eq_none]
  constructor
  · intro h hd
    cases hr : pristineRec c seed t with
    | none => rfl
    | some r =>
      have hmem : r ∈ old := hold.mem_iff.2 (mem_filterMap.2 ⟨t, mem_filter.2 ⟨ht, hd⟩, hr⟩)
      exact absurd (pristineRec_rkey c seed t r hr) (h r hmem)
  · intro h r hr hk
    obtain ⟨t', ht', hrt'⟩ := mem_filterMap.1 (hold.mem_iff.1 hr)
    obtain ⟨ht'm, hd'⟩ := mem_filter.1 ht'
    have hk' := pristineRec_rkey c seed t' r hrt'
    have : t' = t := tkey_inj ht'm ht (hk'.symm.trans hk)
    subst this
    rw [h hd'] at hrt'
    cases hrt'

/-- old records + the records of the resumed run = the records of the fresh run (as multisets) -/
theorem resumed_records_perm (done : Task → Bool) (old : List (Rec P Row)) (hold : old ~ doneRecs c seed ts done) :
    old ++ (runEventsOn c cfg picks seed (resumedTasks old ts)).1.filterMap Ev.rec? ~
      (makeTasks .none ts).filterMap (pristineRec c seed) := by
  let p : Task → Bool := fun t => done t && (pristineRec c seed t).isSome
  have hnew : resumedTasks old ts = (makeTasks .none ts).filter (fun t => !p t) := by
    rw [resumedTasks, makeTasks_restored]
    apply filter_congr
    intro t ht
    exact keep_iff c seed ts done old hold t ht
  have hA : AtMostOnce (resumedTasks old ts) := by
    rw [hnew]; exact (makeTasks_atMostOnce ts).sublist filter_sublist
  have h1 := (runEventsOn_perm c cfg picks seed _ hA).filterMap Ev.rec?
  rw [filterMap_rec_eq] at h1
  have h1' : filterMap (pristineRec c seed) (resumedTasks old ts) =
      filterMap (pristineRec c seed) ((makeTasks .none ts).filter (fun t => !p t)) := by rw [hnew]
  rw [h1'] at h1
  have h2 : doneRecs c seed ts done = ((makeTasks .none ts).filter p).filterMap (pristineRec c seed) := by
    unfold doneRecs
    induction makeTasks .none ts with
    | nil => rfl
    | cons t tl ih =>
      simp only [filter_cons, p]
      cases hd : done t <;> cases hr : pristineRec c seed t <;> simp [hr, ih, p]
  refine (hold.append h1).trans ?_
  rw [h2, ← filterMap_append]
  exact (filter_append_perm p (makeTasks .none ts)).filterMap _

/-- `run_eq_spec_restored` -/
theorem run_eq_spec_restored' (done : Task → Bool) (old : List (Rec P Row)) (hold : old ~ doneRecs c seed ts done) :
    runResumed c cfg picks seed ts old = resultS c seed ts := by
  unfold runResumed
  apply result_of_records_perm c cfg [] seed ts
  unfold runRecords
  refine Perm.cons _ ?_
  refine (resumed_records_perm c cfg picks seed ts done old hold).trans ?_
  rw [← filterMap_rec_eq]
  exact ((runEvents_perm c cfg [] seed ts).filterMap _).symm

/-- nothing restored: the resumed run is the fresh run -/
theorem runResumed_nil : runResumed c cfg picks seed ts [] = run c cfg picks seed ts := rfl

end resumed


section local_
variable {S P Row : Type} (c : Comps S P Row) (cfg : Cfg) (picks : List Nat) (seed : Nat) (ts : List Triple)

theorem mem_numberRows (kr : Key3 × List Row) (k : Key3) (i : Nat) (row : Row) :
    (k, i, row) ∈ numberRows kr ↔ k = kr.1 ∧ (i, row) ∈ numbered kr.2 := by
  simp only [numberRows, numbered, mem_map, Prod.mk.injEq]
  constructor
  · rintro ⟨ri, hri, rfl, rfl, rfl⟩; exact ⟨rfl, ri, hri, rfl, rfl⟩
  · rintro ⟨rfl, ri, hri, rfl, rfl⟩; exact ⟨ri, hri, rfl, rfl, rfl⟩

/-- the interactions table, row by row: exactly the numbered rows of the listed triples whose evaluation
(alone, pristine learner) does not raise, under their first-appearance ids -/
theorem mem_ints_iff' (k : Key3) (i : Nat) (row : Row) :
    (k, i, row) ∈ (run c cfg picks seed ts).ints ↔
      ∃ t ∈ ts, ∃ rows, evalS c seed t = .ok rows ∧ k = idKey ts t ∧ (i, row) ∈ numbered rows := by
  rw [run_eq_spec']; unfold resultS result; simp only
  rw [spec_t4, mem_flatMap]
  constructor
  · rintro ⟨kr, hkr, hx⟩
    rw [mem_tableOf key3Lt_strictTotal _ _ (functional_okRows c seed ts)] at hkr
    obtain ⟨t, ht, hok⟩ := mem_filterMap.1 hkr
    simp only [okRows] at hok
    cases hr : evalS c seed t with
    | error _ => simp [hr] at hok
    | ok rows =>
      simp only [hr, Option.some.injEq] at hok
      subst hok
      obtain ⟨rfl, hmem⟩ := (mem_numberRows _ k i row).1 hx
      exact ⟨t, ht, rows, hr, rfl, hmem⟩
  · rintro ⟨t, ht, rows, hr, rfl, hmem⟩
    refine ⟨(idKey ts t, rows), ?_, (mem_numberRows _ _ i row).2 ⟨rfl, hmem⟩⟩
    rw [mem_tableOf key3Lt_strictTotal _ _ (functional_okRows c seed ts)]
    exact mem_filterMap.2 ⟨t, ht, by simp [okRows, hr]⟩

/-- `failure_local`: whatever set of triples fails, in every configuration and schedule the Result holds exactly
the rows of the non-failing triples, each being the rows of its alone run (any configuration) -/
theorem failure_local' (cfg' : Cfg) (picks' : List Nat) (k : Key3) (i : Nat) (row : Row) :
    (k, i, row) ∈ (run c cfg picks seed ts).ints ↔
      ∃ t ∈ ts, (∃ rows, evalS c seed t = .ok rows) ∧ k = idKey ts t ∧
        (i, row) ∈ (run c cfg' picks' seed [t]).rowsOf (0, 0, 0) := by
  rw [mem_ints_iff']
  constructor
  · rintro ⟨t, ht, rows, hr, hk, hmem⟩
    refine ⟨t, ht, ⟨rows, hr⟩, hk, ?_⟩
    have := rowsOf_run' c cfg' picks' seed [t] t (mem_singleton.2 rfl)
    rw [idKey_singleton, hr] at this
    rw [this]; exact hmem
  · rintro ⟨t, ht, ⟨rows, hr⟩, hk, hmem⟩
    have := rowsOf_run' c cfg' picks' seed [t] t (mem_singleton.2 rfl)
    rw [idKey_singleton, hr] at this
    rw [this] at hmem
    exact ⟨t, ht, rows, hr, hk, hmem⟩

end local_

/-! ## phase 4 (a): resumed runs with process state -/

section resumedP
variable {G S P Row : Type} {cp : CompsP G S P Row} {Clean : G → Prop} (hc : ProcessLocalClean cp Clean)
  (cfg : Cfg) (sched : Sched) (seed : Nat) (ts : List Triple)
include hc

omit hc in
theorem chunksOnP_eq (tasks : List Task) : chunksOnP cp cfg tasks = chunksOn (cp.clean ts) cfg tasks := rfl

/-- processing ANY task list whose copy flags are those of `MakeTasks ts` and which never re-uses a learner cell after
an in-place evaluation: in-process from any clean state, or on workers under any assignment, retirement and
interleaving, the events are, each once, the pristine events of the tasks -/
theorem runEventsOnPFrom_perm (σ : G) (hσ : Clean σ) (tasks : List Task) (hA : AtMostOnce tasks)
    (hokT : ∀ t ∈ tasks, t.copyOK ts) :
    (runEventsOnPFrom cp cfg sched seed σ tasks).1 ~ tasks.map (pristineEv (cp.clean ts) seed) := by
  have hflat := chunksOn_flatten (cp.clean ts) cfg tasks
  have hAll : AtMostOnce (chunksOn (cp.clean ts) cfg tasks).flatten := hA.perm hflat.symm
  have hok : ∀ t ∈ (chunksOn (cp.clean ts) cfg tasks).flatten, t.copyOK ts :=
    fun t ht => hokT t (hflat.mem_iff.1 ht)
  unfold runEventsOnPFrom
  rw [chunksOnP_eq cfg ts]
  by_cases hm : cfg.multi = true
  · simp only [hm, if_true]
    have hl : (retire cfg.mc (livesOf sched.assign (chunksOn (cp.clean ts) cfg tasks))).flatten ~ chunksOn (cp.clean ts) cfg tasks := by
      rw [retire_flatten]; exact livesOf_flatten _ _
    refine (interleave_perm _ _).trans ?_
    rw [flatMap_runLifeP hc seed ts]
    · refine ((hl.map _).flatten).trans ?_
      rw [flatten_map_runSeq (cp.clean ts) seed _ (fun ch hch => hAll.sublist (sublist_flatten_of_mem hch))]
      exact hflat.map _
    · intro life hlife ch hch t ht
      have : ch ∈ chunksOn (cp.clean ts) cfg tasks := hl.mem_iff.1 (mem_flatten.2 ⟨life, hlife, hch⟩)
      exact hok t (mem_flatten.2 ⟨ch, this, ht⟩)
  · have hm' : cfg.multi = false := by simpa using hm
    simp only [hm', Bool.false_eq_true, if_false]
    rw [(runSeqP_clean hc seed ts _ σ cp.init hσ hok).1]
    have : liftHeap cp.init = (cp.clean ts).init := rfl
    rw [this, runSeq_pristine (cp.clean ts) seed _ _ (fun _ _ _ _ => rfl) hAll.noReuse]
    exact hflat.map _

omit hc in
theorem resumedTasks_sublist (old : List (Rec P Row)) : (resumedTasks old ts).Sublist (makeTasks .none ts) := by
  rw [resumedTasks, makeTasks_restored]; exact filter_sublist

/-- `run_eq_spec_restored` with process state -/
theorem runResumedPFrom_eq_spec' (σ : G) (hσ : Clean σ) (done : Task → Bool) (old : List (Rec P Row))
    (hold : old ~ doneRecs (cp.clean ts) seed ts done) :
    runResumedPFrom cp cfg sched seed σ ts old = resultSP cp seed ts := by
  have hsub := resumedTasks_sublist (P := P) (Row := Row) ts old
  have hA : AtMostOnce (resumedTasks old ts) := (makeTasks_atMostOnce ts).sublist hsub
  have hok : ∀ t ∈ resumedTasks old ts, t.copyOK ts := fun t ht => copyOK_of_mem (hsub.subset ht)
  have h1 : (runEventsOnPFrom cp cfg sched seed σ (resumedTasks old ts)).1 ~
      (runEventsOn (cp.clean ts) cfg [] seed (resumedTasks old ts)).1 :=
    (runEventsOnPFrom_perm hc cfg sched seed ts σ hσ _ hA hok).trans
      (runEventsOn_perm (cp.clean ts) cfg [] seed _ hA).symm
  unfold runResumedPFrom resultSP
  apply result_of_records_perm (cp.clean ts) cfg [] seed ts
  unfold runRecords
  refine Perm.cons _ ?_
  refine (Perm.append_left old (h1.filterMap Ev.rec?)).trans ?_
  refine (resumed_records_perm (cp.clean ts) cfg [] seed ts done old hold).trans ?_
  rw [← filterMap_rec_eq]
  exact ((runEvents_perm (cp.clean ts) cfg [] seed ts).filterMap _).symm

/-- a resumed in-process run leaves the caller's process clean -/
theorem resumed_state_clean' (σ : G) (hσ : Clean σ) (old : List (Rec P Row)) :
    Clean (runEventsOnPFrom cp cfg sched seed σ (resumedTasks old ts)).2.1 := by
  unfold runEventsOnPFrom
  by_cases hm : cfg.multi = true
  · simp only [hm, if_true]; exact hσ
  · have hm' : cfg.multi = false := by simpa using hm
    simp only [hm', Bool.false_eq_true, if_false]
    have hsub := resumedTasks_sublist (P := P) (Row := Row) ts old
    have hflat := chunksOn_flatten (cp.clean ts) cfg (resumedTasks old ts)
    rw [chunksOnP_eq cfg ts]
    exact (runSeqP_clean hc seed ts _ σ cp.init hσ
      (fun t ht => copyOK_of_mem (hsub.subset (hflat.mem_iff.1 ht)))).2

end resumedP

/-! ## phase 4 (b): SequentialCB as the evaluation component -/

section seqcb
variable {σ V R P : Type} [DecidableEq V] [Coba.C06.RewardFn R V] (w : SeqWorld σ V R P)

/-- what the spec says for one triple of a `SeqWorld`: `SequentialCB.evaluate` on the pristine learner -/
theorem evalS_seqComps (seed : Nat) (t : Triple) :
    evalS (seqComps w) seed t =
      match w.envRows t.1 with
      | .error _ => .error .raised
      | .ok rows =>
        (seqOutcome (R := R) (t.2.1, w.init t.2.1)
          (Coba.C06.evaluate (w.cfgOf t.2.2) (w.learner t.2.1) (w.batch t.1) rows (w.init t.2.1))).1 := by
  obtain ⟨e, l, v⟩ := t
  simp only [evalS, seqComps, seqEval]
  cases w.envRows e <;> rfl

omit [DecidableEq V] [Coba.C06.RewardFn R V] in
theorem seqOutcome_ok_iff (ls : Nat × σ) (o : Coba.C06.Outcome (σ × List (Coba.C06.Call V) × List (Coba.C06.Row V R)))
    (rows : List (Coba.C06.Row V R)) :
    (seqOutcome ls o).1 = .ok rows ↔ ∃ s calls, o = .ok (s, calls, rows) := by
  cases o with
  | ok r => obtain ⟨s, calls, rs⟩ := r; simp [seqOutcome]
  | rejected k => simp [seqOutcome]
  | crashed e => simp [seqOutcome]

/-- rows of a whole experiment over SequentialCB = rows of `C06.evaluate` on the pristine learner, for every
configuration and schedule -/
theorem sequentialCB_rows' (cfg : Cfg) (picks : List Nat) (seed : Nat) (ts : List Triple) (t : Triple) (ht : t ∈ ts)
    (inter : List (Coba.C06.Dict (Coba.C06.Fld V R))) (henv : w.envRows t.1 = .ok inter) :
    (run (seqComps w) cfg picks seed ts).rowsOf (idKey ts t) =
      match Coba.C06.evaluate (w.cfgOf t.2.2) (w.learner t.2.1) (w.batch t.1) inter (w.init t.2.1) with
      | .ok r => numbered r.2.2
      | .rejected _ => []
      | .crashed _ => [] := by
  rw [rowsOf_run' (seqComps w) cfg picks seed ts t ht, evalS_seqComps, henv]
  dsimp only
  generalize Coba.C06.evaluate (w.cfgOf t.2.2) (w.learner t.2.1) (w.batch t.1) inter (w.init t.2.1) = o
  cases o <;> rfl

theorem sequentialCB_read_failure' (cfg : Cfg) (picks : List Nat) (seed : Nat) (ts : List Triple) (t : Triple) (ht : t ∈ ts)
    (err : Err) (henv : w.envRows t.1 = .error err) :
    (run (seqComps w) cfg picks seed ts).rowsOf (idKey ts t) = [] := by
  rw [rowsOf_run' (seqComps w) cfg picks seed ts t ht, evalS_seqComps, henv]

end seqcb

/-- without the isolation hypothesis a resumed run differs from the fresh in-process run: the first evaluation is
restored from the log, the second one now starts in a fresh process state -/
theorem leaky_resumed_ints' :
    (runResumedP leakyComps ⟨1, 0, 0⟩ ⟨[], []⟩ 1 leakyTriples [Rec.T4 (0, 0, 0) [0]]).ints
      = [((0, 0, 0), 1, 0), ((1, 1, 0), 1, 10)] := by
  decide +kernel

/-! ## phase 5: PMF / learning_info learners in the SequentialCB experiment model -/

section seqx
variable {σ V R P : Type} [DecidableEq V] [Coba.C06.RewardFn R V] (w : SeqWorldX σ V R P)

/-- a world without extended learner objects is the phase-4 world -/
theorem seqCompsX_plain' (w0 : SeqWorld σ V R P) : seqCompsX ⟨w0, fun _ => none⟩ = seqComps w0 := rfl

/-- an ordinary learner object of an extended world is evaluated as in phase 4 -/
theorem evalS_seqCompsX_plain (seed : Nat) (t : Triple) (hx : w.ext t.2.1 = none) :
    evalS (seqCompsX w) seed t = evalS (seqComps w.base) seed t := by
  obtain ⟨e, l, v⟩ := t
  simp only [evalS, seqCompsX, seqComps, seqEvalX] at hx ⊢
  rw [hx]; rfl

theorem evalS_seqCompsX_ext (seed : Nat) (t : Triple) (x : SeqExt σ V) (hx : w.ext t.2.1 = some x)
    (inter : List (Coba.C06.Dict (Coba.C06.Fld V R))) (henv : w.base.envRows t.1 = .ok inter) :
    evalS (seqCompsX w) seed t =
      (seqEvalExt w.base t.2.2 t.1 (t.2.1, w.base.init t.2.1) (effSeed (seqCompsX w) seed t.2.2) inter x).1 := by
  obtain ⟨e, l, v⟩ := t
  simp only [evalS, seqCompsX, seqEvalX] at hx henv ⊢
  rw [hx]; dsimp only; rw [henv]

theorem effSeed_seqCompsX (seed v : Nat) : effSeed (seqCompsX w) seed v = (w.base.valSeed v).getD seed := rfl

/-- rows of a triple whose learner answers with PMFs: `SequentialCB.evaluate` on the pristine learner behind a
`SafeLearner` whose generator is freshly seeded with the evaluator's seed or else the experiment seed -/
theorem sequentialCB_pmf_rows' (cfg : Cfg) (picks : List Nat) (seed : Nat) (ts : List Triple) (t : Triple) (ht : t ∈ ts)
    (Pm : Coba.C06.PmfLearner σ V) (dflt : V) (hx : w.ext t.2.1 = some (.pmf Pm dflt))
    (inter : List (Coba.C06.Dict (Coba.C06.Fld V R))) (henv : w.base.envRows t.1 = .ok inter) :
    (run (seqCompsX w) cfg picks seed ts).rowsOf (idKey ts t) =
      match Coba.C06.evaluate (w.base.cfgOf t.2.2) (Coba.C06.wrapPmf Pm dflt) (w.base.batch t.1) inter
              (w.base.init t.2.1, Coba.C05.normInt (Int.ofNat ((w.base.valSeed t.2.2).getD seed))) with
      | .ok r => numbered r.2.2
      | .rejected _ => []
      | .crashed _ => [] := by
  rw [rowsOf_run' (seqCompsX w) cfg picks seed ts t ht, evalS_seqCompsX_ext w seed t _ hx inter henv, effSeed_seqCompsX]
  simp only [seqEvalExt]
  generalize Coba.C06.evaluate (w.base.cfgOf t.2.2) (Coba.C06.wrapPmf Pm dflt) (w.base.batch t.1) inter
    (w.base.init t.2.1, Coba.C05.normInt (Int.ofNat ((w.base.valSeed t.2.2).getD seed))) = o
  cases o <;> rfl

/-- rows of a triple whose learner writes `learning_info` (un-batched environment): the yielded rows of `evaluateI` on
the pristine learner — the info of an interaction is in that interaction's row and nowhere else -/
theorem sequentialCB_info_rows' (cfg : Cfg) (picks : List Nat) (seed : Nat) (ts : List Triple) (t : Triple) (ht : t ∈ ts)
    (L : Coba.C06.InfoLearner σ V) (hx : w.ext t.2.1 = some (.info L))
    (inter : List (Coba.C06.Dict (Coba.C06.Fld V R))) (henv : w.base.envRows t.1 = .ok inter)
    (hb : w.base.batch t.1 = none) :
    (run (seqCompsX w) cfg picks seed ts).rowsOf (idKey ts t) =
      match Coba.C06.evaluateI (w.base.cfgOf t.2.2) L inter (w.base.init t.2.1) with
      | .ok r => numbered r.2.2.1
      | .rejected _ => []
      | .crashed _ => [] := by
  rw [rowsOf_run' (seqCompsX w) cfg picks seed ts t ht, evalS_seqCompsX_ext w seed t _ hx inter henv]
  simp only [seqEvalExt, hb]
  generalize Coba.C06.evaluateI (w.base.cfgOf t.2.2) L inter (w.base.init t.2.1) = o
  cases o <;> rfl

/-- an ordinary learner object keeps its phase-4 rows in an extended world, whatever the other learner objects are -/
theorem sequentialCB_ext_plain_rows' (cfg : Cfg) (picks : List Nat) (seed : Nat) (ts : List Triple) (t : Triple) (ht : t ∈ ts)
    (hx : w.ext t.2.1 = none) :
    (run (seqCompsX w) cfg picks seed ts).rowsOf (idKey ts t) =
      (run (seqComps w.base) cfg picks seed ts).rowsOf (idKey ts t) := by
  rw [rowsOf_run' (seqCompsX w) cfg picks seed ts t ht, rowsOf_run' (seqComps w.base) cfg picks seed ts t ht,
    evalS_seqCompsX_plain w seed t hx]

theorem sequentialCB_ext_read_failure' (cfg : Cfg) (picks : List Nat) (seed : Nat) (ts : List Triple) (t : Triple)
    (ht : t ∈ ts) (err : Err) (henv : w.base.envRows t.1 = .error err) :
    (run (seqCompsX w) cfg picks seed ts).rowsOf (idKey ts t) = [] := by
  rw [rowsOf_run' (seqCompsX w) cfg picks seed ts t ht]
  obtain ⟨e, l, v⟩ := t
  simp only [evalS, seqCompsX, seqEvalX, seqEval] at henv ⊢
  cases hx : w.ext l <;> simp [henv]

/-- batched environment, answers with `len` items per row, first batch of exactly `len` rows: the rows are those of
`SequentialCB.evaluate` on the learner seen through the probing `SafeLearner` (`probeWrap`) -/
theorem sequentialCB_probe_rows' (cfg : Cfg) (picks : List Nat) (seed : Nat) (ts : List Triple) (t : Triple) (ht : t ∈ ts)
    (L : Coba.C06.Learner σ V) (len n : Nat) (hx : w.ext t.2.1 = some (.rowLen L len))
    (inter : List (Coba.C06.Dict (Coba.C06.Fld V R))) (henv : w.base.envRows t.1 = .ok inter)
    (hb : w.base.batch t.1 = some n) (hsq : min n inter.length = len) :
    (run (seqCompsX w) cfg picks seed ts).rowsOf (idKey ts t) =
      match Coba.C06.evaluate (w.base.cfgOf t.2.2) (probeWrap L len) (some n) inter (w.base.init t.2.1, 0, none) with
      | .ok r => numbered r.2.2
      | .rejected _ => []
      | .crashed _ => [] := by
  rw [rowsOf_run' (seqCompsX w) cfg picks seed ts t ht, evalS_seqCompsX_ext w seed t _ hx inter henv]
  simp only [seqEvalExt, hb, hsq, if_true]
  generalize Coba.C06.evaluate (w.base.cfgOf t.2.2) (probeWrap L len) (some n) inter (w.base.init t.2.1, 0, none) = o
  cases o <;> rfl

/-- … and in every other case (un-batched, or the first batch is not square) no probe is made: phase-4 rows -/
theorem sequentialCB_noprobe_rows' (cfg : Cfg) (picks : List Nat) (seed : Nat) (ts : List Triple) (t : Triple) (ht : t ∈ ts)
    (L : Coba.C06.Learner σ V) (len : Nat) (hx : w.ext t.2.1 = some (.rowLen L len))
    (inter : List (Coba.C06.Dict (Coba.C06.Fld V R))) (henv : w.base.envRows t.1 = .ok inter)
    (hsq : ∀ n, w.base.batch t.1 = some n → min n inter.length ≠ len) :
    (run (seqCompsX w) cfg picks seed ts).rowsOf (idKey ts t) =
      match Coba.C06.evaluate (w.base.cfgOf t.2.2) L (w.base.batch t.1) inter (w.base.init t.2.1) with
      | .ok r => numbered r.2.2
      | .rejected _ => []
      | .crashed _ => [] := by
  rw [rowsOf_run' (seqCompsX w) cfg picks seed ts t ht, evalS_seqCompsX_ext w seed t _ hx inter henv]
  simp only [seqEvalExt]
  cases hb : w.base.batch t.1 with
  | none =>
    dsimp only
    generalize Coba.C06.evaluate (w.base.cfgOf t.2.2) L none inter (w.base.init t.2.1) = o
    cases o <;> rfl
  | some n =>
    dsimp only
    rw [if_neg (hsq n hb)]
    generalize Coba.C06.evaluate (w.base.cfgOf t.2.2) L (some n) inter (w.base.init t.2.1) = o
    cases o <;> rfl

omit [DecidableEq V] [Coba.C06.RewardFn R V] in
/-- the probing wrapper answers every `predict` exactly as the learner itself does from the same state -/
theorem probeWrap_answer (L : Coba.C06.Learner σ V) (k : Nat) (st : σ × Nat × Option (Option V × Option (List V)))
    (ctx : Option V) (acts : Option (List V)) :
    ((probeWrap L k).predict st ctx acts).2 = (L.predict st.1 ctx acts).2 := rfl

omit [DecidableEq V] [Coba.C06.RewardFn R V] in
/-- … and, as long as the `k`-th predict of the evaluation is not the one being made, moves the state as the learner does -/
theorem probeWrap_state_no_probe (L : Coba.C06.Learner σ V) (k : Nat) (st : σ × Nat × Option (Option V × Option (List V)))
    (ctx : Option V) (acts : Option (List V)) (h : st.2.1 + 1 ≠ k) :
    ((probeWrap L k).predict st ctx acts).1.1 = (L.predict st.1 ctx acts).1 := by
  simp [probeWrap, h]

omit [DecidableEq V] [Coba.C06.RewardFn R V] in
/-- the `k`-th predict is followed by one more `predict` on the FIRST call's arguments -/
theorem probeWrap_state_probe (L : Coba.C06.Learner σ V) (k : Nat) (s : σ) (n : Nat)
    (first : Option V × Option (List V)) (ctx : Option V) (acts : Option (List V)) (h : n + 1 = k) :
    ((probeWrap L k).predict (s, n, some first) ctx acts).1.1 =
      (L.predict (L.predict s ctx acts).1 first.1 first.2).1 := by
  simp [probeWrap, h]

end seqx

/-! ## phase 6: `RejectionCB` inside the experiment model (`seqCompsR`) -/

section seqr
variable {σ V R P : Type} [DecidableEq V] [Coba.C06.RewardFn R V] (w : SeqWorldR σ V R P)

theorem seqCompsR_plain' (w0 : SeqWorldX σ V R P) : seqCompsR ⟨w0, fun _ => none⟩ = seqCompsX w0 := rfl

theorem effSeed_seqCompsR (seed v : Nat) : effSeed (seqCompsR w) seed v = (w.x.base.valSeed v).getD seed := rfl

theorem evalS_seqCompsR_rej (seed : Nat) (t : Triple) (rc : RejConfig) (hv : w.rej t.2.2 = some rc)
    (inter : List (Coba.C06.Dict (Coba.C06.Fld V R))) (henv : w.x.base.envRows t.1 = .ok inter) :
    evalS (seqCompsR w) seed t =
      (rejEvaluate rc (w.x.base.learner t.2.1) (w.x.base.batch t.1) inter (w.x.base.init t.2.1)
        (Coba.C05.normInt (Int.ofNat (effSeed (seqCompsR w) seed t.2.2)))).1 := by
  obtain ⟨e, l, v⟩ := t
  simp only [evalS, seqCompsR, seqEvalR] at hv henv ⊢
  rw [hv]; dsimp only; rw [henv]

theorem evalS_seqCompsR_seq (seed : Nat) (t : Triple) (hv : w.rej t.2.2 = none) :
    evalS (seqCompsR w) seed t = evalS (seqCompsX w.x) seed t := by
  obtain ⟨e, l, v⟩ := t
  simp only [evalS, seqCompsR, seqEvalR, seqCompsX, effSeed] at hv ⊢
  rw [hv]

theorem rejectionCB_rows' (cfg : Cfg) (picks : List Nat) (seed : Nat) (ts : List Triple) (t : Triple) (ht : t ∈ ts)
    (rc : RejConfig) (hv : w.rej t.2.2 = some rc)
    (inter : List (Coba.C06.Dict (Coba.C06.Fld V R))) (henv : w.x.base.envRows t.1 = .ok inter) :
    (run (seqCompsR w) cfg picks seed ts).rowsOf (idKey ts t) =
      match (rejEvaluate rc (w.x.base.learner t.2.1) (w.x.base.batch t.1) inter (w.x.base.init t.2.1)
              (Coba.C05.normInt (Int.ofNat ((w.x.base.valSeed t.2.2).getD seed)))).1 with
      | .ok rows => numbered rows
      | .error _ => [] := by
  rw [rowsOf_run' (seqCompsR w) cfg picks seed ts t ht, evalS_seqCompsR_rej w seed t rc hv inter henv, effSeed_seqCompsR]
  generalize (rejEvaluate rc (w.x.base.learner t.2.1) (w.x.base.batch t.1) inter (w.x.base.init t.2.1)
    (Coba.C05.normInt (Int.ofNat ((w.x.base.valSeed t.2.2).getD seed)))).1 = o
  cases o <;> rfl

theorem rejectionCB_read_failure' (cfg : Cfg) (picks : List Nat) (seed : Nat) (ts : List Triple) (t : Triple) (ht : t ∈ ts)
    (rc : RejConfig) (hv : w.rej t.2.2 = some rc) (err : Err) (henv : w.x.base.envRows t.1 = .error err) :
    (run (seqCompsR w) cfg picks seed ts).rowsOf (idKey ts t) = [] := by
  rw [rowsOf_run' (seqCompsR w) cfg picks seed ts t ht]
  obtain ⟨e, l, v⟩ := t
  simp only [evalS, seqCompsR, seqEvalR] at hv henv ⊢
  rw [hv]; dsimp only; rw [henv]

theorem sequentialCB_rows_beside_rejectionCB' (cfg cfg' : Cfg) (picks picks' : List Nat) (seed : Nat) (ts : List Triple)
    (t : Triple) (ht : t ∈ ts) (hv : w.rej t.2.2 = none) :
    (run (seqCompsR w) cfg picks seed ts).rowsOf (idKey ts t) =
      (run (seqCompsX w.x) cfg' picks' seed ts).rowsOf (idKey ts t) := by
  rw [rowsOf_run' (seqCompsR w) cfg picks seed ts t ht, rowsOf_run' (seqCompsX w.x) cfg' picks' seed ts t ht,
    evalS_seqCompsR_seq w seed t hv]

end seqr

/-! ### facts about the loop of `RejectionCB.evaluate` -/

theorem insortR_length (x : Rat) (q : List Rat) : (insortR x q).length = q.length + 1 := by
  induction q with
  | nil => rfl
  | cons y ys ih => simp only [insortR]; split <;> simp [ih]

theorem insortR_perm (x : Rat) (q : List Rat) : (insortR x q).Perm (x :: q) := by
  induction q with
  | nil => exact List.Perm.refl _
  | cons y ys ih =>
    simp only [insortR]; split
    · exact List.Perm.refl _
    · exact (List.Perm.cons y ih).trans (List.Perm.swap x y ys)

theorem insortR_sorted' (x : Rat) (q : List Rat) (h : q.Pairwise (· ≤ ·)) : (insortR x q).Pairwise (· ≤ ·) := by
  induction q with
  | nil => simp [insortR]
  | cons y ys ih =>
    simp only [insortR]
    have hy := List.pairwise_cons.1 h
    split
    · rename_i hlt
      refine List.pairwise_cons.2 ⟨?_, h⟩
      intro z hz
      rcases List.mem_cons.1 hz with rfl | hz
      · exact Rat.le_of_lt hlt
      · exact Rat.le_trans (Rat.le_of_lt hlt) (hy.1 z hz)
    · rename_i hnlt
      refine List.pairwise_cons.2 ⟨?_, ih hy.2⟩
      intro z hz
      rcases List.mem_cons.1 ((insortR_perm x ys).mem_iff.1 hz) with rfl | hz
      · exact Rat.not_lt.1 hnlt
      · exact hy.1 z hz

/-- every recorded row of the loop belongs to one accepted interaction: at most one row per interaction -/
theorem rejLoop_rows_le' {σ V R : Type} (rc : RejConfig) (L : Coba.C06.Learner σ V)
    (ds : List (Coba.C06.Dict (Coba.C06.Fld V R))) :
    ∀ (s : σ) (g : Nat) (q : List Rat) (c : Rat) (acc rows : List (Coba.C06.Row V R)) (s' : σ),
      rejLoop rc L ds s g q c acc = (.ok rows, s') → rows.length ≤ acc.length + ds.length := by
  induction ds with
  | nil => intro s g q c acc rows s' h; simp only [rejLoop, Prod.mk.injEq, Except.ok.injEq] at h; simp [← h.1]
  | cons d ds ih =>
    intro s g q c acc rows s' h
    simp only [rejLoop] at h
    split at h
    · simp at h
    · split at h
      · simp at h
      · split at h
        · simp at h
        · split at h
          · split at h
            · simp at h
            · split at h
              · simp at h
              · have := ih _ _ _ _ _ _ _ h
                split at this <;> simp at this ⊢ <;> omega
          · have := ih _ _ _ _ _ _ _ h
            simp; omega

theorem rejEvaluate_rows_le' {σ V R : Type} (rc : RejConfig) (L : Coba.C06.Learner σ V) (bs : Option Nat)
    (env : List (Coba.C06.Dict (Coba.C06.Fld V R))) (s : σ) (g : Nat) (rows : List (Coba.C06.Row V R)) (s' : σ)
    (h : rejEvaluate rc L bs env s g = (.ok rows, s')) : rows.length ≤ env.length := by
  unfold rejEvaluate at h
  split at h
  · simp only [Prod.mk.injEq, Except.ok.injEq] at h; simp [← h.1]
  · split at h
    · simp at h
    · split at h
      · simp at h
      · have := rejLoop_rows_le' rc L _ _ _ _ _ _ _ _ h
        simpa using this

/-- an empty environment gives no rows and leaves the learner untouched; a learner without `score`, a batched
environment or a first interaction without the logged fields is refused before the learner is touched -/
theorem rejEvaluate_refused' {σ V R : Type} (rc : RejConfig) (L : Coba.C06.Learner σ V) (bs : Option Nat)
    (first : Coba.C06.Dict (Coba.C06.Fld V R)) (rest : List (Coba.C06.Dict (Coba.C06.Fld V R))) (s : σ) (g : Nat)
    (h : L.hasScore = false ∨ bs.isSome = true ∨ (rejKeys.all (fun k => Coba.C06.Dict.has first k)) = false) :
    rejEvaluate rc L bs (first :: rest) s g = (.error .raised, s) := by
  unfold rejEvaluate
  rcases h with h | h | h <;> simp [h]

end Coba.C01
