/-
Helper lemmas for C17 (see Props/C17.lean for the property theorems).
-/
import CobaVerif.Model.C17
import Mathlib.Tactic.Linarith
import Mathlib.Algebra.Order.Field.Rat
import Mathlib.Data.List.Sort
import Mathlib.Data.List.Range
import Mathlib.Data.List.Perm.Basic

namespace Coba.C17

/-! ## the order on keys -/

theorem strLt_irrefl (s : List Nat) : strLt s s = false := by
  induction s with
  | nil => rfl
  | cons a as ih => simp [strLt, ih]

theorem strLt_trans : ∀ (a b c : List Nat), strLt a b = true → strLt b c = true → strLt a c = true
  | _, [], _ => by intro h; cases ‹List Nat› <;> simp [strLt] at h
  | [], _ :: _, [] => by intro _ h; simp [strLt] at h
  | [], _ :: _, _ :: _ => by intro _ _; simp [strLt]
  | _ :: _, _ :: _, [] => by intro _ h; simp [strLt] at h
  | a :: as, b :: bs, c :: cs => by
    intro h1 h2
    simp only [strLt] at h1 h2 ⊢
    by_cases hab : a < b
    · by_cases hbc : b < c
      · have : a < c := Nat.lt_trans hab hbc
        simp [this]
      · simp only [hbc, if_false] at h2
        by_cases hbc' : b = c
        · subst hbc'; simp [hab]
        · simp [hbc'] at h2
    · simp only [hab, if_false] at h1
      by_cases hab' : a = b
      · subst hab'
        simp only [if_true] at h1
        by_cases hbc : a < c
        · simp [hbc]
        · simp only [hbc, if_false] at h2 ⊢
          by_cases hac : a = c
          · subst hac
            simp only [if_true] at h2 ⊢
            exact strLt_trans as bs cs h1 h2
          · simp [hac] at h2
      · simp [hab'] at h1

theorem strLt_connected : ∀ (a b : List Nat), strLt a b = false → strLt b a = false → a = b
  | [], [] => by intros; rfl
  | [], _ :: _ => by intro h; simp [strLt] at h
  | _ :: _, [] => by intro _ h; simp [strLt] at h
  | a :: as, b :: bs => by
    intro h1 h2
    simp only [strLt] at h1 h2
    by_cases hab : a < b
    · simp [hab] at h1
    · by_cases hba : b < a
      · simp [hba] at h2
      · have : a = b := by omega
        subst this
        simp at h1 h2
        rw [strLt_connected as bs h1 h2]

theorem strLt_asymm (a b : List Nat) (h : strLt a b = true) : strLt b a = false := by
  cases hba : strLt b a with
  | false => rfl
  | true =>
    have := strLt_trans a b a h hba
    rw [strLt_irrefl] at this
    exact absurd this (by simp)

theorem Key.lt_irrefl (a : Key) : a.lt a = false := by
  cases a <;> simp [Key.lt, strLt_irrefl]

theorem Key.lt_trans (a b c : Key) (h1 : a.lt b = true) (h2 : b.lt c = true) : a.lt c = true := by
  cases a <;> cases b <;> cases c <;> simp [Key.lt, Key.rank] at h1 h2 ⊢
  · exact _root_.lt_trans h1 h2
  · exact strLt_trans _ _ _ h1 h2

theorem Key.lt_connected (a b : Key) (h1 : a.lt b = false) (h2 : b.lt a = false) : a = b := by
  cases a <;> cases b <;> simp [Key.lt, Key.rank] at h1 h2 ⊢
  · exact _root_.le_antisymm h2 h1
  · exact strLt_connected _ _ h1 h2

theorem Key.lt_asymm (a b : Key) (h : a.lt b = true) : b.lt a = false := by
  cases hba : b.lt a with
  | false => rfl
  | true =>
    have := Key.lt_trans a b a h hba
    rw [Key.lt_irrefl] at this
    exact absurd this (by simp)

/-- `a ≤ b ≤ c` -/
theorem Key.le_trans (a b c : Key) (h1 : b.lt a = false) (h2 : c.lt b = false) : c.lt a = false := by
  cases hca : c.lt a with
  | false => rfl
  | true =>
    -- c < a, a ≤ b  ⇒ c < b, contradiction
    cases hab : a.lt b with
    | true => rw [Key.lt_trans c a b hca hab] at h2; exact absurd h2 (by simp)
    | false =>
      have : a = b := Key.lt_connected a b hab h1
      subst this; rw [hca] at h2; exact absurd h2 (by simp)

/-- `a < b ≤ c ⇒ a < c` -/
theorem Key.lt_of_lt_of_le (a b c : Key) (h1 : a.lt b = true) (h2 : c.lt b = false) : a.lt c = true := by
  cases hbc : b.lt c with
  | true => exact Key.lt_trans a b c h1 hbc
  | false =>
    have : b = c := Key.lt_connected b c hbc h2
    subst this; exact h1

/-- `a ≤ b < c ⇒ a < c` -/
theorem Key.lt_of_le_of_lt (a b c : Key) (h1 : b.lt a = false) (h2 : b.lt c = true) : a.lt c = true := by
  cases hab : a.lt b with
  | true => exact Key.lt_trans a b c hab h2
  | false =>
    have : a = b := Key.lt_connected a b hab h1
    subst this; exact h2

theorem Key.comparable_symm (a b : Key) : a.comparable b = b.comparable a := by
  cases a <;> cases b <;> rfl

/-- for cells that are not `None`, Python's `==` is equality of keys -/
theorem pyEq_iff_key (a b : Cell) (ha : a.key ≠ .none) (hb : b.key ≠ .none) :
    pyEq a b = true ↔ a.key = b.key := by
  unfold pyEq
  cases hka : a.key <;> cases hkb : b.key <;> simp_all

/-! ## bisect -/

theorem bisectLoop_spec (p : Nat → Except Err Bool) (q : Nat → Bool) :
    ∀ (fuel lo hi : Nat), hi - lo ≤ fuel → lo ≤ hi →
    (∀ i, lo ≤ i → i < hi → p i = .ok (q i)) →
    (∀ i j, lo ≤ i → i ≤ j → j < hi → q j = true → q i = true) →
    ∃ k, bisectLoop p fuel lo hi = .ok k ∧ lo ≤ k ∧ k ≤ hi ∧
      (∀ i, lo ≤ i → i < k → q i = true) ∧ (∀ i, k ≤ i → i < hi → q i = false) := by
  intro fuel
  induction fuel with
  | zero =>
    intro lo hi hf hle _ _
    have : lo = hi := by omega
    subst this
    exact ⟨lo, rfl, le_refl _, le_refl _, by intro i h1 h2; omega, by intro i h1 h2; omega⟩
  | succ fuel ih =>
    intro lo hi hf hle hp hmono
    by_cases hlt : lo < hi
    · have hmid1 : lo ≤ (lo + hi) / 2 := by omega
      have hmid2 : (lo + hi) / 2 < hi := by omega
      simp only [bisectLoop, hlt, if_true, hp _ hmid1 hmid2]
      cases hq : q ((lo + hi) / 2) with
      | true =>
        obtain ⟨k, hk, h1, h2, h3, h4⟩ := ih ((lo + hi) / 2 + 1) hi (by omega) (by omega)
          (fun i hi1 hi2 => hp i (by omega) hi2)
          (fun i j h1 h2 h3 => hmono i j (by omega) h2 h3)
        refine ⟨k, hk, by omega, h2, ?_, h4⟩
        intro i hi1 hi2
        by_cases hcase : i ≤ (lo + hi) / 2
        · exact hmono i _ hi1 hcase hmid2 hq
        · exact h3 i (by omega) hi2
      | false =>
        obtain ⟨k, hk, h1, h2, h3, h4⟩ := ih lo ((lo + hi) / 2) (by omega) (by omega)
          (fun i hi1 hi2 => hp i hi1 (by omega))
          (fun i j h1 h2 h3 => hmono i j h1 h2 (by omega))
        refine ⟨k, hk, h1, by omega, h3, ?_⟩
        intro i hi1 hi2
        by_cases hcase : i < (lo + hi) / 2
        · exact h4 i hi1 hcase
        · cases hqi : q i with
          | false => rfl
          | true =>
            have := hmono ((lo + hi) / 2) i hmid1 (by omega) hi2 hqi
            rw [hq] at this; exact absurd this (by simp)
    · have : lo = hi := by omega
      subst this
      refine ⟨lo, by simp [bisectLoop], le_refl _, le_refl _, by intro i h1 h2; omega, by intro i h1 h2; omega⟩

/-- a column held as a list, indexed like Python (`IndexError` outside) -/
def listGet (xs : List Cell) (i : Nat) : Except Err Cell := optGet xs[i]?

/-- the cell at `i` (only used below `xs.length`) -/
def cellAt (xs : List Cell) (i : Nat) : Cell := xs.getD i .missing

theorem listGet_of_lt (xs : List Cell) (i : Nat) (h : i < xs.length) : listGet xs i = .ok (cellAt xs i) := by
  simp [listGet, cellAt, optGet, List.getD, List.getElem?_eq_getElem h]

/-- the segment `[lo,hi)` of the column is in non-decreasing key order -/
def SortedSeg (xs : List Cell) (lo hi : Nat) : Prop :=
  ∀ i j, lo ≤ i → i < j → j < hi → ((cellAt xs j).key.lt (cellAt xs i).key) = false

/-- every cell of the segment can be ordered against `v` -/
def CmpSeg (xs : List Cell) (lo hi : Nat) (v : Cell) : Prop :=
  ∀ i, lo ≤ i → i < hi → (cellAt xs i).key.comparable v.key = true

theorem bisectLeft_spec (get : Nat → Except Err Cell) (xs : List Cell)
    (hget : ∀ i, i < xs.length → get i = .ok (cellAt xs i))
    (v : Cell) (lo hi : Nat) (hle : lo ≤ hi) (hhi : hi ≤ xs.length)
    (hs : SortedSeg xs lo hi) (hc : CmpSeg xs lo hi v) :
    ∃ k, bisectLeft get v lo hi = .ok k ∧ lo ≤ k ∧ k ≤ hi ∧
      (∀ i, lo ≤ i → i < k → (cellAt xs i).key.lt v.key = true) ∧
      (∀ i, k ≤ i → i < hi → (cellAt xs i).key.lt v.key = false) := by
  unfold bisectLeft
  apply bisectLoop_spec _ (fun i => (cellAt xs i).key.lt v.key) (hi - lo) lo hi (le_refl _) hle
  · intro i h1 h2
    simp [hget i (by omega), bind, Except.bind, pyLt, hc i h1 h2]
  · intro i j h1 h2 h3 h4
    by_cases hij : i = j
    · subst hij; exact h4
    · exact Key.lt_of_le_of_lt _ _ _ (hs i j h1 (by omega) h3) h4

theorem bisectRight_spec (get : Nat → Except Err Cell) (xs : List Cell)
    (hget : ∀ i, i < xs.length → get i = .ok (cellAt xs i))
    (v : Cell) (lo hi : Nat) (hle : lo ≤ hi) (hhi : hi ≤ xs.length)
    (hs : SortedSeg xs lo hi) (hc : CmpSeg xs lo hi v) :
    ∃ k, bisectRight get v lo hi = .ok k ∧ lo ≤ k ∧ k ≤ hi ∧
      (∀ i, lo ≤ i → i < k → v.key.lt (cellAt xs i).key = false) ∧
      (∀ i, k ≤ i → i < hi → v.key.lt (cellAt xs i).key = true) := by
  unfold bisectRight
  obtain ⟨k, h0, h1, h2, h3, h4⟩ := bisectLoop_spec
    (fun m => do let c ← get m; let b ← pyLt v c; pure (!b))
    (fun i => !(v.key.lt (cellAt xs i).key)) (hi - lo) lo hi (le_refl _) hle
    (by
      intro i h1 h2
      have := hc i h1 h2
      rw [Key.comparable_symm] at this
      simp [hget i (by omega), bind, Except.bind, pyLt, this, pure, Except.pure])
    (by
      intro i j h1 h2 h3 h4
      by_cases hij : i = j
      · subst hij; exact h4
      · simp only [Bool.not_eq_true'] at h4 ⊢
        exact Key.le_trans _ _ _ (hs i j h1 (by omega) h3) h4)
  refine ⟨k, h0, h1, h2, ?_, ?_⟩
  · intro i hi1 hi2; simpa using h3 i hi1 hi2
  · intro i hi1 hi2; simpa using h4 i hi1 hi2


/-! ## my_bisect on a view of a column -/

/-- `s` (a list, a `SliceView` or a `ListView`) shows exactly the cells `xs` -/
structure Seq.Shows (s : Seq) (xs : List Cell) : Prop where
  toList : s.toList = .ok xs
  len : s.len = xs.length
  get : ∀ i, i < xs.length → s.get i = .ok (cellAt xs i)

/-- what the two bisections find for probe `v` on `[lo,hi)`: cells below `bl` are smaller,
cells from `br` on are greater -/
structure Cuts (xs : List Cell) (v : Cell) (lo hi bl br : Nat) : Prop where
  lo_bl : lo ≤ bl
  bl_br : bl ≤ br
  br_hi : br ≤ hi
  lt_iff : ∀ i, lo ≤ i → i < hi → ((cellAt xs i).key.lt v.key = true ↔ i < bl)
  gt_iff : ∀ i, lo ≤ i → i < hi → (v.key.lt (cellAt xs i).key = true ↔ br ≤ i)

/-- no cell of the segment is `None` -/
def NoNoneSeg (xs : List Cell) (lo hi : Nat) : Prop := ∀ i, lo ≤ i → i < hi → (cellAt xs i).key ≠ .none

theorem myBisectLeft_spec (cfg : Cfg) (s : Seq) (xs : List Cell) (hsh : s.Shows xs)
    (v : Cell) (lo hi : Nat) (hle : lo ≤ hi) (hhi : hi ≤ xs.length) (hne : cfg.guardEmpty = true ∨ lo < hi)
    (hs : SortedSeg xs lo hi) (hc : CmpSeg xs lo hi v) (hnn : NoNoneSeg xs lo hi) (hv : v.key ≠ .none) :
    ∃ k, myBisectLeft cfg s v lo hi = .ok k ∧ lo ≤ k ∧ k ≤ hi ∧
      (∀ i, lo ≤ i → i < k → (cellAt xs i).key.lt v.key = true) ∧
      (∀ i, k ≤ i → i < hi → (cellAt xs i).key.lt v.key = false) := by
  unfold myBisectLeft
  by_cases hg : (cfg.guardEmpty && decide (hi ≤ lo)) = true
  · simp only [hg, if_true]
    exact bisectLeft_spec s.get xs hsh.get v lo hi hle hhi hs hc
  · simp only [hg]
    have hlt : lo < hi := by
      rcases hne with h | h
      · simp [h] at hg; exact hg
      · exact h
    simp only [Bool.false_eq_true, if_false, hsh.get lo (by omega), bind, Except.bind]
    by_cases he : pyEq (cellAt xs lo) v = true
    · simp only [he, if_true, pure, Except.pure]
      refine ⟨lo, rfl, le_refl _, by omega, by intro i h1 h2; omega, ?_⟩
      intro i h1 h2
      have hk : (cellAt xs lo).key = v.key := (pyEq_iff_key _ _ (hnn lo (le_refl _) hlt) hv).mp he
      rw [← hk]
      by_cases hil : i = lo
      · subst hil; exact Key.lt_irrefl _
      · exact hs lo i (le_refl _) (by omega) h2
    · simp only [he]
      exact bisectLeft_spec s.get xs hsh.get v lo hi hle hhi hs hc

theorem myBisectRight_spec (cfg : Cfg) (s : Seq) (xs : List Cell) (hsh : s.Shows xs)
    (v : Cell) (lo hi : Nat) (hle : lo ≤ hi) (hhi : hi ≤ xs.length) (hne : cfg.guardEmpty = true ∨ lo < hi)
    (hs : SortedSeg xs lo hi) (hc : CmpSeg xs lo hi v) (hnn : NoNoneSeg xs lo hi) (hv : v.key ≠ .none) :
    ∃ k, myBisectRight cfg s v lo hi = .ok k ∧ lo ≤ k ∧ k ≤ hi ∧
      (∀ i, lo ≤ i → i < k → v.key.lt (cellAt xs i).key = false) ∧
      (∀ i, k ≤ i → i < hi → v.key.lt (cellAt xs i).key = true) := by
  unfold myBisectRight
  by_cases hg : (cfg.guardEmpty && decide (hi ≤ lo)) = true
  · simp only [hg, if_true]
    exact bisectRight_spec s.get xs hsh.get v lo hi hle hhi hs hc
  · simp only [hg]
    have hlt : lo < hi := by
      rcases hne with h | h
      · simp [h] at hg; exact hg
      · exact h
    have h0 : hi ≠ 0 := by omega
    simp only [Bool.false_eq_true, if_false, h0, hsh.get (hi - 1) (by omega), bind, Except.bind]
    by_cases he : pyEq (cellAt xs (hi - 1)) v = true
    · simp only [he, if_true, pure, Except.pure]
      refine ⟨hi, rfl, hle, le_refl _, ?_, by intro i h1 h2; omega⟩
      intro i h1 h2
      have hk : (cellAt xs (hi - 1)).key = v.key := (pyEq_iff_key _ _ (hnn (hi - 1) (by omega) (by omega)) hv).mp he
      rw [← hk]
      by_cases hil : i = hi - 1
      · subst hil; exact Key.lt_irrefl _
      · exact hs i (hi - 1) h1 (by omega) (by omega)
    · simp only [he]
      exact bisectRight_spec s.get xs hsh.get v lo hi hle hhi hs hc

/-- both bisections together -/
theorem cuts_of_bisect (cfg : Cfg) (s : Seq) (xs : List Cell) (hsh : s.Shows xs)
    (v : Cell) (lo hi : Nat) (hle : lo ≤ hi) (hhi : hi ≤ xs.length) (hne : cfg.guardEmpty = true ∨ lo < hi)
    (hs : SortedSeg xs lo hi) (hc : CmpSeg xs lo hi v) (hnn : NoNoneSeg xs lo hi) (hv : v.key ≠ .none) :
    ∃ bl br, myBisectLeft cfg s v lo hi = .ok bl ∧ myBisectRight cfg s v lo hi = .ok br ∧ Cuts xs v lo hi bl br := by
  obtain ⟨bl, e1, a1, a2, a3, a4⟩ := myBisectLeft_spec cfg s xs hsh v lo hi hle hhi hne hs hc hnn hv
  obtain ⟨br, e2, b1, b2, b3, b4⟩ := myBisectRight_spec cfg s xs hsh v lo hi hle hhi hne hs hc hnn hv
  refine ⟨bl, br, e1, e2, ⟨a1, ?_, b2, ?_, ?_⟩⟩
  · -- bl ≤ br
    by_contra hcon
    have hlt : br < bl := by omega
    have h1 := a3 br b1 hlt
    have h2 := b4 br (le_refl _) (by omega)
    rw [Key.lt_asymm _ _ h1] at h2
    exact absurd h2 (by simp)
  · intro i h1 h2
    constructor
    · intro h
      by_contra hcon
      rw [a4 i (by omega) h2] at h
      exact absurd h (by simp)
    · intro h; exact a3 i h1 h
  · intro i h1 h2
    constructor
    · intro h
      by_contra hcon
      rw [b3 i h1 (by omega)] at h
      exact absurd h (by simp)
    · intro h; exact b4 i h h2


/-! ## increasing selections -/

def StrictInc (l : List Nat) : Prop := l.Pairwise (· < ·)

/-- `l` lists, in increasing order and once each, exactly the `i ∈ [lo,hi)` with `P i` -/
structure Picks (l : List Nat) (lo hi : Nat) (P : Nat → Prop) : Prop where
  inc : StrictInc l
  mem : ∀ i, i ∈ l ↔ lo ≤ i ∧ i < hi ∧ P i

theorem Picks.unique {l1 l2 : List Nat} {lo hi : Nat} {P : Nat → Prop}
    (h1 : Picks l1 lo hi P) (h2 : Picks l2 lo hi P) : l1 = l2 :=
  List.Pairwise.eq_of_mem_iff h1.inc h2.inc (fun i => by rw [h1.mem, h2.mem])

theorem Picks.congr {l : List Nat} {lo hi : Nat} {P Q : Nat → Prop} (h : Picks l lo hi P)
    (hpq : ∀ i, lo ≤ i → i < hi → (P i ↔ Q i)) : Picks l lo hi Q :=
  ⟨h.inc, fun i => by
    rw [h.mem]
    constructor
    · rintro ⟨a, b, c⟩; exact ⟨a, b, (hpq i a b).mp c⟩
    · rintro ⟨a, b, c⟩; exact ⟨a, b, (hpq i a b).mpr c⟩⟩

theorem Picks.append {l1 l2 : List Nat} {lo mid hi : Nat} {P : Nat → Prop}
    (h1 : Picks l1 lo mid P) (h2 : Picks l2 mid hi P) (hlm : lo ≤ mid) (hmh : mid ≤ hi) :
    Picks (l1 ++ l2) lo hi P := by
  constructor
  · unfold StrictInc
    rw [List.pairwise_append]
    refine ⟨h1.inc, h2.inc, ?_⟩
    intro a ha b hb
    have := (h1.mem a).mp ha
    have := (h2.mem b).mp hb
    omega
  · intro i
    rw [List.mem_append, h1.mem, h2.mem]
    constructor
    · rintro (⟨a, b, c⟩ | ⟨a, b, c⟩)
      · exact ⟨a, by omega, c⟩
      · exact ⟨by omega, b, c⟩
    · rintro ⟨a, b, c⟩
      by_cases h : i < mid
      · exact Or.inl ⟨a, h, c⟩
      · exact Or.inr ⟨by omega, b, c⟩

theorem Picks.nil {lo : Nat} {P : Nat → Prop} : Picks [] lo lo P :=
  ⟨List.Pairwise.nil, fun i => by simp; intro h1 h2; omega⟩

theorem mem_rangeOf (p : Nat × Nat) (i : Nat) : i ∈ rangeOf p ↔ p.1 ≤ i ∧ i < p.2 := by
  simp only [rangeOf, List.mem_range'_1]
  omega

theorem strictInc_rangeOf (p : Nat × Nat) : StrictInc (rangeOf p) := List.pairwise_lt_range'

/-- a range `[a,b)` picks the `i ∈ [lo,hi)` with `a ≤ i < b` -/
theorem picks_rangeOf (a b lo hi : Nat) (P : Nat → Prop) (hP : ∀ i, lo ≤ i → i < hi → (P i ↔ a ≤ i ∧ i < b))
    (ha : lo ≤ a) (hb : b ≤ hi) : Picks (rangeOf (a, b)) lo hi P := by
  refine ⟨strictInc_rangeOf _, fun i => ?_⟩
  rw [mem_rangeOf]
  constructor
  · rintro ⟨h1, h2⟩
    exact ⟨by omega, by omega, (hP i (by omega) (by omega)).mpr ⟨h1, h2⟩⟩
  · rintro ⟨h1, h2, h3⟩
    exact (hP i h1 h2).mp h3

/-- two ranges `[a,b)`, `[c,d)` with `b ≤ c` -/
theorem picks_two_ranges (a b c d lo hi : Nat) (P : Nat → Prop)
    (hP : ∀ i, lo ≤ i → i < hi → (P i ↔ (a ≤ i ∧ i < b) ∨ (c ≤ i ∧ i < d)))
    (ha : lo ≤ a) (hab : a ≤ b) (hbc : b ≤ c) (hcd : c ≤ d) (hd : d ≤ hi) :
    Picks (rangeOf (a, b) ++ rangeOf (c, d)) lo hi P := by
  constructor
  · unfold StrictInc
    rw [List.pairwise_append]
    refine ⟨strictInc_rangeOf _, strictInc_rangeOf _, ?_⟩
    intro x hx y hy
    rw [mem_rangeOf] at hx hy
    simp only at hx hy
    omega
  · intro i
    rw [List.mem_append, mem_rangeOf, mem_rangeOf]
    simp only
    constructor
    · intro h
      have h1 : lo ≤ i := by omega
      have h2 : i < hi := by omega
      exact ⟨h1, h2, (hP i h1 h2).mpr h⟩
    · rintro ⟨h1, h2, h3⟩
      exact (hP i h1 h2).mp h3

/-! ## `_compare` on the bisect path, one scalar probe -/

/-- the meaning of a comparison in terms of keys -/
def keySat : Op → Key → Key → Bool
  | .eq, c, v => decide (c = v)
  | .ne, c, v => !(decide (c = v))
  | .lt, c, v => c.lt v
  | .le, c, v => !(v.lt c)
  | .gt, c, v => v.lt c
  | .ge, c, v => !(c.lt v)
  | _, _, _ => false

def Op.isScalarOp : Op → Bool
  | .eq | .ne | .lt | .le | .gt | .ge => true
  | _ => false

theorem key_eq_iff (c v : Key) : c = v ↔ (c.lt v = false ∧ v.lt c = false) := by
  constructor
  · rintro rfl; exact ⟨Key.lt_irrefl _, Key.lt_irrefl _⟩
  · rintro ⟨h1, h2⟩; exact Key.lt_connected _ _ h1 h2

theorem compareBisect_scalar (cfg : Cfg) (s : Seq) (xs : List Cell) (v : Cell) (lo hi bl br : Nat)
    (e1 : myBisectLeft cfg s v lo hi = .ok bl) (e2 : myBisectRight cfg s v lo hi = .ok br)
    (hc : Cuts xs v lo hi bl br) (op : Op) (hop : op.isScalarOp = true) :
    ∃ rs, compareBisect cfg s lo hi op (.scalar v) = .ok rs ∧
      Picks (rs.flatMap rangeOf) lo hi (fun i => keySat op (cellAt xs i).key v.key = true) := by
  have hlt := hc.lt_iff
  have hgt := hc.gt_iff
  have h1 := hc.lo_bl
  have h2 := hc.bl_br
  have h3 := hc.br_hi
  cases op
  case isin => simp [Op.isScalarOp] at hop
  case notin => simp [Op.isScalarOp] at hop
  case mtch => simp [Op.isScalarOp] at hop
  · -- eq
    refine ⟨[(bl, br)], by simp [compareBisect, e1, e2, bind, Except.bind, pure, Except.pure], ?_⟩
    simp only [List.flatMap_cons, List.flatMap_nil, List.append_nil]
    apply picks_rangeOf _ _ _ _ _ _ h1 h3
    intro i hi1 hi2
    simp only [keySat, decide_eq_true_eq, key_eq_iff]
    have a := hlt i hi1 hi2
    have b := hgt i hi1 hi2
    constructor
    · rintro ⟨p, q⟩
      constructor
      · by_contra hcon; have := a.mpr (by omega); rw [p] at this; exact absurd this (by simp)
      · by_contra hcon; have := b.mpr (by omega); rw [q] at this; exact absurd this (by simp)
    · rintro ⟨p, q⟩
      constructor
      · cases hh : (cellAt xs i).key.lt v.key with
        | false => rfl
        | true => have := a.mp hh; omega
      · cases hh : v.key.lt (cellAt xs i).key with
        | false => rfl
        | true => have := b.mp hh; omega
  · -- ne
    refine ⟨[(lo, bl), (br, hi)], by simp [compareBisect, e1, e2, bind, Except.bind, pure, Except.pure], ?_⟩
    simp only [List.flatMap_cons, List.flatMap_nil, List.append_nil]
    apply picks_two_ranges _ _ _ _ _ _ _ _ (le_refl _) h1 h2 h3 (le_refl _)
    intro i hi1 hi2
    simp only [keySat, Bool.not_eq_true', decide_eq_false_iff_not, key_eq_iff]
    have a := hlt i hi1 hi2
    have b := hgt i hi1 hi2
    constructor
    · intro hne
      by_cases p : (cellAt xs i).key.lt v.key = true
      · exact Or.inl ⟨hi1, a.mp p⟩
      · by_cases q : v.key.lt (cellAt xs i).key = true
        · exact Or.inr ⟨b.mp q, hi2⟩
        · exact absurd ⟨by simpa using p, by simpa using q⟩ hne
    · rintro (⟨_, p⟩ | ⟨q, _⟩)
      · intro hcon; have := a.mpr p; rw [hcon.1] at this; exact absurd this (by simp)
      · intro hcon; have := b.mpr q; rw [hcon.2] at this; exact absurd this (by simp)
  · -- lt
    refine ⟨[(lo, bl)], by simp [compareBisect, e1, bind, Except.bind, pure, Except.pure], ?_⟩
    simp only [List.flatMap_cons, List.flatMap_nil, List.append_nil]
    apply picks_rangeOf _ _ _ _ _ _ (le_refl _) (by omega)
    intro i hi1 hi2
    simp only [keySat]
    rw [hlt i hi1 hi2]; omega
  · -- le
    refine ⟨[(lo, br)], by simp [compareBisect, e2, bind, Except.bind, pure, Except.pure], ?_⟩
    simp only [List.flatMap_cons, List.flatMap_nil, List.append_nil]
    apply picks_rangeOf _ _ _ _ _ _ (le_refl _) h3
    intro i hi1 hi2
    simp only [keySat, Bool.not_eq_true']
    have b := hgt i hi1 hi2
    constructor
    · intro p; refine ⟨hi1, ?_⟩; by_contra hcon; have := b.mpr (by omega); rw [p] at this; exact absurd this (by simp)
    · rintro ⟨_, p⟩
      cases hh : v.key.lt (cellAt xs i).key with
      | false => rfl
      | true => have := b.mp hh; omega
  · -- gt
    refine ⟨[(br, hi)], by simp [compareBisect, e2, bind, Except.bind, pure, Except.pure], ?_⟩
    simp only [List.flatMap_cons, List.flatMap_nil, List.append_nil]
    apply picks_rangeOf _ _ _ _ _ _ (by omega) (le_refl _)
    intro i hi1 hi2
    simp only [keySat]
    rw [hgt i hi1 hi2]; omega
  · -- ge
    refine ⟨[(bl, hi)], by simp [compareBisect, e1, bind, Except.bind, pure, Except.pure], ?_⟩
    simp only [List.flatMap_cons, List.flatMap_nil, List.append_nil]
    apply picks_rangeOf _ _ _ _ _ _ h1 (le_refl _)
    intro i hi1 hi2
    simp only [keySat, Bool.not_eq_true']
    have a := hlt i hi1 hi2
    constructor
    · intro p; refine ⟨?_, hi2⟩; by_contra hcon; have := a.mpr (by omega); rw [p] at this; exact absurd this (by simp)
    · rintro ⟨p, _⟩
      cases hh : (cellAt xs i).key.lt v.key with
      | false => rfl
      | true => have := a.mp hh; omega


/-! ## the stable insertion sort -/

section SortBy
variable {α : Type} (lt : α → α → Bool)

theorem insertBy_perm (x : α) : ∀ l : List α, (insertBy lt x l).Perm (x :: l)
  | [] => List.Perm.refl _
  | y :: ys => by
    simp only [insertBy]
    split
    · exact ((insertBy_perm x ys).cons y).trans (List.Perm.swap x y ys)
    · exact List.Perm.refl _

theorem sortBy_perm : ∀ l : List α, (sortBy lt l).Perm l
  | [] => List.Perm.refl _
  | x :: xs => (insertBy_perm lt x (sortBy lt xs)).trans ((sortBy_perm xs).cons x)

/-- `lt` is a strict weak order given by: asymmetry and transitivity of "not greater" -/
structure IsSWO : Prop where
  asymm : ∀ a b, lt a b = true → lt b a = false
  le_trans : ∀ a b c, lt b a = false → lt c b = false → lt c a = false

/-- non-decreasing: no later element is smaller than an earlier one -/
def SortedBy (l : List α) : Prop := l.Pairwise (fun a b => lt b a = false)

theorem insertBy_sorted (h : IsSWO lt) (x : α) : ∀ l : List α, SortedBy lt l → SortedBy lt (insertBy lt x l)
  | [], _ => by simp [insertBy, SortedBy]
  | y :: ys, hs => by
    unfold SortedBy at hs ⊢
    rw [List.pairwise_cons] at hs
    simp only [insertBy]
    split
    · rename_i hyx
      rw [List.pairwise_cons]
      refine ⟨?_, insertBy_sorted h x ys hs.2⟩
      intro z hz
      have hz' := (insertBy_perm lt x ys).mem_iff.mp hz
      rw [List.mem_cons] at hz'
      rcases hz' with rfl | hz'
      · exact h.asymm _ _ hyx
      · exact hs.1 z hz'
    · rename_i hyx
      simp only [Bool.not_eq_true] at hyx
      rw [List.pairwise_cons]
      refine ⟨?_, List.pairwise_cons.mpr hs⟩
      intro z hz
      simp at hz
      rcases hz with rfl | hz
      · exact hyx
      · exact h.le_trans _ _ _ hyx (hs.1 z hz)

theorem sortBy_sorted (h : IsSWO lt) : ∀ l : List α, SortedBy lt (sortBy lt l)
  | [] => List.Pairwise.nil
  | x :: xs => insertBy_sorted lt h x _ (sortBy_sorted h xs)

end SortBy

/-- the order `sorted()` uses on cells -/
def ltk (a b : Cell) : Bool := a.key.lt b.key

theorem ltk_swo : IsSWO ltk :=
  ⟨fun _ _ h => Key.lt_asymm _ _ h, fun _ _ _ h1 h2 => Key.le_trans _ _ _ h1 h2⟩

theorem pySorted_ok (vs : List Cell) (h : allComparable vs = true) : pySorted vs = .ok (sortBy ltk vs) := by
  simp only [pySorted, h, if_true]
  rfl

/-! ### probes of `in`: strictly increasing after `groupby` or when distinct -/

/-- strictly increasing keys -/
def StrictKeys (l : List Cell) : Prop := l.Pairwise (fun a b => ltk a b = true)

def NoNone (l : List Cell) : Prop := ∀ v ∈ l, v.key ≠ .none

theorem strict_of_sorted_distinct : ∀ (l : List Cell), SortedBy ltk l → l.Pairwise (fun a b => a.key ≠ b.key) → StrictKeys l
  | [], _, _ => List.Pairwise.nil
  | x :: xs, hs, hd => by
    unfold SortedBy at hs
    unfold StrictKeys
    rw [List.pairwise_cons] at hs hd ⊢
    refine ⟨?_, strict_of_sorted_distinct xs hs.2 hd.2⟩
    intro z hz
    cases hxz : ltk x z with
    | true => rfl
    | false =>
      have := Key.lt_connected _ _ hxz (hs.1 z hz)
      exact absurd this (hd.1 z hz)

theorem dedupAdjAux_spec : ∀ (l : List Cell) (k : Cell), SortedBy ltk (k :: l) → NoNone (k :: l) →
    StrictKeys (k :: dedupAdjAux k l) ∧ (∀ c : Key, (∃ v ∈ k :: dedupAdjAux k l, c = v.key) ↔ (∃ v ∈ k :: l, c = v.key))
  | [], k, _, _ => by simp [dedupAdjAux, StrictKeys]
  | y :: ys, k, hs, hn => by
    have hs' := hs
    unfold SortedBy at hs'
    rw [List.pairwise_cons, List.pairwise_cons] at hs'
    have hky : k.key ≠ .none := hn k (by simp)
    have hyy : y.key ≠ .none := hn y (by simp)
    simp only [dedupAdjAux]
    by_cases he : pyEq k y = true
    · have hk : k.key = y.key := (pyEq_iff_key _ _ hky hyy).mp he
      simp only [he, if_true]
      have hs2 : SortedBy ltk (k :: ys) := by
        unfold SortedBy; rw [List.pairwise_cons]
        exact ⟨fun z hz => hs'.1 z (by simp [hz]), hs'.2.2⟩
      have hn2 : NoNone (k :: ys) := by
        intro v hv; apply hn v; simp at hv ⊢; rcases hv with h | h <;> simp [h]
      obtain ⟨a, b⟩ := dedupAdjAux_spec ys k hs2 hn2
      refine ⟨a, fun c => ?_⟩
      rw [b c]
      constructor
      · rintro ⟨v, hv, rfl⟩
        simp at hv
        rcases hv with rfl | hv
        · exact ⟨v, by simp, rfl⟩
        · exact ⟨v, by simp [hv], rfl⟩
      · rintro ⟨v, hv, rfl⟩
        simp at hv
        rcases hv with rfl | rfl | hv
        · exact ⟨v, by simp, rfl⟩
        · exact ⟨k, by simp, hk.symm⟩
        · exact ⟨v, by simp [hv], rfl⟩
    · simp only [he]
      have hs2 : SortedBy ltk (y :: ys) := by
        unfold SortedBy; exact List.pairwise_cons.mpr hs'.2
      have hn2 : NoNone (y :: ys) := by
        intro v hv; apply hn v; simp at hv ⊢; rcases hv with h | h <;> simp [h]
      obtain ⟨a, b⟩ := dedupAdjAux_spec ys y hs2 hn2
      have hlt : ltk k y = true := by
        cases hh : ltk k y with
        | true => rfl
        | false =>
          have := Key.lt_connected _ _ hh (hs'.1 y (by simp))
          exact absurd ((pyEq_iff_key _ _ hky hyy).mpr this) he
      constructor
      · unfold StrictKeys at a ⊢
        rw [List.pairwise_cons]
        refine ⟨?_, a⟩
        intro z hz
        simp at hz
        rcases hz with rfl | hz
        · exact hlt
        · rw [List.pairwise_cons] at a
          exact Key.lt_trans _ _ _ hlt (a.1 z hz)
      · intro c
        constructor
        · rintro ⟨v, hv, rfl⟩
          simp at hv
          rcases hv with rfl | hv
          · exact ⟨v, by simp, rfl⟩
          · obtain ⟨w, hw, e⟩ := (b v.key).mp ⟨v, by simpa using hv, rfl⟩
            exact ⟨w, by simp at hw ⊢; tauto, e⟩
        · rintro ⟨v, hv, rfl⟩
          simp at hv
          rcases hv with rfl | hv
          · exact ⟨v, by simp, rfl⟩
          · obtain ⟨w, hw, e⟩ := (b v.key).mpr ⟨v, by simpa using hv, rfl⟩
            exact ⟨w, by simp at hw ⊢; tauto, e⟩

theorem dedupAdj_spec (l : List Cell) (hs : SortedBy ltk l) (hn : NoNone l) :
    StrictKeys (dedupAdj l) ∧ (∀ c : Key, (∃ v ∈ dedupAdj l, c = v.key) ↔ (∃ v ∈ l, c = v.key)) := by
  cases l with
  | nil => simp [dedupAdj, StrictKeys]
  | cons x xs => simpa [dedupAdj] using dedupAdjAux_spec xs x hs hn


/-! ## `_compare` on the bisect path, a collection of probes -/

/-- everything the bisections need to work on `[lo,hi)` for every probe of `vs` -/
structure ProbeOK (cfg : Cfg) (xs : List Cell) (lo hi : Nat) (vs : List Cell) : Prop where
  le : lo ≤ hi
  hi_le : hi ≤ xs.length
  nonempty : cfg.guardEmpty = true ∨ lo < hi
  sorted : SortedSeg xs lo hi
  nonone : NoNoneSeg xs lo hi
  cmp : ∀ v ∈ vs, CmpSeg xs lo hi v
  vnn : NoNone vs

theorem Picks.restrict_lo {l : List Nat} {lo mid hi : Nat} {P : Nat → Prop} (h : Picks l lo hi P)
    (hn : ∀ i, lo ≤ i → i < mid → ¬ P i) (hlm : lo ≤ mid) : Picks l mid hi P :=
  ⟨h.inc, fun i => by
    rw [h.mem]
    constructor
    · rintro ⟨a, b, c⟩
      refine ⟨?_, b, c⟩
      by_contra hcon
      exact hn i a (by omega) c
    · rintro ⟨a, b, c⟩; exact ⟨by omega, b, c⟩⟩

/-- for probes `u ≤ v` the right cut of `u` is not beyond the right cut of `v`, and if `u < v`
it is not beyond the left cut of `v` -/
theorem cuts_br_le_br {xs : List Cell} {u v : Cell} {lo hi a b c d : Nat}
    (hu : Cuts xs u lo hi a b) (hv : Cuts xs v lo hi c d) (huv : v.key.lt u.key = false) : b ≤ d := by
  by_contra hcon
  have h1 : lo ≤ d := by have := hv.lo_bl; have := hv.bl_br; omega
  have h2 : d < hi := by have := hu.br_hi; omega
  have p := (hv.gt_iff d h1 h2).mpr (le_refl _)
  have q : u.key.lt (cellAt xs d).key = false := by
    cases hh : u.key.lt (cellAt xs d).key with
    | false => rfl
    | true => have := (hu.gt_iff d h1 h2).mp hh; omega
  -- c ≤ u ≤ v < c
  have := Key.le_trans _ _ _ q huv
  rw [this] at p; exact absurd p (by simp)

theorem cuts_br_le_bl {xs : List Cell} {u v : Cell} {lo hi a b c d : Nat}
    (hu : Cuts xs u lo hi a b) (hv : Cuts xs v lo hi c d) (huv : u.key.lt v.key = true) : b ≤ c := by
  by_contra hcon
  have h1 : lo ≤ c := hv.lo_bl
  have h2 : c < hi := by have := hu.br_hi; omega
  have p : (cellAt xs c).key.lt v.key = false := by
    cases hh : (cellAt xs c).key.lt v.key with
    | false => rfl
    | true => have := (hv.lt_iff c h1 h2).mp hh; omega
  have q : u.key.lt (cellAt xs c).key = false := by
    cases hh : u.key.lt (cellAt xs c).key with
    | false => rfl
    | true => have := (hu.gt_iff c h1 h2).mp hh; omega
  -- c ≤ u < v ≤ c
  have := Key.lt_of_le_of_lt _ _ _ q huv
  rw [this] at p; exact absurd p (by simp)

theorem cuts_exists (cfg : Cfg) (s : Seq) (xs : List Cell) (hsh : s.Shows xs) (lo hi : Nat) (vs : List Cell)
    (h : ProbeOK cfg xs lo hi vs) (v : Cell) (hv : v ∈ vs) :
    ∃ bl br, myBisectLeft cfg s v lo hi = .ok bl ∧ myBisectRight cfg s v lo hi = .ok br ∧ Cuts xs v lo hi bl br :=
  cuts_of_bisect cfg s xs hsh v lo hi h.le h.hi_le h.nonempty h.sorted (h.cmp v hv) h.nonone (h.vnn v hv)

/-- the pair of cuts `_compare` computes for one probe of `in` -/
def isinPair (cfg : Cfg) (s : Seq) (lo hi : Nat) (v : Cell) : Except Err (Nat × Nat) := do
  let l ← myBisectLeft cfg s v lo hi
  let h ← myBisectRight cfg s v lo hi
  pure (l, h)

/-- the ranges of `in` for strictly increasing probes -/
theorem isin_ranges (cfg : Cfg) (s : Seq) (xs : List Cell) (hsh : s.Shows xs) (lo hi : Nat) :
    ∀ (vs : List Cell), ProbeOK cfg xs lo hi vs → StrictKeys vs →
    ∃ rs, vs.mapM (isinPair cfg s lo hi) = .ok rs ∧
      Picks (rs.flatMap rangeOf) lo hi (fun i => ∃ v ∈ vs, (cellAt xs i).key = v.key)
  | [], h, _ => by
    refine ⟨[], by simp [pure, Except.pure], ?_⟩
    refine ⟨List.Pairwise.nil, fun i => ?_⟩
    simp
  | v :: rest, h, hst => by
    unfold StrictKeys at hst
    rw [List.pairwise_cons] at hst
    have hrest : ProbeOK cfg xs lo hi rest :=
      { h with cmp := fun w hw => h.cmp w (by simp [hw]), vnn := fun w hw => h.vnn w (by simp [hw]) }
    obtain ⟨rs, e, hp⟩ := isin_ranges cfg s xs hsh lo hi rest hrest hst.2
    obtain ⟨bl, br, e1, e2, hc⟩ := cuts_exists cfg s xs hsh lo hi _ h v (by simp)
    have e0 : isinPair cfg s lo hi v = .ok (bl, br) := by
      simp [isinPair, e1, e2, bind, Except.bind, pure, Except.pure]
    refine ⟨(bl, br) :: rs, by rw [List.mapM_cons, e0, e]; rfl, ?_⟩
    simp only [List.flatMap_cons]
    have hbr : lo ≤ br := by have := hc.lo_bl; have := hc.bl_br; omega
    apply Picks.append (mid := br) _ _ hbr hc.br_hi
    · -- [lo, br): exactly the cells equal to v
      apply picks_rangeOf _ _ _ _ _ _ hc.lo_bl (le_refl _)
      intro i h1 h2
      have a := hc.lt_iff i h1 (by have := hc.br_hi; omega)
      have b := hc.gt_iff i h1 (by have := hc.br_hi; omega)
      constructor
      · rintro ⟨w, hw, hk⟩
        simp at hw
        rcases hw with rfl | hw
        · refine ⟨?_, h2⟩
          by_contra hcon
          have := a.mpr (by omega)
          rw [hk, Key.lt_irrefl] at this; exact absurd this (by simp)
        · -- a later probe is greater than v, but the cell is not greater than v
          exfalso
          have hvw := hst.1 w hw
          have : v.key.lt (cellAt xs i).key = true := by rw [hk]; exact hvw
          have := b.mp this; omega
      · rintro ⟨p, q⟩
        refine ⟨v, by simp, ?_⟩
        apply Key.lt_connected
        · cases hh : (cellAt xs i).key.lt v.key with
          | false => rfl
          | true => have := a.mp hh; omega
        · cases hh : v.key.lt (cellAt xs i).key with
          | false => rfl
          | true => have := b.mp hh; omega
    · -- [br, hi): the ranges of the later probes
      have hp2 : Picks (rs.flatMap rangeOf) br hi (fun i => ∃ w ∈ rest, (cellAt xs i).key = w.key) := by
        apply Picks.restrict_lo hp _ hbr
        rintro i h1 h2 ⟨w, hw, hk⟩
        have hvw := hst.1 w hw
        have : v.key.lt (cellAt xs i).key = true := by rw [hk]; exact hvw
        have := (hc.gt_iff i h1 (by have := hc.br_hi; omega)).mp this
        omega
      apply hp2.congr
      intro i h1 h2
      constructor
      · rintro ⟨w, hw, hk⟩; exact ⟨w, by simp [hw], hk⟩
      · rintro ⟨w, hw, hk⟩
        simp at hw
        rcases hw with rfl | hw
        · exfalso
          have := (hc.gt_iff i (by omega) h2).mpr h1
          rw [hk, Key.lt_irrefl] at this; exact absurd this (by simp)
        · exact ⟨w, hw, hk⟩


/-! ### `!in` -/

def notinPair (cfg : Cfg) (s : Seq) (lo hi : Nat) (p : Option Cell × Option Cell) : Except Err (Nat × Nat) := do
  let l ← match p.1 with | Option.none => pure lo | some v0 => myBisectRight cfg s v0 lo hi
  let h ← match p.2 with | Option.none => pure hi | some v1 => myBisectLeft cfg s v1 lo hi
  pure (l, h)

def gapPairs (prev : Option Cell) : List Cell → List (Option Cell × Option Cell)
  | [] => [(prev, Option.none)]
  | v :: rest => (prev, some v) :: gapPairs (some v) rest

theorem zip_gap (p : Option Cell) : ∀ l : List Cell,
    (p :: (l.map some ++ [Option.none])).zip (l.map some ++ [Option.none]) = gapPairs p l
  | [] => by simp [gapPairs]
  | v :: rest => by
    simp only [List.map_cons, List.cons_append, List.zip_cons_cons, gapPairs]
    rw [zip_gap (some v) rest]

theorem notinPairs_eq (vs : List Cell) (hn : NoNone vs) : notinPairs vs = gapPairs Option.none vs := by
  have hm : vs.map (fun c => if c = Cell.none then Option.none else some c) = vs.map some := by
    apply List.map_congr_left
    intro c hc
    have := hn c hc
    have : c ≠ Cell.none := by rintro rfl; exact this rfl
    simp [this]
  simp only [notinPairs, hm]
  exact zip_gap Option.none vs

theorem picks_prefix (lo b hi : Nat) (P : Nat → Prop) (hP : ∀ i, lo ≤ i → i < hi → (P i ↔ i < b)) (hb : b ≤ hi) :
    Picks (rangeOf (lo, b)) lo hi P := by
  refine ⟨strictInc_rangeOf _, fun i => ?_⟩
  rw [mem_rangeOf]
  constructor
  · rintro ⟨h1, h2⟩
    exact ⟨h1, by omega, (hP i h1 (by omega)).mpr h2⟩
  · rintro ⟨h1, h2, h3⟩
    exact ⟨h1, (hP i h1 h2).mp h3⟩

theorem notin_ranges (cfg : Cfg) (s : Seq) (xs : List Cell) (hsh : s.Shows xs) (lo hi : Nat) :
    ∀ (vs : List Cell) (prev : Option Cell) (start : Nat), ProbeOK cfg xs lo hi vs → SortedBy ltk vs →
    (match prev with | Option.none => pure lo | some v0 => myBisectRight cfg s v0 lo hi) = Except.ok start →
    lo ≤ start → start ≤ hi →
    (∀ v ∈ vs, ∀ bl br, Cuts xs v lo hi bl br → start ≤ br) →
    ∃ rs, (gapPairs prev vs).mapM (notinPair cfg s lo hi) = .ok rs ∧
      Picks (rs.flatMap rangeOf) start hi (fun i => ∀ v ∈ vs, (cellAt xs i).key ≠ v.key)
  | [], prev, start, h, _, hst, h1, h2, _ => by
    have e0 : notinPair cfg s lo hi (prev, Option.none) = .ok (start, hi) := by
      cases prev <;> simp_all [notinPair, bind, Except.bind, pure, Except.pure]
    refine ⟨[(start, hi)], by simp only [gapPairs, List.mapM_cons, e0, List.mapM_nil]; rfl, ?_⟩
    simp only [List.flatMap_cons, List.flatMap_nil, List.append_nil]
    apply picks_rangeOf _ _ _ _ _ _ (le_refl _) (le_refl _)
    intro i a b
    simp; omega
  | v :: rest, prev, start, h, hs, hst, h1, h2, hmono => by
    unfold SortedBy at hs
    rw [List.pairwise_cons] at hs
    have hrest : ProbeOK cfg xs lo hi rest :=
      { h with cmp := fun w hw => h.cmp w (by simp [hw]), vnn := fun w hw => h.vnn w (by simp [hw]) }
    obtain ⟨bl, br, e1, e2, hc⟩ := cuts_exists cfg s xs hsh lo hi _ h v (by simp)
    have hsb : start ≤ br := hmono v (by simp) bl br hc
    obtain ⟨rs, e, hp⟩ := notin_ranges cfg s xs hsh lo hi rest (some v) br hrest hs.2 e2
      (by omega) hc.br_hi
      (by
        intro w hw a b hcw
        exact cuts_br_le_br hc hcw (hs.1 w hw))
    have e0 : notinPair cfg s lo hi (prev, some v) = .ok (start, bl) := by
      cases prev <;> simp_all [notinPair, bind, Except.bind, pure, Except.pure]
    refine ⟨(start, bl) :: rs, by simp only [gapPairs, List.mapM_cons, e0, e]; rfl, ?_⟩
    simp only [List.flatMap_cons]
    apply Picks.append (mid := br) _ _ hsb hc.br_hi
    · apply picks_prefix _ _ _ _ _ (by have := hc.bl_br; omega)
      intro i a b
      have hlt := hc.lt_iff i (by omega) (by have := hc.br_hi; omega)
      have hgt := hc.gt_iff i (by omega) (by have := hc.br_hi; omega)
      constructor
      · intro hP
        have hne := hP v (by simp)
        apply hlt.mp
        cases hh : (cellAt xs i).key.lt v.key with
        | true => rfl
        | false =>
          exfalso; apply hne
          apply Key.lt_connected _ _ hh
          cases hh2 : v.key.lt (cellAt xs i).key with
          | false => rfl
          | true => have := hgt.mp hh2; omega
      · intro hib w hw hk
        have hcv := hlt.mpr hib
        simp at hw
        rcases hw with rfl | hw
        · rw [hk, Key.lt_irrefl] at hcv; exact absurd hcv (by simp)
        · have := Key.lt_of_lt_of_le _ _ _ hcv (hs.1 w hw)
          rw [hk, Key.lt_irrefl] at this; exact absurd this (by simp)
    · apply hp.congr
      intro i a b
      constructor
      · intro hP w hw
        simp at hw
        rcases hw with rfl | hw
        · intro hk
          have := (hc.gt_iff i (by have := hc.lo_bl; have := hc.bl_br; omega) b).mpr a
          rw [hk, Key.lt_irrefl] at this; exact absurd this (by simp)
        · exact hP w hw
      · intro hP w hw; exact hP w (by simp [hw])


/-! ### `_compare(…, "bisect")` as a whole -/

theorem dedupAdjAux_subset : ∀ (l : List Cell) (k v : Cell), v ∈ dedupAdjAux k l → v ∈ l
  | [], _, _, h => by simp [dedupAdjAux] at h
  | y :: ys, k, v, h => by
    simp only [dedupAdjAux] at h
    split at h
    · exact List.mem_cons_of_mem _ (dedupAdjAux_subset ys k v h)
    · simp at h
      rcases h with rfl | h
      · simp
      · exact List.mem_cons_of_mem _ (dedupAdjAux_subset ys y v h)

theorem dedupAdj_subset (l : List Cell) (v : Cell) (h : v ∈ dedupAdj l) : v ∈ l := by
  cases l with
  | nil => simp [dedupAdj] at h
  | cons x xs =>
    simp only [dedupAdj, List.mem_cons] at h
    rcases h with rfl | h
    · simp
    · exact List.mem_cons_of_mem _ (dedupAdjAux_subset xs x v h)

/-- the meaning of an operator/argument pair on a key -/
def argSat : Op → ArgV → Key → Bool
  | .isin, .coll vs, c => vs.any (fun v => decide (c = v.key))
  | .notin, .coll vs, c => !(vs.any (fun v => decide (c = v.key)))
  | .isin, .scalar _, _ => false
  | .notin, .scalar _, _ => false
  | op, .scalar v, c => keySat op c v.key
  | _, .coll _, _ => false

/-- operator and argument fit: a value for the six comparisons, a collection for `in` / `!in` -/
def argShape : Op → ArgV → Bool
  | .isin, .coll _ => true
  | .notin, .coll _ => true
  | .isin, .scalar _ => false
  | .notin, .scalar _ => false
  | .mtch, _ => false
  | _, .scalar _ => true
  | _, .coll _ => false

def probesOf : ArgV → List Cell
  | .scalar v => [v]
  | .coll vs => vs

theorem ProbeOK.of_subset {cfg : Cfg} {xs : List Cell} {lo hi : Nat} {vs ws : List Cell}
    (h : ProbeOK cfg xs lo hi vs) (hsub : ∀ w ∈ ws, w ∈ vs) : ProbeOK cfg xs lo hi ws :=
  { h with cmp := fun w hw => h.cmp w (hsub w hw), vnn := fun w hw => h.vnn w (hsub w hw) }

theorem compareBisect_spec (cfg : Cfg) (s : Seq) (xs : List Cell) (hsh : s.Shows xs) (lo hi : Nat)
    (op : Op) (a : ArgV) (hshape : argShape op a = true)
    (hok : ProbeOK cfg xs lo hi (probesOf a)) (hcmp : allComparable (probesOf a) = true)
    (hdup : op = .isin → cfg.dedupIn = true ∨ (probesOf a).Pairwise (fun u v => u.key ≠ v.key)) :
    ∃ rs, compareBisect cfg s lo hi op a = .ok rs ∧
      Picks (rs.flatMap rangeOf) lo hi (fun i => argSat op a (cellAt xs i).key = true) := by
  cases a with
  | scalar v =>
    have hsc : op.isScalarOp = true := by cases op <;> simp_all [argShape, Op.isScalarOp]
    obtain ⟨bl, br, e1, e2, hc⟩ := cuts_exists cfg s xs hsh lo hi _ hok v (by simp [probesOf])
    obtain ⟨rs, e, hp⟩ := compareBisect_scalar cfg s xs v lo hi bl br e1 e2 hc op hsc
    refine ⟨rs, e, ?_⟩
    cases op <;> simp_all [argSat, Op.isScalarOp]
  | coll vs =>
    simp only [probesOf] at hok hcmp hdup
    have hperm := sortBy_perm ltk vs
    have hsorted := sortBy_sorted ltk ltk_swo vs
    have hok1 : ProbeOK cfg xs lo hi (sortBy ltk vs) := hok.of_subset (fun w hw => hperm.mem_iff.mp hw)
    cases op <;> simp only [argShape] at hshape <;> try (exact absurd hshape (by decide))
    · -- in
      have hkeys : ∃ vs', (if cfg.dedupIn then dedupAdj (sortBy ltk vs) else sortBy ltk vs) = vs' ∧ StrictKeys vs' ∧
          (∀ w ∈ vs', w ∈ vs) ∧ (∀ c : Key, (∃ v ∈ vs', c = v.key) ↔ (∃ v ∈ vs, c = v.key)) := by
        by_cases hd : cfg.dedupIn = true
        · obtain ⟨p, q⟩ := dedupAdj_spec (sortBy ltk vs) hsorted hok1.vnn
          refine ⟨_, by simp [hd], p, fun w hw => hperm.mem_iff.mp (dedupAdj_subset _ _ hw), fun c => ?_⟩
          rw [q c]
          constructor
          · rintro ⟨v, hv, e⟩; exact ⟨v, hperm.mem_iff.mp hv, e⟩
          · rintro ⟨v, hv, e⟩; exact ⟨v, hperm.mem_iff.mpr hv, e⟩
        · have hdis : vs.Pairwise (fun u v => u.key ≠ v.key) := by
            rcases hdup rfl with h | h
            · exact absurd h hd
            · exact h
          have hdis' : (sortBy ltk vs).Pairwise (fun u v => u.key ≠ v.key) :=
            (hperm.pairwise_iff (fun {a b} (h : a.key ≠ b.key) => fun e => h e.symm)).mpr hdis
          refine ⟨_, by simp [hd], strict_of_sorted_distinct _ hsorted hdis', fun w hw => hperm.mem_iff.mp hw, fun c => ?_⟩
          constructor
          · rintro ⟨v, hv, e⟩; exact ⟨v, hperm.mem_iff.mp hv, e⟩
          · rintro ⟨v, hv, e⟩; exact ⟨v, hperm.mem_iff.mpr hv, e⟩
      obtain ⟨vs', evs, hstrict, hsub, hkey⟩ := hkeys
      obtain ⟨rs, e, hp⟩ := isin_ranges cfg s xs hsh lo hi vs' (hok.of_subset hsub) hstrict
      refine ⟨rs, ?_, ?_⟩
      · simp only [compareBisect, pySorted_ok vs hcmp, bind, Except.bind, evs]
        exact e
      · apply hp.congr
        intro i _ _
        simp only [argSat, List.any_eq_true, decide_eq_true_eq]
        constructor
        · rintro ⟨v, hv, e⟩; exact (hkey _).mp ⟨v, hv, e⟩
        · rintro ⟨v, hv, e⟩; exact (hkey _).mpr ⟨v, hv, e⟩
    · -- !in
      obtain ⟨rs, e, hp⟩ := notin_ranges cfg s xs hsh lo hi (sortBy ltk vs) Option.none lo hok1 hsorted rfl
        (le_refl _) hok.le (fun v _ bl br hc => by have := hc.lo_bl; have := hc.bl_br; omega)
      refine ⟨rs, ?_, ?_⟩
      · simp only [compareBisect, pySorted_ok vs hcmp, bind, Except.bind, notinPairs_eq _ hok1.vnn]
        exact e
      · apply hp.congr
        intro i _ _
        simp only [argSat, Bool.not_eq_true', List.any_eq_false, decide_eq_true_eq]
        constructor
        · intro h v hv; exact h v (hperm.mem_iff.mpr hv)
        · intro h v hv; exact h v (hperm.mem_iff.mp hv)


/-! ## the scan path -/

theorem scanFilter_congr : ∀ (col : List Cell) (lo : Nat) (f g : Cell → Except Err Bool),
    (∀ c ∈ col, f c = g c) → scanFilter lo col f = scanFilter lo col g
  | [], _, _, _, _ => rfl
  | c :: cs, lo, f, g, h => by
    simp only [scanFilter]
    rw [h c (by simp), scanFilter_congr cs (lo + 1) f g (fun d hd => h d (by simp [hd]))]

theorem cellAt_cons_succ (c : Cell) (cs : List Cell) (i : Nat) : cellAt (c :: cs) (i + 1) = cellAt cs i := by
  simp [cellAt, List.getD]

theorem cellAt_cons_zero (c : Cell) (cs : List Cell) : cellAt (c :: cs) 0 = c := by
  simp [cellAt, List.getD]

/-- if the test is defined (`q`) on every cell, the scan lists the positions that pass -/
theorem scanFilter_picks : ∀ (col : List Cell) (lo : Nat) (test : Cell → Except Err Bool) (q : Cell → Bool),
    (∀ c ∈ col, test c = .ok (q c)) →
    ∃ l, scanFilter lo col test = .ok l ∧ Picks l lo (lo + col.length) (fun i => q (cellAt col (i - lo)) = true)
  | [], lo, _, _, _ => ⟨[], rfl, by simpa using (Picks.nil (lo := lo))⟩
  | c :: cs, lo, test, q, h => by
    obtain ⟨l, e, hp⟩ := scanFilter_picks cs (lo + 1) test q (fun d hd => h d (by simp [hd]))
    have hp' : Picks l (lo + 1) (lo + (c :: cs).length) (fun i => q (cellAt (c :: cs) (i - lo)) = true) := by
      have : lo + 1 + cs.length = lo + (c :: cs).length := by simp; omega
      rw [← this]
      apply hp.congr
      intro i h1 h2
      have : i - lo = (i - (lo + 1)) + 1 := by omega
      rw [this, cellAt_cons_succ]
    have hfirst : Picks (if q c then [lo] else []) lo (lo + 1) (fun i => q (cellAt (c :: cs) (i - lo)) = true) := by
      constructor
      · split <;> simp [StrictInc]
      · intro i
        by_cases hq : q c = true
        · simp only [hq, if_true, List.mem_singleton]
          constructor
          · rintro rfl; simp [cellAt_cons_zero, hq]
          · rintro ⟨a, b, _⟩; omega
        · simp only [hq]
          simp
          intro a b
          have : i = lo := by omega
          subst this
          simpa [cellAt_cons_zero] using hq
    refine ⟨(if q c then [lo] else []) ++ l, ?_, hfirst.append hp' (by omega) (by simp)⟩
    simp only [scanFilter, h c (by simp), e]
    split <;> simp

/-- if the test raises on some cell, so does the scan -/
theorem scanFilter_error : ∀ (col : List Cell) (lo : Nat) (test : Cell → Except Err Bool) (c : Cell) (e : Err),
    c ∈ col → test c = .error e → ∃ e', scanFilter lo col test = .error e'
  | [], _, _, _, _, h, _ => by simp at h
  | d :: ds, lo, test, c, e, h, he => by
    simp only [scanFilter]
    cases hd : test d with
    | error e' => exact ⟨e', rfl⟩
    | ok b =>
      simp only
      simp at h
      rcases h with rfl | h
      · rw [hd] at he; exact absurd he (by simp)
      · obtain ⟨e', he'⟩ := scanFilter_error ds (lo + 1) test c e h he
        exact ⟨e', by rw [he']⟩

/-- on the scan path `_compare` applies exactly the plain test to every cell, unless `<=`/`>=`
meet `Missing` in a tree without the repair -/
def leGeOK (cfg : Cfg) (op : Op) (a : ArgV) (col : List Cell) : Prop :=
  (op = .le → cfg.missingLe = true ∨ ((∀ c ∈ col, c.key ≠ .missing) ∧ ∀ v ∈ probesOf a, v.key ≠ .missing)) ∧
  (op = .ge → cfg.missingGe = true ∨ ((∀ c ∈ col, c.key ≠ .missing) ∧ ∀ v ∈ probesOf a, v.key ≠ .missing))

theorem pyLe_fixed (cfg : Cfg) (c v : Cell) (h : cfg.missingLe = true ∨ (c.key ≠ .missing ∧ v.key ≠ .missing)) :
    pyLe cfg c v = pyLe Cfg.fixed c v := by
  rcases h with h | ⟨h1, h2⟩
  · simp [pyLe, h, Cfg.fixed]
  · simp [pyLe, h1, h2]

theorem pyGe_fixed (cfg : Cfg) (c v : Cell) (h : cfg.missingGe = true ∨ (c.key ≠ .missing ∧ v.key ≠ .missing)) :
    pyGe cfg c v = pyGe Cfg.fixed c v := by
  rcases h with h | ⟨h1, h2⟩
  · simp [pyGe, h, Cfg.fixed]
  · simp [pyGe, h1, h2]

theorem compareScan_eq (cfg : Cfg) (col : List Cell) (op : Op) (a : ArgV) (hshape : argShape op a = true)
    (hle : leGeOK cfg op a col) : compareScan cfg col op a = scanFilter 0 col (sat op a) := by
  cases a with
  | scalar v =>
    cases op <;> simp only [argShape] at hshape <;> try (exact absurd hshape (by decide))
    all_goals (simp only [compareScan]; apply scanFilter_congr; intro c hc; simp only [sat, satOrd])
    · -- le
      by_cases hn : c = Cell.none
      · simp [hn]
      · simp only [hn, if_false]
        apply pyLe_fixed
        rcases hle.1 rfl with h | ⟨h1, h2⟩
        · exact Or.inl h
        · exact Or.inr ⟨h1 c hc, h2 v (by simp [probesOf])⟩
    · -- ge
      by_cases hn : c = Cell.none
      · simp [hn]
      · simp only [hn, if_false]
        apply pyGe_fixed
        rcases hle.2 rfl with h | ⟨h1, h2⟩
        · exact Or.inl h
        · exact Or.inr ⟨h1 c hc, h2 v (by simp [probesOf])⟩
  | coll vs =>
    cases op <;> simp only [argShape] at hshape <;> try (exact absurd hshape (by decide))
    all_goals (simp only [compareScan]; apply scanFilter_congr; intro c hc; simp only [sat])


/-! ## the plain test in terms of keys -/

theorem Key.lt_missing (k : Key) (h : k ≠ .missing) : k.lt .missing = true := by
  cases k <;> simp_all [Key.lt, Key.rank]

theorem Key.missing_lt (k : Key) : Key.lt .missing k = false := by
  cases k <;> simp [Key.lt, Key.rank]

theorem cell_ne_none_of_key {c : Cell} (h : c.key ≠ .none) : c ≠ Cell.none := by
  rintro rfl; exact h rfl

theorem pyEq_eq_decide (a b : Cell) (ha : a.key ≠ .none) (hb : b.key ≠ .none) :
    pyEq a b = decide (a.key = b.key) := by
  rw [Bool.eq_iff_iff]
  simp [pyEq_iff_key a b ha hb]

theorem pyIn_eq_any (c : Cell) (vs : List Cell) (hc : c.key ≠ .none) (hv : NoNone vs) :
    pyIn c vs = vs.any (fun v => decide (c.key = v.key)) := by
  unfold pyIn
  induction vs with
  | nil => rfl
  | cons v rest ih =>
    simp only [List.any_cons]
    rw [pyEq_eq_decide c v hc (hv v (by simp)), ih (fun w hw => hv w (by simp [hw]))]

/-- what a cell has to be like for the plain test against `a` to be an order question:
not `None`, comparable with the probes, and the probes of an order comparison are not `Missing` -/
structure CellOK (op : Op) (a : ArgV) (c : Cell) : Prop where
  nn : c.key ≠ .none
  cmp : ∀ v ∈ probesOf a, c.key.comparable v.key = true
  vmiss : (op = .lt ∨ op = .le ∨ op = .gt ∨ op = .ge) → ∀ v ∈ probesOf a, v.key ≠ .missing

theorem sat_eq_argSat (op : Op) (a : ArgV) (c : Cell) (hshape : argShape op a = true)
    (hv : NoNone (probesOf a)) (h : CellOK op a c) : sat op a c = .ok (argSat op a c.key) := by
  have hcn := cell_ne_none_of_key h.nn
  cases a with
  | scalar v =>
    have hvn : v.key ≠ .none := hv v (by simp [probesOf])
    have hcmp := h.cmp v (by simp [probesOf])
    cases op <;> simp only [argShape] at hshape <;> try (exact absurd hshape (by decide))
    · simp [sat, argSat, keySat, pyEq_eq_decide c v h.nn hvn]
    · simp [sat, argSat, keySat, pyEq_eq_decide c v h.nn hvn]
    · simp [sat, satOrd, hcn, argSat, keySat, pyLt, hcmp]
    · have hvm := h.vmiss (by simp) v (by simp [probesOf])
      simp only [sat, satOrd, hcn, if_false, argSat, keySat, pyLe, Cfg.fixed]
      by_cases hcm : c.key = .missing
      · simp [hcm, Key.lt_missing _ hvm]
      · simp [hcm, hvm, hcmp]
    · have hvm := h.vmiss (by simp) v (by simp [probesOf])
      simp only [sat, satOrd, hcn, if_false, argSat, keySat, pyGt]
      by_cases hcm : c.key = .missing
      · simp [hcm, Key.lt_missing _ hvm]
      · simp [hcm, hvm, hcmp]
    · have hvm := h.vmiss (by simp) v (by simp [probesOf])
      simp only [sat, satOrd, hcn, if_false, argSat, keySat, pyGe, Cfg.fixed]
      by_cases hcm : c.key = .missing
      · simp [hcm, Key.missing_lt]
      · simp [hcm, hvm, hcmp]
  | coll vs =>
    cases op <;> simp only [argShape] at hshape <;> try (exact absurd hshape (by decide))
    · simp [sat, argSat, pyIn_eq_any c vs h.nn hv]
    · simp [sat, argSat, pyIn_eq_any c vs h.nn hv]

/-! ## lohis: consecutive segments covering `[a,b)` -/

inductive Segs : List (Nat × Nat) → Nat → Nat → Prop
  | nil (a : Nat) : Segs [] a a
  | cons {a h b : Nat} {r : List (Nat × Nat)} : a ≤ h → Segs r h b → Segs ((a, h) :: r) a b

theorem Segs.le {l : List (Nat × Nat)} {a b : Nat} (h : Segs l a b) : a ≤ b := by
  induction h with
  | nil a => exact le_refl _
  | cons h1 _ ih => omega

theorem segs_picks (f : Nat × Nat → Except Err (List (Nat × Nat))) (P : Nat → Prop) :
    ∀ (segs : List (Nat × Nat)) (a b : Nat), Segs segs a b →
    (∀ p ∈ segs, ∃ rs, f p = .ok rs ∧ Picks (rs.flatMap rangeOf) p.1 p.2 P) →
    ∃ rss, segs.mapM f = .ok rss ∧ Picks ((rss.flatMap id).flatMap rangeOf) a b P := by
  intro segs a b hs
  induction hs with
  | nil a =>
    intro _
    exact ⟨[], by simp [pure, Except.pure], by simpa using (Picks.nil (lo := a))⟩
  | @cons a h b r hah hr ih =>
    intro hf
    obtain ⟨rs, e, hp⟩ := hf (a, h) (by simp)
    obtain ⟨rss, e', hp'⟩ := ih (fun p hp => hf p (by simp [hp]))
    refine ⟨rs :: rss, by rw [List.mapM_cons, e, e']; rfl, ?_⟩
    simp only [List.flatMap_cons, id, List.flatMap_append]
    exact hp.append hp' hah hr.le


end Coba.C17
