/-
Helper lemmas for C17 (see Props/C17.lean for the property theorems).
-/
import CobaVerif.Model.C17
import CobaVerif.Generated.C17Ops
import CobaVerif.Generated.C17Sorts
import Mathlib.Tactic.Linarith
import Mathlib.Algebra.Order.Field.Rat
import Mathlib.Data.List.Sort
import Mathlib.Data.List.Range
import Mathlib.Data.List.Perm.Basic

namespace Coba.C17

/-! ## the order on keys -/

theorem strLt_irrefl (s : List Nat) : strLt s s = false := by
  induction s with
  | nil => rfl
  | cons a as ih => simp [strLt, ih]

theorem strLt_trans : ∀ (a b c : List Nat), strLt a b = true → strLt b c = true → strLt a c = true
  | _, [], _ => by intro h; cases ‹List Nat› <;> simp [strLt] at h
  | [], _ :: _, [] => by intro _ h; simp [strLt] at h
  | [], _ :: _, _ :: _ => by intro _ _; simp [strLt]
  | _ :: _, _ :: _, [] => by intro _ h; simp [strLt] at h
  | a :: as, b :: bs, c :: cs => by
    intro h1 h2
    simp only [strLt] at h1 h2 ⊢
    by_cases hab : a < b
    · by_cases hbc : b < c
      · have : a < c := Nat.lt_trans hab hbc
        simp [this]
      · simp only [hbc, if_false] at h2
        by_cases hbc' : b = c
        · subst hbc'; simp [hab]
        · simp [hbc'] at h2
    · simp only [hab, if_false] at h1
      by_cases hab' : a = b
      · subst hab'
        simp only [if_true] at h1
        by_cases hbc : a < c
        · simp [hbc]
        · simp only [hbc, if_false] at h2 ⊢
          by_cases hac : a = c
          · subst hac
            simp only [if_true] at h2 ⊢
            exact strLt_trans as bs cs h1 h2
          · simp [hac] at h2
      · simp [hab'] at h1

theorem strLt_connected : ∀ (a b : List Nat), strLt a b = false → strLt b a = false → a = b
  | [], [] => by intros; rfl
  | [], _ :: _ => by intro h; simp [strLt] at h
  | _ :: _, [] => by intro _ h; simp [strLt] at h
  | a :: as, b :: bs => by
    intro h1 h2
    simp only [strLt] at h1 h2
    by_cases hab : a < b
    · simp [hab] at h1
    · by_cases hba : b < a
      · simp [hba] at h2
      · have : a = b := by omega
        subst this
        simp at h1 h2
        rw [strLt_connected as bs h1 h2]

theorem strLt_asymm (a b : List Nat) (h : strLt a b = true) : strLt b a = false := by
  cases hba : strLt b a with
  | false => rfl
  | true =>
    have := strLt_trans a b a h hba
    rw [strLt_irrefl] at this
    exact absurd this (by simp)

theorem Key.lt_irrefl (a : Key) : a.lt a = false := by
  cases a <;> simp [Key.lt, strLt_irrefl]

theorem Key.lt_trans (a b c : Key) (h1 : a.lt b = true) (h2 : b.lt c = true) : a.lt c = true := by
  cases a <;> cases b <;> cases c <;> simp [Key.lt, Key.rank] at h1 h2 ⊢
  · exact _root_.lt_trans h1 h2
  · exact strLt_trans _ _ _ h1 h2

theorem Key.lt_connected (a b : Key) (h1 : a.lt b = false) (h2 : b.lt a = false) : a = b := by
  cases a <;> cases b <;> simp [Key.lt, Key.rank] at h1 h2 ⊢
  · exact _root_.le_antisymm h2 h1
  · exact strLt_connected _ _ h1 h2

theorem Key.lt_asymm (a b : Key) (h : a.lt b = true) : b.lt a = false := by
  cases hba : b.lt a with
  | false => rfl
  | true =>
    have := Key.lt_trans a b a h hba
    rw [Key.lt_irrefl] at this
    exact absurd this (by simp)

/-- `a ≤ b ≤ c` -/
theorem Key.le_trans (a b c : Key) (h1 : b.lt a = false) (h2 : c.lt b = false) : c.lt a = false := by
  cases hca : c.lt a with
  | false => rfl
  | true =>
    -- c < a, a ≤ b  ⇒ c < b, contradiction
    cases hab : a.lt b with
    | true => rw [Key.lt_trans c a b hca hab] at h2; exact absurd h2 (by simp)
    | false =>
      have : a = b := Key.lt_connected a b hab h1
      subst this; rw [hca] at h2; exact absurd h2 (by simp)

/-- `a < b ≤ c ⇒ a < c` -/
theorem Key.lt_of_lt_of_le (a b c : Key) (h1 : a.lt b = true) (h2 : c.lt b = false) : a.lt c = true := by
  cases hbc : b.lt c with
  | true => exact Key.lt_trans a b c h1 hbc
  | false =>
    have : b = c := Key.lt_connected b c hbc h2
    subst this; exact h1

/-- `a ≤ b < c ⇒ a < c` -/
theorem Key.lt_of_le_of_lt (a b c : Key) (h1 : b.lt a = false) (h2 : b.lt c = true) : a.lt c = true := by
  cases hab : a.lt b with
  | true => exact Key.lt_trans a b c hab h2
  | false =>
    have : a = b := Key.lt_connected a b hab h1
    subst this; exact h2

theorem Key.comparable_symm (a b : Key) : a.comparable b = b.comparable a := by
  cases a <;> cases b <;> rfl

/-- for cells that are not `None`, Python's `==` is equality of keys -/
theorem pyEq_iff_key (a b : Cell) (ha : a.key ≠ .none) (hb : b.key ≠ .none) :
    pyEq a b = true ↔ a.key = b.key := by
  unfold pyEq
  cases hka : a.key <;> cases hkb : b.key <;> simp_all

/-! ## bisect -/

theorem bisectLoop_spec (p : Nat → Except Err Bool) (q : Nat → Bool) :
    ∀ (fuel lo hi : Nat), hi - lo ≤ fuel → lo ≤ hi →
    (∀ i, lo ≤ i → i < hi → p i = .ok (q i)) →
    (∀ i j, lo ≤ i → i ≤ j → j < hi → q j = true → q i = true) →
    ∃ k, bisectLoop p fuel lo hi = .ok k ∧ lo ≤ k ∧ k ≤ hi ∧
      (∀ i, lo ≤ i → i < k → q i = true) ∧ (∀ i, k ≤ i → i < hi → q i = false) := by
  intro fuel
  induction fuel with
  | zero =>
    intro lo hi hf hle _ _
    have : lo = hi := by omega
    subst this
    exact ⟨lo, rfl, le_refl _, le_refl _, by intro i h1 h2; omega, by intro i h1 h2; omega⟩
  | succ fuel ih =>
    intro lo hi hf hle hp hmono
    by_cases hlt : lo < hi
    · have hmid1 : lo ≤ (lo + hi) / 2 := by omega
      have hmid2 : (lo + hi) / 2 < hi := by omega
      simp only [bisectLoop, hlt, if_true, hp _ hmid1 hmid2]
      cases hq : q ((lo + hi) / 2) with
      | true =>
        obtain ⟨k, hk, h1, h2, h3, h4⟩ := ih ((lo + hi) / 2 + 1) hi (by omega) (by omega)
          (fun i hi1 hi2 => hp i (by omega) hi2)
          (fun i j h1 h2 h3 => hmono i j (by omega) h2 h3)
        refine ⟨k, hk, by omega, h2, ?_, h4⟩
        intro i hi1 hi2
        by_cases hcase : i ≤ (lo + hi) / 2
        · exact hmono i _ hi1 hcase hmid2 hq
        · exact h3 i (by omega) hi2
      | false =>
        obtain ⟨k, hk, h1, h2, h3, h4⟩ := ih lo ((lo + hi) / 2) (by omega) (by omega)
          (fun i hi1 hi2 => hp i hi1 (by omega))
          (fun i j h1 h2 h3 => hmono i j h1 h2 (by omega))
        refine ⟨k, hk, h1, by omega, h3, ?_⟩
        intro i hi1 hi2
        by_cases hcase : i < (lo + hi) / 2
        · exact h4 i hi1 hcase
        · cases hqi : q i with
          | false => rfl
          | true =>
            have := hmono ((lo + hi) / 2) i hmid1 (by omega) hi2 hqi
            rw [hq] at this; exact absurd this (by simp)
    · have : lo = hi := by omega
      subst this
      refine ⟨lo, by simp [bisectLoop], le_refl _, le_refl _, by intro i h1 h2; omega, by intro i h1 h2; omega⟩

/-- a column held as a list, indexed like Python (`IndexError` outside) -/
def listGet (xs : List Cell) (i : Nat) : Except Err Cell := optGet xs[i]?

theorem listGet_of_lt (xs : List Cell) (i : Nat) (h : i < xs.length) : listGet xs i = .ok (cellAt xs i) := by
  simp [listGet, cellAt, optGet, List.getD, List.getElem?_eq_getElem h]

/-- the segment `[lo,hi)` of the column is in non-decreasing key order -/
def SortedSeg (xs : List Cell) (lo hi : Nat) : Prop :=
  ∀ i j, lo ≤ i → i < j → j < hi → ((cellAt xs j).key.lt (cellAt xs i).key) = false

/-- every cell of the segment can be ordered against `v` -/
def CmpSeg (xs : List Cell) (lo hi : Nat) (v : Cell) : Prop :=
  ∀ i, lo ≤ i → i < hi → (cellAt xs i).key.comparable v.key = true

theorem bisectLeft_spec (get : Nat → Except Err Cell) (xs : List Cell)
    (hget : ∀ i, i < xs.length → get i = .ok (cellAt xs i))
    (v : Cell) (lo hi : Nat) (hle : lo ≤ hi) (hhi : hi ≤ xs.length)
    (hs : SortedSeg xs lo hi) (hc : CmpSeg xs lo hi v) :
    ∃ k, bisectLeft get v lo hi = .ok k ∧ lo ≤ k ∧ k ≤ hi ∧
      (∀ i, lo ≤ i → i < k → (cellAt xs i).key.lt v.key = true) ∧
      (∀ i, k ≤ i → i < hi → (cellAt xs i).key.lt v.key = false) := by
  unfold bisectLeft
  apply bisectLoop_spec _ (fun i => (cellAt xs i).key.lt v.key) (hi - lo) lo hi (le_refl _) hle
  · intro i h1 h2
    simp [hget i (by omega), bind, Except.bind, pyLt, hc i h1 h2]
  · intro i j h1 h2 h3 h4
    by_cases hij : i = j
    · subst hij; exact h4
    · exact Key.lt_of_le_of_lt _ _ _ (hs i j h1 (by omega) h3) h4

theorem bisectRight_spec (get : Nat → Except Err Cell) (xs : List Cell)
    (hget : ∀ i, i < xs.length → get i = .ok (cellAt xs i))
    (v : Cell) (lo hi : Nat) (hle : lo ≤ hi) (hhi : hi ≤ xs.length)
    (hs : SortedSeg xs lo hi) (hc : CmpSeg xs lo hi v) :
    ∃ k, bisectRight get v lo hi = .ok k ∧ lo ≤ k ∧ k ≤ hi ∧
      (∀ i, lo ≤ i → i < k → v.key.lt (cellAt xs i).key = false) ∧
      (∀ i, k ≤ i → i < hi → v.key.lt (cellAt xs i).key = true) := by
  unfold bisectRight
  obtain ⟨k, h0, h1, h2, h3, h4⟩ := bisectLoop_spec
    (fun m => do let c ← get m; let b ← pyLt v c; pure (!b))
    (fun i => !(v.key.lt (cellAt xs i).key)) (hi - lo) lo hi (le_refl _) hle
    (by
      intro i h1 h2
      have := hc i h1 h2
      rw [Key.comparable_symm] at this
      simp [hget i (by omega), bind, Except.bind, pyLt, this, pure, Except.pure])
    (by
      intro i j h1 h2 h3 h4
      by_cases hij : i = j
      · subst hij; exact h4
      · simp only [Bool.not_eq_true'] at h4 ⊢
        exact Key.le_trans _ _ _ (hs i j h1 (by omega) h3) h4)
  refine ⟨k, h0, h1, h2, ?_, ?_⟩
  · intro i hi1 hi2; simpa using h3 i hi1 hi2
  · intro i hi1 hi2; simpa using h4 i hi1 hi2


/-! ## my_bisect on a view of a column -/

/-- `s` (a list, a `SliceView` or a `ListView`) shows exactly the cells `xs` -/
structure Seq.Shows (s : Seq) (xs : List Cell) : Prop where
  toList : s.toList = .ok xs
  len : s.len = xs.length
  get : ∀ i, i < xs.length → s.get i = .ok (cellAt xs i)

/-- what the two bisections find for probe `v` on `[lo,hi)`: cells below `bl` are smaller,
cells from `br` on are greater -/
structure Cuts (xs : List Cell) (v : Cell) (lo hi bl br : Nat) : Prop where
  lo_bl : lo ≤ bl
  bl_br : bl ≤ br
  br_hi : br ≤ hi
  lt_iff : ∀ i, lo ≤ i → i < hi → ((cellAt xs i).key.lt v.key = true ↔ i < bl)
  gt_iff : ∀ i, lo ≤ i → i < hi → (v.key.lt (cellAt xs i).key = true ↔ br ≤ i)

/-- no cell of the segment is `None` -/
def NoNoneSeg (xs : List Cell) (lo hi : Nat) : Prop := ∀ i, lo ≤ i → i < hi → (cellAt xs i).key ≠ .none

theorem myBisectLeft_spec (cfg : Cfg) (s : Seq) (xs : List Cell) (hsh : s.Shows xs)
    (v : Cell) (lo hi : Nat) (hle : lo ≤ hi) (hhi : hi ≤ xs.length) (hne : cfg.guardEmpty = true ∨ lo < hi)
    (hs : SortedSeg xs lo hi) (hc : CmpSeg xs lo hi v) (hnn : NoNoneSeg xs lo hi) (hv : v.key ≠ .none) :
    ∃ k, myBisectLeft cfg s v lo hi = .ok k ∧ lo ≤ k ∧ k ≤ hi ∧
      (∀ i, lo ≤ i → i < k → (cellAt xs i).key.lt v.key = true) ∧
      (∀ i, k ≤ i → i < hi → (cellAt xs i).key.lt v.key = false) := by
  unfold myBisectLeft
  by_cases hg : (cfg.guardEmpty && decide (hi ≤ lo)) = true
  · simp only [hg, if_true]
    exact bisectLeft_spec s.get xs hsh.get v lo hi hle hhi hs hc
  · simp only [hg]
    have hlt : lo < hi := by
      rcases hne with h | h
      · simp [h] at hg; exact hg
      · exact h
    simp only [Bool.false_eq_true, if_false, hsh.get lo (by omega), bind, Except.bind]
    by_cases he : pyEq (cellAt xs lo) v = true
    · simp only [he, if_true, pure, Except.pure]
      refine ⟨lo, rfl, le_refl _, by omega, by intro i h1 h2; omega, ?_⟩
      intro i h1 h2
      have hk : (cellAt xs lo).key = v.key := (pyEq_iff_key _ _ (hnn lo (le_refl _) hlt) hv).mp he
      rw [← hk]
      by_cases hil : i = lo
      · subst hil; exact Key.lt_irrefl _
      · exact hs lo i (le_refl _) (by omega) h2
    · simp only [he]
      exact bisectLeft_spec s.get xs hsh.get v lo hi hle hhi hs hc

theorem myBisectRight_spec (cfg : Cfg) (s : Seq) (xs : List Cell) (hsh : s.Shows xs)
    (v : Cell) (lo hi : Nat) (hle : lo ≤ hi) (hhi : hi ≤ xs.length) (hne : cfg.guardEmpty = true ∨ lo < hi)
    (hs : SortedSeg xs lo hi) (hc : CmpSeg xs lo hi v) (hnn : NoNoneSeg xs lo hi) (hv : v.key ≠ .none) :
    ∃ k, myBisectRight cfg s v lo hi = .ok k ∧ lo ≤ k ∧ k ≤ hi ∧
      (∀ i, lo ≤ i → i < k → v.key.lt (cellAt xs i).key = false) ∧
      (∀ i, k ≤ i → i < hi → v.key.lt (cellAt xs i).key = true) := by
  unfold myBisectRight
  by_cases hg : (cfg.guardEmpty && decide (hi ≤ lo)) = true
  · simp only [hg, if_true]
    exact bisectRight_spec s.get xs hsh.get v lo hi hle hhi hs hc
  · simp only [hg]
    have hlt : lo < hi := by
      rcases hne with h | h
      · simp [h] at hg; exact hg
      · exact h
    have h0 : hi ≠ 0 := by omega
    simp only [Bool.false_eq_true, if_false, h0, hsh.get (hi - 1) (by omega), bind, Except.bind]
    by_cases he : pyEq (cellAt xs (hi - 1)) v = true
    · simp only [he, if_true, pure, Except.pure]
      refine ⟨hi, rfl, hle, le_refl _, ?_, by intro i h1 h2; omega⟩
      intro i h1 h2
      have hk : (cellAt xs (hi - 1)).key = v.key := (pyEq_iff_key _ _ (hnn (hi - 1) (by omega) (by omega)) hv).mp he
      rw [← hk]
      by_cases hil : i = hi - 1
      · subst hil; exact Key.lt_irrefl _
      · exact hs i (hi - 1) h1 (by omega) (by omega)
    · simp only [he]
      exact bisectRight_spec s.get xs hsh.get v lo hi hle hhi hs hc

/-- both bisections together -/
theorem cuts_of_bisect (cfg : Cfg) (s : Seq) (xs : List Cell) (hsh : s.Shows xs)
    (v : Cell) (lo hi : Nat) (hle : lo ≤ hi) (hhi : hi ≤ xs.length) (hne : cfg.guardEmpty = true ∨ lo < hi)
    (hs : SortedSeg xs lo hi) (hc : CmpSeg xs lo hi v) (hnn : NoNoneSeg xs lo hi) (hv : v.key ≠ .none) :
    ∃ bl br, myBisectLeft cfg s v lo hi = .ok bl ∧ myBisectRight cfg s v lo hi = .ok br ∧ Cuts xs v lo hi bl br := by
  obtain ⟨bl, e1, a1, a2, a3, a4⟩ := myBisectLeft_spec cfg s xs hsh v lo hi hle hhi hne hs hc hnn hv
  obtain ⟨br, e2, b1, b2, b3, b4⟩ := myBisectRight_spec cfg s xs hsh v lo hi hle hhi hne hs hc hnn hv
  refine ⟨bl, br, e1, e2, ⟨a1, ?_, b2, ?_, ?_⟩⟩
  · -- bl ≤ br
    by_contra hcon
    have hlt : br < bl := by omega
    have h1 := a3 br b1 hlt
    have h2 := b4 br (le_refl _) (by omega)
    rw [Key.lt_asymm _ _ h1] at h2
    exact absurd h2 (by simp)
  · intro i h1 h2
    constructor
    · intro h
      by_contra hcon
      rw [a4 i (by omega) h2] at h
      exact absurd h (by simp)
    · intro h; exact a3 i h1 h
  · intro i h1 h2
    constructor
    · intro h
      by_contra hcon
      rw [b3 i h1 (by omega)] at h
      exact absurd h (by simp)
    · intro h; exact b4 i h h2


/-! ## increasing selections -/

def StrictInc (l : List Nat) : Prop := l.Pairwise (· < ·)

/-- `l` lists, in increasing order and once each, exactly the `i ∈ [lo,hi)` with `P i` -/
structure Picks (l : List Nat) (lo hi : Nat) (P : Nat → Prop) : Prop where
  inc : StrictInc l
  mem : ∀ i, i ∈ l ↔ lo ≤ i ∧ i < hi ∧ P i

theorem Picks.unique {l1 l2 : List Nat} {lo hi : Nat} {P : Nat → Prop}
    (h1 : Picks l1 lo hi P) (h2 : Picks l2 lo hi P) : l1 = l2 :=
  List.Pairwise.eq_of_mem_iff h1.inc h2.inc (fun i => by rw [h1.mem, h2.mem])

theorem Picks.congr {l : List Nat} {lo hi : Nat} {P Q : Nat → Prop} (h : Picks l lo hi P)
    (hpq : ∀ i, lo ≤ i → i < hi → (P i ↔ Q i)) : Picks l lo hi Q :=
  ⟨h.inc, fun i => by
    rw [h.mem]
    constructor
    · rintro ⟨a, b, c⟩; exact ⟨a, b, (hpq i a b).mp c⟩
    · rintro ⟨a, b, c⟩; exact ⟨a, b, (hpq i a b).mpr c⟩⟩

theorem Picks.append {l1 l2 : List Nat} {lo mid hi : Nat} {P : Nat → Prop}
    (h1 : Picks l1 lo mid P) (h2 : Picks l2 mid hi P) (hlm : lo ≤ mid) (hmh : mid ≤ hi) :
    Picks (l1 ++ l2) lo hi P := by
  constructor
  · unfold StrictInc
    rw [List.pairwise_append]
    refine ⟨h1.inc, h2.inc, ?_⟩
    intro a ha b hb
    have := (h1.mem a).mp ha
    have := (h2.mem b).mp hb
    omega
  · intro i
    rw [List.mem_append, h1.mem, h2.mem]
    constructor
    · rintro (⟨a, b, c⟩ | ⟨a, b, c⟩)
      · exact ⟨a, by omega, c⟩
      · exact ⟨by omega, b, c⟩
    · rintro ⟨a, b, c⟩
      by_cases h : i < mid
      · exact Or.inl ⟨a, h, c⟩
      · exact Or.inr ⟨by omega, b, c⟩

theorem Picks.nil {lo : Nat} {P : Nat → Prop} : Picks [] lo lo P :=
  ⟨List.Pairwise.nil, fun i => by simp; intro h1 h2; omega⟩

theorem mem_rangeOf (p : Nat × Nat) (i : Nat) : i ∈ rangeOf p ↔ p.1 ≤ i ∧ i < p.2 := by
  simp only [rangeOf, List.mem_range'_1]
  omega

theorem strictInc_rangeOf (p : Nat × Nat) : StrictInc (rangeOf p) := List.pairwise_lt_range'

/-- a range `[a,b)` picks the `i ∈ [lo,hi)` with `a ≤ i < b` -/
theorem picks_rangeOf (a b lo hi : Nat) (P : Nat → Prop) (hP : ∀ i, lo ≤ i → i < hi → (P i ↔ a ≤ i ∧ i < b))
    (ha : lo ≤ a) (hb : b ≤ hi) : Picks (rangeOf (a, b)) lo hi P := by
  refine ⟨strictInc_rangeOf _, fun i => ?_⟩
  rw [mem_rangeOf]
  constructor
  · rintro ⟨h1, h2⟩
    exact ⟨by omega, by omega, (hP i (by omega) (by omega)).mpr ⟨h1, h2⟩⟩
  · rintro ⟨h1, h2, h3⟩
    exact (hP i h1 h2).mp h3

/-- two ranges `[a,b)`, `[c,d)` with `b ≤ c` -/
theorem picks_two_ranges (a b c d lo hi : Nat) (P : Nat → Prop)
    (hP : ∀ i, lo ≤ i → i < hi → (P i ↔ (a ≤ i ∧ i < b) ∨ (c ≤ i ∧ i < d)))
    (ha : lo ≤ a) (hab : a ≤ b) (hbc : b ≤ c) (hcd : c ≤ d) (hd : d ≤ hi) :
    Picks (rangeOf (a, b) ++ rangeOf (c, d)) lo hi P := by
  constructor
  · unfold StrictInc
    rw [List.pairwise_append]
    refine ⟨strictInc_rangeOf _, strictInc_rangeOf _, ?_⟩
    intro x hx y hy
    rw [mem_rangeOf] at hx hy
    simp only at hx hy
    omega
  · intro i
    rw [List.mem_append, mem_rangeOf, mem_rangeOf]
    simp only
    constructor
    · intro h
      have h1 : lo ≤ i := by omega
      have h2 : i < hi := by omega
      exact ⟨h1, h2, (hP i h1 h2).mpr h⟩
    · rintro ⟨h1, h2, h3⟩
      exact (hP i h1 h2).mp h3

/-! ## `_compare` on the bisect path, one scalar probe -/

/-- the meaning of a comparison in terms of keys -/
def keySat : Op → Key → Key → Bool
  | .eq, c, v => decide (c = v)
  | .ne, c, v => !(decide (c = v))
  | .lt, c, v => c.lt v
  | .le, c, v => !(v.lt c)
  | .gt, c, v => v.lt c
  | .ge, c, v => !(c.lt v)
  | _, _, _ => false

def Op.isScalarOp : Op → Bool
  | .eq | .ne | .lt | .le | .gt | .ge => true
  | _ => false

theorem key_eq_iff (c v : Key) : c = v ↔ (c.lt v = false ∧ v.lt c = false) := by
  constructor
  · rintro rfl; exact ⟨Key.lt_irrefl _, Key.lt_irrefl _⟩
  · rintro ⟨h1, h2⟩; exact Key.lt_connected _ _ h1 h2

theorem compareBisect_scalar (cfg : Cfg) (s : Seq) (xs : List Cell) (v : Cell) (lo hi bl br : Nat)
    (e1 : myBisectLeft cfg s v lo hi = .ok bl) (e2 : myBisectRight cfg s v lo hi = .ok br)
    (hc : Cuts xs v lo hi bl br) (op : Op) (hop : op.isScalarOp = true) :
    ∃ rs, compareBisect cfg s lo hi op (.scalar v) = .ok rs ∧
      Picks (rs.flatMap rangeOf) lo hi (fun i => keySat op (cellAt xs i).key v.key = true) := by
  have hlt := hc.lt_iff
  have hgt := hc.gt_iff
  have h1 := hc.lo_bl
  have h2 := hc.bl_br
  have h3 := hc.br_hi
  cases op
  case isin => simp [Op.isScalarOp] at hop
  case notin => simp [Op.isScalarOp] at hop
  case mtch => simp [Op.isScalarOp] at hop
  · -- eq
    refine ⟨[(bl, br)], by simp [compareBisect, e1, e2, bind, Except.bind, pure, Except.pure], ?_⟩
    simp only [List.flatMap_cons, List.flatMap_nil, List.append_nil]
    apply picks_rangeOf _ _ _ _ _ _ h1 h3
    intro i hi1 hi2
    simp only [keySat, decide_eq_true_eq, key_eq_iff]
    have a := hlt i hi1 hi2
    have b := hgt i hi1 hi2
    constructor
    · rintro ⟨p, q⟩
      constructor
      · by_contra hcon; have := a.mpr (by omega); rw [p] at this; exact absurd this (by simp)
      · by_contra hcon; have := b.mpr (by omega); rw [q] at this; exact absurd this (by simp)
    · rintro ⟨p, q⟩
      constructor
      · cases hh : (cellAt xs i).key.lt v.key with
        | false => rfl
        | true => have := a.mp hh; omega
      · cases hh : v.key.lt (cellAt xs i).key with
        | false => rfl
        | true => have := b.mp hh; omega
  · -- ne
    refine ⟨[(lo, bl), (br, hi)], by simp [compareBisect, e1, e2, bind, Except.bind, pure, Except.pure], ?_⟩
    simp only [List.flatMap_cons, List.flatMap_nil, List.append_nil]
    apply picks_two_ranges _ _ _ _ _ _ _ _ (le_refl _) h1 h2 h3 (le_refl _)
    intro i hi1 hi2
    simp only [keySat, Bool.not_eq_true', decide_eq_false_iff_not, key_eq_iff]
    have a := hlt i hi1 hi2
    have b := hgt i hi1 hi2
    constructor
    · intro hne
      by_cases p : (cellAt xs i).key.lt v.key = true
      · exact Or.inl ⟨hi1, a.mp p⟩
      · by_cases q : v.key.lt (cellAt xs i).key = true
        · exact Or.inr ⟨b.mp q, hi2⟩
        · exact absurd ⟨by simpa using p, by simpa using q⟩ hne
    · rintro (⟨_, p⟩ | ⟨q, _⟩)
      · intro hcon; have := a.mpr p; rw [hcon.1] at this; exact absurd this (by simp)
      · intro hcon; have := b.mpr q; rw [hcon.2] at this; exact absurd this (by simp)
  · -- lt
    refine ⟨[(lo, bl)], by simp [compareBisect, e1, bind, Except.bind, pure, Except.pure], ?_⟩
    simp only [List.flatMap_cons, List.flatMap_nil, List.append_nil]
    apply picks_rangeOf _ _ _ _ _ _ (le_refl _) (by omega)
    intro i hi1 hi2
    simp only [keySat]
    rw [hlt i hi1 hi2]; omega
  · -- le
    refine ⟨[(lo, br)], by simp [compareBisect, e2, bind, Except.bind, pure, Except.pure], ?_⟩
    simp only [List.flatMap_cons, List.flatMap_nil, List.append_nil]
    apply picks_rangeOf _ _ _ _ _ _ (le_refl _) h3
    intro i hi1 hi2
    simp only [keySat, Bool.not_eq_true']
    have b := hgt i hi1 hi2
    constructor
    · intro p; refine ⟨hi1, ?_⟩; by_contra hcon; have := b.mpr (by omega); rw [p] at this; exact absurd this (by simp)
    · rintro ⟨_, p⟩
      cases hh : v.key.lt (cellAt xs i).key with
      | false => rfl
      | true => have := b.mp hh; omega
  · -- gt
    refine ⟨[(br, hi)], by simp [compareBisect, e2, bind, Except.bind, pure, Except.pure], ?_⟩
    simp only [List.flatMap_cons, List.flatMap_nil, List.append_nil]
    apply picks_rangeOf _ _ _ _ _ _ (by omega) (le_refl _)
    intro i hi1 hi2
    simp only [keySat]
    rw [hgt i hi1 hi2]; omega
  · -- ge
    refine ⟨[(bl, hi)], by simp [compareBisect, e1, bind, Except.bind, pure, Except.pure], ?_⟩
    simp only [List.flatMap_cons, List.flatMap_nil, List.append_nil]
    apply picks_rangeOf _ _ _ _ _ _ h1 (le_refl _)
    intro i hi1 hi2
    simp only [keySat, Bool.not_eq_true']
    have a := hlt i hi1 hi2
    constructor
    · intro p; refine ⟨?_, hi2⟩; by_contra hcon; have := a.mpr (by omega); rw [p] at this; exact absurd this (by simp)
    · rintro ⟨p, _⟩
      cases hh : (cellAt xs i).key.lt v.key with
      | false => rfl
      | true => have := a.mp hh; omega


/-! ## the stable insertion sort -/

section SortBy
variable {α : Type} (lt : α → α → Bool)

theorem insertBy_perm (x : α) : ∀ l : List α, (insertBy lt x l).Perm (x :: l)
  | [] => List.Perm.refl _
  | y :: ys => by
    simp only [insertBy]
    split
    · exact ((insertBy_perm x ys).cons y).trans (List.Perm.swap x y ys)
    · exact List.Perm.refl _

theorem sortBy_perm : ∀ l : List α, (sortBy lt l).Perm l
  | [] => List.Perm.refl _
  | x :: xs => (insertBy_perm lt x (sortBy lt xs)).trans ((sortBy_perm xs).cons x)

/-- `lt` is a strict weak order given by: asymmetry and transitivity of "not greater" -/
structure IsSWO : Prop where
  asymm : ∀ a b, lt a b = true → lt b a = false
  le_trans : ∀ a b c, lt b a = false → lt c b = false → lt c a = false

/-- non-decreasing: no later element is smaller than an earlier one -/
def SortedBy (l : List α) : Prop := l.Pairwise (fun a b => lt b a = false)

theorem insertBy_sorted (h : IsSWO lt) (x : α) : ∀ l : List α, SortedBy lt l → SortedBy lt (insertBy lt x l)
  | [], _ => by simp [insertBy, SortedBy]
  | y :: ys, hs => by
    unfold SortedBy at hs ⊢
    rw [List.pairwise_cons] at hs
    simp only [insertBy]
    split
    · rename_i hyx
      rw [List.pairwise_cons]
      refine ⟨?_, insertBy_sorted h x ys hs.2⟩
      intro z hz
      have hz' := (insertBy_perm lt x ys).mem_iff.mp hz
      rw [List.mem_cons] at hz'
      rcases hz' with rfl | hz'
      · exact h.asymm _ _ hyx
      · exact hs.1 z hz'
    · rename_i hyx
      simp only [Bool.not_eq_true] at hyx
      rw [List.pairwise_cons]
      refine ⟨?_, List.pairwise_cons.mpr hs⟩
      intro z hz
      simp at hz
      rcases hz with rfl | hz
      · exact hyx
      · exact h.le_trans _ _ _ hyx (hs.1 z hz)

theorem sortBy_sorted (h : IsSWO lt) : ∀ l : List α, SortedBy lt (sortBy lt l)
  | [] => List.Pairwise.nil
  | x :: xs => insertBy_sorted lt h x _ (sortBy_sorted h xs)

end SortBy

/-- the order `sorted()` uses on cells -/
def ltk (a b : Cell) : Bool := a.key.lt b.key

theorem ltk_swo : IsSWO ltk :=
  ⟨fun _ _ h => Key.lt_asymm _ _ h, fun _ _ _ h1 h2 => Key.le_trans _ _ _ h1 h2⟩

theorem pySorted_ok (vs : List Cell) (h : allComparable vs = true) : pySorted vs = .ok (sortBy ltk vs) := by
  simp only [pySorted, h, if_true]
  rfl

/-! ### probes of `in`: strictly increasing after `groupby` or when distinct -/

/-- strictly increasing keys -/
def StrictKeys (l : List Cell) : Prop := l.Pairwise (fun a b => ltk a b = true)

def NoNone (l : List Cell) : Prop := ∀ v ∈ l, v.key ≠ .none

theorem strict_of_sorted_distinct : ∀ (l : List Cell), SortedBy ltk l → l.Pairwise (fun a b => a.key ≠ b.key) → StrictKeys l
  | [], _, _ => List.Pairwise.nil
  | x :: xs, hs, hd => by
    unfold SortedBy at hs
    unfold StrictKeys
    rw [List.pairwise_cons] at hs hd ⊢
    refine ⟨?_, strict_of_sorted_distinct xs hs.2 hd.2⟩
    intro z hz
    cases hxz : ltk x z with
    | true => rfl
    | false =>
      have := Key.lt_connected _ _ hxz (hs.1 z hz)
      exact absurd this (hd.1 z hz)

theorem dedupAdjAux_spec : ∀ (l : List Cell) (k : Cell), SortedBy ltk (k :: l) → NoNone (k :: l) →
    StrictKeys (k :: dedupAdjAux k l) ∧ (∀ c : Key, (∃ v ∈ k :: dedupAdjAux k l, c = v.key) ↔ (∃ v ∈ k :: l, c = v.key))
  | [], k, _, _ => by simp [dedupAdjAux, StrictKeys]
  | y :: ys, k, hs, hn => by
    have hs' := hs
    unfold SortedBy at hs'
    rw [List.pairwise_cons, List.pairwise_cons] at hs'
    have hky : k.key ≠ .none := hn k (by simp)
    have hyy : y.key ≠ .none := hn y (by simp)
    simp only [dedupAdjAux]
    by_cases he : pyEq k y = true
    · have hk : k.key = y.key := (pyEq_iff_key _ _ hky hyy).mp he
      simp only [he, if_true]
      have hs2 : SortedBy ltk (k :: ys) := by
        unfold SortedBy; rw [List.pairwise_cons]
        exact ⟨fun z hz => hs'.1 z (by simp [hz]), hs'.2.2⟩
      have hn2 : NoNone (k :: ys) := by
        intro v hv; apply hn v; simp at hv ⊢; rcases hv with h | h <;> simp [h]
      obtain ⟨a, b⟩ := dedupAdjAux_spec ys k hs2 hn2
      refine ⟨a, fun c => ?_⟩
      rw [b c]
      constructor
      · rintro ⟨v, hv, rfl⟩
        simp at hv
        rcases hv with rfl | hv
        · exact ⟨v, by simp, rfl⟩
        · exact ⟨v, by simp [hv], rfl⟩
      · rintro ⟨v, hv, rfl⟩
        simp at hv
        rcases hv with rfl | rfl | hv
        · exact ⟨v, by simp, rfl⟩
        · exact ⟨k, by simp, hk.symm⟩
        · exact ⟨v, by simp [hv], rfl⟩
    · simp only [he]
      have hs2 : SortedBy ltk (y :: ys) := by
        unfold SortedBy; exact List.pairwise_cons.mpr hs'.2
      have hn2 : NoNone (y :: ys) := by
        intro v hv; apply hn v; simp at hv ⊢; rcases hv with h | h <;> simp [h]
      obtain ⟨a, b⟩ := dedupAdjAux_spec ys y hs2 hn2
      have hlt : ltk k y = true := by
        cases hh : ltk k y with
        | true => rfl
        | false =>
          have := Key.lt_connected _ _ hh (hs'.1 y (by simp))
          exact absurd ((pyEq_iff_key _ _ hky hyy).mpr this) he
      constructor
      · unfold StrictKeys at a ⊢
        rw [List.pairwise_cons]
        refine ⟨?_, a⟩
        intro z hz
        simp at hz
        rcases hz with rfl | hz
        · exact hlt
        · rw [List.pairwise_cons] at a
          exact Key.lt_trans _ _ _ hlt (a.1 z hz)
      · intro c
        constructor
        · rintro ⟨v, hv, rfl⟩
          simp at hv
          rcases hv with rfl | hv
          · exact ⟨v, by simp, rfl⟩
          · obtain ⟨w, hw, e⟩ := (b v.key).mp ⟨v, by simpa using hv, rfl⟩
            exact ⟨w, by simp at hw ⊢; tauto, e⟩
        · rintro ⟨v, hv, rfl⟩
          simp at hv
          rcases hv with rfl | hv
          · exact ⟨v, by simp, rfl⟩
          · obtain ⟨w, hw, e⟩ := (b v.key).mpr ⟨v, by simpa using hv, rfl⟩
            exact ⟨w, by simp at hw ⊢; tauto, e⟩

theorem dedupAdj_spec (l : List Cell) (hs : SortedBy ltk l) (hn : NoNone l) :
    StrictKeys (dedupAdj l) ∧ (∀ c : Key, (∃ v ∈ dedupAdj l, c = v.key) ↔ (∃ v ∈ l, c = v.key)) := by
  cases l with
  | nil => simp [dedupAdj, StrictKeys]
  | cons x xs => simpa [dedupAdj] using dedupAdjAux_spec xs x hs hn


/-! ## `_compare` on the bisect path, a collection of probes -/

/-- everything the bisections need to work on `[lo,hi)` for every probe of `vs` -/
structure ProbeOK (cfg : Cfg) (xs : List Cell) (lo hi : Nat) (vs : List Cell) : Prop where
  le : lo ≤ hi
  hi_le : hi ≤ xs.length
  nonempty : cfg.guardEmpty = true ∨ lo < hi
  sorted : SortedSeg xs lo hi
  nonone : NoNoneSeg xs lo hi
  cmp : ∀ v ∈ vs, CmpSeg xs lo hi v
  vnn : NoNone vs

theorem Picks.restrict_lo {l : List Nat} {lo mid hi : Nat} {P : Nat → Prop} (h : Picks l lo hi P)
    (hn : ∀ i, lo ≤ i → i < mid → ¬ P i) (hlm : lo ≤ mid) : Picks l mid hi P :=
  ⟨h.inc, fun i => by
    rw [h.mem]
    constructor
    · rintro ⟨a, b, c⟩
      refine ⟨?_, b, c⟩
      by_contra hcon
      exact hn i a (by omega) c
    · rintro ⟨a, b, c⟩; exact ⟨by omega, b, c⟩⟩

/-- for probes `u ≤ v` the right cut of `u` is not beyond the right cut of `v`, and if `u < v`
it is not beyond the left cut of `v` -/
theorem cuts_br_le_br {xs : List Cell} {u v : Cell} {lo hi a b c d : Nat}
    (hu : Cuts xs u lo hi a b) (hv : Cuts xs v lo hi c d) (huv : v.key.lt u.key = false) : b ≤ d := by
  by_contra hcon
  have h1 : lo ≤ d := by have := hv.lo_bl; have := hv.bl_br; omega
  have h2 : d < hi := by have := hu.br_hi; omega
  have p := (hv.gt_iff d h1 h2).mpr (le_refl _)
  have q : u.key.lt (cellAt xs d).key = false := by
    cases hh : u.key.lt (cellAt xs d).key with
    | false => rfl
    | true => have := (hu.gt_iff d h1 h2).mp hh; omega
  -- c ≤ u ≤ v < c
  have := Key.le_trans _ _ _ q huv
  rw [this] at p; exact absurd p (by simp)

theorem cuts_br_le_bl {xs : List Cell} {u v : Cell} {lo hi a b c d : Nat}
    (hu : Cuts xs u lo hi a b) (hv : Cuts xs v lo hi c d) (huv : u.key.lt v.key = true) : b ≤ c := by
  by_contra hcon
  have h1 : lo ≤ c := hv.lo_bl
  have h2 : c < hi := by have := hu.br_hi; omega
  have p : (cellAt xs c).key.lt v.key = false := by
    cases hh : (cellAt xs c).key.lt v.key with
    | false => rfl
    | true => have := (hv.lt_iff c h1 h2).mp hh; omega
  have q : u.key.lt (cellAt xs c).key = false := by
    cases hh : u.key.lt (cellAt xs c).key with
    | false => rfl
    | true => have := (hu.gt_iff c h1 h2).mp hh; omega
  -- c ≤ u < v ≤ c
  have := Key.lt_of_le_of_lt _ _ _ q huv
  rw [this] at p; exact absurd p (by simp)

theorem cuts_exists (cfg : Cfg) (s : Seq) (xs : List Cell) (hsh : s.Shows xs) (lo hi : Nat) (vs : List Cell)
    (h : ProbeOK cfg xs lo hi vs) (v : Cell) (hv : v ∈ vs) :
    ∃ bl br, myBisectLeft cfg s v lo hi = .ok bl ∧ myBisectRight cfg s v lo hi = .ok br ∧ Cuts xs v lo hi bl br :=
  cuts_of_bisect cfg s xs hsh v lo hi h.le h.hi_le h.nonempty h.sorted (h.cmp v hv) h.nonone (h.vnn v hv)

/-- the pair of cuts `_compare` computes for one probe of `in` -/
def isinPair (cfg : Cfg) (s : Seq) (lo hi : Nat) (v : Cell) : Except Err (Nat × Nat) := do
  let l ← myBisectLeft cfg s v lo hi
  let h ← myBisectRight cfg s v lo hi
  pure (l, h)

/-- the ranges of `in` for strictly increasing probes -/
theorem isin_ranges (cfg : Cfg) (s : Seq) (xs : List Cell) (hsh : s.Shows xs) (lo hi : Nat) :
    ∀ (vs : List Cell), ProbeOK cfg xs lo hi vs → StrictKeys vs →
    ∃ rs, vs.mapM (isinPair cfg s lo hi) = .ok rs ∧
      Picks (rs.flatMap rangeOf) lo hi (fun i => ∃ v ∈ vs, (cellAt xs i).key = v.key)
  | [], h, _ => by
    refine ⟨[], by simp [pure, Except.pure], ?_⟩
    refine ⟨List.Pairwise.nil, fun i => ?_⟩
    simp
  | v :: rest, h, hst => by
    unfold StrictKeys at hst
    rw [List.pairwise_cons] at hst
    have hrest : ProbeOK cfg xs lo hi rest :=
      { h with cmp := fun w hw => h.cmp w (by simp [hw]), vnn := fun w hw => h.vnn w (by simp [hw]) }
    obtain ⟨rs, e, hp⟩ := isin_ranges cfg s xs hsh lo hi rest hrest hst.2
    obtain ⟨bl, br, e1, e2, hc⟩ := cuts_exists cfg s xs hsh lo hi _ h v (by simp)
    have e0 : isinPair cfg s lo hi v = .ok (bl, br) := by
      simp [isinPair, e1, e2, bind, Except.bind, pure, Except.pure]
    refine ⟨(bl, br) :: rs, by rw [List.mapM_cons, e0, e]; rfl, ?_⟩
    simp only [List.flatMap_cons]
    have hbr : lo ≤ br := by have := hc.lo_bl; have := hc.bl_br; omega
    apply Picks.append (mid := br) _ _ hbr hc.br_hi
    · -- [lo, br): exactly the cells equal to v
      apply picks_rangeOf _ _ _ _ _ _ hc.lo_bl (le_refl _)
      intro i h1 h2
      have a := hc.lt_iff i h1 (by have := hc.br_hi; omega)
      have b := hc.gt_iff i h1 (by have := hc.br_hi; omega)
      constructor
      · rintro ⟨w, hw, hk⟩
        simp at hw
        rcases hw with rfl | hw
        · refine ⟨?_, h2⟩
          by_contra hcon
          have := a.mpr (by omega)
          rw [hk, Key.lt_irrefl] at this; exact absurd this (by simp)
        · -- a later probe is greater than v, but the cell is not greater than v
          exfalso
          have hvw := hst.1 w hw
          have : v.key.lt (cellAt xs i).key = true := by rw [hk]; exact hvw
          have := b.mp this; omega
      · rintro ⟨p, q⟩
        refine ⟨v, by simp, ?_⟩
        apply Key.lt_connected
        · cases hh : (cellAt xs i).key.lt v.key with
          | false => rfl
          | true => have := a.mp hh; omega
        · cases hh : v.key.lt (cellAt xs i).key with
          | false => rfl
          | true => have := b.mp hh; omega
    · -- [br, hi): the ranges of the later probes
      have hp2 : Picks (rs.flatMap rangeOf) br hi (fun i => ∃ w ∈ rest, (cellAt xs i).key = w.key) := by
        apply Picks.restrict_lo hp _ hbr
        rintro i h1 h2 ⟨w, hw, hk⟩
        have hvw := hst.1 w hw
        have : v.key.lt (cellAt xs i).key = true := by rw [hk]; exact hvw
        have := (hc.gt_iff i h1 (by have := hc.br_hi; omega)).mp this
        omega
      apply hp2.congr
      intro i h1 h2
      constructor
      · rintro ⟨w, hw, hk⟩; exact ⟨w, by simp [hw], hk⟩
      · rintro ⟨w, hw, hk⟩
        simp at hw
        rcases hw with rfl | hw
        · exfalso
          have := (hc.gt_iff i (by omega) h2).mpr h1
          rw [hk, Key.lt_irrefl] at this; exact absurd this (by simp)
        · exact ⟨w, hw, hk⟩


/-! ### `!in` -/

def notinPair (cfg : Cfg) (s : Seq) (lo hi : Nat) (p : Option Cell × Option Cell) : Except Err (Nat × Nat) := do
  let l ← match p.1 with | Option.none => pure lo | some v0 => myBisectRight cfg s v0 lo hi
  let h ← match p.2 with | Option.none => pure hi | some v1 => myBisectLeft cfg s v1 lo hi
  pure (l, h)

def gapPairs (prev : Option Cell) : List Cell → List (Option Cell × Option Cell)
  | [] => [(prev, Option.none)]
  | v :: rest => (prev, some v) :: gapPairs (some v) rest

theorem zip_gap (p : Option Cell) : ∀ l : List Cell,
    (p :: (l.map some ++ [Option.none])).zip (l.map some ++ [Option.none]) = gapPairs p l
  | [] => by simp [gapPairs]
  | v :: rest => by
    simp only [List.map_cons, List.cons_append, List.zip_cons_cons, gapPairs]
    rw [zip_gap (some v) rest]

theorem notinPairs_eq (cfg : Cfg) (vs : List Cell) (hn : NoNone vs) : notinPairs cfg vs = gapPairs Option.none vs := by
  have hm : vs.map (fun c => if c = Cell.none && !cfg.notinSentinel then Option.none else some c) = vs.map some := by
    apply List.map_congr_left
    intro c hc
    have := hn c hc
    have : c ≠ Cell.none := by rintro rfl; exact this rfl
    simp [this]
  simp only [notinPairs, hm]
  exact zip_gap Option.none vs

theorem picks_prefix (lo b hi : Nat) (P : Nat → Prop) (hP : ∀ i, lo ≤ i → i < hi → (P i ↔ i < b)) (hb : b ≤ hi) :
    Picks (rangeOf (lo, b)) lo hi P := by
  refine ⟨strictInc_rangeOf _, fun i => ?_⟩
  rw [mem_rangeOf]
  constructor
  · rintro ⟨h1, h2⟩
    exact ⟨h1, by omega, (hP i h1 (by omega)).mpr h2⟩
  · rintro ⟨h1, h2, h3⟩
    exact ⟨h1, (hP i h1 h2).mp h3⟩

theorem notin_ranges (cfg : Cfg) (s : Seq) (xs : List Cell) (hsh : s.Shows xs) (lo hi : Nat) :
    ∀ (vs : List Cell) (prev : Option Cell) (start : Nat), ProbeOK cfg xs lo hi vs → SortedBy ltk vs →
    (match prev with | Option.none => pure lo | some v0 => myBisectRight cfg s v0 lo hi) = Except.ok start →
    lo ≤ start → start ≤ hi →
    (∀ v ∈ vs, ∀ bl br, Cuts xs v lo hi bl br → start ≤ br) →
    ∃ rs, (gapPairs prev vs).mapM (notinPair cfg s lo hi) = .ok rs ∧
      Picks (rs.flatMap rangeOf) start hi (fun i => ∀ v ∈ vs, (cellAt xs i).key ≠ v.key)
  | [], prev, start, h, _, hst, h1, h2, _ => by
    have e0 : notinPair cfg s lo hi (prev, Option.none) = .ok (start, hi) := by
      cases prev <;> simp_all [notinPair, bind, Except.bind, pure, Except.pure]
    refine ⟨[(start, hi)], by simp only [gapPairs, List.mapM_cons, e0, List.mapM_nil]; rfl, ?_⟩
    simp only [List.flatMap_cons, List.flatMap_nil, List.append_nil]
    apply picks_rangeOf _ _ _ _ _ _ (le_refl _) (le_refl _)
    intro i a b
    simp; omega
  | v :: rest, prev, start, h, hs, hst, h1, h2, hmono => by
    unfold SortedBy at hs
    rw [List.pairwise_cons] at hs
    have hrest : ProbeOK cfg xs lo hi rest :=
      { h with cmp := fun w hw => h.cmp w (by simp [hw]), vnn := fun w hw => h.vnn w (by simp [hw]) }
    obtain ⟨bl, br, e1, e2, hc⟩ := cuts_exists cfg s xs hsh lo hi _ h v (by simp)
    have hsb : start ≤ br := hmono v (by simp) bl br hc
    obtain ⟨rs, e, hp⟩ := notin_ranges cfg s xs hsh lo hi rest (some v) br hrest hs.2 e2
      (by omega) hc.br_hi
      (by
        intro w hw a b hcw
        exact cuts_br_le_br hc hcw (hs.1 w hw))
    have e0 : notinPair cfg s lo hi (prev, some v) = .ok (start, bl) := by
      cases prev <;> simp_all [notinPair, bind, Except.bind, pure, Except.pure]
    refine ⟨(start, bl) :: rs, by simp only [gapPairs, List.mapM_cons, e0, e]; rfl, ?_⟩
    simp only [List.flatMap_cons]
    apply Picks.append (mid := br) _ _ hsb hc.br_hi
    · apply picks_prefix _ _ _ _ _ (by have := hc.bl_br; omega)
      intro i a b
      have hlt := hc.lt_iff i (by omega) (by have := hc.br_hi; omega)
      have hgt := hc.gt_iff i (by omega) (by have := hc.br_hi; omega)
      constructor
      · intro hP
        have hne := hP v (by simp)
        apply hlt.mp
        cases hh : (cellAt xs i).key.lt v.key with
        | true => rfl
        | false =>
          exfalso; apply hne
          apply Key.lt_connected _ _ hh
          cases hh2 : v.key.lt (cellAt xs i).key with
          | false => rfl
          | true => have := hgt.mp hh2; omega
      · intro hib w hw hk
        have hcv := hlt.mpr hib
        simp at hw
        rcases hw with rfl | hw
        · rw [hk, Key.lt_irrefl] at hcv; exact absurd hcv (by simp)
        · have := Key.lt_of_lt_of_le _ _ _ hcv (hs.1 w hw)
          rw [hk, Key.lt_irrefl] at this; exact absurd this (by simp)
    · apply hp.congr
      intro i a b
      constructor
      · intro hP w hw
        simp at hw
        rcases hw with rfl | hw
        · intro hk
          have := (hc.gt_iff i (by have := hc.lo_bl; have := hc.bl_br; omega) b).mpr a
          rw [hk, Key.lt_irrefl] at this; exact absurd this (by simp)
        · exact hP w hw
      · intro hP w hw; exact hP w (by simp [hw])


/-! ### `_compare(…, "bisect")` as a whole -/

theorem dedupAdjAux_subset : ∀ (l : List Cell) (k v : Cell), v ∈ dedupAdjAux k l → v ∈ l
  | [], _, _, h => by simp [dedupAdjAux] at h
  | y :: ys, k, v, h => by
    simp only [dedupAdjAux] at h
    split at h
    · exact List.mem_cons_of_mem _ (dedupAdjAux_subset ys k v h)
    · simp at h
      rcases h with rfl | h
      · simp
      · exact List.mem_cons_of_mem _ (dedupAdjAux_subset ys y v h)

theorem dedupAdj_subset (l : List Cell) (v : Cell) (h : v ∈ dedupAdj l) : v ∈ l := by
  cases l with
  | nil => simp [dedupAdj] at h
  | cons x xs =>
    simp only [dedupAdj, List.mem_cons] at h
    rcases h with rfl | h
    · simp
    · exact List.mem_cons_of_mem _ (dedupAdjAux_subset xs x v h)

/-- the meaning of an operator/argument pair on a key -/
def argSat : Op → ArgV → Key → Bool
  | .isin, .coll vs, c => vs.any (fun v => decide (c = v.key))
  | .notin, .coll vs, c => !(vs.any (fun v => decide (c = v.key)))
  | .isin, .scalar _, _ => false
  | .notin, .scalar _, _ => false
  | op, .scalar v, c => keySat op c v.key
  | _, .coll _, _ => false

theorem ProbeOK.of_subset {cfg : Cfg} {xs : List Cell} {lo hi : Nat} {vs ws : List Cell}
    (h : ProbeOK cfg xs lo hi vs) (hsub : ∀ w ∈ ws, w ∈ vs) : ProbeOK cfg xs lo hi ws :=
  { h with cmp := fun w hw => h.cmp w (hsub w hw), vnn := fun w hw => h.vnn w (hsub w hw) }

theorem compareBisect_spec (cfg : Cfg) (s : Seq) (xs : List Cell) (hsh : s.Shows xs) (lo hi : Nat)
    (op : Op) (a : ArgV) (hshape : argShape op a = true)
    (hok : ProbeOK cfg xs lo hi (probesOf a)) (hcmp : allComparable (probesOf a) = true)
    (hdup : op = .isin → cfg.dedupIn = true ∨ (probesOf a).Pairwise (fun u v => u.key ≠ v.key)) :
    ∃ rs, compareBisect cfg s lo hi op a = .ok rs ∧
      Picks (rs.flatMap rangeOf) lo hi (fun i => argSat op a (cellAt xs i).key = true) := by
  cases a with
  | scalar v =>
    have hsc : op.isScalarOp = true := by cases op <;> simp_all [argShape, Op.isScalarOp]
    obtain ⟨bl, br, e1, e2, hc⟩ := cuts_exists cfg s xs hsh lo hi _ hok v (by simp [probesOf])
    obtain ⟨rs, e, hp⟩ := compareBisect_scalar cfg s xs v lo hi bl br e1 e2 hc op hsc
    refine ⟨rs, e, ?_⟩
    cases op <;> simp_all [argSat, Op.isScalarOp]
  | coll vs =>
    simp only [probesOf] at hok hcmp hdup
    have hperm := sortBy_perm ltk vs
    have hsorted := sortBy_sorted ltk ltk_swo vs
    have hok1 : ProbeOK cfg xs lo hi (sortBy ltk vs) := hok.of_subset (fun w hw => hperm.mem_iff.mp hw)
    cases op <;> simp only [argShape] at hshape <;> try (exact absurd hshape (by decide))
    · -- in
      have hkeys : ∃ vs', (if cfg.dedupIn then dedupAdj (sortBy ltk vs) else sortBy ltk vs) = vs' ∧ StrictKeys vs' ∧
          (∀ w ∈ vs', w ∈ vs) ∧ (∀ c : Key, (∃ v ∈ vs', c = v.key) ↔ (∃ v ∈ vs, c = v.key)) := by
        by_cases hd : cfg.dedupIn = true
        · obtain ⟨p, q⟩ := dedupAdj_spec (sortBy ltk vs) hsorted hok1.vnn
          refine ⟨_, by simp [hd], p, fun w hw => hperm.mem_iff.mp (dedupAdj_subset _ _ hw), fun c => ?_⟩
          rw [q c]
          constructor
          · rintro ⟨v, hv, e⟩; exact ⟨v, hperm.mem_iff.mp hv, e⟩
          · rintro ⟨v, hv, e⟩; exact ⟨v, hperm.mem_iff.mpr hv, e⟩
        · have hdis : vs.Pairwise (fun u v => u.key ≠ v.key) := by
            rcases hdup rfl with h | h
            · exact absurd h hd
            · exact h
          have hdis' : (sortBy ltk vs).Pairwise (fun u v => u.key ≠ v.key) :=
            (hperm.pairwise_iff (fun {a b} (h : a.key ≠ b.key) => fun e => h e.symm)).mpr hdis
          refine ⟨_, by simp [hd], strict_of_sorted_distinct _ hsorted hdis', fun w hw => hperm.mem_iff.mp hw, fun c => ?_⟩
          constructor
          · rintro ⟨v, hv, e⟩; exact ⟨v, hperm.mem_iff.mp hv, e⟩
          · rintro ⟨v, hv, e⟩; exact ⟨v, hperm.mem_iff.mpr hv, e⟩
      obtain ⟨vs', evs, hstrict, hsub, hkey⟩ := hkeys
      obtain ⟨rs, e, hp⟩ := isin_ranges cfg s xs hsh lo hi vs' (hok.of_subset hsub) hstrict
      refine ⟨rs, ?_, ?_⟩
      · simp only [compareBisect, pySorted_ok vs hcmp, bind, Except.bind, evs]
        exact e
      · apply hp.congr
        intro i _ _
        simp only [argSat, List.any_eq_true, decide_eq_true_eq]
        constructor
        · rintro ⟨v, hv, e⟩; exact (hkey _).mp ⟨v, hv, e⟩
        · rintro ⟨v, hv, e⟩; exact (hkey _).mpr ⟨v, hv, e⟩
    · -- !in
      obtain ⟨rs, e, hp⟩ := notin_ranges cfg s xs hsh lo hi (sortBy ltk vs) Option.none lo hok1 hsorted rfl
        (le_refl _) hok.le (fun v _ bl br hc => by have := hc.lo_bl; have := hc.bl_br; omega)
      refine ⟨rs, ?_, ?_⟩
      · simp only [compareBisect, pySorted_ok vs hcmp, bind, Except.bind, notinPairs_eq cfg _ hok1.vnn]
        exact e
      · apply hp.congr
        intro i _ _
        simp only [argSat, Bool.not_eq_true', List.any_eq_false, decide_eq_true_eq]
        constructor
        · intro h v hv; exact h v (hperm.mem_iff.mpr hv)
        · intro h v hv; exact h v (hperm.mem_iff.mp hv)


/-! ## the scan path -/

theorem scanFilter_congr : ∀ (col : List Cell) (lo : Nat) (f g : Cell → Except Err Bool),
    (∀ c ∈ col, f c = g c) → scanFilter lo col f = scanFilter lo col g
  | [], _, _, _, _ => rfl
  | c :: cs, lo, f, g, h => by
    simp only [scanFilter]
    rw [h c (by simp), scanFilter_congr cs (lo + 1) f g (fun d hd => h d (by simp [hd]))]

theorem cellAt_cons_succ (c : Cell) (cs : List Cell) (i : Nat) : cellAt (c :: cs) (i + 1) = cellAt cs i := by
  simp [cellAt, List.getD]

theorem cellAt_cons_zero (c : Cell) (cs : List Cell) : cellAt (c :: cs) 0 = c := by
  simp [cellAt, List.getD]

/-- if the test is defined (`q`) on every cell, the scan lists the positions that pass -/
theorem scanFilter_picks : ∀ (col : List Cell) (lo : Nat) (test : Cell → Except Err Bool) (q : Cell → Bool),
    (∀ c ∈ col, test c = .ok (q c)) →
    ∃ l, scanFilter lo col test = .ok l ∧ Picks l lo (lo + col.length) (fun i => q (cellAt col (i - lo)) = true)
  | [], lo, _, _, _ => ⟨[], rfl, by simpa using (Picks.nil (lo := lo))⟩
  | c :: cs, lo, test, q, h => by
    obtain ⟨l, e, hp⟩ := scanFilter_picks cs (lo + 1) test q (fun d hd => h d (by simp [hd]))
    have hp' : Picks l (lo + 1) (lo + (c :: cs).length) (fun i => q (cellAt (c :: cs) (i - lo)) = true) := by
      have : lo + 1 + cs.length = lo + (c :: cs).length := by simp; omega
      rw [← this]
      apply hp.congr
      intro i h1 h2
      have : i - lo = (i - (lo + 1)) + 1 := by omega
      rw [this, cellAt_cons_succ]
    have hfirst : Picks (if q c then [lo] else []) lo (lo + 1) (fun i => q (cellAt (c :: cs) (i - lo)) = true) := by
      constructor
      · split <;> simp [StrictInc]
      · intro i
        by_cases hq : q c = true
        · simp only [hq, if_true, List.mem_singleton]
          constructor
          · rintro rfl; simp [cellAt_cons_zero, hq]
          · rintro ⟨a, b, _⟩; omega
        · simp only [hq]
          simp
          intro a b
          have : i = lo := by omega
          subst this
          simpa [cellAt_cons_zero] using hq
    refine ⟨(if q c then [lo] else []) ++ l, ?_, hfirst.append hp' (by omega) (by simp)⟩
    simp only [scanFilter, h c (by simp), e]
    split <;> simp

/-- if the test raises on some cell, so does the scan -/
theorem scanFilter_error : ∀ (col : List Cell) (lo : Nat) (test : Cell → Except Err Bool) (c : Cell) (e : Err),
    c ∈ col → test c = .error e → ∃ e', scanFilter lo col test = .error e'
  | [], _, _, _, _, h, _ => by simp at h
  | d :: ds, lo, test, c, e, h, he => by
    simp only [scanFilter]
    cases hd : test d with
    | error e' => exact ⟨e', rfl⟩
    | ok b =>
      simp only
      simp at h
      rcases h with rfl | h
      · rw [hd] at he; exact absurd he (by simp)
      · obtain ⟨e', he'⟩ := scanFilter_error ds (lo + 1) test c e h he
        exact ⟨e', by rw [he']⟩

/-- on the scan path `_compare` applies exactly the plain test to every cell, unless `<=`/`>=`
meet `Missing` in a tree without the repair -/
def leGeOK (cfg : Cfg) (op : Op) (a : ArgV) (col : List Cell) : Prop :=
  (op = .le → cfg.missingLe = true ∨ ((∀ c ∈ col, c.key ≠ .missing) ∧ ∀ v ∈ probesOf a, v.key ≠ .missing)) ∧
  (op = .ge → cfg.missingGe = true ∨ ((∀ c ∈ col, c.key ≠ .missing) ∧ ∀ v ∈ probesOf a, v.key ≠ .missing))

theorem pyLe_fixed (cfg : Cfg) (c v : Cell) (h : cfg.missingLe = true ∨ (c.key ≠ .missing ∧ v.key ≠ .missing)) :
    pyLe cfg c v = pyLe Cfg.fixed c v := by
  rcases h with h | ⟨h1, h2⟩
  · simp [pyLe, h, Cfg.fixed]
  · simp [pyLe, h1, h2]

theorem pyGe_fixed (cfg : Cfg) (c v : Cell) (h : cfg.missingGe = true ∨ (c.key ≠ .missing ∧ v.key ≠ .missing)) :
    pyGe cfg c v = pyGe Cfg.fixed c v := by
  rcases h with h | ⟨h1, h2⟩
  · simp [pyGe, h, Cfg.fixed]
  · simp [pyGe, h1, h2]

theorem compareScan_eq (cfg : Cfg) (col : List Cell) (op : Op) (a : ArgV) (hshape : argShape op a = true)
    (hle : leGeOK cfg op a col) : compareScan cfg col op a = scanFilter 0 col (sat op a) := by
  cases a with
  | scalar v =>
    cases op <;> simp only [argShape] at hshape <;> try (exact absurd hshape (by decide))
    all_goals (simp only [compareScan]; apply scanFilter_congr; intro c hc; simp only [sat, satOrd])
    · -- le
      by_cases hn : c = Cell.none
      · simp [hn]
      · simp only [hn, if_false]
        apply pyLe_fixed
        rcases hle.1 rfl with h | ⟨h1, h2⟩
        · exact Or.inl h
        · exact Or.inr ⟨h1 c hc, h2 v (by simp [probesOf])⟩
    · -- ge
      by_cases hn : c = Cell.none
      · simp [hn]
      · simp only [hn, if_false]
        apply pyGe_fixed
        rcases hle.2 rfl with h | ⟨h1, h2⟩
        · exact Or.inl h
        · exact Or.inr ⟨h1 c hc, h2 v (by simp [probesOf])⟩
  | coll vs =>
    cases op <;> simp only [argShape] at hshape <;> try (exact absurd hshape (by decide))
    all_goals (simp only [compareScan]; apply scanFilter_congr; intro c hc; simp only [sat])


/-! ## the plain test in terms of keys -/

theorem Key.lt_missing (k : Key) (h : k ≠ .missing) : k.lt .missing = true := by
  cases k <;> simp_all [Key.lt, Key.rank]

theorem Key.missing_lt (k : Key) : Key.lt .missing k = false := by
  cases k <;> simp [Key.lt, Key.rank]

theorem cell_ne_none_of_key {c : Cell} (h : c.key ≠ .none) : c ≠ Cell.none := by
  rintro rfl; exact h rfl

theorem pyEq_eq_decide (a b : Cell) (ha : a.key ≠ .none) (hb : b.key ≠ .none) :
    pyEq a b = decide (a.key = b.key) := by
  rw [Bool.eq_iff_iff]
  simp [pyEq_iff_key a b ha hb]

theorem pyIn_eq_any (c : Cell) (vs : List Cell) (hc : c.key ≠ .none) (hv : NoNone vs) :
    pyIn c vs = vs.any (fun v => decide (c.key = v.key)) := by
  unfold pyIn
  induction vs with
  | nil => rfl
  | cons v rest ih =>
    simp only [List.any_cons]
    rw [pyEq_eq_decide c v hc (hv v (by simp)), ih (fun w hw => hv w (by simp [hw]))]

/-- what a cell has to be like for the plain test against `a` to be an order question:
not `None`, comparable with the probes, and the probes of an order comparison are not `Missing` -/
structure CellOK (op : Op) (a : ArgV) (c : Cell) : Prop where
  nn : c.key ≠ .none
  cmp : ∀ v ∈ probesOf a, c.key.comparable v.key = true
  vmiss : (op = .lt ∨ op = .le ∨ op = .gt ∨ op = .ge) → ∀ v ∈ probesOf a, v.key ≠ .missing

theorem sat_eq_argSat (op : Op) (a : ArgV) (c : Cell) (hshape : argShape op a = true)
    (hv : NoNone (probesOf a)) (h : CellOK op a c) : sat op a c = .ok (argSat op a c.key) := by
  have hcn := cell_ne_none_of_key h.nn
  cases a with
  | scalar v =>
    have hvn : v.key ≠ .none := hv v (by simp [probesOf])
    have hcmp := h.cmp v (by simp [probesOf])
    cases op <;> simp only [argShape] at hshape <;> try (exact absurd hshape (by decide))
    · simp [sat, argSat, keySat, pyEq_eq_decide c v h.nn hvn]
    · simp [sat, argSat, keySat, pyEq_eq_decide c v h.nn hvn]
    · simp [sat, satOrd, hcn, argSat, keySat, pyLt, hcmp]
    · have hvm := h.vmiss (by simp) v (by simp [probesOf])
      simp only [sat, satOrd, hcn, if_false, argSat, keySat, pyLe, Cfg.fixed]
      by_cases hcm : c.key = .missing
      · simp [hcm, Key.lt_missing _ hvm]
      · simp [hcm, hvm, hcmp]
    · have hvm := h.vmiss (by simp) v (by simp [probesOf])
      simp only [sat, satOrd, hcn, if_false, argSat, keySat, pyGt]
      by_cases hcm : c.key = .missing
      · simp [hcm, Key.lt_missing _ hvm]
      · simp [hcm, hvm, hcmp]
    · have hvm := h.vmiss (by simp) v (by simp [probesOf])
      simp only [sat, satOrd, hcn, if_false, argSat, keySat, pyGe, Cfg.fixed]
      by_cases hcm : c.key = .missing
      · simp [hcm, Key.missing_lt]
      · simp [hcm, hvm, hcmp]
  | coll vs =>
    cases op <;> simp only [argShape] at hshape <;> try (exact absurd hshape (by decide))
    · simp [sat, argSat, pyIn_eq_any c vs h.nn hv]
    · simp [sat, argSat, pyIn_eq_any c vs h.nn hv]

/-! ## lohis: consecutive segments covering `[a,b)` -/

inductive Segs : List (Nat × Nat) → Nat → Nat → Prop
  | nil (a : Nat) : Segs [] a a
  | cons {a h b : Nat} {r : List (Nat × Nat)} : a ≤ h → Segs r h b → Segs ((a, h) :: r) a b

theorem Segs.le {l : List (Nat × Nat)} {a b : Nat} (h : Segs l a b) : a ≤ b := by
  induction h with
  | nil a => exact le_refl _
  | cons h1 _ ih => omega

theorem segs_picks (f : Nat × Nat → Except Err (List (Nat × Nat))) (P : Nat → Prop) :
    ∀ (segs : List (Nat × Nat)) (a b : Nat), Segs segs a b →
    (∀ p ∈ segs, ∃ rs, f p = .ok rs ∧ Picks (rs.flatMap rangeOf) p.1 p.2 P) →
    ∃ rss, segs.mapM f = .ok rss ∧ Picks ((rss.flatMap id).flatMap rangeOf) a b P := by
  intro segs a b hs
  induction hs with
  | nil a =>
    intro _
    exact ⟨[], by simp [pure, Except.pure], by simpa using (Picks.nil (lo := a))⟩
  | @cons a h b r hah hr ih =>
    intro hf
    obtain ⟨rs, e, hp⟩ := hf (a, h) (by simp)
    obtain ⟨rss, e', hp'⟩ := ih (fun p hp => hf p (by simp [hp]))
    refine ⟨rs :: rss, by rw [List.mapM_cons, e, e']; rfl, ?_⟩
    simp only [List.flatMap_cons, id, List.flatMap_append]
    exact hp.append hp' hah hr.le


/-! ## views -/

/-- a selection over lists of length `N`: increasing row numbers below `N` -/
structure SelOK (sel : Sel) (N : Nat) : Prop where
  inc : StrictInc (sel.idx N)
  lt : ∀ j ∈ sel.idx N, j < N

theorem cellAt_eq_getElem (xs : List Cell) (i : Nat) (h : i < xs.length) : cellAt xs i = xs[i] := by
  simp [cellAt, List.getD, List.getElem?_eq_getElem h]

theorem optGet_getElem? (xs : List Cell) (i : Nat) (h : i < xs.length) : optGet xs[i]? = .ok (cellAt xs i) := by
  simp [optGet, List.getElem?_eq_getElem h, cellAt_eq_getElem xs i h]

theorem map_cellAt_range (xs : List Cell) : (List.range xs.length).map (cellAt xs) = xs := by
  apply List.ext_getElem
  · simp
  · intro i h1 h2
    simp at h1
    simp [cellAt_eq_getElem xs i h1]

theorem cellAt_map (f : Nat → Cell) (l : List Nat) (i : Nat) (h : i < l.length) :
    cellAt (l.map f) i = f l[i] := by
  simp [cellAt, List.getD, h]

theorem mapM_optGet (base : List Cell) : ∀ (ix : List Nat), (∀ j ∈ ix, j < base.length) →
    ix.mapM (fun j => optGet base[j]?) = .ok (ix.map (cellAt base))
  | [], _ => rfl
  | j :: rest, h => by
    rw [List.mapM_cons, optGet_getElem? base j (h j (by simp)), mapM_optGet base rest (fun k hk => h k (by simp [hk]))]
    rfl

theorem drop_take_eq_map (base : List Cell) (a n : Nat) (h : a + n ≤ base.length) :
    (base.drop a).take n = (List.range' a n).map (cellAt base) := by
  apply List.ext_getElem
  · simp; omega
  · intro i h1 h2
    simp at h1 h2
    simp [cellAt_eq_getElem base (a + i) (by omega)]

theorem seq_shows (base : List Cell) (sel : Sel) (h : SelOK sel base.length) :
    Seq.Shows { base := base, sel := sel } (viewOf base sel) := by
  cases sel with
  | all =>
    refine ⟨?_, ?_, ?_⟩
    · simp [Seq.toList, viewOf, Sel.idx, map_cellAt_range]
    · simp [Seq.len, viewOf, Sel.idx]
    · intro i hi
      simp [viewOf, Sel.idx] at hi
      rw [show viewOf base Sel.all = (List.range base.length).map (cellAt base) from rfl,
        cellAt_map _ _ i (by simpa using hi)]
      simp [Seq.get, optGet_getElem? base i hi]
  | slice a b =>
    by_cases hab : a < b
    · have hm : b - 1 ∈ (Sel.slice a b).idx base.length := by
        simp only [Sel.idx, List.mem_range'_1]; omega
      have := h.lt (b - 1) hm
      have hb : a + (b - a) ≤ base.length := by omega
      refine ⟨?_, ?_, ?_⟩
      · simp [Seq.toList, viewOf, Sel.idx, drop_take_eq_map base a (b - a) hb]
      · simp [Seq.len, viewOf, Sel.idx]
      · intro i hi
        simp [viewOf, Sel.idx] at hi
        have : a + i < base.length := by omega
        rw [show viewOf base (Sel.slice a b) = (List.range' a (b - a)).map (cellAt base) from rfl,
          cellAt_map _ _ i (by simpa using hi)]
        simp [Seq.get, optGet_getElem? base (a + i) this]
    · have h0 : b - a = 0 := by omega
      refine ⟨?_, ?_, ?_⟩
      · simp [Seq.toList, viewOf, Sel.idx, h0]
      · simp [Seq.len, viewOf, Sel.idx]
      · intro i hi
        simp [viewOf, Sel.idx, h0] at hi
  | list ix =>
    have hlt : ∀ j ∈ ix, j < base.length := fun j hj => h.lt j (by simpa [Sel.idx] using hj)
    refine ⟨?_, ?_, ?_⟩
    · simp [Seq.toList, viewOf, Sel.idx, mapM_optGet base ix hlt]
    · simp [Seq.len, viewOf, Sel.idx]
    · intro i hi
      simp [viewOf, Sel.idx] at hi
      have hj : ix[i] < base.length := hlt _ (List.getElem_mem hi)
      rw [show viewOf base (Sel.list ix) = ix.map (cellAt base) from rfl, cellAt_map _ _ i hi]
      simp [Seq.get, optGet, List.getElem?_eq_getElem hi, bind, Except.bind,
        List.getElem?_eq_getElem hj, cellAt_eq_getElem base _ hj]


/-! ### `_try_slice` and view-of-view -/

theorem strictInc_last_ge : ∀ (rest : List Nat) (a l : Nat), StrictInc (a :: rest) → (a :: rest).getLast? = some l →
    a + rest.length ≤ l
  | [], a, l, _, h => by simp at h ⊢; omega
  | b :: r, a, l, hi, h => by
    unfold StrictInc at hi
    rw [List.pairwise_cons] at hi
    rw [List.getLast?_cons_cons] at h
    have := strictInc_last_ge r b l hi.2 h
    have := hi.1 b (by simp)
    simp; omega

theorem strictInc_tight : ∀ (rest : List Nat) (a l : Nat), StrictInc (a :: rest) → (a :: rest).getLast? = some l →
    l = a + rest.length → a :: rest = List.range' a (rest.length + 1)
  | [], a, l, _, _, _ => by simp [List.range']
  | b :: r, a, l, hi, h, hl => by
    have hi' := hi
    unfold StrictInc at hi'
    rw [List.pairwise_cons] at hi'
    rw [List.getLast?_cons_cons] at h
    have h1 := strictInc_last_ge r b l hi'.2 h
    have h2 := hi'.1 b (by simp)
    simp at hl
    have hb : b = a + 1 := by omega
    have := strictInc_tight r b l hi'.2 h (by omega)
    rw [this, hb]
    simp [List.range']

theorem trySlice_idx (sel : List Nat) (N : Nat) (hinc : StrictInc sel) : (trySlice sel).idx N = sel := by
  unfold trySlice
  cases sel with
  | nil => simp [Sel.idx]
  | cons a rest =>
    cases hl : (a :: rest).getLast? with
    | none => simp [Sel.idx]
    | some l =>
      simp only
      have hge := strictInc_last_ge rest a l hinc hl
      split
      · rename_i heq
        have : l = a + rest.length := by simp at heq; omega
        have ht := strictInc_tight rest a l hinc hl this
        simp only [Sel.idx]
        rw [ht]
        congr 1
        omega
      · simp [Sel.idx]

theorem strictInc_map_getD (l : List Nat) (hl : StrictInc l) :
    ∀ (select : List Nat), StrictInc select → (∀ i ∈ select, i < l.length) →
    StrictInc (select.map (fun i => l.getD i 0))
  | [], _, _ => List.Pairwise.nil
  | i :: rest, hs, hlt => by
    unfold StrictInc at hs ⊢
    rw [List.pairwise_cons] at hs
    rw [List.map_cons, List.pairwise_cons]
    refine ⟨?_, strictInc_map_getD l hl rest hs.2 (fun j hj => hlt j (by simp [hj]))⟩
    intro y hy
    rw [List.mem_map] at hy
    obtain ⟨j, hj, rfl⟩ := hy
    have hij := hs.1 j hj
    have hi := hlt i (by simp)
    have hjl := hlt j (by simp [hj])
    unfold StrictInc at hl
    rw [List.pairwise_iff_getElem] at hl
    have := hl i j hi hjl hij
    simp [List.getD, List.getElem?_eq_getElem hi, List.getElem?_eq_getElem hjl, this]

theorem composeSel_spec (old : Sel) (N : Nat) (hold : SelOK old N) (select : List Nat)
    (hinc : StrictInc select) (hlt : ∀ i ∈ select, i < (old.idx N).length) :
    ∃ sel', composeSel old select = .ok sel' ∧
      sel'.idx N = select.map (fun i => (old.idx N).getD i 0) ∧ SelOK sel' N := by
  have hinc' := strictInc_map_getD (old.idx N) hold.inc select hinc hlt
  have hmem : ∀ j ∈ select.map (fun i => (old.idx N).getD i 0), j < N := by
    intro j hj
    rw [List.mem_map] at hj
    obtain ⟨i, hi, rfl⟩ := hj
    have := hlt i hi
    apply hold.lt
    simp [List.getD, List.getElem?_eq_getElem this]
  have key : ∀ l : List Nat, l = select.map (fun i => (old.idx N).getD i 0) →
      (trySlice l).idx N = select.map (fun i => (old.idx N).getD i 0) ∧ SelOK (trySlice l) N := by
    intro l hl
    subst hl
    have := trySlice_idx _ N hinc'
    exact ⟨this, ⟨by rw [this]; exact hinc', by rw [this]; exact hmem⟩⟩
  cases old with
  | all =>
    refine ⟨trySlice select, rfl, ?_⟩
    apply key
    simp only [Sel.idx] at hlt ⊢
    symm
    calc select.map (fun i => (List.range N).getD i 0) = select.map id := by
          apply List.map_congr_left
          intro i hi
          have := hlt i hi
          simp at this
          simp [List.getD, this]
      _ = select := by simp
  | slice a b =>
    refine ⟨trySlice (select.map (a + ·)), rfl, ?_⟩
    apply key
    simp only [Sel.idx] at hlt ⊢
    apply List.map_congr_left
    intro i hi
    have := hlt i hi
    simp at this
    simp [List.getD, this]
  | list ix =>
    simp only [Sel.idx] at hlt hinc' hmem key ⊢
    have hm : select.mapM (fun i => optGet ix[i]?) = .ok (select.map (fun i => ix.getD i 0)) := by
      clear hinc hinc' hmem key
      induction select with
      | nil => rfl
      | cons i rest ih =>
        have hi := hlt i (by simp)
        rw [List.mapM_cons, ih (fun j hj => hlt j (by simp [hj]))]
        simp [optGet, List.getElem?_eq_getElem hi, List.getD, bind, Except.bind, pure, Except.pure]
    refine ⟨trySlice (select.map (fun i => ix.getD i 0)), ?_, key _ rfl⟩
    simp [composeSel, hm, bind, Except.bind]


/-! ## tables -/

/-- well-formed table over stored lists of length `N` -/
structure Table.OK (t : Table) (N : Nat) : Prop where
  len : ∀ p ∈ t.data, p.2.length = N
  cols : ∀ c ∈ t.columns, ∃ b, lookupCol t.data c = .ok b
  sel : SelOK t.sel N

theorem lookupCol_mem {data : List (Nat × List Cell)} {c : Nat} {b : List Cell} (h : lookupCol data c = .ok b) :
    (c, b) ∈ data := by
  unfold lookupCol at h
  cases hf : data.find? (fun p => p.1 == c) with
  | none => simp [hf] at h
  | some p =>
    simp [hf] at h
    have h1 := List.find?_some hf
    have h2 := List.mem_of_find?_eq_some hf
    simp at h1
    cases p; simp_all

theorem Table.OK.base_len {t : Table} {N : Nat} (h : t.OK N) {c : Nat} {b : List Cell}
    (hb : lookupCol t.data c = .ok b) : t.base c = b ∧ b.length = N := by
  refine ⟨by simp [Table.base, hb], h.len _ (lookupCol_mem hb)⟩

theorem Table.OK.vcol_len {t : Table} {N : Nat} (h : t.OK N) {c : Nat} {b : List Cell}
    (hb : lookupCol t.data c = .ok b) : (t.vcol c).length = t.m N := by
  obtain ⟨e, l⟩ := h.base_len hb
  simp [Table.vcol, viewOf, e, l, Table.m]

theorem Table.OK.col_shows {t : Table} {N : Nat} (h : t.OK N) {c : Nat} {b : List Cell}
    (hb : lookupCol t.data c = .ok b) :
    t.col c = .ok { base := b, sel := t.sel } ∧ Seq.Shows { base := b, sel := t.sel } (t.vcol c) := by
  obtain ⟨e, l⟩ := h.base_len hb
  refine ⟨by simp [Table.col, hb, bind, Except.bind, pure, Except.pure], ?_⟩
  rw [Table.vcol, e]
  exact seq_shows b t.sel (by rw [l]; exact h.sel)

theorem Table.OK.len_eq {t : Table} {N : Nat} (h : t.OK N) (hne : t.data ≠ []) : t.len = .ok (t.m N) := by
  unfold Table.len
  cases hd : t.data with
  | nil => exact absurd hd hne
  | cons p rest =>
    obtain ⟨c, b⟩ := p
    have hl : b.length = N := h.len (c, b) (by simp [hd])
    simp only
    congr 1
    simp only [Seq.len, Table.m, Sel.idx]
    cases t.sel <;> simp [hl]

theorem minLen_const (m : Nat) : ∀ (cols : List (List Cell)), cols ≠ [] → (∀ c ∈ cols, c.length = m) → minLen cols = m
  | [], h, _ => absurd rfl h
  | [c], _, h => by simp [minLen, h c (by simp)]
  | c :: d :: rest, _, h => by
    have := minLen_const m (d :: rest) (by simp) (fun x hx => h x (by simp [hx]))
    simp only [minLen] at this ⊢
    rw [this, h c (by simp)]; simp

/-- the `i`-th row the table shows -/
def Table.rowAt (t : Table) (i : Nat) : List Cell := t.columns.map (fun c => cellAt (t.vcol c) i)

theorem Table.OK.rows_eq {t : Table} {N : Nat} (h : t.OK N) (hne : t.columns ≠ []) :
    t.rows = .ok ((List.range (t.m N)).map t.rowAt) := by
  unfold Table.rows
  have hm : t.columns.mapM (fun c => do let s ← t.col c; s.toList) = .ok (t.columns.map t.vcol) := by
    have : ∀ cs : List Nat, (∀ c ∈ cs, ∃ b, lookupCol t.data c = .ok b) →
        cs.mapM (fun c => do let s ← t.col c; s.toList) = .ok (cs.map t.vcol) := by
      intro cs
      induction cs with
      | nil => intro _; rfl
      | cons c rest ih =>
        intro hc
        obtain ⟨b, hb⟩ := hc c (by simp)
        obtain ⟨e1, e2⟩ := h.col_shows hb
        rw [List.mapM_cons, ih (fun d hd => hc d (by simp [hd]))]
        simp [e1, e2.toList, bind, Except.bind, pure, Except.pure]
    exact this t.columns h.cols
  rw [hm]
  simp only [bind, Except.bind, pure, Except.pure]
  have hml : minLen (t.columns.map t.vcol) = t.m N := by
    apply minLen_const
    · simpa using hne
    · intro x hx
      rw [List.mem_map] at hx
      obtain ⟨c, hc, rfl⟩ := hx
      obtain ⟨b, hb⟩ := h.cols c hc
      exact h.vcol_len hb
  rw [hml]
  congr 1
  apply List.map_congr_left
  intro i _
  simp [Table.rowAt, cellAt, List.getD]


/-! ## the specification side -/

/-- the value of a test when it does not raise -/
def evalB (test : Test) (c : Cell) : Bool :=
  match test.eval c with
  | .ok b => b
  | .error _ => false

theorem eval_eq_evalB {test : Test} {c : Cell} {b : Bool} (h : test.eval c = .ok b) : test.eval c = .ok (evalB test c) := by
  simp [evalB, h]

theorem find_zip_map (f : Nat → Cell) (c : Nat) : ∀ (cs : List Nat), c ∈ cs →
    (cs.zip (cs.map f)).find? (fun p => p.1 == c) = some (c, f c)
  | [], h => by simp at h
  | d :: rest, h => by
    simp only [List.map_cons, List.zip_cons_cons, List.find?_cons]
    by_cases hd : d = c
    · subst hd; simp
    · have : (d == c) = false := by simpa using hd
      simp only [this]
      apply find_zip_map f c rest
      simp at h
      rcases h with h | h
      · exact absurd h.symm hd
      · exact h

theorem cellOf_rowAt (t : Table) (i c : Nat) (hc : c ∈ t.columns) :
    cellOf t.columns (t.rowAt i) c = .ok (cellAt (t.vcol c) i) := by
  simp [cellOf, Table.rowAt, find_zip_map (fun c => cellAt (t.vcol c) i) c t.columns hc]

theorem satRow_ok (columns : List Nat) (row : List Cell) (cellv : Nat → Cell) :
    ∀ (conds : List Cond), (∀ k ∈ conds, cellOf columns row k.col = .ok (cellv k.col) ∧ ∃ b, k.test.eval (cellv k.col) = .ok b) →
    satRow columns row conds = .ok (conds.any (fun k => evalB k.test (cellv k.col)))
  | [], _ => rfl
  | k :: ks, h => by
    obtain ⟨h1, b, h2⟩ := h k (by simp)
    simp only [satRow, h1, eval_eq_evalB h2, satRow_ok columns row cellv ks (fun k' hk' => h k' (by simp [hk'])), List.any_cons]

theorem satRow_inv (columns : List Nat) (row : List Cell) :
    ∀ (conds : List Cond) (b : Bool), satRow columns row conds = .ok b →
    ∀ k ∈ conds, ∃ c b', cellOf columns row k.col = .ok c ∧ k.test.eval c = .ok b'
  | [], _, _ => by simp
  | k :: ks, b, h => by
    simp only [satRow] at h
    cases h1 : cellOf columns row k.col with
    | error e => simp [h1] at h
    | ok c =>
      simp only [h1] at h
      cases h2 : k.test.eval c with
      | error e => simp [h2] at h
      | ok b1 =>
        simp only [h2] at h
        cases h3 : satRow columns row ks with
        | error e => simp [h3] at h
        | ok b2 =>
          intro k' hk'
          simp at hk'
          rcases hk' with rfl | hk'
          · exact ⟨c, b1, h1, h2⟩
          · exact satRow_inv columns row ks b2 h3 k' hk'

theorem filterRows_ok (test : List Cell → Except Err Bool) (q : List Cell → Bool) :
    ∀ (rows : List (List Cell)), (∀ r ∈ rows, test r = .ok (q r)) → filterRows test rows = .ok (rows.filter q)
  | [], _ => rfl
  | r :: rs, h => by
    simp only [filterRows, h r (by simp), filterRows_ok test q rs (fun r' hr' => h r' (by simp [hr'])), List.filter_cons]

theorem filterRows_inv (test : List Cell → Except Err Bool) :
    ∀ (rows res : List (List Cell)), filterRows test rows = .ok res → ∀ r ∈ rows, ∃ b, test r = .ok b
  | [], _, _ => by simp
  | r :: rs, res, h => by
    simp only [filterRows] at h
    cases h1 : test r with
    | error e => simp [h1] at h
    | ok b =>
      simp only [h1] at h
      cases h2 : filterRows test rs with
      | error e => simp [h2] at h
      | ok rest =>
        intro r' hr'
        simp at hr'
        rcases hr' with rfl | hr'
        · exact ⟨b, h1⟩
        · exact filterRows_inv test rs rest h2 r' hr'

/-! ### `sorted(set(selection))` -/

theorem insertNat_spec (x : Nat) : ∀ (l : List Nat), StrictInc l →
    StrictInc (insertNat x l) ∧ ∀ i, i ∈ insertNat x l ↔ i = x ∨ i ∈ l
  | [], _ => by simp [insertNat, StrictInc]
  | y :: ys, h => by
    have h' := h
    unfold StrictInc at h'
    rw [List.pairwise_cons] at h'
    simp only [insertNat]
    by_cases h1 : x < y
    · simp only [h1, if_true]
      refine ⟨?_, fun i => by simp⟩
      unfold StrictInc
      rw [List.pairwise_cons]
      refine ⟨?_, h⟩
      intro z hz
      simp at hz
      rcases hz with rfl | hz
      · exact h1
      · have := h'.1 z hz; omega
    · simp only [h1, if_false]
      by_cases h2 : x = y
      · subst h2
        simp only [if_true]
        exact ⟨h, fun i => by simp⟩
      · simp only [h2, if_false]
        obtain ⟨a, b⟩ := insertNat_spec x ys h'.2
        refine ⟨?_, fun i => by simp [b i]; tauto⟩
        unfold StrictInc
        rw [List.pairwise_cons]
        refine ⟨?_, a⟩
        intro z hz
        rcases (b z).mp hz with rfl | hz
        · omega
        · exact h'.1 z hz

theorem sortDedupNat_spec : ∀ (l : List Nat), StrictInc (sortDedupNat l) ∧ ∀ i, i ∈ sortDedupNat l ↔ i ∈ l
  | [] => by simp [sortDedupNat, StrictInc]
  | x :: xs => by
    obtain ⟨a, b⟩ := sortDedupNat_spec xs
    obtain ⟨c, d⟩ := insertNat_spec x (sortDedupNat xs) a
    refine ⟨c, fun i => ?_⟩
    simp only [sortDedupNat]
    rw [d i, b i]; simp


/-! ## one keyword of `where` -/

/-- what has to hold for one keyword so that the code's answer is the plain one.  `pos` is the
positional comparison of the call, `lohis` what `_calc_lohis` returned, `m` the number of rows. -/
structure KwOK (cfg : Cfg) (t : Table) (lohis : List (Nat × List (Nat × Nat))) (m : Nat) (pos : Option Op)
    (kw : Nat × Arg) : Prop where
  /-- the column exists -/
  incols : kw.1 ∈ t.columns
  /-- `{'!in': …}` is understood (P9) -/
  notin : ∀ a, kw.2 = .dict .notin a → cfg.notinKey = true
  /-- a value for the six comparisons, a collection for `in`/`!in`; `match` is not covered -/
  shape : ∀ op a, (condOf pos kw).test = .cmp op a → argShape op a = true
  /-- indexed column: the lohis of the column are consecutive non-empty (P12) sorted (P13, P14)
  segments; probes and cells can be ordered against each other and are not `None`; no equal probes
  for `in` (P8); no `Missing` probe for an order comparison -/
  bis : kw.1 ∈ t.indexes → ∀ op a, (condOf pos kw).test = .cmp op a →
      ∃ segs, dictGet lohis kw.1 = .ok segs ∧ Segs segs 0 m ∧
        (∀ p ∈ segs, ProbeOK cfg (t.vcol kw.1) p.1 p.2 (probesOf a)) ∧
        allComparable (probesOf a) = true ∧
        (op = .isin → cfg.dedupIn = true ∨ (probesOf a).Pairwise (fun u v => u.key ≠ v.key)) ∧
        (∀ i, i < m → CellOK op a (cellAt (t.vcol kw.1) i))
  /-- unindexed column: `<=`/`>=` do not meet `Missing` (P11) -/
  scan : kw.1 ∉ t.indexes → ∀ op a, (condOf pos kw).test = .cmp op a → leGeOK cfg op a (t.vcol kw.1)

/-- rows satisfying the keyword's documented condition -/
def kwP (t : Table) (pos : Option Op) (kw : Nat × Arg) (i : Nat) : Prop :=
  evalB (condOf pos kw).test (cellAt (t.vcol kw.1) i) = true

theorem Segs.nil_eq {a b : Nat} (h : Segs [] a b) : a = b := by
  generalize hl : ([] : List (Nat × Nat)) = l at h
  cases h with
  | nil => rfl
  | cons _ _ => simp at hl

theorem mem_cellAt {xs : List Cell} {i : Nat} (h : i < xs.length) : cellAt xs i ∈ xs := by
  rw [cellAt_eq_getElem xs i h]; exact List.getElem_mem h

theorem kwHere_spec (cfg : Cfg) (t : Table) (N : Nat) (hok : t.OK N) (lohis : List (Nat × List (Nat × Nat)))
    (pos comparison : Option Op) (kw : Nat × Arg)
    (hcmp : ∀ a, kw.2 = .val a → comparison = pos)
    (h : KwOK cfg t lohis (t.m N) pos kw)
    (hspec : ∀ i, i < t.m N → ∃ b, (condOf pos kw).test.eval (cellAt (t.vcol kw.1) i) = .ok b) :
    ∃ l, kwHere cfg t lohis (t.m N) comparison kw.1 kw.2 = .ok l ∧ Picks l 0 (t.m N) (kwP t pos kw) := by
  obtain ⟨c, arg⟩ := kw
  obtain ⟨b, hb⟩ := hok.cols c h.incols
  obtain ⟨ecol, hshows⟩ := hok.col_shows hb
  have hlen : (t.vcol c).length = t.m N := hok.vcol_len hb
  -- the scan with a test that is defined everywhere
  have scan_case : ∀ (test : Cell → Except Err Bool) (tst : Test), (∀ x, tst.eval x = test x) →
      (condOf pos (c, arg)).test = tst →
      ∃ l, scanFilter 0 (t.vcol c) test = .ok l ∧ Picks l 0 (t.m N) (kwP t pos (c, arg)) := by
    intro test tst hte hcond
    obtain ⟨l, e, hp⟩ := scanFilter_picks (t.vcol c) 0 test (evalB tst) (by
      intro x hx
      obtain ⟨i, hi, rfl⟩ := List.getElem_of_mem hx
      obtain ⟨b', hb'⟩ := hspec i (by omega)
      simp only [hcond] at hb'
      rw [cellAt_eq_getElem _ i hi] at hb'
      rw [← hte, eval_eq_evalB hb'])
    refine ⟨l, e, ?_⟩
    rw [hlen, Nat.zero_add] at hp
    apply hp.congr
    intro i _ _
    simp [kwP, hcond]
  -- a comparison with a value / collection
  have cmp_case : ∀ (op : Op) (a : ArgV), (condOf pos (c, arg)).test = .cmp op a →
      ∃ l, (if (t.indexes.contains c && decide (op ≠ Op.mtch)) = true then
              (match kwBisect cfg { base := b, sel := t.sel } lohis c op a with
               | .error .typeError => if cfg.bisectFallback then kwScan cfg { base := b, sel := t.sel } (t.m N) op a else .error .typeError
               | r => r)
            else kwScan cfg { base := b, sel := t.sel } (t.m N) op a) = Except.ok l ∧ Picks l 0 (t.m N) (kwP t pos (c, arg)) := by
    intro op a hcond
    have hshape := h.shape op a hcond
    have hnm : op ≠ Op.mtch := by rintro rfl; simp [argShape] at hshape
    by_cases hidx : c ∈ t.indexes
    · have hcon : (t.indexes.contains c && decide (op ≠ Op.mtch)) = true := by simp [hidx, hnm]
      simp only [hcon, if_true]
      obtain ⟨segs, e1, hsegs, hprobe, hall, hdup, hcell⟩ := h.bis hidx op a hcond
      obtain ⟨rss, e2, hp⟩ := segs_picks (fun (p : Nat × Nat) => compareBisect cfg { base := b, sel := t.sel } p.1 p.2 op a)
        (fun i => argSat op a (cellAt (t.vcol c) i).key = true) segs 0 (t.m N) hsegs
        (fun p hp => compareBisect_spec cfg _ (t.vcol c) hshows p.1 p.2 op a hshape (hprobe p hp) hall hdup)
      refine ⟨(rss.flatMap id).flatMap rangeOf, by simp only [kwBisect, e1, e2], ?_⟩
      apply hp.congr
      intro i _ hi
      have hv : NoNone (probesOf a) := by
        cases hsg : segs with
        | nil => subst hsg; have := hsegs.nil_eq; omega
        | cons p _ => exact (hprobe p (by simp [hsg])).vnn
      simp only [kwP, hcond, evalB, Test.eval, sat_eq_argSat op a _ hshape hv (hcell i hi)]
    · have hcon : (t.indexes.contains c && decide (op ≠ Op.mtch)) = false := by simp [hidx]
      simp only [hcon, Bool.false_eq_true, if_false]
      have htake : (t.vcol c).take (t.m N) = t.vcol c := by rw [← hlen]; exact List.take_length
      simp only [kwScan, hshows.toList]
      rw [htake, compareScan_eq cfg (t.vcol c) op a hshape (h.scan hidx op a hcond)]
      exact scan_case (sat op a) (.cmp op a) (fun _ => rfl) hcond
  simp only [kwHere, ecol]
  cases arg with
  | fn p =>
    simp only [hshows.toList]
    exact scan_case (fun x => .ok (p.eval x)) (.fn p) (fun _ => rfl) rfl
  | val a =>
    have hc := hcmp a rfl
    subst hc
    have hres : (resolveArg cfg comparison (Arg.val a)).2 = some (effOp comparison a, a) := rfl
    simp only [hres]
    exact cmp_case (effOp comparison a) a rfl
  | dict op a =>
    have hres : (resolveArg cfg comparison (Arg.dict op a)).2 = some (op, a) := by
      simp only [resolveArg]
      split
      · rename_i hn
        simp at hn
        have := h.notin a (by rw [hn.1])
        simp [this] at hn
      · rfl
    simp only [hres]
    exact cmp_case op a rfl


/-! ## all keywords -/

/-- no plain (non-dict, non-callable) argument among the keywords -/
def noVal (kws : List (Nat × Arg)) : Prop := ∀ kw ∈ kws, ∀ a, kw.2 ≠ .val a

/-- P10: in a tree without the repair no plain argument may follow a `{op: value}` argument -/
def NoLeak (cfg : Cfg) : List (Nat × Arg) → Prop
  | [] => True
  | kw :: rest => (cfg.localOp = true ∨ (∀ op a, kw.2 = .dict op a → noVal rest)) ∧ NoLeak cfg rest

theorem whereLoop_spec (cfg : Cfg) (t : Table) (N : Nat) (hok : t.OK N) (lohis : List (Nat × List (Nat × Nat)))
    (pos : Option Op) :
    ∀ (kws : List (Nat × Arg)) (comparison : Option Op), (comparison = pos ∨ noVal kws) → NoLeak cfg kws →
    (∀ kw ∈ kws, KwOK cfg t lohis (t.m N) pos kw) →
    (∀ kw ∈ kws, ∀ i, i < t.m N → ∃ b, (condOf pos kw).test.eval (cellAt (t.vcol kw.1) i) = .ok b) →
    ∃ heres : List (List Nat), whereLoop cfg t lohis (t.m N) comparison kws = .ok heres.flatten ∧
      List.Forall₂ (fun kw l => Picks l 0 (t.m N) (kwP t pos kw)) kws heres
  | [], _, _, _, _, _ => ⟨[], rfl, List.Forall₂.nil⟩
  | kw :: rest, comparison, hinv, hleak, hkw, hspec => by
    obtain ⟨c, arg⟩ := kw
    have hcmp : ∀ a, (c, arg).2 = .val a → comparison = pos := by
      intro a ha
      rcases hinv with h | h
      · exact h
      · exact absurd ha (h (c, arg) (by simp) a)
    obtain ⟨l, e, hp⟩ := kwHere_spec cfg t N hok lohis pos comparison (c, arg) hcmp (hkw _ (by simp)) (hspec _ (by simp))
    have hinv' : (if cfg.localOp then comparison else (resolveArg cfg comparison arg).1) = pos ∨ noVal rest := by
      have hnv : noVal ((c, arg) :: rest) → noVal rest := fun h kw hk => h kw (by simp [hk])
      by_cases hl : cfg.localOp = true
      · simp only [hl, if_true]
        rcases hinv with h | h
        · exact Or.inl h
        · exact Or.inr (hnv h)
      · simp only [hl]
        cases arg with
        | fn p => rcases hinv with h | h
                  · exact Or.inl h
                  · exact Or.inr (hnv h)
        | val a => rcases hinv with h | h
                   · exact Or.inl h
                   · exact Or.inr (hnv h)
        | dict op a =>
          rcases hleak.1 with h | h
          · exact absurd h hl
          · exact Or.inr (h op a rfl)
    obtain ⟨heres, e', hf⟩ := whereLoop_spec cfg t N hok lohis pos rest _ hinv' hleak.2
      (fun kw hk => hkw kw (by simp [hk])) (fun kw hk => hspec kw (by simp [hk]))
    refine ⟨l :: heres, ?_, List.Forall₂.cons hp hf⟩
    simp only [whereLoop, e, e', List.flatten_cons]

theorem forall2_mem_flatten {kws : List (Nat × Arg)} {heres : List (List Nat)} {m : Nat} {P : Nat × Arg → Nat → Prop}
    (h : List.Forall₂ (fun kw l => Picks l 0 m (P kw)) kws heres) (i : Nat) :
    i ∈ heres.flatten ↔ i < m ∧ ∃ kw ∈ kws, P kw i := by
  induction h with
  | nil => simp
  | @cons kw l kws heres hp _ ih =>
    simp only [List.flatten_cons, List.mem_append, ih, hp.mem, List.mem_cons]
    constructor
    · rintro (⟨_, a, b⟩ | ⟨a, kw', hk, b⟩)
      · exact ⟨a, kw, Or.inl rfl, b⟩
      · exact ⟨a, kw', Or.inr hk, b⟩
    · rintro ⟨a, kw', hk | hk, b⟩
      · subst hk; exact Or.inl ⟨Nat.zero_le _, a, b⟩
      · exact Or.inr ⟨a, kw', hk, b⟩

/-- the selection `where` hands to `View` -/
theorem selection_picks {kws : List (Nat × Arg)} {heres : List (List Nat)} {m : Nat} {P : Nat × Arg → Nat → Prop}
    (h : List.Forall₂ (fun kw l => Picks l 0 m (P kw)) kws heres) :
    Picks (if kws.length > 1 then sortDedupNat heres.flatten else heres.flatten) 0 m (fun i => ∃ kw ∈ kws, P kw i) := by
  by_cases hlen : kws.length > 1
  · simp only [hlen, if_true]
    obtain ⟨a, b⟩ := sortDedupNat_spec heres.flatten
    refine ⟨a, fun i => ?_⟩
    rw [b i, forall2_mem_flatten h i]
    simp
  · simp only [hlen, if_false]
    cases h with
    | nil => exact ⟨List.Pairwise.nil, fun i => by simp⟩
    | @cons kw l kws' heres' hp hrest =>
      cases hrest with
      | nil =>
        simp only [List.flatten_cons, List.flatten_nil, List.append_nil]
        apply hp.congr
        intro i _ _
        simp
      | cons _ _ => simp at hlen

theorem picks_filter (m : Nat) (p : Nat → Bool) : Picks ((List.range m).filter p) 0 m (fun i => p i = true) := by
  refine ⟨?_, fun i => by simp [List.mem_filter]⟩
  unfold StrictInc
  exact List.Pairwise.filter _ (by simpa [List.range_eq_range'] using (List.pairwise_lt_range' (s := 0) (n := m)))


/-! ## `where` = the plain filter -/

/-- rows of a view of the table: row `k` of the new table is row `select[k]` of the old one -/
theorem rowAt_view (t : Table) (N : Nat) (hok : t.OK N) (sel' : Sel) (select : List Nat)
    (hidx : sel'.idx N = select.map (fun i => (t.sel.idx N).getD i 0))
    (hlt : ∀ i ∈ select, i < t.m N) (k : Nat) (hk : k < select.length) :
    Table.rowAt { t with sel := sel' } k = t.rowAt (select.getD k 0) := by
  simp only [Table.rowAt]
  apply List.map_congr_left
  intro c hc
  obtain ⟨b, hb⟩ := hok.cols c hc
  obtain ⟨e, l⟩ := hok.base_len hb
  have hsk : select.getD k 0 < t.m N := by
    simp only [List.getD, List.getElem?_eq_getElem hk, Option.getD_some]
    exact hlt _ (List.getElem_mem hk)
  have e' : Table.base { t with sel := sel' } c = b := by simp [Table.base, hb]
  simp only [Table.vcol, viewOf, e, e', l, hidx]
  rw [cellAt_map _ _ k (by simpa using hk), cellAt_map _ _ _ hsk]
  simp [List.getD, List.getElem?_eq_getElem hk, List.getElem?_eq_getElem (show select[k] < (t.sel.idx N).length from by
    have := hlt _ (List.getElem_mem hk); simpa [Table.m] using this)]

theorem where_eq_spec_aux (cfg : Cfg) (t : Table) (N : Nat) (hok : t.OK N) (pos : Option Op)
    (kws : List (Nat × Arg)) (hne : kws ≠ []) (lohis : List (Nat × List (Nat × Nat)))
    (hl : t.calcLohis cfg = .ok lohis)
    (hkw : ∀ kw ∈ kws, KwOK cfg t lohis (t.m N) pos kw) (hleak : NoLeak cfg kws)
    (R rs : List (List Cell)) (hR : t.rows = .ok R)
    (hspec : whereS { columns := t.columns, rows := R } (kws.map (condOf pos)) = .ok rs) :
    ∃ t', t.pwhere cfg Option.none pos kws = .ok t' ∧ t'.rows = .ok rs ∧
      t'.columns = t.columns ∧ t'.indexes = t.indexes ∧ t'.data = t.data ∧ t'.OK N ∧
      ∃ selection, StrictInc selection ∧ (∀ i ∈ selection, i < t.m N) ∧
        t'.sel.idx N = selection.map (fun i => (t.sel.idx N).getD i 0) := by
  -- the table is not degenerate
  obtain ⟨kw0, hkw0⟩ := List.exists_mem_of_ne_nil kws hne
  have hcne : t.columns ≠ [] := List.ne_nil_of_mem (hkw kw0 hkw0).incols
  have hdne : t.data ≠ [] := by
    obtain ⟨b, hb⟩ := hok.cols _ (hkw kw0 hkw0).incols
    exact List.ne_nil_of_mem (lookupCol_mem hb)
  have hlen := hok.len_eq hdne
  have hRe : R = (List.range (t.m N)).map t.rowAt := by
    have := hok.rows_eq hcne
    rw [hR] at this
    exact Except.ok.inj this
  -- the plain evaluation is defined on every row, for every keyword
  have hrow : ∀ i, i < t.m N → ∃ b, satRow t.columns (t.rowAt i) (kws.map (condOf pos)) = .ok b := by
    intro i hi
    apply filterRows_inv _ R rs hspec
    rw [hRe]
    exact List.mem_map.mpr ⟨i, by simpa using hi, rfl⟩
  have hev : ∀ kw ∈ kws, ∀ i, i < t.m N → ∃ b, (condOf pos kw).test.eval (cellAt (t.vcol kw.1) i) = .ok b := by
    intro kw hk i hi
    obtain ⟨b, hb⟩ := hrow i hi
    obtain ⟨c, b', h1, h2⟩ := satRow_inv _ _ _ b hb (condOf pos kw) (List.mem_map.mpr ⟨kw, hk, rfl⟩)
    have hcol : (condOf pos kw).col = kw.1 := by
      obtain ⟨c0, a0⟩ := kw
      cases a0 <;> rfl
    rw [hcol, cellOf_rowAt t i kw.1 (hkw kw hk).incols] at h1
    cases h1
    exact ⟨b', h2⟩
  -- the loop
  obtain ⟨heres, eloop, hf⟩ := whereLoop_spec cfg t N hok lohis pos kws pos (Or.inl rfl) hleak hkw hev
  have hsel := selection_picks hf
  generalize hselection : (if kws.length > 1 then sortDedupNat heres.flatten else heres.flatten) = selection at hsel
  -- the view
  obtain ⟨sel', ecomp, hidx, hselok⟩ := composeSel_spec t.sel N hok.sel selection hsel.inc
    (fun i hi => by have := (hsel.mem i).mp hi; simpa [Table.m] using this.2.1)
  have hok' : Table.OK { t with sel := sel' } N := ⟨hok.len, hok.cols, hselok⟩
  refine ⟨{ t with sel := sel' }, ?_, ?_, rfl, rfl, rfl, hok', selection, hsel.inc, fun i hi => ((hsel.mem i).mp hi).2.1, hidx⟩
  · simp only [Table.pwhere, hl, hlen, eloop, bind, Except.bind, hselection, ecomp, pure, Except.pure]
  · -- rows of the result
    have hm' : Table.m { t with sel := sel' } N = selection.length := by simp [Table.m, hidx]
    rw [Table.OK.rows_eq hok' hcne, hm']
    -- the plain filter
    let q : List Cell → Bool := fun r => match satRow t.columns r (kws.map (condOf pos)) with | .ok b => b | .error _ => false
    have hq : ∀ r ∈ R, satRow t.columns r (kws.map (condOf pos)) = .ok (q r) := by
      intro r hr
      rw [hRe] at hr
      obtain ⟨i, hi, rfl⟩ := List.mem_map.mp hr
      obtain ⟨b, hb⟩ := hrow i (by simpa using hi)
      simp [q, hb]
    have hfr : filterRows (fun r => satRow t.columns r (kws.map (condOf pos))) R = .ok (R.filter q) := filterRows_ok _ q R hq
    have hrs : rs = R.filter q := by
      simp only [whereS] at hspec
      rw [hfr] at hspec
      exact (Except.ok.inj hspec).symm
    -- q on row i is the disjunction over the keywords
    have hqi : ∀ i, i < t.m N → (q (t.rowAt i) = true ↔ ∃ kw ∈ kws, kwP t pos kw i) := by
      intro i hi
      have := satRow_ok t.columns (t.rowAt i) (fun c => cellAt (t.vcol c) i) (kws.map (condOf pos)) (by
        intro k hk
        obtain ⟨kw, hkw', rfl⟩ := List.mem_map.mp hk
        have hcol : (condOf pos kw).col = kw.1 := by
          obtain ⟨c0, a0⟩ := kw
          cases a0 <;> rfl
        refine ⟨by rw [hcol]; exact cellOf_rowAt t i kw.1 (hkw kw hkw').incols, ?_⟩
        rw [hcol]; exact hev kw hkw' i hi)
      simp only [q, this, List.any_map, List.any_eq_true, Function.comp]
      constructor
      · rintro ⟨kw, hk, h⟩
        refine ⟨kw, hk, ?_⟩
        have hcol : (condOf pos kw).col = kw.1 := by
          obtain ⟨c0, a0⟩ := kw
          cases a0 <;> rfl
        simpa [kwP, hcol] using h
      · rintro ⟨kw, hk, h⟩
        refine ⟨kw, hk, ?_⟩
        have hcol : (condOf pos kw).col = kw.1 := by
          obtain ⟨c0, a0⟩ := kw
          cases a0 <;> rfl
        simpa [kwP, hcol] using h
    have hseleq : selection = (List.range (t.m N)).filter (q ∘ t.rowAt) := by
      apply hsel.unique
      apply (picks_filter (t.m N) (q ∘ t.rowAt)).congr
      intro i _ hi
      exact hqi i hi
    congr 1
    rw [hrs, hRe, List.filter_map, ← hseleq]
    apply List.ext_getElem
    · simp
    · intro k h1 h2
      simp only [List.length_map, List.length_range] at h1
      simp only [List.getElem_map, List.getElem_range]
      rw [rowAt_view t N hok sel' selection hidx (fun i hi => ((hsel.mem i).mp hi).2.1) k h1]
      simp [List.getD, List.getElem?_eq_getElem h1]


/-! ## the decidable check implies the hypotheses -/

theorem allIn_iff (lo hi : Nat) (p : Nat → Bool) : allIn lo hi p = true ↔ ∀ i, lo ≤ i → i < hi → p i = true := by
  simp only [allIn, List.all_eq_true, List.mem_range'_1]
  constructor
  · intro h i h1 h2; exact h i ⟨h1, by omega⟩
  · intro h i hi; exact h i hi.1 (by omega)

theorem sortedSegB_sound {xs : List Cell} {lo hi : Nat} (h : sortedSegB xs lo hi = true) : SortedSeg xs lo hi := by
  intro i j h1 h2 h3
  have := (allIn_iff _ _ _).mp ((allIn_iff _ _ _).mp h i h1 (by omega)) j (by omega) h3
  simpa [h2] using this

theorem probeOKB_sound {cfg : Cfg} {xs : List Cell} {lo hi : Nat} {vs : List Cell}
    (h : probeOKB cfg xs lo hi vs = true) : ProbeOK cfg xs lo hi vs := by
  simp only [probeOKB, Bool.and_eq_true, decide_eq_true_eq, Bool.or_eq_true, List.all_eq_true] at h
  obtain ⟨⟨⟨⟨⟨⟨h1, h2⟩, h3⟩, h4⟩, h5⟩, h6⟩, h7⟩ := h
  refine ⟨h1, h2, h3, sortedSegB_sound h4, ?_, ?_, ?_⟩
  · intro i a b
    have := (allIn_iff _ _ _).mp h5 i a b
    simpa using this
  · intro v hv i a b
    exact (allIn_iff _ _ _).mp (h6 v hv) i a b
  · intro v hv
    simpa using h7 v hv

theorem segsB_sound : ∀ {l : List (Nat × Nat)} {a b : Nat}, segsB l a b = true → Segs l a b
  | [], a, b, h => by
    simp [segsB] at h; subst h; exact Segs.nil a
  | (l, hh) :: r, a, b, h => by
    simp only [segsB, Bool.and_eq_true, beq_iff_eq, decide_eq_true_eq] at h
    obtain ⟨⟨h1, h2⟩, h3⟩ := h
    subst h1
    exact Segs.cons h2 (segsB_sound h3)

theorem cellOKB_sound {op : Op} {a : ArgV} {c : Cell} (h : cellOKB op a c = true) : CellOK op a c := by
  simp only [cellOKB, Bool.and_eq_true, Bool.or_eq_true, List.all_eq_true, Bool.not_eq_true'] at h
  obtain ⟨⟨h1, h2⟩, h3⟩ := h
  refine ⟨by simpa using h1, h2, ?_⟩
  intro hop v hv
  rcases h3 with h3 | h3
  · rcases hop with rfl | rfl | rfl | rfl <;> simp [isOrderOp] at h3
  · simpa using h3 v hv

theorem distinctKeysB_sound : ∀ {l : List Cell}, distinctKeysB l = true → l.Pairwise (fun u v => u.key ≠ v.key)
  | [], _ => List.Pairwise.nil
  | v :: vs, h => by
    simp only [distinctKeysB, Bool.and_eq_true, List.all_eq_true] at h
    rw [List.pairwise_cons]
    exact ⟨fun w hw => by simpa using h.1 w hw, distinctKeysB_sound h.2⟩

theorem leGeOKB_sound {cfg : Cfg} {op : Op} {a : ArgV} {col : List Cell} (h : leGeOKB cfg op a col = true) :
    leGeOK cfg op a col := by
  simp only [leGeOKB, Bool.and_eq_true, Bool.or_eq_true, List.all_eq_true] at h
  constructor
  · intro hop
    subst hop
    rcases h.1 with (h1 | h1) | h1
    · simp at h1
    · exact Or.inl h1
    · exact Or.inr ⟨fun c hc => by simpa using h1.1 c hc, fun v hv => by simpa using h1.2 v hv⟩
  · intro hop
    subst hop
    rcases h.2 with (h1 | h1) | h1
    · simp at h1
    · exact Or.inl h1
    · exact Or.inr ⟨fun c hc => by simpa using h1.1 c hc, fun v hv => by simpa using h1.2 v hv⟩

theorem kwOKB_sound {cfg : Cfg} {t : Table} {lohis : List (Nat × List (Nat × Nat))} {m : Nat} {pos : Option Op}
    {kw : Nat × Arg} (h : kwOKB cfg t lohis m pos kw = true) : KwOK cfg t lohis m pos kw := by
  simp only [kwOKB, Bool.and_eq_true] at h
  obtain ⟨⟨h1, h2⟩, h3⟩ := h
  refine ⟨by simpa using h1, ?_, ?_, ?_, ?_⟩
  · intro a ha
    rw [ha] at h2
    simpa using h2
  · intro op a hc
    rw [hc] at h3
    simp only [Bool.and_eq_true] at h3
    exact h3.1
  · intro hidx op a hc
    rw [hc] at h3
    have hcon : t.indexes.contains kw.1 = true := by simpa using hidx
    simp only [Bool.and_eq_true, hcon, if_true] at h3
    obtain ⟨_, h4⟩ := h3
    cases hd : dictGet lohis kw.1 with
    | error e => simp [hd] at h4
    | ok segs =>
      simp only [hd, Bool.and_eq_true, Bool.or_eq_true, List.all_eq_true] at h4
      obtain ⟨⟨⟨⟨a1, a2⟩, a3⟩, a4⟩, a5⟩ := h4
      refine ⟨segs, rfl, segsB_sound a1, fun p hp => probeOKB_sound (a2 p hp), a3, ?_, ?_⟩
      · intro hop
        subst hop
        rcases a4 with (a4 | a4) | a4
        · simp at a4
        · exact Or.inl a4
        · exact Or.inr (distinctKeysB_sound a4)
      · intro i hi
        exact cellOKB_sound ((allIn_iff _ _ _).mp a5 i (Nat.zero_le _) hi)
  · intro hidx op a hc
    rw [hc] at h3
    have hcon : t.indexes.contains kw.1 = false := by simpa using hidx
    simp only [Bool.and_eq_true, hcon] at h3
    exact leGeOKB_sound h3.2

theorem noLeakB_sound {cfg : Cfg} : ∀ {kws : List (Nat × Arg)}, noLeakB cfg kws = true → NoLeak cfg kws
  | [], _ => trivial
  | kw :: rest, h => by
    simp only [noLeakB, Bool.and_eq_true, Bool.or_eq_true, List.all_eq_true, Bool.not_eq_true'] at h
    refine ⟨?_, noLeakB_sound h.2⟩
    rcases h.1 with (h1 | h1) | h1
    · exact Or.inl h1
    · right
      intro op a ha
      rw [ha] at h1
      simp [isDict] at h1
    · right
      intro op a _ k hk a' ha'
      have := h1 k hk
      rw [ha'] at this
      simp [isVal] at this

theorem strictIncB_sound : ∀ {l : List Nat}, strictIncB l = true → StrictInc l
  | [], _ => List.Pairwise.nil
  | x :: xs, h => by
    simp only [strictIncB, Bool.and_eq_true, List.all_eq_true, decide_eq_true_eq] at h
    unfold StrictInc
    rw [List.pairwise_cons]
    exact ⟨h.1, strictIncB_sound h.2⟩

theorem isOk_iff {α} (e : Except Err α) : isOk e = true ↔ ∃ a, e = .ok a := by
  cases e <;> simp [isOk]

theorem tableOKB_sound {t : Table} {N : Nat} (h : tableOKB t N = true) : t.OK N := by
  simp only [tableOKB, Bool.and_eq_true, List.all_eq_true, beq_iff_eq, decide_eq_true_eq] at h
  obtain ⟨⟨⟨h1, h2⟩, h3⟩, h4⟩ := h
  exact ⟨h1, fun c hc => (isOk_iff _).mp (h2 c hc), ⟨strictIncB_sound h3, h4⟩⟩

/-- `where` with keywords returns exactly the rows the plain row-by-row evaluation keeps -/
theorem where_eq_spec' (cfg : Cfg) (t : Table) (pos : Option Op) (kws : List (Nat × Arg))
    (R rs : List (List Cell)) (hwf : whereWF cfg t pos kws = true) (hR : t.rows = .ok R)
    (hspec : whereS { columns := t.columns, rows := R } (kws.map (condOf pos)) = .ok rs) :
    ∃ t', t.pwhere cfg Option.none pos kws = .ok t' ∧ t'.rows = .ok rs ∧
      t'.columns = t.columns ∧ t'.indexes = t.indexes := by
  unfold whereWF at hwf
  cases hd : t.data with
  | nil => simp [hd] at hwf
  | cons p rest =>
    obtain ⟨c0, b⟩ := p
    simp only [hd, Bool.and_eq_true, Bool.not_eq_true'] at hwf
    obtain ⟨⟨⟨h1, h2⟩, h3⟩, h4⟩ := hwf
    cases hl : t.calcLohis cfg with
    | error e => simp [hl] at h4
    | ok lohis =>
      simp only [hl, List.all_eq_true] at h4
      have hne : kws ≠ [] := by
        intro he; simp [he] at h2
      obtain ⟨t', a1, a2, a3, a4, _, _, _⟩ := where_eq_spec_aux cfg t b.length (tableOKB_sound h1) pos kws hne lohis hl
        (fun kw hk => kwOKB_sound (h4 kw hk)) (noLeakB_sound h3) R rs hR hspec
      exact ⟨t', a1, a2, a3, a4⟩


/-! ## bisect path = scan path on a whole sorted column -/

theorem compare_bisect_eq_scan' (cfg : Cfg) (s : Seq) (xs : List Cell) (hsh : s.Shows xs) (op : Op) (a : ArgV)
    (hshape : argShape op a = true)
    (hok : ProbeOK cfg xs 0 xs.length (probesOf a)) (hcmp : allComparable (probesOf a) = true)
    (hdup : op = .isin → cfg.dedupIn = true ∨ (probesOf a).Pairwise (fun u v => u.key ≠ v.key))
    (hcell : ∀ c ∈ xs, CellOK op a c) (hle : leGeOK cfg op a xs) :
    ∃ rs, compareBisect cfg s 0 xs.length op a = .ok rs ∧ compareScan cfg xs op a = .ok (rs.flatMap rangeOf) := by
  obtain ⟨rs, e, hp⟩ := compareBisect_spec cfg s xs hsh 0 xs.length op a hshape hok hcmp hdup
  refine ⟨rs, e, ?_⟩
  rw [compareScan_eq cfg xs op a hshape hle]
  obtain ⟨l, e', hp'⟩ := scanFilter_picks xs 0 (sat op a) (fun c => argSat op a c.key)
    (fun c hc => sat_eq_argSat op a c hshape hok.vnn (hcell c hc))
  rw [e']
  congr 1
  apply Picks.unique (lo := 0) (hi := xs.length) (P := fun i => argSat op a (cellAt xs i).key = true) _ hp
  rw [Nat.zero_add] at hp'
  apply hp'.congr
  intro i _ _
  simp

/-! ## `where` with a row predicate -/

theorem zip_map_self {β : Type} (f : Nat → β) : ∀ l : List Nat, l.zip (l.map f) = l.map (fun i => (i, f i))
  | [] => rfl
  | x :: xs => by simp [zip_map_self f xs]

theorem filterMap_ite (q : Nat → Bool) : ∀ l : List Nat,
    l.filterMap (fun x => if q x = true then some x else Option.none) = l.filter q
  | [] => rfl
  | x :: xs => by
    by_cases h : q x = true <;> simp [h, filterMap_ite q xs]

theorem where_pred_view' (cfg : Cfg) (t : Table) (N : Nat) (hok : t.OK N) (hne : t.columns ≠ []) (p : RowPred)
    (pos : Option Op) (kws : List (Nat × Arg)) (R : List (List Cell)) (hR : t.rows = .ok R) :
    ∃ t', t.pwhere cfg (some p) pos kws = .ok t' ∧ t'.rows = .ok (R.filter p.eval) ∧
      t'.columns = t.columns ∧ t'.indexes = t.indexes ∧ t'.OK N ∧ t'.data = t.data ∧
      ∃ selection, StrictInc selection ∧ (∀ i ∈ selection, i < t.m N) ∧
        t'.sel.idx N = selection.map (fun i => (t.sel.idx N).getD i 0) := by
  have hRe : R = (List.range (t.m N)).map t.rowAt := by
    have := hok.rows_eq hne
    rw [hR] at this
    exact Except.ok.inj this
  -- the selection is the filter of the row numbers
  have hselq : ((List.range R.length).zip R).filterMap (fun (q : Nat × List Cell) => if p.eval q.2 then some q.1 else Option.none)
      = (List.range (t.m N)).filter (p.eval ∘ t.rowAt) := by
    rw [hRe]
    simp only [List.length_map, List.length_range]
    generalize t.m N = m
    rw [zip_map_self, List.filterMap_map]
    exact filterMap_ite (p.eval ∘ t.rowAt) (List.range m)
  generalize hsg : (List.range (t.m N)).filter (p.eval ∘ t.rowAt) = selection at hselq
  have hsel : Picks selection 0 (t.m N) (fun i => (p.eval ∘ t.rowAt) i = true) := by
    rw [← hsg]; exact picks_filter _ _
  obtain ⟨sel', ecomp, hidx, hselok⟩ := composeSel_spec t.sel N hok.sel selection hsel.inc
    (fun i hi => by have := (hsel.mem i).mp hi; simpa [Table.m] using this.2.1)
  have hok' : Table.OK { t with sel := sel' } N := ⟨hok.len, hok.cols, hselok⟩
  refine ⟨{ t with sel := sel' }, ?_, ?_, rfl, rfl, hok', rfl, selection, hsel.inc, fun i hi => ((hsel.mem i).mp hi).2.1, hidx⟩
  · simp only [Table.pwhere, hR, bind, Except.bind, hselq, ecomp, pure, Except.pure]
  · have hm' : Table.m { t with sel := sel' } N = selection.length := by simp [Table.m, hidx]
    rw [Table.OK.rows_eq hok' hne, hm']
    congr 1
    rw [hRe, List.filter_map, hsg]
    apply List.ext_getElem
    · simp
    · intro k h1 h2
      simp only [List.length_map, List.length_range] at h1
      simp only [List.getElem_map, List.getElem_range]
      rw [rowAt_view t N hok sel' selection hidx (fun i hi => ((hsel.mem i).mp hi).2.1) k h1]
      simp [List.getD, List.getElem?_eq_getElem h1]


theorem where_pred_eq_spec' (cfg : Cfg) (t : Table) (N : Nat) (hok : t.OK N) (hne : t.columns ≠ []) (p : RowPred)
    (pos : Option Op) (kws : List (Nat × Arg)) (R : List (List Cell)) (hR : t.rows = .ok R) :
    ∃ t', t.pwhere cfg (some p) pos kws = .ok t' ∧ t'.rows = .ok (R.filter p.eval) ∧
      t'.columns = t.columns ∧ t'.indexes = t.indexes ∧ t'.OK N := by
  obtain ⟨t', a, b, c, d, e, _⟩ := where_pred_view' cfg t N hok hne p pos kws R hR
  exact ⟨t', a, b, c, d, e⟩

/-! ## `_sub_lohis`: runs of equal keys in a sorted segment -/

/-- the cells of `[lo,hi)` can be ordered against each other -/
def MutCmp (xs : List Cell) (lo hi : Nat) : Prop :=
  ∀ i j, lo ≤ i → i < hi → lo ≤ j → j < hi → (cellAt xs i).key.comparable (cellAt xs j).key = true

/-- `[a,b)` is a non-empty run of one key inside `[lo,hi)`, and everything behind it up to `hi` is greater -/
structure IsRun (xs : List Cell) (hi : Nat) (p : Nat × Nat) : Prop where
  ne : p.1 < p.2
  le : p.2 ≤ hi
  same : ∀ i, p.1 ≤ i → i < p.2 → (cellAt xs i).key = (cellAt xs p.1).key
  after : ∀ i, p.2 ≤ i → i < hi → (cellAt xs p.1).key.lt (cellAt xs i).key = true

theorem subLohis_spec (cfg : Cfg) (s : Seq) (xs : List Cell) (hsh : s.Shows xs) :
    ∀ (fuel lo hi : Nat), hi - lo ≤ fuel → lo ≤ hi → hi ≤ xs.length →
    SortedSeg xs lo hi → MutCmp xs lo hi → NoNoneSeg xs lo hi →
    ∃ segs, subLohis cfg s fuel lo hi = .ok segs ∧ Segs segs lo hi ∧ ∀ p ∈ segs, IsRun xs hi p ∧ lo ≤ p.1 := by
  intro fuel
  induction fuel with
  | zero =>
    intro lo hi hf hle _ _ _ _
    have : lo = hi := by omega
    subst this
    exact ⟨[], rfl, Segs.nil lo, by simp⟩
  | succ fuel ih =>
    intro lo hi hf hle hhi hs hm hn
    by_cases heq : lo = hi
    · subst heq
      exact ⟨[], by simp [subLohis], Segs.nil lo, by simp⟩
    · have hlt : lo < hi := by omega
      obtain ⟨nh, e, h1, h2, h3, h4⟩ := myBisectRight_spec cfg s xs hsh (cellAt xs lo) lo hi hle hhi (Or.inr hlt) hs
        (fun i a b => hm i lo a b (le_refl _) hlt) hn (hn lo (le_refl _) hlt)
      have hnh : lo < nh := by
        by_contra hcon
        have : nh = lo := by omega
        subst this
        have := h4 nh (le_refl _) hlt
        rw [Key.lt_irrefl] at this; exact absurd this (by simp)
      obtain ⟨rest, e', hsegs, hruns⟩ := ih nh hi (by omega) h2 hhi
        (fun i j a b c => hs i j (by omega) b c)
        (fun i j a b c d => hm i j (by omega) b (by omega) d)
        (fun i a b => hn i (by omega) b)
      refine ⟨(lo, nh) :: rest, ?_, Segs.cons (by omega) hsegs, ?_⟩
      · simp only [subLohis, heq, if_false, hsh.get lo (by omega), bind, Except.bind, e, e', pure, Except.pure]
      · intro p hp
        simp at hp
        rcases hp with rfl | hp
        · refine ⟨⟨hnh, h2, ?_, fun i a b => h4 i a b⟩, le_refl _⟩
          intro i a b
          simp only at a b ⊢
          by_cases hil : i = lo
          · rw [hil]
          · apply Key.lt_connected
            · exact hs lo i (le_refl _) (by omega) (by omega)
            · exact h3 i a b
        · obtain ⟨r, hr⟩ := hruns p hp
          exact ⟨r, by omega⟩

theorem Segs.append {l1 l2 : List (Nat × Nat)} {a m b : Nat} (h1 : Segs l1 a m) (h2 : Segs l2 m b) :
    Segs (l1 ++ l2) a b := by
  induction h1 with
  | nil a => exact h2
  | cons hh _ ih => exact Segs.cons hh (ih h2)

/-- the refinement of a whole level -/
theorem subLohisAll_spec (cfg : Cfg) (s : Seq) (xs : List Cell) (hsh : s.Shows xs) :
    ∀ (cur : List (Nat × Nat)) (a b : Nat), Segs cur a b → b ≤ xs.length →
    (∀ p ∈ cur, SortedSeg xs p.1 p.2 ∧ MutCmp xs p.1 p.2 ∧ NoNoneSeg xs p.1 p.2) →
    ∃ nxt, subLohisAll cfg s cur = .ok nxt ∧ Segs nxt a b ∧
      ∀ q ∈ nxt, ∃ p ∈ cur, p.1 ≤ q.1 ∧ IsRun xs p.2 q := by
  intro cur a b hsegs
  induction hsegs with
  | nil a => intro _ _; exact ⟨[], rfl, Segs.nil a, by simp⟩
  | @cons a h b r hah hr ih =>
    intro hb hall
    obtain ⟨hs, hm, hn⟩ := hall (a, h) (by simp)
    have hhb : h ≤ b := hr.le
    obtain ⟨segs, e, hsg, hruns⟩ := subLohis_spec cfg s xs hsh (h - a) a h (le_refl _) hah (by omega) hs hm hn
    obtain ⟨nxt, e', hsg', hruns'⟩ := ih hb (fun p hp => hall p (by simp [hp]))
    refine ⟨segs ++ nxt, by simp only [subLohisAll, e, e', bind, Except.bind, pure, Except.pure], ?_, ?_⟩
    · exact hsg.append hsg'
    · intro q hq
      rw [List.mem_append] at hq
      rcases hq with hq | hq
      · obtain ⟨r1, r2⟩ := hruns q hq
        exact ⟨(a, h), by simp, r2, r1⟩
      · obtain ⟨p, hp, r1, r2⟩ := hruns' q hq
        exact ⟨p, by simp [hp], r1, r2⟩


/-! ## slices and blocks of a list along consecutive segments -/

def slice {α} (l : List α) (a b : Nat) : List α := (l.drop a).take (b - a)

def blocksOf {α} (l : List α) (segs : List (Nat × Nat)) : List (List α) := segs.map (fun p => slice l p.1 p.2)

theorem slice_length {α} (l : List α) (a b : Nat) (_hab : a ≤ b) (hb : b ≤ l.length) : (slice l a b).length = b - a := by
  simp [slice]; omega

theorem Segs.bounds {segs : List (Nat × Nat)} {a b : Nat} (h : Segs segs a b) :
    ∀ p ∈ segs, a ≤ p.1 ∧ p.1 ≤ p.2 ∧ p.2 ≤ b := by
  induction h with
  | nil a => simp
  | @cons a h b r hah hr ih =>
    intro p hp
    simp at hp
    rcases hp with rfl | hp
    · exact ⟨le_refl _, hah, hr.le⟩
    · have := ih p hp; omega

theorem slice_split {α} (l : List α) (a h b : Nat) (hah : a ≤ h) (hhb : h ≤ b) : slice l a b = slice l a h ++ slice l h b := by
  simp only [slice]
  have e1 : b - a = (h - a) + (b - h) := by omega
  rw [e1, List.take_add]
  congr 1
  rw [List.drop_drop]
  congr 2
  omega

theorem blocks_flatten {α} (l : List α) : ∀ {segs : List (Nat × Nat)} {a b : Nat}, Segs segs a b →
    (blocksOf l segs).flatten = slice l a b := by
  intro segs a b h
  induction h with
  | nil a => simp [blocksOf, slice]
  | @cons a h b r hah hr ih =>
    simp only [blocksOf, List.map_cons, List.flatten_cons] at ih ⊢
    rw [ih, ← slice_split l a h b hah hr.le]

theorem slice_full {α} (l : List α) : slice l 0 l.length = l := by simp [slice]

/-- replacing the slice `[a,h)` -/
theorem take_append_drop_slices {α} (l seg : List α) (a h : Nat) (hah : a ≤ h) (hh : h ≤ l.length)
    (hlen : seg.length = h - a) :
    (l.take a ++ seg ++ l.drop h).length = l.length ∧ (l.take a ++ seg ++ l.drop h).take h = l.take a ++ seg ∧
    (∀ c d, h ≤ c → slice (l.take a ++ seg ++ l.drop h) c d = slice l c d) := by
  have hpre : (l.take a ++ seg).length = h := by simp [hlen]; omega
  refine ⟨by simp [hlen]; omega, ?_, ?_⟩
  · rw [List.take_append_of_le_length (by omega), List.take_of_length_le (by omega)]
  · intro c d hc
    simp only [slice]
    rw [List.drop_append, List.drop_of_length_le (by omega : (l.take a ++ seg).length ≤ c), hpre, List.nil_append,
      List.drop_drop]
    congr 2
    omega


/-! ## `indexes[lo:hi] = sorted(indexes[lo:hi], key=…)` for every segment -/

theorem sortBy_length {α : Type} (lt : α → α → Bool) (l : List α) : (sortBy lt l).length = l.length :=
  (sortBy_perm lt l).length_eq

/-- the order `sorted(…, key=col.__getitem__)` puts row numbers in -/
def ltBy (kf : Nat → Cell) (i j : Nat) : Bool := (kf i).key.lt (kf j).key

theorem pySortedBy_ok (kf : Nat → Cell) (xs : List Nat) (h : allComparable (xs.map kf) = true) :
    pySortedBy kf xs = .ok (sortBy (ltBy kf) xs) := by
  simp only [pySortedBy, h, if_true]; rfl

theorem sortSegments_spec (kf : Nat → Cell) : ∀ {segs : List (Nat × Nat)} {a b : Nat}, Segs segs a b →
    ∀ (perm : List Nat), b = perm.length →
    (∀ p ∈ segs, allComparable ((slice perm p.1 p.2).map kf) = true) →
    sortSegments kf segs perm = .ok (perm.take a ++ ((blocksOf perm segs).map (sortBy (ltBy kf))).flatten) := by
  intro segs a b hs
  induction hs with
  | nil a =>
    intro perm hb _
    simp [sortSegments, blocksOf, hb]
  | @cons a h b r hah hr ih =>
    intro perm hb hc
    have hhb : h ≤ b := hr.le
    have hseg := pySortedBy_ok kf (slice perm a h) (hc (a, h) (by simp))
    have hlen : (sortBy (ltBy kf) (slice perm a h)).length = h - a := by
      rw [sortBy_length, slice_length perm a h hah (by omega)]
    obtain ⟨l1, l2, l3⟩ := take_append_drop_slices perm (sortBy (ltBy kf) (slice perm a h)) a h hah (by omega) hlen
    have hbl : blocksOf (perm.take a ++ sortBy (ltBy kf) (slice perm a h) ++ perm.drop h) r = blocksOf perm r := by
      simp only [blocksOf]
      apply List.map_congr_left
      intro p hp
      exact l3 p.1 p.2 (hr.bounds p hp).1
    have := ih (perm.take a ++ sortBy (ltBy kf) (slice perm a h) ++ perm.drop h) (by rw [l1]; exact hb)
      (fun p hp => by rw [l3 p.1 p.2 (hr.bounds p hp).1]; exact hc p (by simp [hp]))
    simp only [sortSegments, bind, Except.bind]
    have hsl : (perm.drop a).take (h - a) = slice perm a h := rfl
    rw [hsl, hseg]
    simp only
    rw [this, l2, hbl]
    simp [blocksOf, List.append_assoc]

/-- the blocks of a list assembled from blocks of the right lengths are those blocks -/
theorem blocksOf_flatten {α : Type} : ∀ {segs : List (Nat × Nat)} {a b : Nat}, Segs segs a b →
    ∀ (pre : List α) (bs : List (List α)), pre.length = a → List.Forall₂ (fun (p : Nat × Nat) blk => blk.length = p.2 - p.1) segs bs →
    blocksOf (pre ++ bs.flatten) segs = bs := by
  intro segs a b hs
  induction hs with
  | nil a => intro pre bs _ hf; cases hf; rfl
  | @cons a h b r hah hr ih =>
    intro pre bs hpre hf
    cases hf with
    | @cons _ blk _ rest hblk hrest =>
      simp only at hblk
      simp only [blocksOf, List.map_cons, List.flatten_cons]
      congr 1
      · simp only [slice]
        rw [List.drop_append_of_le_length (by omega), List.drop_of_length_le (by omega), List.nil_append]
        exact List.take_left' hblk
      · have := ih (pre ++ blk) rest (by simp [hpre, hblk]; omega) hrest
        simp only [blocksOf, List.append_assoc] at this
        exact this


/-! ### positions and slices -/

theorem getD_slice (l : List Nat) (a b i : Nat) (ha : a ≤ i) (hb : i < b) (hl : b ≤ l.length) :
    (slice l a b).getD (i - a) 0 = l.getD i 0 := by
  have h1 : i - a < (slice l a b).length := by rw [slice_length l a b (by omega) hl]; omega
  have h2 : i < l.length := by omega
  rw [List.getD, List.getD, List.getElem?_eq_getElem h1, List.getElem?_eq_getElem h2]
  simp only [Option.getD_some, slice, List.getElem_take, List.getElem_drop]
  congr 1; omega

theorem getD_mem_slice (l : List Nat) (a b i : Nat) (ha : a ≤ i) (hb : i < b) (hl : b ≤ l.length) :
    l.getD i 0 ∈ slice l a b := by
  rw [← getD_slice l a b i ha hb hl]
  have h1 : i - a < (slice l a b).length := by rw [slice_length l a b (by omega) hl]; omega
  simp only [List.getD, List.getElem?_eq_getElem h1, Option.getD_some]
  exact List.getElem_mem h1

theorem mem_slice_iff (l : List Nat) (a b : Nat) (hab : a ≤ b) (hl : b ≤ l.length) (x : Nat) :
    x ∈ slice l a b ↔ ∃ i, a ≤ i ∧ i < b ∧ l.getD i 0 = x := by
  constructor
  · intro hx
    obtain ⟨t, ht, rfl⟩ := List.getElem_of_mem hx
    rw [slice_length l a b hab hl] at ht
    refine ⟨a + t, by omega, by omega, ?_⟩
    rw [← getD_slice l a b (a + t) (by omega) (by omega) hl]
    have : a + t - a = t := by omega
    have h1 : t < (slice l a b).length := by rw [slice_length l a b hab hl]; exact ht
    simp [this, List.getD, List.getElem?_eq_getElem h1]
  · rintro ⟨i, h1, h2, rfl⟩
    exact getD_mem_slice l a b i h1 h2 hl

/-- the stage result: every block sorted -/
def sortBlocks (kf : Nat → Cell) (perm : List Nat) (lohis : List (Nat × Nat)) : List Nat :=
  ((blocksOf perm lohis).map (sortBy (ltBy kf))).flatten

theorem sortBlocks_slices (kf : Nat → Cell) (perm : List Nat) (lohis : List (Nat × Nat)) (N : Nat)
    (hs : Segs lohis 0 N) (hN : N = perm.length) :
    (sortBlocks kf perm lohis).length = N ∧ (sortBlocks kf perm lohis).Perm perm ∧
    ∀ p ∈ lohis, slice (sortBlocks kf perm lohis) p.1 p.2 = sortBy (ltBy kf) (slice perm p.1 p.2) := by
  have hf : List.Forall₂ (fun (p : Nat × Nat) blk => blk.length = p.2 - p.1) lohis
      ((blocksOf perm lohis).map (sortBy (ltBy kf))) := by
    have hb := hs.bounds
    clear hs
    induction lohis with
    | nil => exact List.Forall₂.nil
    | cons p r ih =>
      simp only [blocksOf, List.map_cons] at ih ⊢
      refine List.Forall₂.cons ?_ (ih (fun q hq => hb q (by simp [hq])))
      have := hb p (by simp)
      rw [sortBy_length, slice_length perm p.1 p.2 this.2.1 (by omega)]
  have hbl := blocksOf_flatten hs ([] : List Nat) _ rfl hf
  simp only [List.nil_append] at hbl
  have hperm : (sortBlocks kf perm lohis).Perm perm := by
    have e : perm = (blocksOf perm lohis).flatten := by
      rw [blocks_flatten perm hs, hN, slice_full]
    conv_rhs => rw [e]
    simp only [sortBlocks]
    generalize blocksOf perm lohis = bs
    induction bs with
    | nil => exact List.Perm.refl _
    | cons b rest ih =>
      simp only [List.map_cons, List.flatten_cons]
      exact (sortBy_perm _ b).append ih
  refine ⟨by rw [hperm.length_eq, hN], hperm, ?_⟩
  intro p hp
  have : lohis.map (fun p => slice (sortBlocks kf perm lohis) p.1 p.2) = lohis.map (fun p => sortBy (ltBy kf) (slice perm p.1 p.2)) := by
    have := hbl
    simp only [blocksOf, List.map_map] at this
    simpa [sortBlocks, blocksOf, List.map_map, Function.comp] using this
  exact List.map_inj_left.mp this p hp

/-! ### the lexicographic order on the processed columns -/

theorem lexLtK_agree (K : Nat → Nat → Key) : ∀ (ds : List Nat) (x y : Nat), (∀ d ∈ ds, K d x = K d y) →
    ∀ es, lexLtK K (ds ++ es) x y = lexLtK K es x y
  | [], _, _, _, _ => rfl
  | d :: ds, x, y, h, es => by
    simp only [List.cons_append, lexLtK, h d (by simp), Key.lt_irrefl]
    exact lexLtK_agree K ds x y (fun d' hd' => h d' (by simp [hd'])) es

theorem lexLtK_agree_false (K : Nat → Nat → Key) (ds : List Nat) (x y : Nat) (h : ∀ d ∈ ds, K d x = K d y) :
    lexLtK K ds x y = false := by
  have := lexLtK_agree K ds x y h []
  simpa [lexLtK] using this

theorem lexLtK_append_of_lt (K : Nat → Nat → Key) : ∀ (ds es : List Nat) (x y : Nat), lexLtK K ds x y = true →
    lexLtK K (ds ++ es) x y = true
  | [], _, _, _, h => by simp [lexLtK] at h
  | d :: ds, es, x, y, h => by
    simp only [List.cons_append, lexLtK] at h ⊢
    split
    · rfl
    · rename_i h1
      simp only [h1] at h
      split
      · rename_i h2; simp [h2] at h
      · rename_i h2
        simp only [h2] at h
        exact lexLtK_append_of_lt K ds es x y h

theorem lexLtK_asymm (K : Nat → Nat → Key) : ∀ (ds : List Nat) (x y : Nat), lexLtK K ds x y = true → lexLtK K ds y x = false
  | [], _, _, h => by simp [lexLtK] at h
  | d :: ds, x, y, h => by
    simp only [lexLtK] at h ⊢
    by_cases h1 : (K d x).lt (K d y) = true
    · simp [Key.lt_asymm _ _ h1, h1]
    · simp only [h1] at h
      by_cases h2 : (K d y).lt (K d x) = true
      · simp [h2] at h
      · simp only [h2] at h
        simp only [h2, h1]
        exact lexLtK_asymm K ds x y h


/-! ### consecutive segments: cover and order -/

theorem Segs.cover {l : List (Nat × Nat)} {a b : Nat} (h : Segs l a b) (i : Nat) (h1 : a ≤ i) (h2 : i < b) :
    ∃ p ∈ l, p.1 ≤ i ∧ i < p.2 := by
  induction h with
  | nil a => omega
  | @cons a hh b r hah hr ih =>
    by_cases hi : i < hh
    · exact ⟨(a, hh), by simp, h1, hi⟩
    · obtain ⟨p, hp, hq⟩ := ih (by omega) h2
      exact ⟨p, by simp [hp], hq⟩

theorem Segs.order {l : List (Nat × Nat)} {a b : Nat} (h : Segs l a b) :
    ∀ p ∈ l, ∀ q ∈ l, p.2 ≤ q.1 ∨ q.2 ≤ p.1 ∨ p = q := by
  induction h with
  | nil a => simp
  | @cons a hh b r hah hr ih =>
    intro p hp q hq
    simp at hp hq
    rcases hp with rfl | hp <;> rcases hq with rfl | hq
    · exact Or.inr (Or.inr rfl)
    · exact Or.inl (hr.bounds q hq).1
    · exact Or.inr (Or.inl (hr.bounds p hp).1)
    · exact ih p hp q hq

/-! ### one stage of the index loop -/

/-- what holds between the stages of `Table.index`: `perm` (the row numbers in their current order)
is a permutation; inside a segment all rows agree on the keys of the processed columns `done`;
rows of different segments are strictly ordered by them -/
structure StageInv (K : Nat → Nat → Key) (N : Nat) (done : List Nat) (perm : List Nat) (lohis : List (Nat × Nat)) : Prop where
  isPerm : perm.Perm (List.range N)
  segs : Segs lohis 0 N
  agree : ∀ d ∈ done, ∀ p ∈ lohis, ∀ i j, p.1 ≤ i → i < p.2 → p.1 ≤ j → j < p.2 →
    K d (perm.getD i 0) = K d (perm.getD j 0)
  strict : ∀ p ∈ lohis, ∀ i j, i < p.2 → p.2 ≤ j → j < N →
    lexLtK K done (perm.getD i 0) (perm.getD j 0) = true

theorem StageInv.len {K : Nat → Nat → Key} {N : Nat} {done perm lohis} (h : StageInv K N done perm lohis) :
    perm.length = N := by
  rw [h.isPerm.length_eq]; simp

/-- position `i` of the sorted blocks holds a row that was at some position of the same segment -/
theorem sortBlocks_pos (kf : Nat → Cell) (perm : List Nat) (lohis : List (Nat × Nat)) (N : Nat)
    (hs : Segs lohis 0 N) (hN : N = perm.length) (p : Nat × Nat) (hp : p ∈ lohis) (i : Nat) (h1 : p.1 ≤ i) (h2 : i < p.2) :
    ∃ i', p.1 ≤ i' ∧ i' < p.2 ∧ (sortBlocks kf perm lohis).getD i 0 = perm.getD i' 0 := by
  obtain ⟨l1, l2, l3⟩ := sortBlocks_slices kf perm lohis N hs hN
  have hb := hs.bounds p hp
  have hm := getD_mem_slice (sortBlocks kf perm lohis) p.1 p.2 i h1 h2 (by rw [l1]; exact hb.2.2)
  rw [l3 p hp] at hm
  have hm' := (sortBy_perm (ltBy kf) _).mem_iff.mp hm
  obtain ⟨i', a, b, c⟩ := (mem_slice_iff perm p.1 p.2 hb.2.1 (by omega) _).mp hm'
  exact ⟨i', a, b, c.symm⟩

theorem stage_sort (K : Nat → Nat → Key) (N : Nat) (done : List Nat) (perm : List Nat) (lohis : List (Nat × Nat))
    (h : StageInv K N done perm lohis) (kf : Nat → Cell) :
    StageInv K N done (sortBlocks kf perm lohis) lohis ∧
    (∀ p ∈ lohis, ∀ i j, p.1 ≤ i → i < j → j < p.2 →
      ltBy kf ((sortBlocks kf perm lohis).getD j 0) ((sortBlocks kf perm lohis).getD i 0) = false) := by
  have hN : N = perm.length := h.len.symm
  obtain ⟨l1, l2, l3⟩ := sortBlocks_slices kf perm lohis N h.segs hN
  refine ⟨⟨l2.trans h.isPerm, h.segs, ?_, ?_⟩, ?_⟩
  · intro d hd p hp i j a b c e
    obtain ⟨i', a1, a2, a3⟩ := sortBlocks_pos kf perm lohis N h.segs hN p hp i a b
    obtain ⟨j', b1, b2, b3⟩ := sortBlocks_pos kf perm lohis N h.segs hN p hp j c e
    rw [a3, b3]
    exact h.agree d hd p hp i' j' a1 a2 b1 b2
  · intro p hp i j a b c
    have hb := h.segs.bounds p hp
    -- the segments of i and j
    obtain ⟨qi, hqi, qi1, qi2⟩ := h.segs.cover i (Nat.zero_le _) (by omega)
    obtain ⟨qj, hqj, qj1, qj2⟩ := h.segs.cover j (Nat.zero_le _) c
    obtain ⟨i', a1, a2, a3⟩ := sortBlocks_pos kf perm lohis N h.segs hN qi hqi i qi1 qi2
    obtain ⟨j', b1, b2, b3⟩ := sortBlocks_pos kf perm lohis N h.segs hN qj hqj j qj1 qj2
    rw [a3, b3]
    have hi' : i' < p.2 := by
      rcases h.segs.order p hp qi hqi with o | o | o
      · omega
      · omega
      · subst o; exact a2
    have hj' : p.2 ≤ j' := by
      rcases h.segs.order p hp qj hqj with o | o | o
      · omega
      · omega
      · subst o; omega
    exact h.strict p hp i' j' hi' hj' (by have := (h.segs.bounds qj hqj).2.2; omega)
  · intro p hp i j a b c
    have hb := h.segs.bounds p hp
    have hsorted := sortBy_sorted (ltBy kf) ⟨fun _ _ hh => Key.lt_asymm _ _ hh, fun _ _ _ h1 h2 => Key.le_trans _ _ _ h1 h2⟩ (slice perm p.1 p.2)
    rw [← l3 p hp] at hsorted
    unfold SortedBy at hsorted
    rw [List.pairwise_iff_getElem] at hsorted
    have hl : (slice (sortBlocks kf perm lohis) p.1 p.2).length = p.2 - p.1 :=
      slice_length _ _ _ hb.2.1 (by rw [l1]; exact hb.2.2)
    have := hsorted (i - p.1) (j - p.1) (by omega) (by omega) (by omega)
    have e1 := getD_slice (sortBlocks kf perm lohis) p.1 p.2 i a (by omega) (by rw [l1]; exact hb.2.2)
    have e2 := getD_slice (sortBlocks kf perm lohis) p.1 p.2 j (by omega) c (by rw [l1]; exact hb.2.2)
    rw [← e1, ← e2]
    have hi0 : i - p.1 < (slice (sortBlocks kf perm lohis) p.1 p.2).length := by omega
    have hj0 : j - p.1 < (slice (sortBlocks kf perm lohis) p.1 p.2).length := by omega
    simpa [List.getD, List.getElem?_eq_getElem hi0, List.getElem?_eq_getElem hj0] using this


theorem cellAt_map_getD (kf : Nat → Cell) (perm : List Nat) (i : Nat) (h : i < perm.length) :
    cellAt (perm.map kf) i = kf (perm.getD i 0) := by
  rw [cellAt_map kf perm i h]
  simp [List.getD, List.getElem?_eq_getElem h]

/-- after the column has been permuted, its runs inside the old segments are the new segments -/
theorem stage_refine (K : Nat → Nat → Key) (N : Nat) (done : List Nat) (perm : List Nat) (lohis : List (Nat × Nat))
    (h : StageInv K N done perm lohis) (k : Nat) (kf : Nat → Cell) (hkf : ∀ x, (kf x).key = K k x)
    (nxt : List (Nat × Nat)) (hsegs : Segs nxt 0 N)
    (hruns : ∀ q ∈ nxt, ∃ p ∈ lohis, p.1 ≤ q.1 ∧ IsRun (perm.map kf) p.2 q) :
    StageInv K N (done ++ [k]) perm nxt := by
  have hlen := h.len
  have hcell : ∀ i, i < N → (cellAt (perm.map kf) i).key = K k (perm.getD i 0) := by
    intro i hi
    rw [cellAt_map_getD kf perm i (by omega), hkf]
  refine ⟨h.isPerm, hsegs, ?_, ?_⟩
  · intro d hd q hq i j a b c e
    obtain ⟨p, hp, hpq, hrun⟩ := hruns q hq
    have hpb := h.segs.bounds p hp
    rw [List.mem_append] at hd
    rcases hd with hd | hd
    · exact h.agree d hd p hp i j (by omega) (by have := hrun.le; omega) (by omega) (by have := hrun.le; omega)
    · simp at hd; subst hd
      have hle := hrun.le
      rw [← hcell i (by omega), ← hcell j (by omega), hrun.same i a b, hrun.same j c e]
  · intro q hq i j a b c
    obtain ⟨p, hp, hpq, hrun⟩ := hruns q hq
    have hpb := h.segs.bounds p hp
    have hle := hrun.le
    by_cases hj : j < p.2
    · by_cases hi : p.1 ≤ i
      · -- both in the parent segment p: agree on `done`, ordered by column k
        have hag : ∀ d ∈ done, K d (perm.getD i 0) = K d (perm.getD j 0) :=
          fun d hd => h.agree d hd p hp i j hi (by omega) (by omega) hj
        rw [lexLtK_agree K done _ _ hag [k]]
        -- the run containing i
        obtain ⟨qi, hqi, qi1, qi2⟩ := hsegs.cover i (Nat.zero_le _) (by omega)
        obtain ⟨pi, hpi, hpqi, hruni⟩ := hruns qi hqi
        have hpi_eq : pi = p := by
          have hlei := hruni.le
          rcases h.segs.order pi hpi p hp with o | o | o
          · omega
          · omega
          · exact o
        subst hpi_eq
        have hq2 : qi.2 ≤ q.2 := by
          have := hrun.ne
          rcases hsegs.order qi hqi q hq with o | o | o
          · omega
          · omega
          · subst o; exact le_refl _
        have hafter := hruni.after j (by omega) hj
        rw [hcell j c, ← hruni.same i qi1 qi2, hcell i (by omega)] at hafter
        simp only [lexLtK, hafter, if_true]
      · -- i lies in an earlier segment of the old level
        obtain ⟨p0, hp0, p01, p02⟩ := h.segs.cover i (Nat.zero_le _) (by omega)
        have : p0.2 ≤ p.1 := by
          rcases h.segs.order p0 hp0 p hp with o | o | o
          · exact o
          · omega
          · subst o; omega
        exact lexLtK_append_of_lt K done [k] _ _ (h.strict p0 hp0 i j p02 (by have := hrun.ne; omega) c)
    · exact lexLtK_append_of_lt K done [k] _ _ (h.strict p hp i j (by omega) (by omega) c)


/-! ### the loop of `Table.index` -/

theorem lookupCol_setCol (data : List (Nat × List Cell)) (c : Nat) (v : List Cell) (d : Nat) :
    lookupCol (setCol data c v) d =
      if d = c then (match lookupCol data c with | .ok _ => .ok v | .error e => .error e) else lookupCol data d := by
  have hf : (setCol data c v).find? (fun p => p.1 == d) =
      (data.find? (fun p => p.1 == d)).map (fun p => if p.1 == c then (p.1, v) else p) := by
    simp only [setCol, List.find?_map]
    congr 2
    funext p
    by_cases h : (p.1 == c) = true <;> simp [Function.comp, h]
  simp only [lookupCol, hf]
  by_cases hdc : d = c
  · subst hdc
    simp only [if_true]
    cases hfd : data.find? (fun p => p.1 == d) with
    | none => simp
    | some p =>
      have := List.find?_some hfd
      simp only [Option.map_some, this, if_true]
  · simp only [hdc, if_false]
    cases hfd : data.find? (fun p => p.1 == d) with
    | none => simp
    | some p =>
      have := List.find?_some hfd
      simp only [beq_iff_eq] at this
      have hpc : ¬ p.1 = c := by rw [this]; exact hdc
      simp [hpc]

theorem allComparable_of : ∀ (l : List Cell), (∀ a ∈ l, ∀ b ∈ l, a.key.comparable b.key = true) → allComparable l = true
  | [], _ => rfl
  | x :: xs, h => by
    simp only [allComparable, Bool.and_eq_true, List.all_eq_true]
    exact ⟨fun y hy => h x (by simp) y (by simp [hy]), allComparable_of xs (fun a ha b hb => h a (by simp [ha]) b (by simp [hb]))⟩


/-- key of row `x` of the table `t0` (before indexing) in column `d` -/
def K0 (t0 : Table) (d x : Nat) : Key := (cellAt (t0.base d) x).key

/-- an index column: stored, cells mutually comparable, none of them `None` -/
structure IdxColOK (t0 : Table) (N : Nat) (d : Nat) : Prop where
  stored : ∃ b, lookupCol t0.data d = .ok b ∧ b.length = N
  cmp : ∀ x y, x < N → y < N → (K0 t0 d x).comparable (K0 t0 d y) = true
  nn : ∀ x, x < N → K0 t0 d x ≠ .none

/-- the stored lists between the stages: a processed column shows, up to `==`, the original cells
in the current order; the others are untouched -/
structure DataInv (t0 : Table) (N : Nat) (done : List Nat) (data : List (Nat × List Cell)) (perm : List Nat) : Prop where
  doneCols : ∀ d ∈ done, ∃ col, lookupCol data d = .ok col ∧ col.length = N ∧
    ∀ i, i < N → (cellAt col i).key = K0 t0 d (perm.getD i 0)
  rest : ∀ c, c ∉ done → lookupCol data c = lookupCol t0.data c
  keys : data.map (·.1) = t0.data.map (·.1)
  lens : ∀ p ∈ data, p.2.length = N

theorem perm_getD_lt {perm : List Nat} {N : Nat} (h : perm.Perm (List.range N)) (i : Nat) (hi : i < N) :
    perm.getD i 0 < N := by
  have hl : perm.length = N := by rw [h.length_eq]; simp
  have hm : perm.getD i 0 ∈ perm := by
    simp only [List.getD, List.getElem?_eq_getElem (show i < perm.length by omega), Option.getD_some]
    exact List.getElem_mem _
  have := h.mem_iff.mp hm
  simpa using this

theorem seq_shows_all (c : List Cell) : Seq.Shows { base := c, sel := .all } c := by
  have := seq_shows c .all ⟨by simpa [Sel.idx, StrictInc, List.range_eq_range'] using (List.pairwise_lt_range' (s := 0) (n := c.length)),
    by simp [Sel.idx]⟩
  simpa [viewOf, Sel.idx, map_cellAt_range] using this

theorem setCol_keys (data : List (Nat × List Cell)) (c : Nat) (v : List Cell) :
    (setCol data c v).map (·.1) = data.map (·.1) := by
  simp only [setCol, List.map_map]
  apply List.map_congr_left
  intro p _
  by_cases h : (p.1 == c) = true <;> simp [Function.comp, h]

theorem setCol_lens (data : List (Nat × List Cell)) (c : Nat) (v : List Cell) (N : Nat)
    (h : ∀ p ∈ data, p.2.length = N) (hv : v.length = N) : ∀ p ∈ setCol data c v, p.2.length = N := by
  intro p hp
  simp only [setCol, List.mem_map] at hp
  obtain ⟨q, hq, rfl⟩ := hp
  by_cases hc : (q.1 == c) = true
  · simp [hc, hv]
  · simp [hc, h q hq]

/-- one stage: what sorting the blocks by column `col` does to the invariants -/
theorem stage_data (t0 : Table) (N : Nat) (done : List Nat) (data : List (Nat × List Cell))
    (lohis : List (Nat × Nat)) (perm : List Nat) (col : Nat) (hcol : col ∉ done) (hok : IdxColOK t0 N col)
    (hs : StageInv (K0 t0) N done perm lohis) (hd : DataInv t0 N done data perm) :
    ∃ b, lookupCol data col = .ok b ∧ b = t0.base col ∧
      sortSegments (cellAt b) lohis perm = .ok (sortBlocks (cellAt b) perm lohis) ∧
      DataInv t0 N (done ++ [col]) (setCol data col ((sortBlocks (cellAt b) perm lohis).map (cellAt b))) (sortBlocks (cellAt b) perm lohis) := by
  obtain ⟨b, hb, hbl⟩ := hok.stored
  have hbase : t0.base col = b := by simp [Table.base, hb]
  have hlook : lookupCol data col = .ok b := by rw [hd.rest col hcol, hb]
  have hlen := hs.len
  have hN : N = perm.length := hlen.symm
  refine ⟨b, hlook, hbase.symm, ?_, ?_⟩
  · have := sortSegments_spec (cellAt b) hs.segs perm hN (by
      intro p hp
      apply allComparable_of
      intro x hx y hy
      rw [List.mem_map] at hx hy
      obtain ⟨u, hu, rfl⟩ := hx
      obtain ⟨w, hw, rfl⟩ := hy
      have hb2 := hs.segs.bounds p hp
      obtain ⟨i, _, i2, rfl⟩ := (mem_slice_iff perm p.1 p.2 hb2.2.1 (by omega) u).mp hu
      obtain ⟨j, _, j2, rfl⟩ := (mem_slice_iff perm p.1 p.2 hb2.2.1 (by omega) w).mp hw
      have := hok.cmp _ _ (perm_getD_lt hs.isPerm i (by omega)) (perm_getD_lt hs.isPerm j (by omega))
      simpa [K0, hbase] using this)
    simpa [sortBlocks] using this
  · obtain ⟨hs', _⟩ := stage_sort (K0 t0) N done perm lohis hs (cellAt b)
    obtain ⟨l1, _, _⟩ := sortBlocks_slices (cellAt b) perm lohis N hs.segs hN
    refine ⟨?_, ?_, ?_, ?_⟩
    · intro d hdm
      rw [List.mem_append] at hdm
      rcases hdm with hdm | hdm
      · have hne : d ≠ col := fun e => hcol (e ▸ hdm)
        obtain ⟨cd, h1, h2, h3⟩ := hd.doneCols d hdm
        refine ⟨cd, by rw [lookupCol_setCol, if_neg hne, h1], h2, ?_⟩
        intro i hi
        rw [h3 i hi]
        obtain ⟨p, hp, p1, p2⟩ := hs.segs.cover i (Nat.zero_le _) hi
        obtain ⟨i', a1, a2, a3⟩ := sortBlocks_pos (cellAt b) perm lohis N hs.segs hN p hp i p1 p2
        rw [a3]
        exact hs.agree d hdm p hp i i' p1 p2 a1 a2
      · simp at hdm; subst hdm
        refine ⟨_, by rw [lookupCol_setCol, if_pos rfl, hlook], by simp [l1], ?_⟩
        intro i hi
        rw [cellAt_map_getD (cellAt b) _ i (by omega)]
        simp [K0, hbase]
    · intro c hc
      rw [List.mem_append] at hc
      have h1 : c ∉ done := fun h => hc (Or.inl h)
      have h2 : c ≠ col := fun h => hc (Or.inr (by simp [h]))
      rw [lookupCol_setCol, if_neg h2, hd.rest c h1]
    · rw [setCol_keys, hd.keys]
    · exact setCol_lens data col _ N hd.lens (by simp [l1])


/-- rows in their final order are in non-decreasing lexicographic order of the index columns -/
def LexSortedK (K : Nat → Nat → Key) (N : Nat) (cols : List Nat) (perm : List Nat) : Prop :=
  ∀ i j, i < j → j < N → lexLtK K cols (perm.getD j 0) (perm.getD i 0) = false

theorem final_sorted (K : Nat → Nat → Key) (N : Nat) (done : List Nat) (perm : List Nat) (lohis : List (Nat × Nat))
    (kf : Nat → Cell) (col : Nat) (hkf : ∀ x, (kf x).key = K col x)
    (hs : StageInv K N done perm lohis)
    (hsorted : ∀ p ∈ lohis, ∀ i j, p.1 ≤ i → i < j → j < p.2 → ltBy kf (perm.getD j 0) (perm.getD i 0) = false) :
    LexSortedK K N (done ++ [col]) perm := by
  intro i j hij hj
  obtain ⟨p, hp, p1, p2⟩ := hs.segs.cover i (Nat.zero_le _) (by omega)
  by_cases hjp : j < p.2
  · have hag : ∀ d ∈ done, K d (perm.getD j 0) = K d (perm.getD i 0) :=
      fun d hd => hs.agree d hd p hp j i (by omega) hjp p1 p2
    rw [lexLtK_agree K done _ _ hag [col]]
    have := hsorted p hp i j p1 hij hjp
    simp only [ltBy, hkf] at this
    simp only [lexLtK, this, Bool.false_eq_true, if_false]
    split <;> rfl
  · have := hs.strict p hp i j p2 (by omega) hj
    exact lexLtK_asymm K _ _ _ (lexLtK_append_of_lt K done [col] _ _ this)

theorem indexLoop_spec (cfg : Cfg) (t0 : Table) (N : Nat) (last : Nat) :
    ∀ (cols : List Nat) (done : List Nat) (data : List (Nat × List Cell)) (lohis : List (Nat × Nat)) (perm : List Nat),
    cols ≠ [] → cols.getLast? = some last → (done ++ cols).Nodup → (∀ d ∈ cols, IdxColOK t0 N d) →
    StageInv (K0 t0) N done perm lohis → DataInv t0 N done data perm →
    ∃ data' perm', indexLoop cfg last cols data lohis perm = .ok (data', perm') ∧ perm'.Perm (List.range N) ∧
      DataInv t0 N (done ++ cols) data' perm' ∧ LexSortedK (K0 t0) N (done ++ cols) perm'
  | [], _, _, _, _, h, _, _, _, _, _ => absurd rfl h
  | [col], done, data, lohis, perm, _, hlast, hnd, hok, hs, hd => by
    have hl : last = col := by simpa using hlast.symm
    subst hl
    have hcol : last ∉ done := by
      intro h
      have := List.nodup_append.mp hnd
      exact this.2.2 last h last (by simp) rfl
    obtain ⟨b, hb, hbase, hsort, hd'⟩ := stage_data t0 N done data lohis perm last hcol (hok last (by simp)) hs hd
    obtain ⟨hs', hsorted⟩ := stage_sort (K0 t0) N done perm lohis hs (cellAt b)
    refine ⟨_, _, ?_, hs'.isPerm, hd', ?_⟩
    · simp only [indexLoop, hb, hsort, ne_eq, not_true_eq_false, if_false]
    · exact final_sorted (K0 t0) N done _ lohis (cellAt b) last (fun x => by simp [K0, hbase]) hs' hsorted
  | col :: c2 :: rest, done, data, lohis, perm, _, hlast, hnd, hok, hs, hd => by
    have hnd' := List.nodup_append.mp hnd
    have hcol : col ∉ done := fun h => hnd'.2.2 col h col (by simp) rfl
    have hne : col ≠ last := by
      intro e
      have hmem : last ∈ c2 :: rest := by
        have : (c2 :: rest).getLast? = some last := by simpa [List.getLast?_cons_cons] using hlast
        exact List.mem_of_getLast? this
      have := (List.nodup_cons.mp hnd'.2.1).1
      exact this (e ▸ hmem)
    obtain ⟨b, hb, hbase, hsort, hd'⟩ := stage_data t0 N done data lohis perm col hcol (hok col (by simp)) hs hd
    obtain ⟨hs', hsorted⟩ := stage_sort (K0 t0) N done perm lohis hs (cellAt b)
    have hokc := hok col (by simp)
    have hlen' := hs'.len
    -- the runs of the permuted column inside the old segments
    have hcellkey : ∀ i, i < N → (cellAt ((sortBlocks (cellAt b) perm lohis).map (cellAt b)) i).key
        = K0 t0 col ((sortBlocks (cellAt b) perm lohis).getD i 0) := by
      intro i hi
      rw [cellAt_map_getD (cellAt b) _ i (by omega)]
      simp [K0, hbase]
    obtain ⟨nxt, hnxt, hsegs, hruns⟩ := subLohisAll_spec cfg _ _ (seq_shows_all ((sortBlocks (cellAt b) perm lohis).map (cellAt b)))
      lohis 0 N hs.segs (by simp [hlen']) (by
        intro p hp
        have hb2 := hs.segs.bounds p hp
        refine ⟨?_, ?_, ?_⟩
        · intro i j a c e
          rw [hcellkey i (by omega), hcellkey j (by omega)]
          have := hsorted p hp i j a c e
          simpa [ltBy, K0, hbase] using this
        · intro i j a c e f
          rw [hcellkey i (by omega), hcellkey j (by omega)]
          exact hokc.cmp _ _ (perm_getD_lt hs'.isPerm i (by omega)) (perm_getD_lt hs'.isPerm j (by omega))
        · intro i a c
          rw [hcellkey i (by omega)]
          exact hokc.nn _ (perm_getD_lt hs'.isPerm i (by omega)))
    have hs'' := stage_refine (K0 t0) N done _ lohis hs' col (cellAt b) (fun x => by simp [K0, hbase]) nxt hsegs hruns
    obtain ⟨data', perm', e, hp, hdd, hss⟩ := indexLoop_spec cfg t0 N last (c2 :: rest) (done ++ [col]) _ nxt _
      (by simp) (by simpa [List.getLast?_cons_cons] using hlast) (by simpa [List.append_assoc] using hnd)
      (fun d hdm => hok d (by simp at hdm ⊢; tauto)) hs'' hd'
    refine ⟨data', perm', ?_, hp, by simpa [List.append_assoc] using hdd, by simpa [List.append_assoc] using hss⟩
    rw [indexLoop]
    simp only [hb, hsort, ne_eq, hne, not_false_eq_true, if_true, hnxt]
    exact e


theorem getD_range (m i : Nat) (h : i < m) : (List.range m).getD i 0 = i := by
  simp [List.getD, h]

/-! ## stability of `index` -/

section Stable
variable {α : Type} (lt : α → α → Bool) (R : α → α → Prop)

/-- sorted, and ties in the order `R` they had before -/
def TieOrd (a b : α) : Prop := lt b a = false ∧ (lt a b = false → R a b)

theorem insertBy_stable (h : IsSWO lt) (x : α) : ∀ l : List α, (∀ y ∈ l, R x y) → l.Pairwise (TieOrd lt R) →
    (insertBy lt x l).Pairwise (TieOrd lt R)
  | [], _, _ => by simp [insertBy]
  | y :: ys, hx, hp => by
    rw [List.pairwise_cons] at hp
    simp only [insertBy]
    split
    · rename_i hyx
      rw [List.pairwise_cons]
      refine ⟨?_, insertBy_stable h x ys (fun z hz => hx z (by simp [hz])) hp.2⟩
      intro z hz
      have hz' := (insertBy_perm lt x ys).mem_iff.mp hz
      rw [List.mem_cons] at hz'
      rcases hz' with rfl | hz'
      · exact ⟨h.asymm _ _ hyx, fun hc => by rw [hyx] at hc; exact absurd hc (by simp)⟩
      · exact hp.1 z hz'
    · rename_i hyx
      simp only [Bool.not_eq_true] at hyx
      rw [List.pairwise_cons]
      refine ⟨?_, List.pairwise_cons.mpr hp⟩
      intro z hz
      simp at hz
      rcases hz with rfl | hz
      · exact ⟨hyx, fun _ => hx _ (by simp)⟩
      · exact ⟨h.le_trans _ _ _ hyx (hp.1 z hz).1, fun _ => hx z (by simp [hz])⟩

theorem sortBy_stable (h : IsSWO lt) : ∀ l : List α, l.Pairwise R → (sortBy lt l).Pairwise (TieOrd lt R)
  | [], _ => List.Pairwise.nil
  | x :: xs, hp => by
    rw [List.pairwise_cons] at hp
    exact insertBy_stable lt R h x _ (fun y hy => hp.1 y ((sortBy_perm lt xs).mem_iff.mp hy)) (sortBy_stable h xs hp.2)

end Stable

theorem ltBy_swo (kf : Nat → Cell) : IsSWO (ltBy kf) :=
  ⟨fun _ _ hh => Key.lt_asymm _ _ hh, fun _ _ _ h1 h2 => Key.le_trans _ _ _ h1 h2⟩

/-- inside every segment the original row numbers are increasing -/
def StableIn (perm : List Nat) (lohis : List (Nat × Nat)) : Prop :=
  ∀ p ∈ lohis, ∀ i j, p.1 ≤ i → i < j → j < p.2 → perm.getD i 0 < perm.getD j 0

/-- after sorting the blocks: rows of one segment that tie on the sort key are still in their original order -/
theorem stage_sort_stable (kf : Nat → Cell) (perm : List Nat) (lohis : List (Nat × Nat)) (N : Nat)
    (hs : Segs lohis 0 N) (hN : N = perm.length) (hst : StableIn perm lohis) :
    ∀ p ∈ lohis, ∀ i j, p.1 ≤ i → i < j → j < p.2 →
      ltBy kf ((sortBlocks kf perm lohis).getD i 0) ((sortBlocks kf perm lohis).getD j 0) = false →
      (sortBlocks kf perm lohis).getD i 0 < (sortBlocks kf perm lohis).getD j 0 := by
  intro p hp i j a b c htie
  obtain ⟨l1, _, l3⟩ := sortBlocks_slices kf perm lohis N hs hN
  have hb := hs.bounds p hp
  -- the slice of perm is increasing
  have hinc : (slice perm p.1 p.2).Pairwise (· < ·) := by
    rw [List.pairwise_iff_getElem]
    intro u w hu hw huw
    have hl := slice_length perm p.1 p.2 hb.2.1 (by omega)
    rw [hl] at hu hw
    have := hst p hp (p.1 + u) (p.1 + w) (by omega) (by omega) (by omega)
    rw [← getD_slice perm p.1 p.2 (p.1 + u) (by omega) (by omega) (by omega),
      ← getD_slice perm p.1 p.2 (p.1 + w) (by omega) (by omega) (by omega)] at this
    have e1 : p.1 + u - p.1 = u := by omega
    have e2 : p.1 + w - p.1 = w := by omega
    rw [e1, e2] at this
    simpa [List.getD, List.getElem?_eq_getElem (show u < (slice perm p.1 p.2).length by omega),
      List.getElem?_eq_getElem (show w < (slice perm p.1 p.2).length by omega)] using this
  have hsorted := sortBy_stable (ltBy kf) (· < ·) (ltBy_swo kf) _ hinc
  rw [← l3 p hp, List.pairwise_iff_getElem] at hsorted
  have hl' : (slice (sortBlocks kf perm lohis) p.1 p.2).length = p.2 - p.1 :=
    slice_length _ _ _ hb.2.1 (by rw [l1]; exact hb.2.2)
  have hi0 : i - p.1 < (slice (sortBlocks kf perm lohis) p.1 p.2).length := by omega
  have hj0 : j - p.1 < (slice (sortBlocks kf perm lohis) p.1 p.2).length := by omega
  have := hsorted (i - p.1) (j - p.1) hi0 hj0 (by omega)
  have e1 := getD_slice (sortBlocks kf perm lohis) p.1 p.2 i a (by omega) (by rw [l1]; exact hb.2.2)
  have e2 := getD_slice (sortBlocks kf perm lohis) p.1 p.2 j (by omega) c (by rw [l1]; exact hb.2.2)
  rw [← e1, ← e2] at htie ⊢
  simp only [List.getD, List.getElem?_eq_getElem hi0, List.getElem?_eq_getElem hj0, Option.getD_some] at htie ⊢
  exact this.2 htie


/-- rows that tie on all index columns are in their original order -/
def TieStable (K : Nat → Nat → Key) (N : Nat) (cols : List Nat) (perm : List Nat) : Prop :=
  ∀ i j, i < j → j < N → lexLtK K cols (perm.getD i 0) (perm.getD j 0) = false → perm.getD i 0 < perm.getD j 0

theorem final_stable (K : Nat → Nat → Key) (N : Nat) (done : List Nat) (perm : List Nat) (lohis : List (Nat × Nat))
    (kf : Nat → Cell) (col : Nat) (hkf : ∀ x, (kf x).key = K col x)
    (hs : StageInv K N done perm lohis)
    (htie : ∀ p ∈ lohis, ∀ i j, p.1 ≤ i → i < j → j < p.2 →
      ltBy kf (perm.getD i 0) (perm.getD j 0) = false → perm.getD i 0 < perm.getD j 0) :
    TieStable K N (done ++ [col]) perm := by
  intro i j hij hj hlex
  obtain ⟨p, hp, p1, p2⟩ := hs.segs.cover i (Nat.zero_le _) (by omega)
  by_cases hjp : j < p.2
  · have hag : ∀ d ∈ done, K d (perm.getD i 0) = K d (perm.getD j 0) :=
      fun d hd => hs.agree d hd p hp i j p1 p2 (by omega) hjp
    rw [lexLtK_agree K done _ _ hag [col]] at hlex
    apply htie p hp i j p1 hij hjp
    simp only [ltBy, hkf]
    simp only [lexLtK] at hlex
    by_contra hcon
    simp only [Bool.not_eq_false] at hcon
    simp only [hcon, if_true] at hlex
    exact absurd hlex (by simp)
  · have := hs.strict p hp i j p2 (by omega) hj
    rw [lexLtK_append_of_lt K done [col] _ _ this] at hlex
    exact absurd hlex (by simp)

theorem indexLoop_stable (cfg : Cfg) (t0 : Table) (N : Nat) (last : Nat) :
    ∀ (cols : List Nat) (done : List Nat) (data : List (Nat × List Cell)) (lohis : List (Nat × Nat)) (perm : List Nat),
    cols ≠ [] → cols.getLast? = some last → (done ++ cols).Nodup → (∀ d ∈ cols, IdxColOK t0 N d) →
    StageInv (K0 t0) N done perm lohis → DataInv t0 N done data perm → StableIn perm lohis →
    ∀ data' perm', indexLoop cfg last cols data lohis perm = .ok (data', perm') → TieStable (K0 t0) N (done ++ cols) perm'
  | [], _, _, _, _, h, _, _, _, _, _, _, _, _, _ => absurd rfl h
  | [col], done, data, lohis, perm, _, hlast, hnd, hok, hs, hd, hst, data', perm', hrun => by
    have hl : last = col := by simpa using hlast.symm
    subst hl
    have hcol : last ∉ done := by
      intro h
      have := List.nodup_append.mp hnd
      exact this.2.2 last h last (by simp) rfl
    obtain ⟨b, hb, hbase, hsort, hd'⟩ := stage_data t0 N done data lohis perm last hcol (hok last (by simp)) hs hd
    obtain ⟨hs', _⟩ := stage_sort (K0 t0) N done perm lohis hs (cellAt b)
    simp only [indexLoop, hb, hsort, ne_eq, not_true_eq_false, if_false] at hrun
    have hp : perm' = sortBlocks (cellAt b) perm lohis := by
      have := Except.ok.inj hrun
      exact (Prod.mk.inj this).2.symm
    subst hp
    exact final_stable (K0 t0) N done _ lohis (cellAt b) last (fun x => by simp [K0, hbase]) hs'
      (stage_sort_stable (cellAt b) perm lohis N hs.segs hs.len.symm hst)
  | col :: c2 :: rest, done, data, lohis, perm, _, hlast, hnd, hok, hs, hd, hst, data', perm', hrun => by
    have hnd' := List.nodup_append.mp hnd
    have hcol : col ∉ done := fun h => hnd'.2.2 col h col (by simp) rfl
    have hne : col ≠ last := by
      intro e
      have hmem : last ∈ c2 :: rest := by
        have : (c2 :: rest).getLast? = some last := by simpa [List.getLast?_cons_cons] using hlast
        exact List.mem_of_getLast? this
      have := (List.nodup_cons.mp hnd'.2.1).1
      exact this (e ▸ hmem)
    obtain ⟨b, hb, hbase, hsort, hd'⟩ := stage_data t0 N done data lohis perm col hcol (hok col (by simp)) hs hd
    obtain ⟨hs', hsorted⟩ := stage_sort (K0 t0) N done perm lohis hs (cellAt b)
    have hokc := hok col (by simp)
    have hlen' := hs'.len
    have hcellkey : ∀ i, i < N → (cellAt ((sortBlocks (cellAt b) perm lohis).map (cellAt b)) i).key
        = K0 t0 col ((sortBlocks (cellAt b) perm lohis).getD i 0) := by
      intro i hi
      rw [cellAt_map_getD (cellAt b) _ i (by omega)]
      simp [K0, hbase]
    obtain ⟨nxt, hnxt, hsegs, hruns⟩ := subLohisAll_spec cfg _ _ (seq_shows_all ((sortBlocks (cellAt b) perm lohis).map (cellAt b)))
      lohis 0 N hs.segs (by simp [hlen']) (by
        intro p hp
        have hb2 := hs.segs.bounds p hp
        refine ⟨?_, ?_, ?_⟩
        · intro i j a c e
          rw [hcellkey i (by omega), hcellkey j (by omega)]
          have := hsorted p hp i j a c e
          simpa [ltBy, K0, hbase] using this
        · intro i j a c e f
          rw [hcellkey i (by omega), hcellkey j (by omega)]
          exact hokc.cmp _ _ (perm_getD_lt hs'.isPerm i (by omega)) (perm_getD_lt hs'.isPerm j (by omega))
        · intro i a c
          rw [hcellkey i (by omega)]
          exact hokc.nn _ (perm_getD_lt hs'.isPerm i (by omega)))
    have hs'' := stage_refine (K0 t0) N done _ lohis hs' col (cellAt b) (fun x => by simp [K0, hbase]) nxt hsegs hruns
    -- the new segments are runs of one key inside an old segment: ties keep their order
    have hst' : StableIn (sortBlocks (cellAt b) perm lohis) nxt := by
      intro q hq i j a c e
      obtain ⟨p, hp, hpq, hrun⟩ := hruns q hq
      have hb2 := hs.segs.bounds p hp
      have hle := hrun.le
      apply stage_sort_stable (cellAt b) perm lohis N hs.segs hs.len.symm hst p hp i j (by omega) c (by omega)
      have k1 := hrun.same i a (by omega)
      have k2 := hrun.same j (by omega) e
      rw [hcellkey i (by omega)] at k1
      rw [hcellkey j (by omega)] at k2
      have : K0 t0 col ((sortBlocks (cellAt b) perm lohis).getD i 0) = K0 t0 col ((sortBlocks (cellAt b) perm lohis).getD j 0) := by
        rw [k1, k2]
      simp only [ltBy]
      have e1 : ∀ x, (cellAt b x).key = K0 t0 col x := fun x => by simp [K0, hbase]
      rw [e1, e1, this, Key.lt_irrefl]
    rw [indexLoop] at hrun
    simp only [hb, hsort, ne_eq, hne, not_false_eq_true, if_true, hnxt] at hrun
    have := indexLoop_stable cfg t0 N last (c2 :: rest) (done ++ [col]) _ nxt _
      (by simp) (by simpa [List.getLast?_cons_cons] using hlast) (by simpa [List.append_assoc] using hnd)
      (fun d hdm => hok d (by simp at hdm ⊢; tauto)) hs'' hd' hst' data' perm' hrun
    simpa [List.append_assoc] using this


/-! ## `Table.index` -/

theorem lookupCol_permuteOthers (indx2 perm : List Nat) (data : List (Nat × List Cell)) (c : Nat) :
    lookupCol (permuteOthers indx2 perm data) c =
      match lookupCol data c with
      | .ok b => .ok (if indx2.contains c then b else perm.map (cellAt b))
      | .error e => .error e := by
  have hf : (permuteOthers indx2 perm data).find? (fun p => p.1 == c) =
      (data.find? (fun p => p.1 == c)).map (fun p => if indx2.contains p.1 then p else (p.1, perm.map (cellAt p.2))) := by
    simp only [permuteOthers, List.find?_map]
    congr 2
    funext p
    by_cases h : p.1 ∈ indx2 <;> simp [Function.comp, h]
  simp only [lookupCol, hf]
  cases hfd : data.find? (fun p => p.1 == c) with
  | none => simp
  | some p =>
    have := List.find?_some hfd
    simp only [beq_iff_eq] at this
    subst this
    by_cases h : p.1 ∈ indx2 <;> simp [h]

theorem permuteOthers_keys (indx2 perm : List Nat) (data : List (Nat × List Cell)) :
    (permuteOthers indx2 perm data).map (·.1) = data.map (·.1) := by
  simp only [permuteOthers, List.map_map]
  apply List.map_congr_left
  intro p _
  by_cases h : p.1 ∈ indx2 <;> simp [Function.comp, h]

/-- what `Table.index` does to the stored lists (`perm`: where each row came from) -/
theorem index_data_spec (cfg : Cfg) (t : Table) (N : Nat) (hok : t.OK N) (hsel : t.sel = .all) (indx : List Nat)
    (hne : indx ≠ []) (hdata : t.data ≠ []) (hnd : (effIndex cfg t indx).Nodup) (hdiff : t.indexes ≠ effIndex cfg t indx)
    (hcols : ∀ d ∈ effIndex cfg t indx, IdxColOK t N d) :
    ∃ t' perm, t.index cfg indx = .ok t' ∧ perm.Perm (List.range N) ∧
      t'.columns = t.columns ∧ t'.indexes = effIndex cfg t indx ∧ t'.sel = .all ∧ t'.OK N ∧
      (∀ c b, lookupCol t.data c = .ok b → ∃ b', lookupCol t'.data c = .ok b' ∧ b'.length = N ∧
        (∀ i, i < N → (cellAt b' i).key = (cellAt b (perm.getD i 0)).key) ∧
        (c ∉ effIndex cfg t indx → b' = perm.map (cellAt b))) ∧
      LexSortedK (K0 t) N (effIndex cfg t indx) perm ∧ TieStable (K0 t) N (effIndex cfg t indx) perm ∧
      t'.data.map (·.1) = t.data.map (·.1) := by
  have hlen : t.len = .ok N := by
    have := hok.len_eq hdata
    simpa [Table.m, hsel, Sel.idx] using this
  have h1 : indx.isEmpty = false := by cases indx <;> simp_all
  have h2 : t.data.isEmpty = false := by cases hd : t.data <;> simp_all
  generalize hix : effIndex cfg t indx = indx2 at hnd hdiff hcols ⊢
  -- the loop (or nothing when no name is a column)
  have hloop : ∃ data perm, indexRun cfg indx2 t.data N = .ok (data, perm) ∧ perm.Perm (List.range N) ∧
      DataInv t N indx2 data perm ∧ LexSortedK (K0 t) N indx2 perm ∧ TieStable (K0 t) N indx2 perm := by
    have hs0 : StageInv (K0 t) N [] (List.range N) [(0, N)] :=
      ⟨List.Perm.refl _, Segs.cons (Nat.zero_le _) (Segs.nil N), by simp, by
        intro p hp i j a b c
        simp at hp; subst hp; simp at b; omega⟩
    have hd0 : DataInv t N [] t.data (List.range N) := ⟨by simp, fun _ _ => rfl, rfl, hok.len⟩
    cases hl : indx2.getLast? with
    | none =>
      have : indx2 = [] := by simpa using hl
      subst this
      exact ⟨t.data, List.range N, by simp [indexRun], List.Perm.refl _, hd0, fun i j _ _ => rfl, fun i j hij hj _ => by
        rw [getD_range N i (by omega), getD_range N j hj]; exact hij⟩
    | some last =>
      have hne2 : indx2 ≠ [] := by rintro rfl; simp at hl
      obtain ⟨data, perm, e, hp, hdd, hss⟩ := indexLoop_spec cfg t N last indx2 [] t.data [(0, N)] (List.range N) hne2 hl
        (by simpa using hnd) hcols hs0 hd0
      have hst0 : StableIn (List.range N) [(0, N)] := by
        intro p hp i j a b c
        simp at hp; subst hp
        simp only at c
        rw [getD_range N i (by omega), getD_range N j c]; exact b
      have htie := indexLoop_stable cfg t N last indx2 [] t.data [(0, N)] (List.range N) hne2 hl
        (by simpa using hnd) hcols hs0 hd0 hst0 data perm e
      exact ⟨data, perm, by simp only [indexRun, hl]; exact e, hp, by simpa using hdd, by simpa using hss, by simpa using htie⟩
  obtain ⟨data, perm, eloop, hperm, hdi, hsorted, htieS⟩ := hloop
  have hpl : perm.length = N := by rw [hperm.length_eq]; simp
  refine ⟨{ t with data := permuteOthers indx2 perm data, indexes := indx2 }, perm, ?_, hperm, rfl, rfl, hsel, ?_, ?_, hsorted, htieS, ?_⟩
  rotate_right
  · simp only [permuteOthers, List.map_map]
    rw [← hdi.keys]
    apply List.map_congr_left
    intro q _
    simp only [Function.comp]
    split <;> rfl
  · simp only [Table.index, h1, h2, hix, hdiff, hlen, Bool.false_eq_true, if_false]
    rw [eloop]
  · refine ⟨?_, ?_, by rw [hsel]; exact hsel ▸ hok.sel⟩
    · intro p hp
      simp only [permuteOthers, List.mem_map] at hp
      obtain ⟨q, hq, rfl⟩ := hp
      by_cases hc : q.1 ∈ indx2
      · simp [hc, hdi.lens q hq]
      · simp [hc, hpl]
    · intro c hc
      obtain ⟨b, hb⟩ := hok.cols c hc
      simp only [lookupCol_permuteOthers]
      by_cases hci : c ∈ indx2
      · obtain ⟨col, h1', _, _⟩ := hdi.doneCols c hci
        exact ⟨_, by rw [h1']⟩
      · rw [hdi.rest c hci, hb]; exact ⟨_, rfl⟩
  · intro c b hb
    simp only [lookupCol_permuteOthers]
    have hbl : b.length = N := hok.len _ (lookupCol_mem hb)
    have hbase : t.base c = b := by simp [Table.base, hb]
    by_cases hci : c ∈ indx2
    · obtain ⟨col, h1', h2', h3'⟩ := hdi.doneCols c hci
      have hcon : indx2.contains c = true := by simpa using hci
      refine ⟨col, by rw [h1']; simp [hci], h2', ?_, fun h => absurd hci h⟩
      intro i hi
      rw [h3' i hi]; simp [K0, hbase]
    · have hcon : indx2.contains c = false := by simpa using hci
      refine ⟨perm.map (cellAt b), by rw [hdi.rest c hci, hb]; simp [hci], by simp [hpl], ?_, fun _ => rfl⟩
      intro i hi
      rw [cellAt_map_getD (cellAt b) perm i (by omega)]


/-! ### `Table.index` in terms of rows -/

theorem vcol_all (t : Table) (hsel : t.sel = .all) (c : Nat) : t.vcol c = t.base c := by
  simp [Table.vcol, viewOf, hsel, Sel.idx, map_cellAt_range]

theorem rowAt_getD (t : Table) (i d : Nat) (hd : d ∈ t.columns) :
    (t.rowAt i).getD (t.columns.idxOf d) .missing = cellAt (t.vcol d) i := by
  have hlt : t.columns.idxOf d < t.columns.length := List.idxOf_lt_length_iff.mpr hd
  simp only [Table.rowAt, List.getD]
  rw [List.getElem?_eq_getElem (by simpa using hlt)]
  simp [List.getElem_idxOf hlt]

theorem lexLt_rows (t' : Table) (K : Nat → Nat → Key) (perm : List Nat) (i j : Nat)
    (hK : ∀ d ∈ t'.indexes, d ∈ t'.columns ∧ (cellAt (t'.vcol d) i).key = K d (perm.getD i 0) ∧
      (cellAt (t'.vcol d) j).key = K d (perm.getD j 0)) :
    ∀ (ds : List Nat), (∀ d ∈ ds, d ∈ t'.indexes) →
    lexLt (idxPositions t'.columns ds) (t'.rowAt j) (t'.rowAt i) = lexLtK K ds (perm.getD j 0) (perm.getD i 0)
  | [], _ => rfl
  | d :: ds, h => by
    obtain ⟨h1, h2, h3⟩ := hK d (h d (by simp))
    simp only [idxPositions, List.map_cons, lexLt, lexLtK, rowAt_getD t' _ d h1, h2, h3]
    rw [show List.map (fun d => List.idxOf d t'.columns) ds = idxPositions t'.columns ds from rfl,
      lexLt_rows t' K perm i j hK ds (fun d' hd' => h d' (by simp [hd']))]

/-! ## `index` = the stable lexicographic sort -/

theorem lexLtK_le_trans (K : Nat → Nat → Key) : ∀ (ds : List Nat) (a b c : Nat),
    lexLtK K ds b a = false → lexLtK K ds c b = false → lexLtK K ds c a = false
  | [], _, _, _, _, _ => rfl
  | d :: ds, a, b, c, h1, h2 => by
    simp only [lexLtK] at h1 h2 ⊢
    -- b ≤ a is excluded … read off the three-way comparisons
    have hba : (K d b).lt (K d a) = false := by
      by_contra hc; simp only [Bool.not_eq_false] at hc; simp [hc] at h1
    have hcb : (K d c).lt (K d b) = false := by
      by_contra hc; simp only [Bool.not_eq_false] at hc; simp [hc] at h2
    have hca : (K d c).lt (K d a) = false := Key.le_trans _ _ _ hba hcb
    simp only [hca, Bool.false_eq_true, if_false]
    by_cases hac : (K d a).lt (K d c) = true
    · simp [hac]
    · simp only [hac, if_false]
      simp only [Bool.not_eq_true] at hac
      have eac : K d a = K d c := Key.lt_connected _ _ hac hca
      -- a = c in this column, and a ≤ b ≤ c, so all three agree
      have hab : (K d a).lt (K d b) = false := by
        rw [eac]; exact hcb
      have hbc : (K d b).lt (K d c) = false := by
        rw [← eac]; exact hba
      simp only [hba, hab, Bool.false_eq_true, if_false] at h1
      simp only [hcb, hbc, Bool.false_eq_true, if_false] at h2
      exact lexLtK_le_trans K ds a b c h1 h2

theorem lexLtK_swo (K : Nat → Nat → Key) (ds : List Nat) : IsSWO (lexLtK K ds) :=
  ⟨fun a b h => lexLtK_asymm K ds a b h, fun a b c h1 h2 => lexLtK_le_trans K ds a b c h1 h2⟩

/-- a stable sorted arrangement of distinct row numbers is unique -/
theorem stable_sort_unique (lt : Nat → Nat → Bool) (l1 l2 : List Nat) (hp : l1.Perm l2)
    (h1 : l1.Pairwise (TieOrd lt (· < ·))) (h2 : l2.Pairwise (TieOrd lt (· < ·))) : l1 = l2 := by
  apply hp.eq_of_pairwise _ h1 h2
  intro a b _ _ hab hba
  have := hab.2 hba.1
  have := hba.2 hab.1
  omega

theorem perm_eq_sortBy (K : Nat → Nat → Key) (N : Nat) (cols : List Nat) (perm : List Nat)
    (hp : perm.Perm (List.range N)) (hs : LexSortedK K N cols perm) (ht : TieStable K N cols perm) :
    perm = sortBy (lexLtK K cols) (List.range N) := by
  have hl : perm.length = N := by rw [hp.length_eq]; simp
  apply stable_sort_unique (lexLtK K cols) _ _ (hp.trans (sortBy_perm _ _).symm)
  · rw [List.pairwise_iff_getElem]
    intro i j hi hj hij
    have e1 : perm[i] = perm.getD i 0 := by simp [List.getD, List.getElem?_eq_getElem hi]
    have e2 : perm[j] = perm.getD j 0 := by simp [List.getD, List.getElem?_eq_getElem hj]
    rw [e1, e2]
    exact ⟨hs i j hij (by omega), ht i j hij (by omega)⟩
  · apply sortBy_stable _ _ (lexLtK_swo K cols)
    simpa [List.range_eq_range'] using (List.pairwise_lt_range' (s := 0) (n := N))

section SortMap
variable {α β : Type}

theorem insertBy_map (lt : β → β → Bool) (f : α → β) (x : α) : ∀ l : List α,
    insertBy lt (f x) (l.map f) = (insertBy (fun a b => lt (f a) (f b)) x l).map f
  | [] => rfl
  | y :: ys => by
    simp only [List.map_cons, insertBy]
    split
    · simp [insertBy_map lt f x ys]
    · rfl

theorem sortBy_map (lt : β → β → Bool) (f : α → β) : ∀ l : List α,
    sortBy lt (l.map f) = (sortBy (fun a b => lt (f a) (f b)) l).map f
  | [] => rfl
  | x :: xs => by
    simp only [List.map_cons, sortBy, sortBy_map lt f xs, insertBy_map]

theorem insertBy_congr (lt1 lt2 : α → α → Bool) (x : α) : ∀ l : List α, (∀ y ∈ l, lt1 y x = lt2 y x) →
    insertBy lt1 x l = insertBy lt2 x l
  | [], _ => rfl
  | y :: ys, h => by
    simp only [insertBy, h y (by simp), insertBy_congr lt1 lt2 x ys (fun z hz => h z (by simp [hz]))]

theorem sortBy_congr (lt1 lt2 : α → α → Bool) : ∀ l : List α, (∀ a ∈ l, ∀ b ∈ l, lt1 a b = lt2 a b) →
    sortBy lt1 l = sortBy lt2 l
  | [], _ => rfl
  | x :: xs, h => by
    simp only [sortBy]
    rw [sortBy_congr lt1 lt2 xs (fun a ha b hb => h a (by simp [ha]) b (by simp [hb]))]
    apply insertBy_congr
    intro y hy
    exact h y (by simp [(sortBy_perm lt2 xs).mem_iff.mp hy]) x (by simp)

end SortMap


theorem lexLt_rows_gen (t' : Table) (K : Nat → Nat → Key) (perm : List Nat) (i j : Nat) (univ : List Nat)
    (hK : ∀ d ∈ univ, d ∈ t'.columns ∧ (cellAt (t'.vcol d) i).key = K d (perm.getD i 0) ∧
      (cellAt (t'.vcol d) j).key = K d (perm.getD j 0)) :
    ∀ (ds : List Nat), (∀ d ∈ ds, d ∈ univ) →
    lexLt (idxPositions t'.columns ds) (t'.rowAt j) (t'.rowAt i) = lexLtK K ds (perm.getD j 0) (perm.getD i 0)
  | [], _ => rfl
  | d :: ds, h => by
    obtain ⟨h1, h2, h3⟩ := hK d (h d (by simp))
    simp only [idxPositions, List.map_cons, lexLt, lexLtK, rowAt_getD t' _ d h1, h2, h3]
    rw [show List.map (fun d => List.idxOf d t'.columns) ds = idxPositions t'.columns ds from rfl,
      lexLt_rows_gen t' K perm i j univ hK ds (fun d' hd' => h d' (by simp [hd']))]

/-- **index** = a permutation of the rows (cells kept up to `==` in the index columns, exactly
elsewhere) that puts them in non-decreasing lexicographic order of the index columns, ties in their
original order: the stable lexicographic sort -/
theorem index_rows_spec (cfg : Cfg) (t : Table) (N : Nat) (hok : t.OK N) (hsel : t.sel = .all) (indx : List Nat)
    (hne : indx ≠ []) (hcne : t.columns ≠ []) (hnd : (effIndex cfg t indx).Nodup) (hdiff : t.indexes ≠ effIndex cfg t indx)
    (hcols : ∀ d ∈ effIndex cfg t indx, d ∈ t.columns ∧ IdxColOK t N d) :
    ∃ (t' : Table) (perm : List Nat) (R R' : List (List Cell)), t.index cfg indx = .ok t' ∧ t.rows = .ok R ∧ t'.rows = .ok R' ∧
      t'.columns = t.columns ∧ t'.indexes = effIndex cfg t indx ∧
      R.length = N ∧ R'.length = N ∧ perm.Perm (List.range N) ∧
      (∀ i, i < N → (R'.getD i []).map Cell.key = (R.getD (perm.getD i 0) []).map Cell.key) ∧
      (∀ i, i < N → ∀ k, k < t.columns.length → t.columns.getD k 0 ∉ effIndex cfg t indx →
        (R'.getD i []).getD k .missing = (R.getD (perm.getD i 0) []).getD k .missing) ∧
      (∀ i j, i < j → j < N →
        lexLt (idxPositions t.columns (effIndex cfg t indx)) (R'.getD j []) (R'.getD i []) = false) ∧
      (∀ i j, i < j → j < N →
        lexLt (idxPositions t.columns (effIndex cfg t indx)) (R'.getD i []) (R'.getD j []) = false → perm.getD i 0 < perm.getD j 0) ∧
      R'.map (List.map Cell.key) = (indexS (idxPositions t.columns (effIndex cfg t indx)) R).map (List.map Cell.key) := by
  have hdata : t.data ≠ [] := by
    obtain ⟨c, hc⟩ := List.exists_mem_of_ne_nil _ hcne
    obtain ⟨b, hb⟩ := hok.cols c hc
    exact List.ne_nil_of_mem (lookupCol_mem hb)
  obtain ⟨t', perm, e, hperm, hcolumns, hidx, hsel', hok', hcolsp, hsorted, htieS, _⟩ :=
    index_data_spec cfg t N hok hsel indx hne hdata hnd hdiff (fun d hd => (hcols d hd).2)
  have hm : t.m N = N := by simp [Table.m, hsel, Sel.idx]
  have hm' : t'.m N = N := by simp [Table.m, hsel', Sel.idx]
  have hR := hok.rows_eq hcne
  have hR' := hok'.rows_eq (by rw [hcolumns]; exact hcne)
  rw [hm] at hR
  rw [hm'] at hR'
  have hpl : perm.length = N := by rw [hperm.length_eq]; simp
  have getR : ∀ i, i < N → ((List.range N).map t.rowAt).getD i [] = t.rowAt i := by
    intro i hi; simp [List.getD, hi]
  have getR' : ∀ i, i < N → ((List.range N).map t'.rowAt).getD i [] = t'.rowAt i := by
    intro i hi; simp [List.getD, hi]
  -- cells of the new table in terms of the old one
  have hcell : ∀ c ∈ t.columns, ∀ i, i < N →
      (cellAt (t'.vcol c) i).key = (cellAt (t.vcol c) (perm.getD i 0)).key ∧
      (c ∉ effIndex cfg t indx → cellAt (t'.vcol c) i = cellAt (t.vcol c) (perm.getD i 0)) := by
    intro c hc i hi
    obtain ⟨b, hb⟩ := hok.cols c hc
    obtain ⟨b', hb', _, hk, hex⟩ := hcolsp c b hb
    have e1 : t.base c = b := by simp [Table.base, hb]
    have e2 : t'.base c = b' := by simp [Table.base, hb']
    rw [vcol_all t hsel, vcol_all t' hsel', e1, e2]
    refine ⟨hk i hi, fun hni => ?_⟩
    rw [hex hni, cellAt_map_getD (cellAt b) perm i (by omega)]
  have hkeys : ∀ i, i < N → (t'.rowAt i).map Cell.key = (t.rowAt (perm.getD i 0)).map Cell.key := by
    intro i hi
    simp only [Table.rowAt, List.map_map, hcolumns]
    apply List.map_congr_left
    intro c hc
    exact (hcell c hc i hi).1
  have hlexK : ∀ i j, i < N → j < N → lexLt (idxPositions t.columns (effIndex cfg t indx)) (t'.rowAt j) (t'.rowAt i)
      = lexLtK (K0 t) (effIndex cfg t indx) (perm.getD j 0) (perm.getD i 0) := by
    intro i j hi hj
    rw [← hcolumns]
    exact lexLt_rows_gen t' (K0 t) perm i j (effIndex cfg t indx) (by
      intro d hd
      have hdc := (hcols d hd).1
      refine ⟨by rw [hcolumns]; exact hdc, ?_, ?_⟩
      · rw [(hcell d hdc i hi).1, vcol_all t hsel]; rfl
      · rw [(hcell d hdc j hj).1, vcol_all t hsel]; rfl) _ (fun d hd => hd)
  refine ⟨t', perm, _, _, e, hR, hR', hcolumns, hidx, by simp, by simp, hperm, ?_, ?_, ?_, ?_, ?_⟩
  rotate_left 3
  · intro i j hij hj htie
    rw [getR' i (by omega), getR' j hj, hlexK j i hj (by omega)] at htie
    exact htieS i j hij hj htie
  · -- the stable lexicographic sort
    have hpe := perm_eq_sortBy (K0 t) N _ perm hperm hsorted htieS
    have hL : ((List.range N).map t'.rowAt).map (List.map Cell.key) = perm.map (fun i => (t.rowAt i).map Cell.key) := by
      apply List.ext_getElem
      · simp [hpl]
      · intro i h1 h2
        simp only [List.length_map, List.length_range] at h1
        simp only [List.getElem_map, List.getElem_range]
        rw [hkeys i h1]
        simp [List.getD, List.getElem?_eq_getElem (show i < perm.length by omega)]
    rw [hL]
    simp only [indexS]
    rw [sortBy_map, List.map_map]
    have hcong : sortBy (fun a b => lexLt (idxPositions t.columns (effIndex cfg t indx)) (t.rowAt a) (t.rowAt b)) (List.range N)
        = sortBy (lexLtK (K0 t) (effIndex cfg t indx)) (List.range N) := by
      apply sortBy_congr
      intro a ha b hb
      simp only [List.mem_range] at ha hb
      have := lexLt_rows_gen t (K0 t) (List.range N) b a (effIndex cfg t indx) (by
        intro d hd
        refine ⟨(hcols d hd).1, ?_, ?_⟩
        · rw [getD_range N b hb, vcol_all t hsel]; rfl
        · rw [getD_range N a ha, vcol_all t hsel]; rfl) _ (fun d hd => hd)
      rw [getD_range N a ha, getD_range N b hb] at this
      exact this
    rw [hcong, ← hpe]
    rfl
  · intro i hi
    rw [getR' i hi, getR _ (perm_getD_lt hperm i hi)]
    simp only [Table.rowAt, List.map_map, hcolumns]
    apply List.map_congr_left
    intro c hc
    exact (hcell c hc i hi).1
  · intro i hi k hk hnot
    rw [getR' i hi, getR _ (perm_getD_lt hperm i hi)]
    have hc : t.columns.getD k 0 ∈ t.columns := by
      simp only [List.getD, List.getElem?_eq_getElem hk, Option.getD_some]; exact List.getElem_mem hk
    simp only [Table.rowAt, hcolumns, List.getD, List.getElem?_map, List.getElem?_eq_getElem hk, Option.map_some, Option.getD_some]
    have := (hcell _ hc i hi).2 hnot
    simpa [List.getD, List.getElem?_eq_getElem hk] using this
  · intro i j hij hj
    rw [getR' i (by omega), getR' j hj, ← hcolumns, ← hidx]
    rw [lexLt_rows t' (K0 t) perm i j (by
      intro d hd
      rw [hidx] at hd
      have hdc := (hcols d hd).1
      refine ⟨by rw [hcolumns]; exact hdc, ?_, ?_⟩
      · rw [(hcell d hdc i (by omega)).1, vcol_all t hsel]; rfl
      · rw [(hcell d hdc j hj).1, vcol_all t hsel]; rfl) t'.indexes (fun d hd => hd)]
    rw [hidx]
    exact hsorted i j hij hj


theorem index_spec' (cfg : Cfg) (t : Table) (indx : List Nat) (hwf : indexWF cfg t indx = true) :
    ∃ (t' : Table) (perm : List Nat) (R R' : List (List Cell)), t.index cfg indx = .ok t' ∧ t.rows = .ok R ∧ t'.rows = .ok R' ∧
      t'.columns = t.columns ∧ t'.indexes = effIndex cfg t indx ∧
      R'.length = R.length ∧ perm.Perm (List.range R.length) ∧
      (∀ i, i < R.length → (R'.getD i []).map Cell.key = (R.getD (perm.getD i 0) []).map Cell.key) ∧
      (∀ i, i < R.length → ∀ k, k < t.columns.length → t.columns.getD k 0 ∉ effIndex cfg t indx →
        (R'.getD i []).getD k .missing = (R.getD (perm.getD i 0) []).getD k .missing) ∧
      (∀ i j, i < j → j < R.length →
        lexLt (idxPositions t.columns (effIndex cfg t indx)) (R'.getD j []) (R'.getD i []) = false) ∧
      (∀ i j, i < j → j < R.length →
        lexLt (idxPositions t.columns (effIndex cfg t indx)) (R'.getD i []) (R'.getD j []) = false → perm.getD i 0 < perm.getD j 0) ∧
      R'.map (List.map Cell.key) = (indexS (idxPositions t.columns (effIndex cfg t indx)) R).map (List.map Cell.key) := by
  unfold indexWF at hwf
  split at hwf
  · simp at hwf
  · rename_i c0 b rest hd
    simp only [Bool.and_eq_true, decide_eq_true_eq, Bool.not_eq_true', List.all_eq_true] at hwf
    obtain ⟨⟨⟨⟨⟨⟨h1, h2⟩, h3⟩, h4⟩, h5⟩, h6⟩, h7⟩ := hwf
    have hok := tableOKB_sound h2
    have hne : indx ≠ [] := by intro e; simp [e] at h3
    have hcne : t.columns ≠ [] := by intro e; simp [e] at h4
    obtain ⟨t', perm, R, R', a1, a2, a3, a4, a5, a6, a7, a8, a9, a10, a11, a12, a13⟩ :=
      index_rows_spec cfg t b.length hok h1 indx hne hcne h5 h6 (by
        intro d hd'
        obtain ⟨⟨c1, c2⟩, c3⟩ := h7 d hd'
        obtain ⟨bd, hbd⟩ := (isOk_iff _).mp c2
        refine ⟨by simpa using c1, ⟨⟨bd, hbd, hok.len _ (lookupCol_mem hbd)⟩, ?_, ?_⟩⟩
        · intro x y hx hy
          have := (allIn_iff _ _ _).mp c3 x (Nat.zero_le _) hx
          simp only [Bool.and_eq_true] at this
          exact (allIn_iff _ _ _).mp this.2 y (Nat.zero_le _) hy
        · intro x hx
          have := (allIn_iff _ _ _).mp c3 x (Nat.zero_le _) hx
          simp only [Bool.and_eq_true] at this
          simpa [K0] using this.1)
    refine ⟨t', perm, R, R', a1, a2, a3, a4, a5, by omega, by rw [a6]; exact a8, ?_, ?_, ?_, ?_, a13⟩
    · rw [a6]; exact a9
    · rw [a6]; exact a10
    · rw [a6]; exact a11
    · rw [a6]; exact a12


/-! ## `_calc_lohis` on a table whose rows are in index order -/

/-- the rows the table shows are in non-decreasing lexicographic order of its index columns, and the
cells of every index column are stored, mutually comparable and not `None` -/
structure Indexed (t : Table) (N : Nat) : Prop where
  nodup : t.indexes.Nodup
  stored : ∀ d ∈ t.indexes, ∃ b, lookupCol t.data d = .ok b
  sorted : ∀ i j, i < j → j < t.m N → lexLtK (Kt t) t.indexes j i = false
  cmp : ∀ d ∈ t.indexes, ∀ x y, x < t.m N → y < t.m N → (Kt t d x).comparable (Kt t d y) = true
  nn : ∀ d ∈ t.indexes, ∀ x, x < t.m N → Kt t d x ≠ .none

/-- the levels `_calc_lohis` builds: level `j` satisfies the stage invariant for the first `j` index
columns; from the second level on the segments are not empty -/
theorem calcLohisAux_spec (cfg : Cfg) (t : Table) (N : Nat) (hok : t.OK N) (hix : Indexed t N) :
    ∀ (todo done : List Nat) (cur : List (Nat × Nat)), done ++ todo = t.indexes → todo ≠ [] →
    StageInv (Kt t) (t.m N) done (List.range (t.m N)) cur →
    ∃ levels, calcLohisAux cfg t todo cur = .ok levels ∧ levels.length = todo.length ∧
      (∀ j (hj : j < levels.length), StageInv (Kt t) (t.m N) (done ++ todo.take j) (List.range (t.m N)) (levels[j])) ∧
      (∀ j (hj : j < levels.length), 0 < j → ∀ p ∈ levels[j], p.1 < p.2) ∧ levels.head? = some cur
  | [], _, _, _, h, _ => absurd rfl h
  | [k], done, cur, _, _, hs => by
    refine ⟨[cur], rfl, rfl, ?_, ?_, rfl⟩
    · intro j hj
      simp at hj; subst hj
      simpa using hs
    · intro j hj hpos
      simp at hj; omega
  | k :: k2 :: rest, done, cur, hsplit, _, hs => by
    have hk : k ∈ t.indexes := by rw [← hsplit]; simp
    obtain ⟨b, hb⟩ := hix.stored k hk
    obtain ⟨ecol, hshows⟩ := hok.col_shows hb
    have hlen : (t.vcol k).length = t.m N := hok.vcol_len hb
    have hxs : (List.range (t.m N)).map (cellAt (t.vcol k)) = t.vcol k := by
      rw [← hlen]; exact map_cellAt_range _
    obtain ⟨nxt, e, hsegs, hruns⟩ := subLohisAll_spec cfg _ (t.vcol k) hshows cur 0 (t.m N) hs.segs (by omega) (by
      intro p hp
      have hb2 := hs.segs.bounds p hp
      refine ⟨?_, ?_, ?_⟩
      · intro i j a c e'
        -- rows i < j of one segment agree on `done`, so the lexicographic order decides on column k
        have hag : ∀ d ∈ done, Kt t d ((List.range (t.m N)).getD j 0) = Kt t d ((List.range (t.m N)).getD i 0) :=
          fun d hd => hs.agree d hd p hp j i (by omega) e' a (by omega)
        have hsrt := hix.sorted i j c (by omega)
        rw [← hsplit] at hsrt
        rw [getD_range _ i (by omega), getD_range _ j (by omega)] at hag
        rw [lexLtK_agree (Kt t) done j i hag] at hsrt
        simp only [lexLtK] at hsrt
        by_contra hcon
        simp only [Bool.not_eq_false] at hcon
        have : (Kt t k j).lt (Kt t k i) = true := hcon
        simp [this] at hsrt
      · intro i j a c e' f
        exact hix.cmp k hk i j (by omega) (by omega)
      · intro i a c
        exact hix.nn k hk i (by omega))
    have hs' := stage_refine (Kt t) (t.m N) done _ cur hs k (cellAt (t.vcol k)) (fun x => rfl) nxt hsegs (by rw [hxs]; exact hruns)
    obtain ⟨more, e', hl, hlv, hnev, hhead⟩ := calcLohisAux_spec cfg t N hok hix (k2 :: rest) (done ++ [k]) nxt
      (by rw [← hsplit]; simp) (by simp) hs'
    refine ⟨cur :: more, by simp only [calcLohisAux, ecol, e, e'], by simp [hl], ?_, ?_, rfl⟩
    · intro j hj
      cases j with
      | zero => simpa using hs
      | succ j =>
        have := hlv j (by simpa using hj)
        simpa [List.append_assoc] using this
    · intro j hj hpos
      cases j with
      | zero => omega
      | succ j =>
        simp only [List.getElem_cons_succ]
        cases j with
        | zero =>
          -- the level right after `cur`: the runs found by `_sub_lohis`
          have hm0 : more[0]'(by simp at hj; omega) = nxt := by
            cases more with
            | nil => simp at hl
            | cons x xs => simpa using hhead
          intro p hp
          rw [hm0] at hp
          obtain ⟨_, _, _, hrun⟩ := hruns p hp
          exact hrun.ne
        | succ j => exact hnev (j + 1) (by simpa using hj) (by omega)

/-! ## lohis of an indexed table, `groupby` -/

theorem dictGet_zip {β} (idx : List Nat) (vals : List β) (hnd : idx.Nodup) (hl : vals.length = idx.length)
    (j : Nat) (hj : j < idx.length) : dictGet (idx.zip vals) idx[j] = .ok (vals[j]'(by omega)) := by
  unfold dictGet
  have hmem : (idx[j], vals[j]'(by omega)) ∈ (idx.zip vals).reverse := by
    rw [List.mem_reverse]
    have hz : j < (idx.zip vals).length := by simp [hl]; omega
    have := List.getElem_mem hz
    simpa [List.getElem_zip] using this
  cases hf : (idx.zip vals).reverse.find? (fun p => p.1 == idx[j]) with
  | none =>
    have := List.find?_eq_none.mp hf _ hmem
    simp at this
  | some p =>
    have h1 := List.find?_some hf
    have h2 := List.mem_of_find?_eq_some hf
    rw [List.mem_reverse] at h2
    obtain ⟨i, hi, rfl⟩ := List.getElem_of_mem h2
    simp only [List.getElem_zip, beq_iff_eq] at h1 ⊢
    have hi' : i < idx.length := by simp [hl] at hi; omega
    have : i = j := (hnd.getElem_inj_iff).mp h1
    subst this
    rfl

/-- **lohis are the runs of the index prefix.**  On a table whose rows are in index order,
`_calc_lohis` succeeds and the segments it records for the `j`-th index column are consecutive, cover
all rows, hold rows that agree on the first `j` index columns, and rows of different segments are
strictly ordered by them. -/
theorem lohis_correct' (cfg : Cfg) (t : Table) (N : Nat) (hok : t.OK N) (hix : Indexed t N) (hne : t.indexes ≠ []) :
    ∃ lohis, t.calcLohis cfg = .ok lohis ∧
      ∀ j (hj : j < t.indexes.length), ∃ segs, dictGet lohis t.indexes[j] = .ok segs ∧
        StageInv (Kt t) (t.m N) (t.indexes.take j) (List.range (t.m N)) segs ∧ (0 < j → ∀ p ∈ segs, p.1 < p.2) ∧
        (j = 0 → segs = [(0, t.m N)]) := by
  obtain ⟨k0, hk0⟩ := List.exists_mem_of_ne_nil _ hne
  obtain ⟨b, hb⟩ := hix.stored k0 hk0
  have hdne : t.data ≠ [] := List.ne_nil_of_mem (lookupCol_mem hb)
  have hlen := hok.len_eq hdne
  have hs0 : StageInv (Kt t) (t.m N) [] (List.range (t.m N)) [(0, t.m N)] :=
    ⟨List.Perm.refl _, Segs.cons (Nat.zero_le _) (Segs.nil _), by simp, by
      intro p hp i j a b c
      simp at hp; subst hp; simp at b; omega⟩
  obtain ⟨levels, e, hl, hlv, hnev, hhead⟩ := calcLohisAux_spec cfg t N hok hix t.indexes [] [(0, t.m N)] (by simp) hne hs0
  refine ⟨t.indexes.zip levels, ?_, ?_⟩
  · unfold Table.calcLohis
    cases hidx : t.indexes with
    | nil => exact absurd hidx hne
    | cons k rest =>
      simp only [hlen, bind, Except.bind, pure, Except.pure]
      rw [hidx] at e
      simp only [e]
  · intro j hj
    refine ⟨levels[j]'(by omega), dictGet_zip t.indexes levels hix.nodup hl j hj, ?_, hnev j (by omega), ?_⟩
    · simpa using hlv j (by omega)
    · intro hj0
      subst hj0
      cases levels with
      | nil => simp at hl; omega
      | cons x xs => simpa using hhead


theorem mapM_get_shows (t : Table) (i : Nat) {ds : List Nat} {seqs : List Seq}
    (h : List.Forall₂ (fun d (s : Seq) => s.Shows (t.vcol d)) ds seqs) (hlt : ∀ d ∈ ds, i < (t.vcol d).length) :
    seqs.mapM (fun s => s.get i) = .ok (ds.map (fun d => cellAt (t.vcol d) i)) := by
  induction h with
  | nil => rfl
  | @cons d s ds seqs hsh _ ih =>
    rw [List.mapM_cons, hsh.get i (hlt d (by simp)), ih (fun d' hd' => hlt d' (by simp [hd']))]
    rfl

/-- rows of `groupby(level, 'count')`: one group per segment of the `level`-th index column -/
theorem groupby_count_spec' (cfg : Cfg) (t : Table) (N : Nat) (hok : t.OK N) (hix : Indexed t N)
    (level : Nat) (hlev : level < t.indexes.length) :
    ∃ segs, StageInv (Kt t) (t.m N) (t.indexes.take level) (List.range (t.m N)) segs ∧
      (0 < level → ∀ p ∈ segs, p.1 < p.2) ∧
      t.groupby cfg level .count = .ok (segs.map (fun p =>
        GroupOut.cnt ((t.indexes.take level).map (fun d => cellAt (t.vcol d) p.1)) (p.2 - p.1))) := by
  have hne : t.indexes ≠ [] := by intro e; simp [e] at hlev
  obtain ⟨lohis, el, hlo⟩ := lohis_correct' cfg t N hok hix hne
  obtain ⟨segs, eseg, hs, hnonempty, _⟩ := hlo level hlev
  refine ⟨segs, hs, hnonempty, ?_⟩
  -- the group columns
  have hgrp : ∀ (ds : List Nat), (∀ d ∈ ds, d ∈ t.indexes) →
      ∃ seqs, ds.mapM t.col = .ok seqs ∧ List.Forall₂ (fun d (s : Seq) => s.Shows (t.vcol d)) ds seqs := by
    intro ds
    induction ds with
    | nil => intro _; exact ⟨[], rfl, List.Forall₂.nil⟩
    | cons d rest ih =>
      intro h
      obtain ⟨b, hb⟩ := hix.stored d (h d (by simp))
      obtain ⟨e1, e2⟩ := hok.col_shows hb
      obtain ⟨seqs, e3, hf⟩ := ih (fun d' hd' => h d' (by simp [hd']))
      exact ⟨_ :: seqs, by rw [List.mapM_cons, e1, e3]; rfl, List.Forall₂.cons e2 hf⟩
  obtain ⟨grpCols, egrp, hfg⟩ := hgrp (t.indexes.take level) (fun d hd => List.mem_of_mem_take hd)
  have hone : ∀ p ∈ segs, groupOne .count grpCols [] p =
      .ok (GroupOut.cnt ((t.indexes.take level).map (fun d => cellAt (t.vcol d) p.1)) (p.2 - p.1)) := by
    intro p hp
    have hkeys : grpCols.mapM (fun s => s.get p.1) = .ok ((t.indexes.take level).map (fun d => cellAt (t.vcol d) p.1)) := by
      by_cases hl0 : level = 0
      · subst hl0
        simp at hfg
        subst hfg
        rfl
      · have hp1 : p.1 < t.m N := by
          have := hnonempty (by omega) p hp
          have := (hs.segs.bounds p hp).2.2
          omega
        apply mapM_get_shows t p.1 hfg
        intro d hd
        obtain ⟨b, hb⟩ := hix.stored d (List.mem_of_mem_take hd)
        rw [hok.vcol_len hb]; exact hp1
    simp only [groupOne, hkeys]
  have hmap : ∀ (l : List (Nat × Nat)), (∀ p ∈ l, p ∈ segs) → l.mapM (groupOne .count grpCols []) =
      .ok (l.map (fun p => GroupOut.cnt ((t.indexes.take level).map (fun d => cellAt (t.vcol d) p.1)) (p.2 - p.1))) := by
    intro l
    induction l with
    | nil => intro _; rfl
    | cons p rest ih =>
      intro h
      rw [List.mapM_cons, hone p (h p (by simp)), ih (fun q hq => h q (by simp [hq]))]
      rfl
  have hix2 : optGet t.indexes[level]? = .ok t.indexes[level] := by
    simp [optGet, List.getElem?_eq_getElem hlev]
  simp only [Table.groupby, el, egrp, hix2, eseg, selectCols]
  exact hmap segs (fun p hp => hp)


/-! ## "in index order" is established by `index` and kept by `where` -/

theorem lexLtK_congr (K K' : Nat → Nat → Key) : ∀ (ds : List Nat) (x y x' y' : Nat),
    (∀ d ∈ ds, K d x = K' d x' ∧ K d y = K' d y') → lexLtK K ds x y = lexLtK K' ds x' y'
  | [], _, _, _, _, _ => rfl
  | d :: ds, x, y, x', y', h => by
    obtain ⟨h1, h2⟩ := h d (by simp)
    simp only [lexLtK, h1, h2]
    rw [lexLtK_congr K K' ds x y x' y' (fun d' hd' => h d' (by simp [hd']))]

/-- a view through an increasing selection of a table in index order is in index order -/
theorem indexed_view (t : Table) (N : Nat) (hok : t.OK N) (hix : Indexed t N) (sel' : Sel) (selection : List Nat)
    (hinc : StrictInc selection) (hlt : ∀ i ∈ selection, i < t.m N)
    (hidx : sel'.idx N = selection.map (fun i => (t.sel.idx N).getD i 0)) :
    Indexed { t with sel := sel' } N := by
  have hm : Table.m { t with sel := sel' } N = selection.length := by simp [Table.m, hidx]
  have hK : ∀ d ∈ t.indexes, ∀ k, k < selection.length →
      Kt { t with sel := sel' } d k = Kt t d (selection.getD k 0) := by
    intro d hd k hk
    obtain ⟨b, hb⟩ := hix.stored d hd
    obtain ⟨e, l⟩ := hok.base_len hb
    have e' : Table.base { t with sel := sel' } d = b := by simp [Table.base, hb]
    have hsk : selection.getD k 0 < t.m N := by
      simp only [List.getD, List.getElem?_eq_getElem hk, Option.getD_some]
      exact hlt _ (List.getElem_mem hk)
    simp only [Kt, Table.vcol, viewOf, e, e', l, hidx]
    rw [cellAt_map _ _ k (by simpa using hk), cellAt_map _ _ _ hsk]
    simp [List.getD, List.getElem?_eq_getElem hk, List.getElem?_eq_getElem (show selection[k] < (t.sel.idx N).length from by
      have := hlt _ (List.getElem_mem hk); simpa [Table.m] using this)]
  have hget : ∀ k, k < selection.length → selection.getD k 0 < t.m N := by
    intro k hk
    simp only [List.getD, List.getElem?_eq_getElem hk, Option.getD_some]
    exact hlt _ (List.getElem_mem hk)
  refine ⟨hix.nodup, hix.stored, ?_, ?_, ?_⟩
  · intro i j hij hj
    rw [hm] at hj
    show lexLtK (Kt { t with sel := sel' }) t.indexes j i = false
    rw [lexLtK_congr _ (Kt t) t.indexes j i (selection.getD j 0) (selection.getD i 0)
      (fun d hd => ⟨hK d hd j hj, hK d hd i (by omega)⟩)]
    apply hix.sorted _ _ _ (hget j hj)
    unfold StrictInc at hinc
    rw [List.pairwise_iff_getElem] at hinc
    have := hinc i j (by omega) hj hij
    simpa [List.getD, List.getElem?_eq_getElem hj, List.getElem?_eq_getElem (show i < selection.length by omega)] using this
  · intro d hd x y hx hy
    rw [hm] at hx hy
    rw [hK d hd x hx, hK d hd y hy]
    exact hix.cmp d hd _ _ (hget x hx) (hget y hy)
  · intro d hd x hx
    rw [hm] at hx
    rw [hK d hd x hx]
    exact hix.nn d hd _ (hget x hx)

/-- the table `index` returns is in index order -/
theorem index_indexed (cfg : Cfg) (t : Table) (N : Nat) (hok : t.OK N) (hsel : t.sel = .all) (indx : List Nat)
    (hne : indx ≠ []) (hdata : t.data ≠ []) (hnd : (effIndex cfg t indx).Nodup) (hdiff : t.indexes ≠ effIndex cfg t indx)
    (hcols : ∀ d ∈ effIndex cfg t indx, IdxColOK t N d) :
    ∃ t', t.index cfg indx = .ok t' ∧ t'.OK N ∧ Indexed t' N := by
  obtain ⟨t', perm, e, hperm, hcolumns, hidx, hsel', hok', hcolsp, hsorted, _⟩ :=
    index_data_spec cfg t N hok hsel indx hne hdata hnd hdiff hcols
  have hm' : t'.m N = N := by simp [Table.m, hsel', Sel.idx]
  have hK : ∀ d ∈ effIndex cfg t indx, ∀ i, i < N → Kt t' d i = K0 t d (perm.getD i 0) := by
    intro d hd i hi
    obtain ⟨b, hb, _⟩ := (hcols d hd).stored
    obtain ⟨b', hb', _, hk, _⟩ := hcolsp d b hb
    have e1 : t.base d = b := by simp [Table.base, hb]
    have e2 : t'.base d = b' := by simp [Table.base, hb']
    simp only [Kt, K0, vcol_all t' hsel', e1, e2]
    exact hk i hi
  refine ⟨t', e, hok', ⟨by rw [hidx]; exact hnd, ?_, ?_, ?_, ?_⟩⟩
  · intro d hd
    rw [hidx] at hd
    obtain ⟨b, hb, _⟩ := (hcols d hd).stored
    obtain ⟨b', hb', _⟩ := hcolsp d b hb
    exact ⟨b', hb'⟩
  · intro i j hij hj
    rw [hm'] at hj
    rw [hidx, lexLtK_congr _ (K0 t) _ j i (perm.getD j 0) (perm.getD i 0)
      (fun d hd => ⟨hK d hd j hj, hK d hd i (by omega)⟩)]
    exact hsorted i j hij hj
  · intro d hd x y hx hy
    rw [hm'] at hx hy
    rw [hidx] at hd
    rw [hK d hd x hx, hK d hd y hy]
    exact (hcols d hd).cmp _ _ (perm_getD_lt hperm x hx) (perm_getD_lt hperm y hy)
  · intro d hd x hx
    rw [hm'] at hx
    rw [hidx] at hd
    rw [hK d hd x hx]
    exact (hcols d hd).nn _ (perm_getD_lt hperm x hx)


/-! ## `where` on a table in index order: the sortedness hypotheses discharge themselves -/

theorem sortedSeg_of_indexed (t : Table) (N : Nat) (hix : Indexed t N) (j : Nat) (hj : j < t.indexes.length)
    (segs : List (Nat × Nat)) (hs : StageInv (Kt t) (t.m N) (t.indexes.take j) (List.range (t.m N)) segs)
    (p : Nat × Nat) (hp : p ∈ segs) : SortedSeg (t.vcol t.indexes[j]) p.1 p.2 := by
  intro i i' a c e
  have hb2 := hs.segs.bounds p hp
  have hag : ∀ d ∈ t.indexes.take j, Kt t d i' = Kt t d i := by
    intro d hd
    have := hs.agree d hd p hp i' i (by omega) e a (by omega)
    rwa [getD_range _ i (by omega), getD_range _ i' (by omega)] at this
  have hsrt := hix.sorted i i' c (by omega)
  have hsplit : t.indexes = t.indexes.take j ++ (t.indexes[j] :: t.indexes.drop (j + 1)) := by
    rw [List.getElem_cons_drop, List.take_append_drop]
  rw [hsplit, lexLtK_agree (Kt t) _ i' i hag] at hsrt
  simp only [lexLtK] at hsrt
  by_contra hcon
  simp only [Bool.not_eq_false] at hcon
  have : (Kt t t.indexes[j] i').lt (Kt t t.indexes[j] i) = true := hcon
  simp [this] at hsrt

/-- hypotheses on one keyword of a `where` on a table in index order: only the probes matter -/
structure KwOKIdx (cfg : Cfg) (t : Table) (m : Nat) (pos : Option Op) (kw : Nat × Arg) : Prop where
  incols : kw.1 ∈ t.columns
  notin : ∀ a, kw.2 = .dict .notin a → cfg.notinKey = true
  shape : ∀ op a, (condOf pos kw).test = .cmp op a → argShape op a = true
  /-- indexed column: probes not `None`, comparable with the cells and with each other, distinct for
  `in` (P8), not `Missing` under an order comparison; the table is not empty (P12) -/
  bis : kw.1 ∈ t.indexes → ∀ op a, (condOf pos kw).test = .cmp op a →
      (cfg.guardEmpty = true ∨ 0 < m) ∧ NoNone (probesOf a) ∧
      (∀ v ∈ probesOf a, ∀ i, i < m → (cellAt (t.vcol kw.1) i).key.comparable v.key = true) ∧
      allComparable (probesOf a) = true ∧
      (op = .isin → cfg.dedupIn = true ∨ (probesOf a).Pairwise (fun u v => u.key ≠ v.key)) ∧
      ((op = .lt ∨ op = .le ∨ op = .gt ∨ op = .ge) → ∀ v ∈ probesOf a, v.key ≠ .missing)
  scan : kw.1 ∉ t.indexes → ∀ op a, (condOf pos kw).test = .cmp op a → leGeOK cfg op a (t.vcol kw.1)

theorem kwOK_of_indexed (cfg : Cfg) (t : Table) (N : Nat) (hix : Indexed t N)
    (lohis : List (Nat × List (Nat × Nat)))
    (hlo : ∀ j (hj : j < t.indexes.length), ∃ segs, dictGet lohis t.indexes[j] = .ok segs ∧
        StageInv (Kt t) (t.m N) (t.indexes.take j) (List.range (t.m N)) segs ∧ (0 < j → ∀ p ∈ segs, p.1 < p.2) ∧
        (j = 0 → segs = [(0, t.m N)]))
    (hvl : ∀ d ∈ t.indexes, (t.vcol d).length = t.m N)
    (pos : Option Op) (kw : Nat × Arg) (h : KwOKIdx cfg t (t.m N) pos kw) : KwOK cfg t lohis (t.m N) pos kw := by
  refine ⟨h.incols, h.notin, h.shape, ?_, h.scan⟩
  intro hidx op a hc
  obtain ⟨hne, hvn, hcmp, hall, hdup, hvm⟩ := h.bis hidx op a hc
  obtain ⟨j, hj, hjk⟩ := List.getElem_of_mem hidx
  obtain ⟨segs, e, hs, hnonempty, hfirst⟩ := hlo j hj
  rw [hjk] at e
  refine ⟨segs, e, hs.segs, ?_, hall, hdup, ?_⟩
  · intro p hp
    have hb2 := hs.segs.bounds p hp
    refine ⟨hb2.2.1, by rw [hvl kw.1 hidx]; exact hb2.2.2, ?_, ?_, ?_, ?_, hvn⟩
    · by_cases hj0 : 0 < j
      · exact Or.inr (hnonempty hj0 p hp)
      · -- first index column: the only segment is the whole table
        have hj0' : j = 0 := by omega
        rcases hne with g | g
        · exact Or.inl g
        · right
          rw [hfirst hj0'] at hp
          simp at hp
          subst hp
          exact g
    · rw [← hjk]; exact sortedSeg_of_indexed t N hix j hj segs hs p hp
    · intro i a1 a2
      exact hix.nn kw.1 hidx i (by omega)
    · intro v hv i a1 a2
      exact hcmp v hv i (by omega)
  · intro i hi
    exact ⟨hix.nn kw.1 hidx i hi, fun v hv => hcmp v hv i hi, hvm⟩


/-- `where` on a table in index order (e.g. right after `index`, or a `where` result of such a
table): the answer is the plain filter, and the result is again in index order -/
theorem where_indexed_data' (cfg : Cfg) (t : Table) (N : Nat) (hok : t.OK N) (hix : Indexed t N) (pos : Option Op)
    (kws : List (Nat × Arg)) (hne : kws ≠ []) (hkw : ∀ kw ∈ kws, KwOKIdx cfg t (t.m N) pos kw) (hleak : NoLeak cfg kws)
    (R rs : List (List Cell)) (hR : t.rows = .ok R)
    (hspec : whereS { columns := t.columns, rows := R } (kws.map (condOf pos)) = .ok rs) :
    ∃ t', t.pwhere cfg Option.none pos kws = .ok t' ∧ t'.rows = .ok rs ∧
      t'.columns = t.columns ∧ t'.indexes = t.indexes ∧ t'.OK N ∧ Indexed t' N ∧ t'.data = t.data := by
  have hvl : ∀ d ∈ t.indexes, (t.vcol d).length = t.m N := by
    intro d hd
    obtain ⟨b, hb⟩ := hix.stored d hd
    exact hok.vcol_len hb
  -- the lohis
  have hlo : ∃ lohis, t.calcLohis cfg = .ok lohis ∧ ∀ kw ∈ kws, KwOK cfg t lohis (t.m N) pos kw := by
    by_cases hie : t.indexes = []
    · refine ⟨[], by simp [Table.calcLohis, hie], ?_⟩
      intro kw hk
      have h := hkw kw hk
      exact ⟨h.incols, h.notin, h.shape, fun hidx => by rw [hie] at hidx; simp at hidx, h.scan⟩
    · obtain ⟨lohis, e, hl⟩ := lohis_correct' cfg t N hok hix hie
      exact ⟨lohis, e, fun kw hk => kwOK_of_indexed cfg t N hix lohis hl hvl pos kw (hkw kw hk)⟩
  obtain ⟨lohis, el, hk⟩ := hlo
  obtain ⟨t', a1, a2, a3, a4, a5, a6, selection, b1, b2, b3⟩ :=
    where_eq_spec_aux cfg t N hok pos kws hne lohis el hk hleak R rs hR hspec
  refine ⟨t', a1, a2, a3, a4, a6, ?_, a5⟩
  have : t' = { t with sel := t'.sel } := by
    cases t'; simp_all
  rw [this]
  exact indexed_view t N hok hix t'.sel selection b1 b2 b3

theorem where_indexed' (cfg : Cfg) (t : Table) (N : Nat) (hok : t.OK N) (hix : Indexed t N) (pos : Option Op)
    (kws : List (Nat × Arg)) (hne : kws ≠ []) (hkw : ∀ kw ∈ kws, KwOKIdx cfg t (t.m N) pos kw) (hleak : NoLeak cfg kws)
    (R rs : List (List Cell)) (hR : t.rows = .ok R)
    (hspec : whereS { columns := t.columns, rows := R } (kws.map (condOf pos)) = .ok rs) :
    ∃ t', t.pwhere cfg Option.none pos kws = .ok t' ∧ t'.rows = .ok rs ∧
      t'.columns = t.columns ∧ t'.indexes = t.indexes ∧ t'.OK N ∧ Indexed t' N := by
  obtain ⟨t', a, b, c, d, e, f, _⟩ := where_indexed_data' cfg t N hok hix pos kws hne hkw hleak R rs hR hspec
  exact ⟨t', a, b, c, d, e, f⟩


theorem indexedB_sound {t : Table} {N : Nat} (h : indexedB t N = true) : Indexed t N := by
  simp only [indexedB, Bool.and_eq_true, decide_eq_true_eq, List.all_eq_true] at h
  obtain ⟨⟨⟨h1, h2⟩, h3⟩, h4⟩ := h
  refine ⟨h1, fun d hd => (isOk_iff _).mp (h2 d hd), ?_, ?_, ?_⟩
  · intro i j hij hj
    have := (allIn_iff _ _ _).mp ((allIn_iff _ _ _).mp h3 j (Nat.zero_le _) hj) i (Nat.zero_le _) (by omega)
    simpa [hij] using this
  · intro d hd x y hx hy
    have := (allIn_iff _ _ _).mp (h4 d hd) x (Nat.zero_le _) hx
    simp only [Bool.and_eq_true] at this
    exact (allIn_iff _ _ _).mp this.2 y (Nat.zero_le _) hy
  · intro d hd x hx
    have := (allIn_iff _ _ _).mp (h4 d hd) x (Nat.zero_le _) hx
    simp only [Bool.and_eq_true] at this
    simpa using this.1


/-! ## `insert` of a sequence of rows -/

theorem find_zipIdx (c : Nat) : ∀ (l : List Nat) (n : Nat), c ∈ l →
    (l.zipIdx n).find? (fun q => q.1 == c) = some (c, n + l.idxOf c)
  | [], _, h => by simp at h
  | d :: rest, n, h => by
    simp only [List.zipIdx_cons, List.find?_cons]
    by_cases hd : d = c
    · subst hd; simp
    · have h1 : (d == c) = false := by simpa using hd
      simp only [h1]
      have hmem : c ∈ rest := by
        simp at h; rcases h with h | h
        · exact absurd h.symm hd
        · exact h
      rw [find_zipIdx c rest (n + 1) hmem, List.idxOf_cons_ne _ hd]
      congr 2; omega

theorem map_getD_idxOf (l : List Nat) (r : List Cell) (hnd : l.Nodup) (hlen : r.length = l.length) :
    l.map (fun c => r.getD (l.idxOf c) .missing) = r := by
  apply List.ext_getElem
  · simp [hlen]
  · intro j h1 h2
    simp only [List.length_map] at h1
    simp only [List.getElem_map, hnd.idxOf_getElem j h1, List.getD, List.getElem?_eq_getElem h2, Option.getD_some]

theorem cellAt_append_left (b x : List Cell) (i : Nat) (h : i < b.length) : cellAt (b ++ x) i = cellAt b i := by
  simp [cellAt, List.getD, List.getElem?_append_left h]

theorem cellAt_append_right (b x : List Cell) (i : Nat) (h : b.length ≤ i) : cellAt (b ++ x) i = cellAt x (i - b.length) := by
  simp [cellAt, List.getD, List.getElem?_append_right h]

theorem cellAt_map_rows (rows : List (List Cell)) (k j : Nat) (hj : j < rows.length) :
    cellAt (rows.map (fun row => row.getD k .missing)) j = (rows[j]).getD k .missing := by
  simp [cellAt, List.getD, List.getElem?_map, List.getElem?_eq_getElem hj]

/-- the stored list of every column of `t` is the beginning of the stored list `t'` has for it -/
def PrefixOf (t t' : Table) : Prop :=
  ∀ c ∈ t.columns, ∃ b x, lookupCol t.data c = .ok b ∧ lookupCol t'.data c = .ok (b ++ x)

/-- **insert(rows)**: the table afterwards shows the old rows followed by the new ones -/
theorem insert_rows_spec' (cfg : Cfg) (t : Table) (N : Nat) (hok : t.OK N) (hsel : t.sel = .all)
    (hnd : t.columns.Nodup) (hcne : t.columns ≠ []) (hkeys : ∀ p ∈ t.data, p.1 ∈ t.columns)
    (r : List Cell) (rs : List (List Cell)) (hlen : ∀ x ∈ r :: rs, x.length = t.columns.length)
    (R : List (List Cell)) (hR : t.rows = .ok R) :
    ∃ t', t.insertRaw cfg (.rows (r :: rs)) = .ok t' ∧ t'.rows = .ok (R ++ (r :: rs)) ∧
      t'.columns = t.columns ∧ t'.indexes = t.indexes ∧ t'.OK (N + (r :: rs).length) ∧ PrefixOf t t' := by
  have hm : t.m N = N := by simp [Table.m, hsel, Sel.idx]
  have hRe : R = (List.range N).map t.rowAt := by
    have := hok.rows_eq hcne
    rw [hR, hm] at this
    exact Except.ok.inj this
  have h1 : ¬ (r.length ≠ t.columns.length) := by simpa using hlen r (by simp)
  have h2 : ¬ ((rs.all (fun r' => r'.length == t.columns.length)) = false) := by
    simp only [Bool.not_eq_false, List.all_eq_true, beq_iff_eq]
    exact fun x hx => hlen x (by simp [hx])
  let f : Nat × List Cell → Nat × List Cell := fun p =>
    match t.columns.zipIdx.find? (fun c => c.1 == p.1) with
    | some c => (p.1, p.2 ++ (r :: rs).map (fun row => row.getD c.2 .missing))
    | Option.none => p
  have hf1 : ∀ p, (f p).1 = p.1 := by
    intro p; simp only [f]; split <;> rfl
  have hf2 : ∀ p, p.1 ∈ t.columns → (f p).2 = p.2 ++ (r :: rs).map (fun row => row.getD (t.columns.idxOf p.1) .missing) := by
    intro p hp
    simp only [f, find_zipIdx p.1 t.columns 0 hp, Nat.zero_add]
  have hlook : ∀ c ∈ t.columns, ∃ b, lookupCol t.data c = .ok b ∧ b.length = N ∧
      lookupCol (t.data.map f) c = .ok (b ++ (r :: rs).map (fun row => row.getD (t.columns.idxOf c) .missing)) := by
    intro c hc
    obtain ⟨b, hb⟩ := hok.cols c hc
    refine ⟨b, hb, hok.len _ (lookupCol_mem hb), ?_⟩
    have hfind : (t.data.map f).find? (fun p => p.1 == c) = (t.data.find? (fun p => p.1 == c)).map f := by
      rw [List.find?_map]; congr 2; funext p; simp [Function.comp, hf1]
    have hbf : t.data.find? (fun p => p.1 == c) = some (c, b) := by
      unfold lookupCol at hb
      cases hfd : t.data.find? (fun p => p.1 == c) with
      | none => simp [hfd] at hb
      | some p =>
        have := List.find?_some hfd
        simp only [beq_iff_eq] at this
        simp [hfd] at hb
        cases p; simp_all
    simp only [lookupCol, hfind, hbf, Option.map_some]
    rw [hf2 (c, b) hc]
  have hok' : Table.OK { t with data := t.data.map f } (N + (r :: rs).length) := by
    refine ⟨?_, ?_, by rw [hsel]; exact ⟨by simpa [Sel.idx, StrictInc, List.range_eq_range'] using (List.pairwise_lt_range' (s := 0) (n := N + (r :: rs).length)), by simp [Sel.idx]⟩⟩
    · intro p hp
      obtain ⟨q, hq, rfl⟩ := List.mem_map.mp hp
      rw [hf2 q (hkeys q hq)]
      simp [hok.len q hq]
    · intro c hc
      obtain ⟨b, _, _, hb'⟩ := hlook c hc
      exact ⟨_, hb'⟩
  refine ⟨{ t with data := t.data.map f }, ?_, ?_, rfl, rfl, hok', fun c hc => by
    obtain ⟨b, hb, _, hb'⟩ := hlook c hc; exact ⟨b, _, hb, hb'⟩⟩
  · simp only [Table.insertRaw, h1, h2, if_false]
    rfl
  · have hm' : Table.m { t with data := t.data.map f } (N + (r :: rs).length) = N + (r :: rs).length := by
      simp [Table.m, hsel, Sel.idx]
    rw [hok'.rows_eq hcne, hm', hRe]
    congr 1
    apply List.ext_getElem
    · simp
    · intro i hi1 hi2
      simp only [List.length_map, List.length_range] at hi1
      simp only [List.getElem_map, List.getElem_range]
      by_cases hiN : i < N
      · rw [List.getElem_append_left (by simpa using hiN)]
        simp only [List.getElem_map, List.getElem_range, Table.rowAt]
        apply List.map_congr_left
        intro c hc
        obtain ⟨b, hb, hbl, hb'⟩ := hlook c hc
        rw [vcol_all _ (by exact hsel), vcol_all t hsel]
        simp only [Table.base, hb, hb']
        exact cellAt_append_left b _ i (by omega)
      · rw [List.getElem_append_right (by simpa using hiN)]
        simp only [List.length_map, List.length_range]
        have hk : i - N < (r :: rs).length := by omega
        have hrow := hlen _ (List.getElem_mem hk)
        rw [← map_getD_idxOf t.columns ((r :: rs)[i - N]) hnd hrow]
        simp only [Table.rowAt]
        apply List.map_congr_left
        intro c hc
        obtain ⟨b, hb, hbl, hb'⟩ := hlook c hc
        rw [vcol_all _ (by exact hsel)]
        simp only [Table.base, hb']
        rw [cellAt_append_right b _ i (by omega), hbl, cellAt_map_rows (r :: rs) _ (i - N) hk]


/-! ## table objects that share storage -/

def TOp.mutates : TOp → Bool
  | .insert _ _ => true
  | .index _ _ => true
  | _ => false

/-- `where`, `groupby`, `copy` (and looking at a table) leave every existing table object as it is -/
theorem step_query_preserves (cfg : Cfg) (ts : List (Option Table)) (op : TOp) (hop : op.mutates = false)
    (i : Nat) (hi : i < ts.length) : (step cfg ts op).1[i]? = ts[i]? := by
  cases op with
  | insert _ _ => simp [TOp.mutates] at hop
  | index _ _ => simp [TOp.mutates] at hop
  | skip c => cases c <;> simp [step, List.getElem?_append_left hi]
  | peek j => simp only [step]; split <;> rfl
  | whr j p c k =>
    simp only [step]
    split
    · exact List.getElem?_append_left hi
    · split <;> exact List.getElem?_append_left hi
  | groupby j l s =>
    simp only [step]
    split
    · rfl
    · split <;> rfl
  | copy j =>
    simp only [step]
    split <;> exact List.getElem?_append_left hi



/-! ## `insert` of a column mapping / of dict rows -/

theorem mem_insertNatSorted (x y : Nat) : ∀ l : List Nat, y ∈ insertNatSorted x l ↔ y = x ∨ y ∈ l
  | [] => by simp [insertNatSorted]
  | z :: zs => by
    simp only [insertNatSorted]
    split
    · simp
    · simp [mem_insertNatSorted x y zs]; tauto

theorem mem_sortNat (y : Nat) : ∀ l : List Nat, y ∈ sortNat l ↔ y ∈ l
  | [] => by simp [sortNat]
  | x :: xs => by simp [sortNat, mem_insertNatSorted, mem_sortNat y xs]

theorem mem_dedupNat (y : Nat) : ∀ l : List Nat, y ∈ dedupNat l ↔ y ∈ l
  | [] => by simp [dedupNat]
  | x :: xs => by
    simp only [dedupNat, List.mem_cons, List.mem_filter, mem_dedupNat y xs]
    constructor
    · rintro (h | ⟨h, _⟩)
      · exact Or.inl h
      · exact Or.inr h
    · rintro (h | h)
      · exact Or.inl h
      · by_cases e : y = x
        · exact Or.inl e
        · right; refine ⟨h, ?_⟩; simp; exact fun e' => e e'.symm

/-- the value list of column `c` in a mapping (empty if absent) -/
def mapVal (cs : List (Nat × List Cell)) (c : Nat) : Option (List Cell) :=
  (cs.find? (fun q => q.1 == c)).map (·.2)

theorem lookupCol_eq_find (data : List (Nat × List Cell)) (c : Nat) :
    lookupCol data c = match data.find? (fun p => p.1 == c) with | some p => .ok p.2 | Option.none => .error .keyError := rfl

theorem lookupCol_append (l1 l2 : List (Nat × List Cell)) (c : Nat) :
    lookupCol (l1 ++ l2) c = match lookupCol l1 c with | .ok b => .ok b | .error _ => lookupCol l2 c := by
  simp only [lookupCol, List.find?_append]
  cases h : l1.find? (fun p => p.1 == c) <;> simp

theorem find_filter_key (keep : Nat → Bool) (c : Nat) : ∀ data : List (Nat × List Cell),
    data.find? (fun a => keep a.1 && a.1 == c) = if keep c then data.find? (fun a => a.1 == c) else Option.none
  | [] => by by_cases h : keep c <;> simp [h]
  | p :: rest => by
    have ih := find_filter_key keep c rest
    by_cases hp : p.1 = c
    · subst hp
      by_cases hk : keep p.1 = true
      · simp [List.find?_cons, hk]
      · simp only [Bool.not_eq_true] at hk
        simp [List.find?_cons, hk] at ih ⊢
        exact ih
    · have hpc : (p.1 == c) = false := by simpa using hp
      simp only [List.find?_cons, hpc, Bool.and_false]
      exact ih

theorem lookupCol_filter_key (keep : Nat → Bool) (data : List (Nat × List Cell)) (c : Nat) :
    lookupCol (data.filter (fun p => keep p.1)) c = if keep c then lookupCol data c else .error .keyError := by
  unfold lookupCol
  rw [List.find?_filter]
  have : (fun a : Nat × List Cell => decide (keep a.1 = true ∧ (a.1 == c) = true))
      = (fun a => keep a.1 && a.1 == c) := by funext a; by_cases h1 : keep a.1 = true <;> by_cases h2 : a.1 = c <;> simp [h1, h2]
  rw [this, find_filter_key keep c data]
  by_cases h : keep c = true <;> simp [h]

theorem lookupCol_map_key (f : Nat × List Cell → Nat × List Cell) (hf : ∀ p, (f p).1 = p.1)
    (data : List (Nat × List Cell)) (c : Nat) :
    lookupCol (data.map f) c = match data.find? (fun p => p.1 == c) with
      | some p => .ok (f p).2 | Option.none => .error .keyError := by
  simp only [lookupCol, List.find?_map]
  have : ((fun p : Nat × List Cell => p.1 == c) ∘ f) = (fun p => p.1 == c) := by funext p; simp [Function.comp, hf]
  rw [this]
  cases data.find? (fun p => p.1 == c) <;> simp


theorem cellAt_replicate (n i : Nat) : cellAt (List.replicate n Cell.missing) i = Cell.missing := by
  simp only [cellAt, List.getD]
  cases h : (List.replicate n Cell.missing)[i]? with
  | none => rfl
  | some c =>
    have := List.mem_of_getElem? h
    simp at this
    simp [this.2]

theorem cellAt_nil (i : Nat) : cellAt [] i = Cell.missing := by simp [cellAt]

/-- a table `insert` works on: it owns its lists, they are as long as the table, every stored list is a column -/
structure InsertOK (t : Table) (N : Nat) : Prop where
  ok : t.OK N
  sel : t.sel = .all
  keys : ∀ p ∈ t.data, p.1 ∈ t.columns
  empty : t.data = [] → N = 0

theorem InsertOK.rows_eq {t : Table} {N : Nat} (h : InsertOK t N) (R : List (List Cell)) (hR : t.rows = .ok R) :
    R = (List.range N).map t.rowAt := by
  have hm : t.m N = N := by simp [Table.m, h.sel, Sel.idx]
  by_cases hc : t.columns = []
  · have hd : t.data = [] := by
      cases hdd : t.data with
      | nil => rfl
      | cons p r => have := h.keys p (by simp [hdd]); simp [hc] at this
    have hN := h.empty hd
    subst hN
    simp only [Table.rows, hc, List.mapM_nil, bind, Except.bind, pure, Except.pure, minLen] at hR
    have := Except.ok.inj hR
    simpa using this.symm
  · have := h.ok.rows_eq hc
    rw [hR, hm] at this
    exact Except.ok.inj this

theorem InsertOK.len_eq {t : Table} {N : Nat} (h : InsertOK t N) : t.len = .ok N := by
  by_cases hd : t.data = []
  · have := h.empty hd
    subst this
    simp [Table.len, hd, h.sel]
  · have := h.ok.len_eq hd
    simpa [Table.m, h.sel, Sel.idx] using this

theorem mem_newColsOf (columns keys : List Nat) (c : Nat) : c ∈ newColsOf columns keys ↔ c ∈ keys ∧ c ∉ columns := by
  simp [newColsOf, mem_sortNat, List.mem_filter, mem_dedupNat]

theorem find_self (c : Nat) : ∀ l : List Nat, c ∈ l → l.find? (fun c' => c' == c) = some c
  | [], h => by simp at h
  | x :: xs, h => by
    by_cases hx : x = c
    · subst hx; simp
    · have : (x == c) = false := by simpa using hx
      simp only [List.find?_cons, this]
      exact find_self c xs (by simp at h; rcases h with e | e; exact absurd e.symm hx; exact e)

/-- **insert(mapping)**: the stored lists, hence the rows, afterwards -/
theorem insertCols_spec (t : Table) (N : Nat) (h : InsertOK t N) (cs : List (Nat × List Cell)) (padLen : Option Nat) (k : Nat)
    (hpad : padLenOf padLen cs = k) (hk : ∀ q ∈ cs, q.2.length = k)
    (hcne : t.columns ++ newColsOf t.columns (cs.map (·.1)) ≠ [])
    (R : List (List Cell)) (hR : t.rows = .ok R) :
    ∃ t', insertCols t cs padLen = .ok t' ∧ t'.columns = (insertColsS t.columns R cs k).1 ∧
      t'.rows = .ok (insertColsS t.columns R cs k).2 ∧ t'.indexes = t.indexes ∧ InsertOK t' (N + k) ∧ PrefixOf t t' := by
  have hRe := h.rows_eq R hR
  have hlen := h.len_eq
  generalize hnc : newColsOf t.columns (cs.map (·.1)) = newCols at *
  have hnew : ∀ c, c ∈ newCols ↔ (∃ q ∈ cs, q.1 = c) ∧ c ∉ t.columns := by
    intro c; rw [← hnc, mem_newColsOf]; simp
  have hvlen : ∀ c, (∃ q ∈ cs, q.1 = c) → (mapValD cs c).length = k := by
    rintro c ⟨q, hq, rfl⟩
    simp only [mapValD]
    cases hf : cs.find? (fun q' => q'.1 == q.1) with
    | none => have := List.find?_eq_none.mp hf q hq; simp at this
    | some q' => exact hk q' (List.mem_of_find?_eq_some hf)
  have hf1 : ∀ p, (extendOld t.columns cs k p).1 = p.1 := by
    intro p; simp only [extendOld]; split
    · split <;> rfl
    · rfl
  let fresh : List (Nat × List Cell) := newCols.map (fun c => (c, List.replicate N Cell.missing ++ mapValD cs c))
  let data2 := (t.data.map (extendOld t.columns cs k)).filter (fun p => !(newCols.contains p.1)) ++ fresh
  have hrun : insertCols t cs padLen = .ok { t with data := data2, columns := t.columns ++ newCols } := by
    simp only [insertCols, hnc, hpad]
    by_cases hne : newCols.isEmpty = true
    · have : newCols = [] := by simpa using hne
      simp only [hne, if_true]
      simp [data2, fresh, this]
    · simp only [hne, hlen]
      rfl
  -- the stored lists afterwards
  have hold : ∀ c ∈ t.columns, ∃ b, lookupCol t.data c = .ok b ∧ b.length = N ∧
      lookupCol data2 c = .ok (b ++ (if (∃ q ∈ cs, q.1 = c) then mapValD cs c else List.replicate k Cell.missing)) := by
    intro c hc
    obtain ⟨b, hb⟩ := h.ok.cols c hc
    refine ⟨b, hb, h.ok.len _ (lookupCol_mem hb), ?_⟩
    have hnot : c ∉ newCols := fun hm => ((hnew c).mp hm).2 hc
    have hkeep : (!(newCols.contains c)) = true := by simpa using hnot
    rw [lookupCol_append, lookupCol_filter_key (fun x => !(newCols.contains x)), hkeep, if_pos rfl,
      lookupCol_map_key _ hf1]
    have hbf : t.data.find? (fun p => p.1 == c) = some (c, b) := by
      unfold lookupCol at hb
      cases hfd : t.data.find? (fun p => p.1 == c) with
      | none => simp [hfd] at hb
      | some p =>
        have := List.find?_some hfd
        simp only [beq_iff_eq] at this
        simp [hfd] at hb
        cases p; simp_all
    have hcon : t.columns.contains c = true := by simpa using hc
    simp only [hbf, extendOld, hcon, if_true, mapValD]
    cases hf : cs.find? (fun q => q.1 == c) with
    | none =>
      have : ¬ ∃ q ∈ cs, q.1 = c := by
        rintro ⟨q, hq, e⟩
        have := List.find?_eq_none.mp hf q hq
        simp [e] at this
      simp [this]
    | some q =>
      have : ∃ q ∈ cs, q.1 = c := ⟨q, List.mem_of_find?_eq_some hf, by simpa using List.find?_some hf⟩
      simp [this]
  have hfresh : ∀ c ∈ newCols, lookupCol data2 c = .ok (List.replicate N Cell.missing ++ mapValD cs c) := by
    intro c hc
    have hkeep : (!(newCols.contains c)) = false := by simpa using hc
    rw [lookupCol_append, lookupCol_filter_key (fun x => !(newCols.contains x)), hkeep]
    simp only [Bool.false_eq_true, if_false]
    have : fresh.find? (fun p => p.1 == c) = some (c, List.replicate N Cell.missing ++ mapValD cs c) := by
      simp only [fresh, List.find?_map]
      have hcomp : ((fun p : Nat × List Cell => p.1 == c) ∘ fun c' => (c', List.replicate N Cell.missing ++ mapValD cs c')) = (fun c' => c' == c) := by
        funext c'; rfl
      rw [hcomp, find_self c newCols hc]; rfl
    simp [lookupCol, this]
  have hok' : InsertOK { t with data := data2, columns := t.columns ++ newCols } (N + k) := by
    refine ⟨⟨?_, ?_, by rw [h.sel]; exact ⟨by simpa [Sel.idx, StrictInc, List.range_eq_range'] using (List.pairwise_lt_range' (s := 0) (n := N + k)), by simp [Sel.idx]⟩⟩, h.sel, ?_, ?_⟩
    · intro p hp
      simp only [data2, List.mem_append, List.mem_filter, List.mem_map] at hp
      rcases hp with ⟨⟨q, hq, rfl⟩, _⟩ | hp
      · have hqc := h.keys q hq
        have hcon : t.columns.contains q.1 = true := by simpa using hqc
        have hql := h.ok.len q hq
        simp only [extendOld, hcon, if_true]
        cases hf : cs.find? (fun q' => q'.1 == q.1) with
        | none => simp [hql]
        | some q' => simp [hql, hk q' (List.mem_of_find?_eq_some hf)]
      · simp only [fresh, List.mem_map] at hp
        obtain ⟨c, hc, rfl⟩ := hp
        simp [hvlen c ((hnew c).mp hc).1]
    · intro c hc
      rw [List.mem_append] at hc
      rcases hc with hc | hc
      · obtain ⟨b, _, _, e⟩ := hold c hc
        exact ⟨_, e⟩
      · exact ⟨_, hfresh c hc⟩
    · intro p hp
      simp only [data2, List.mem_append, List.mem_filter, List.mem_map] at hp
      rcases hp with ⟨⟨q, hq, rfl⟩, _⟩ | hp
      · rw [hf1]; exact List.mem_append_left _ (h.keys q hq)
      · simp only [fresh, List.mem_map] at hp
        obtain ⟨c, hc, rfl⟩ := hp
        exact List.mem_append_right _ hc
    · intro hd
      -- no stored list afterwards: impossible, there is at least one column
      exfalso
      obtain ⟨c, hc⟩ := List.exists_mem_of_ne_nil _ hcne
      rw [List.mem_append] at hc
      have : ∃ b, lookupCol data2 c = .ok b := by
        rcases hc with hc | hc
        · obtain ⟨b, _, _, e⟩ := hold c hc; exact ⟨_, e⟩
        · exact ⟨_, hfresh c hc⟩
      obtain ⟨b, hb⟩ := this
      have := lookupCol_mem hb
      simp only at hd
      rw [hd] at this
      simp at this
  refine ⟨_, hrun, by simp [insertColsS, hnc], ?_, rfl, hok', fun c hc => by
    obtain ⟨b, hb, _, hb'⟩ := hold c hc; exact ⟨b, _, hb, hb'⟩⟩
  -- rows
  have hm' : Table.m { t with data := data2, columns := t.columns ++ newCols } (N + k) = N + k := by
    simp [Table.m, h.sel, Sel.idx]
  rw [hok'.ok.rows_eq hcne, hm', hRe]
  simp only [insertColsS, hnc]
  congr 1
  have hcell : ∀ c ∈ t.columns ++ newCols, ∀ i, cellAt (Table.vcol { t with data := data2, columns := t.columns ++ newCols } c) i =
      if i < N then (if c ∈ t.columns then cellAt (t.vcol c) i else Cell.missing) else cellAt (mapValD cs c) (i - N) := by
    intro c hc i
    rw [vcol_all _ (by exact h.sel)]
    rw [List.mem_append] at hc
    by_cases hcc : c ∈ t.columns
    · obtain ⟨b, hb, hbl, e⟩ := hold c hcc
      simp only [Table.base, e, hcc, if_true]
      by_cases hi : i < N
      · simp only [hi, if_true]
        rw [cellAt_append_left b _ i (by omega), vcol_all t h.sel]
        simp [Table.base, hb]
      · simp only [hi, if_false]
        rw [cellAt_append_right b _ i (by omega), hbl]
        by_cases hex : ∃ q ∈ cs, q.1 = c
        · simp [hex]
        · simp only [hex, if_false, cellAt_replicate]
          have : mapValD cs c = [] := by
            simp only [mapValD]
            cases hf : cs.find? (fun q => q.1 == c) with
            | none => rfl
            | some q => exact absurd ⟨q, List.mem_of_find?_eq_some hf, by simpa using List.find?_some hf⟩ hex
          rw [this, cellAt_nil]
    · have hcn : c ∈ newCols := by rcases hc with hc | hc; exact absurd hc hcc; exact hc
      simp only [Table.base, hfresh c hcn, hcc, if_false]
      by_cases hi : i < N
      · simp only [hi, if_true]
        rw [cellAt_append_left _ _ i (by simpa using hi), cellAt_replicate]
      · simp only [hi, if_false]
        rw [cellAt_append_right _ _ i (by simpa using hi)]
        simp
  apply List.ext_getElem
  · simp
  · intro i hi1 hi2
    simp only [List.length_map, List.length_range] at hi1
    simp only [List.getElem_map, List.getElem_range]
    by_cases hiN : i < N
    · rw [List.getElem_append_left (by simpa using hiN)]
      simp only [List.getElem_map, List.getElem_range, Table.rowAt, List.map_append]
      congr 1
      · apply List.map_congr_left
        intro c hc
        rw [hcell c (List.mem_append_left _ hc) i]
        simp [hiN, hc]
      · apply List.map_congr_left
        intro c hc
        rw [hcell c (List.mem_append_right _ hc) i]
        simp [hiN, ((hnew c).mp hc).2]
    · rw [List.getElem_append_right (by simpa using hiN)]
      simp only [List.length_map, List.length_range, List.getElem_map, List.getElem_range, Table.rowAt]
      apply List.map_congr_left
      intro c hc
      rw [hcell c hc i]
      simp [hiN]


theorem dedupNat_of_nodup : ∀ l : List Nat, l.Nodup → dedupNat l = l
  | [], _ => rfl
  | x :: xs, h => by
    rw [List.nodup_cons] at h
    simp only [dedupNat, dedupNat_of_nodup xs h.2]
    congr 1
    apply List.filter_eq_self.mpr
    intro y hy
    simp
    rintro rfl; exact h.1 hy

theorem nodup_dedupNat : ∀ l : List Nat, (dedupNat l).Nodup
  | [] => List.nodup_nil
  | x :: xs => by
    simp only [dedupNat]
    rw [List.nodup_cons]
    refine ⟨by simp [List.mem_filter], (nodup_dedupNat xs).filter _⟩

theorem dedupNat_idem (l : List Nat) : dedupNat (dedupNat l) = dedupNat l :=
  dedupNat_of_nodup _ (nodup_dedupNat l)

theorem dictsToCols_keys (ds : List (List (Nat × Cell))) :
    (dictsToCols ds).map (·.1) = dedupNat (ds.flatMap (fun d => d.map (·.1))) := by
  simp only [dictsToCols, List.map_map]
  have : ((fun x : Nat × List Cell => x.1) ∘ fun k => (k, ds.map (fun d => assocGet d k))) = id := by funext k; rfl
  rw [this, List.map_id]

theorem newColsOf_dedup (columns keys : List Nat) : newColsOf columns (dedupNat keys) = newColsOf columns keys := by
  simp [newColsOf, dedupNat_idem]

theorem assocGet_missing (d : List (Nat × Cell)) (c : Nat) (h : ∀ p ∈ d, p.1 ≠ c) : assocGet d c = Cell.missing := by
  simp only [assocGet]
  cases hf : d.find? (fun p => p.1 == c) with
  | none => rfl
  | some p => exact absurd (by simpa using List.find?_some hf) (h p (List.mem_of_find?_eq_some hf))

theorem mapValD_dicts (ds : List (List (Nat × Cell))) (c : Nat) (i : Nat) (hi : i < ds.length) :
    cellAt (mapValD (dictsToCols ds) c) i = assocGet ds[i] c := by
  simp only [mapValD, dictsToCols, List.find?_map]
  have hcomp : ((fun q : Nat × List Cell => q.1 == c) ∘ fun k => (k, ds.map (fun d => assocGet d k))) = (fun k => k == c) := by
    funext k; rfl
  rw [hcomp]
  by_cases hc : c ∈ dedupNat (ds.flatMap (fun d => d.map (·.1)))
  · rw [find_self c _ hc]
    simp [cellAt, List.getD, hi]
  · have hn : (dedupNat (ds.flatMap (fun d => d.map (·.1)))).find? (fun k => k == c) = Option.none := by
      rw [List.find?_eq_none]
      intro k hk hkc
      have : k = c := by simpa using hkc
      exact hc (this ▸ hk)
    simp only [hn, Option.map_none, cellAt_nil]
    symm
    apply assocGet_missing
    intro p hp hpc
    apply hc
    rw [mem_dedupNat, List.mem_flatMap]
    exact ⟨ds[i], List.getElem_mem hi, List.mem_map.mpr ⟨p, hp, hpc⟩⟩

/-- **insert(mapping)** -/
theorem insert_mapping_rows' (cfg : Cfg) (t : Table) (N : Nat) (h : InsertOK t N) (q0 : Nat × List Cell) (cs : List (Nat × List Cell))
    (hk : ∀ q ∈ q0 :: cs, q.2.length = q0.2.length)
    (hcne : t.columns ++ newColsOf t.columns ((q0 :: cs).map (·.1)) ≠ [])
    (R : List (List Cell)) (hR : t.rows = .ok R) :
    ∃ t', t.insertRaw cfg (.cols (q0 :: cs)) = .ok t' ∧ t'.columns = (insertColsS t.columns R (q0 :: cs) q0.2.length).1 ∧
      t'.rows = .ok (insertColsS t.columns R (q0 :: cs) q0.2.length).2 ∧ t'.indexes = t.indexes ∧ InsertOK t' (N + q0.2.length) ∧
      PrefixOf t t' := by
  obtain ⟨t', e, a, b, c, d, pf⟩ := insertCols_spec t N h (q0 :: cs) Option.none q0.2.length (by cases q0; rfl) hk hcne R hR
  exact ⟨t', by simpa [Table.insertRaw] using e, a, b, c, d, pf⟩

/-- **insert(dict rows)** -/
theorem insert_dicts_rows' (cfg : Cfg) (t : Table) (N : Nat) (h : InsertOK t N) (d0 : List (Nat × Cell)) (ds : List (List (Nat × Cell)))
    (hpad : cfg.dictLen = true ∨ dictsToCols (d0 :: ds) ≠ [])
    (hcne : t.columns ++ newColsOf t.columns ((d0 :: ds).flatMap (fun d => d.map (·.1))) ≠ [])
    (R : List (List Cell)) (hR : t.rows = .ok R) :
    ∃ t', t.insertRaw cfg (.dicts (d0 :: ds)) = .ok t' ∧ t'.columns = (insertDictsS t.columns R (d0 :: ds)).1 ∧
      t'.rows = .ok (insertDictsS t.columns R (d0 :: ds)).2 ∧ t'.indexes = t.indexes ∧ InsertOK t' (N + (d0 :: ds).length) ∧
      PrefixOf t t' := by
  have hkeys := dictsToCols_keys (d0 :: ds)
  have hnc : newColsOf t.columns ((dictsToCols (d0 :: ds)).map (·.1)) = newColsOf t.columns ((d0 :: ds).flatMap (fun d => d.map (·.1))) := by
    rw [hkeys, newColsOf_dedup]
  obtain ⟨t', e, a, b, c, d, pf⟩ := insertCols_spec t N h (dictsToCols (d0 :: ds))
    (if cfg.dictLen then some (d0 :: ds).length else if (dictsToCols (d0 :: ds)).isEmpty then some 1 else Option.none)
    (d0 :: ds).length (by
      by_cases hd : cfg.dictLen = true
      · simp [hd, padLenOf]
      · have hne : dictsToCols (d0 :: ds) ≠ [] := by rcases hpad with h' | h'; exact absurd h' hd; exact h'
        have : (dictsToCols (d0 :: ds)).isEmpty = false := by cases hq : dictsToCols (d0 :: ds) <;> simp_all
        simp only [hd, this, Bool.false_eq_true, if_false]
        cases hq : dictsToCols (d0 :: ds) with
        | nil => exact absurd hq hne
        | cons q rest =>
          have hm : q ∈ dictsToCols (d0 :: ds) := by simp [hq]
          simp only [dictsToCols, List.mem_map] at hm
          obtain ⟨k, _, rfl⟩ := hm
          simp [padLenOf])
    (by
      intro q hq
      simp only [dictsToCols, List.mem_map] at hq
      obtain ⟨k, _, rfl⟩ := hq
      simp)
    (by rw [hnc]; exact hcne) R hR
  refine ⟨t', by simpa [Table.insertRaw] using e, ?_, ?_, c, d, pf⟩
  · rw [a]; simp only [insertColsS, insertDictsS, hnc]
  · rw [b]
    simp only [insertColsS, insertDictsS, hnc]
    congr 2
    apply List.ext_getElem
    · simp
    · intro i h1 h2
      simp only [List.length_map, List.length_range] at h1
      simp only [List.getElem_map, List.getElem_range]
      apply List.map_congr_left
      intro c _
      exact mapValD_dicts (d0 :: ds) c i h1


/-! ## everything the specification does depends on cells only through their keys -/

theorem cell_none_iff (c : Cell) : c = Cell.none ↔ c.key = Key.none := by cases c <;> simp [Cell.key]
theorem cell_missing_iff (c : Cell) : c = Cell.missing ↔ c.key = Key.missing := by cases c <;> simp [Cell.key]

theorem pyEq_congr {c c' : Cell} (h : c.key = c'.key) (v : Cell) : pyEq c v = pyEq c' v := by simp [pyEq, h]
theorem pyIn_congr {c c' : Cell} (h : c.key = c'.key) (vs : List Cell) : pyIn c vs = pyIn c' vs := by
  simp only [pyIn]; congr 1; funext v; exact pyEq_congr h v

theorem sat_congr {c c' : Cell} (h : c.key = c'.key) (op : Op) (a : ArgV) : sat op a c = sat op a c' := by
  have hn : (c = Cell.none) = (c' = Cell.none) := by rw [cell_none_iff, cell_none_iff, h]
  cases a <;> cases op <;> simp only [sat, satOrd, pyLt, pyLe, pyGe, pyGt, hn, h, pyEq_congr h, pyIn_congr h]

theorem cellPred_congr {c c' : Cell} (h : c.key = c'.key) : ∀ p : CellPred, p.eval c = p.eval c'
  | .eqv v => by simp [CellPred.eval, pyEq_congr h]
  | .inl vs => by simp [CellPred.eval, pyIn_congr h]
  | .isMissing => by simp [CellPred.eval, cell_missing_iff, h]
  | .isNone => by simp [CellPred.eval, cell_none_iff, h]
  | .const b => rfl
  | .notp p => by simp [CellPred.eval, cellPred_congr h p]

theorem test_congr {c c' : Cell} (h : c.key = c'.key) : ∀ t : Test, t.eval c = t.eval c'
  | .cmp op a => by simp [Test.eval, sat_congr h]
  | .fn p => by simp [Test.eval, cellPred_congr h]

/-- rows equal up to `==` -/
def KeyEq (r s : List Cell) : Prop := r.map Cell.key = s.map Cell.key

theorem KeyEq.getD {r s : List Cell} (h : KeyEq r s) (k : Nat) : (r.getD k .missing).key = (s.getD k .missing).key := by
  have hl : r.length = s.length := by simpa using congrArg List.length h
  by_cases hk : k < r.length
  · have hk' : k < s.length := by omega
    have := congrArg (fun l => l[k]?) h
    simp only [List.getElem?_map, List.getElem?_eq_getElem hk, List.getElem?_eq_getElem hk', Option.map_some, Option.some.injEq] at this
    simp [List.getD, List.getElem?_eq_getElem hk, List.getElem?_eq_getElem hk', this]
  · simp [List.getD, List.getElem?_eq_none (by omega : r.length ≤ k), List.getElem?_eq_none (by omega : s.length ≤ k)]

theorem rowPred_congr {r s : List Cell} (h : KeyEq r s) : ∀ p : RowPred, p.eval r = p.eval s
  | .cell k p => by simp only [RowPred.eval]; exact cellPred_congr (h.getD k) p
  | .or a b => by simp [RowPred.eval, rowPred_congr h a, rowPred_congr h b]
  | .and a b => by simp [RowPred.eval, rowPred_congr h a, rowPred_congr h b]

theorem cellOf_congr (columns : List Nat) (c : Nat) : ∀ {r s : List Cell}, KeyEq r s →
    (∃ e, cellOf columns r c = .error e ∧ cellOf columns s c = .error e) ∨
    (∃ x y, cellOf columns r c = .ok x ∧ cellOf columns s c = .ok y ∧ x.key = y.key) := by
  induction columns with
  | nil => intro r s _; left; exact ⟨.keyError, by simp [cellOf], by simp [cellOf]⟩
  | cons d ds ih =>
    intro r s h
    cases r with
    | nil =>
      have : s = [] := by simpa [KeyEq] using h.symm
      subst this; left; exact ⟨.keyError, by simp [cellOf], by simp [cellOf]⟩
    | cons x xs =>
      cases s with
      | nil => simp [KeyEq] at h
      | cons y ys =>
        simp only [KeyEq, List.map_cons, List.cons.injEq] at h
        by_cases hd : d = c
        · right; exact ⟨x, y, by simp [cellOf, hd], by simp [cellOf, hd], h.1⟩
        · have hdc : (d == c) = false := by simpa using hd
          have := ih (r := xs) (s := ys) h.2
          simpa [cellOf, List.zip_cons_cons, List.find?_cons, hdc] using this

theorem satRow_congr (columns : List Nat) {r s : List Cell} (h : KeyEq r s) : ∀ conds : List Cond,
    satRow columns r conds = satRow columns s conds
  | [] => rfl
  | k :: ks => by
    simp only [satRow]
    rcases cellOf_congr columns k.col h with ⟨e, e1, e2⟩ | ⟨x, y, e1, e2, hk⟩
    · rw [e1, e2]
    · rw [e1, e2]
      simp only [test_congr hk k.test, satRow_congr columns h ks]

theorem filterRows_congr (t1 t2 : List Cell → Except Err Bool) :
    ∀ {R S : List (List Cell)}, List.Forall₂ KeyEq R S → (∀ r s, KeyEq r s → t1 r = t2 s) →
    (∃ e, filterRows t1 R = .error e ∧ filterRows t2 S = .error e) ∨
    (∃ rs ss, filterRows t1 R = .ok rs ∧ filterRows t2 S = .ok ss ∧ List.Forall₂ KeyEq rs ss) := by
  intro R S h ht
  induction h with
  | nil => right; exact ⟨[], [], rfl, rfl, List.Forall₂.nil⟩
  | @cons r s R S hrs _ ih =>
    simp only [filterRows, ht r s hrs]
    cases t2 s with
    | error e => left; exact ⟨e, rfl, rfl⟩
    | ok b =>
      rcases ih with ⟨e, e1, e2⟩ | ⟨rs, ss, e1, e2, hf⟩
      · left; exact ⟨e, by rw [e1], by rw [e2]⟩
      · right
        rw [e1, e2]
        by_cases hb : b = true
        · exact ⟨r :: rs, s :: ss, by simp [hb], by simp [hb], List.Forall₂.cons hrs hf⟩
        · exact ⟨rs, ss, by simp [hb], by simp [hb], hf⟩

theorem forall2_keyEq_iff {R S : List (List Cell)} :
    List.Forall₂ KeyEq R S ↔ R.map (List.map Cell.key) = S.map (List.map Cell.key) := by
  constructor
  · intro h
    induction h with
    | nil => rfl
    | cons h1 _ ih => simp only [List.map_cons, ih]; rw [show _ = _ from h1]
  · intro h
    induction R generalizing S with
    | nil => cases S with
      | nil => exact List.Forall₂.nil
      | cons _ _ => simp at h
    | cons r R ih => cases S with
      | nil => simp at h
      | cons s S =>
        simp only [List.map_cons, List.cons.injEq] at h
        exact List.Forall₂.cons h.1 (ih h.2)

theorem filter_congr (p : List Cell → Bool) (q : List Cell → Bool) : ∀ {R S : List (List Cell)}, List.Forall₂ KeyEq R S →
    (∀ r s, KeyEq r s → p r = q s) → List.Forall₂ KeyEq (R.filter p) (S.filter q) := by
  intro R S h hp
  induction h with
  | nil => exact List.Forall₂.nil
  | @cons r s R S hrs _ ih =>
    simp only [List.filter_cons, hp r s hrs]
    split
    · exact List.Forall₂.cons hrs ih
    · exact ih

section SortCongr
variable {α : Type} (E : α → α → Prop) (lt1 lt2 : α → α → Bool)

theorem insertBy_forall2 (hlt : ∀ a a' b b', E a a' → E b b' → lt1 a b = lt2 a' b') {x x' : α} (hx : E x x') :
    ∀ {l l' : List α}, List.Forall₂ E l l' → List.Forall₂ E (insertBy lt1 x l) (insertBy lt2 x' l') := by
  intro l l' h
  induction h with
  | nil => exact List.Forall₂.cons hx List.Forall₂.nil
  | @cons y y' ys ys' hy hys ih =>
    simp only [insertBy, hlt y y' x x' hy hx]
    split
    · exact List.Forall₂.cons hy ih
    · exact List.Forall₂.cons hx (List.Forall₂.cons hy hys)

theorem sortBy_forall2 (hlt : ∀ a a' b b', E a a' → E b b' → lt1 a b = lt2 a' b') :
    ∀ {l l' : List α}, List.Forall₂ E l l' → List.Forall₂ E (sortBy lt1 l) (sortBy lt2 l') := by
  intro l l' h
  induction h with
  | nil => exact List.Forall₂.nil
  | cons hx _ ih => exact insertBy_forall2 E lt1 lt2 hlt hx ih

end SortCongr

theorem lexLt_congr : ∀ (ks : List Nat) {r r' s s' : List Cell}, KeyEq r r' → KeyEq s s' → lexLt ks r s = lexLt ks r' s'
  | [], _, _, _, _, _, _ => rfl
  | k :: ks, r, r', s, s', h1, h2 => by
    simp only [lexLt, h1.getD k, h2.getD k, lexLt_congr ks h1 h2]

theorem indexS_congr (ks : List Nat) {R S : List (List Cell)} (h : List.Forall₂ KeyEq R S) :
    List.Forall₂ KeyEq (indexS ks R) (indexS ks S) :=
  sortBy_forall2 KeyEq (lexLt ks) (lexLt ks) (fun _ _ _ _ h1 h2 => lexLt_congr ks h1 h2) h


/-! ## `insert` against `insertS`, with the decidable hypotheses -/

theorem insertOKB_sound {t : Table} (h : insertOKB t = true) : InsertOK t (tableN t) := by
  simp only [insertOKB, Bool.and_eq_true, decide_eq_true_eq, List.all_eq_true] at h
  obtain ⟨⟨h1, h2⟩, h3⟩ := h
  refine ⟨tableOKB_sound h2, h1, fun p hp => by simpa using h3 p hp, fun hd => by simp [tableN, hd]⟩

theorem InsertOK.rows_ok {t : Table} {N : Nat} (h : InsertOK t N) : ∃ R, t.rows = .ok R := by
  have hm : t.m N = N := by simp [Table.m, h.sel, Sel.idx]
  by_cases hc : t.columns = []
  · exact ⟨[], by simp [Table.rows, hc, bind, Except.bind, pure, Except.pure, minLen]⟩
  · exact ⟨_, h.ok.rows_eq hc⟩

theorem insertRaw_eq_spec' (cfg : Cfg) (t : Table) (d : InsertData) (hwf : insertRawWF cfg t d = true) :
    ∃ t' R, t.rows = .ok R ∧ t.insertRaw cfg d = .ok t' ∧ t'.columns = (insertS t.columns R d).1 ∧
      t'.rows = .ok (insertS t.columns R d).2 ∧ t'.indexes = t.indexes ∧ InsertOK t' (tableN t + d.size) ∧ PrefixOf t t' := by
  simp only [insertRawWF, Bool.and_eq_true] at hwf
  obtain ⟨h0, hd⟩ := hwf
  have hok := insertOKB_sound h0
  obtain ⟨R, hR⟩ := hok.rows_ok
  cases d with
  | rows rs =>
    simp only [Bool.and_eq_true, Bool.not_eq_true', decide_eq_true_eq, List.all_eq_true, beq_iff_eq] at hd
    obtain ⟨⟨⟨h1, h2⟩, h3⟩, h4⟩ := hd
    cases rs with
    | nil => simp at h1
    | cons r rs =>
      have hcne : t.columns ≠ [] := by intro e; simp [e] at h2
      obtain ⟨t', a, b, c, dd, ok', pf⟩ := insert_rows_spec' cfg t (tableN t) hok.ok hok.sel h3 hcne hok.keys r rs h4 R hR
      refine ⟨t', R, hR, a, by simp [insertS, c], by simpa [insertS] using b, dd, ?_, pf⟩
      refine ⟨ok', ?_, ?_, ?_⟩
      · -- insert of rows keeps sel/keys: read them off the computed table
        simp only [Table.insertRaw] at a
        have h1' : ¬ (r.length ≠ t.columns.length) := by simpa using h4 r (by simp)
        have h2' : ¬ ((rs.all (fun r' => r'.length == t.columns.length)) = false) := by
          simp only [Bool.not_eq_false, List.all_eq_true, beq_iff_eq]; exact fun x hx => h4 x (by simp [hx])
        simp only [h1', h2', if_false] at a
        cases a; exact hok.sel
      · simp only [Table.insertRaw] at a
        have h1' : ¬ (r.length ≠ t.columns.length) := by simpa using h4 r (by simp)
        have h2' : ¬ ((rs.all (fun r' => r'.length == t.columns.length)) = false) := by
          simp only [Bool.not_eq_false, List.all_eq_true, beq_iff_eq]; exact fun x hx => h4 x (by simp [hx])
        simp only [h1', h2', if_false] at a
        cases a
        intro p hp
        simp only [List.mem_map] at hp
        obtain ⟨q, hq, rfl⟩ := hp
        have := hok.keys q hq
        split <;> exact this
      · intro hd'
        exfalso
        obtain ⟨c0, hc0⟩ := List.exists_mem_of_ne_nil _ hcne
        obtain ⟨b0, hb0⟩ := ok'.cols c0 (by rw [c]; exact hc0)
        have := lookupCol_mem hb0
        rw [hd'] at this; simp at this
  | cols cs =>
    cases cs with
    | nil => simp at hd
    | cons q0 cs =>
      simp only [Bool.and_eq_true, Bool.not_eq_true', List.all_eq_true, beq_iff_eq] at hd
      obtain ⟨h1, h2⟩ := hd
      have hcne : t.columns ++ newColsOf t.columns ((q0 :: cs).map (·.1)) ≠ [] := by
        intro e; rw [e] at h2; simp at h2
      obtain ⟨t', a, b, c, dd, ok', pf⟩ := insert_mapping_rows' cfg t (tableN t) hok q0 cs h1 hcne R hR
      exact ⟨t', R, hR, a, by simpa [insertS] using b, by simpa [insertS] using c, dd, ok', pf⟩
  | dicts ds =>
    simp only [Bool.and_eq_true, Bool.not_eq_true', Bool.or_eq_true] at hd
    obtain ⟨⟨h1, h2⟩, h3⟩ := hd
    cases ds with
    | nil => simp at h1
    | cons d0 ds =>
      have hcne : t.columns ++ newColsOf t.columns ((d0 :: ds).flatMap (fun d => d.map (·.1))) ≠ [] := by
        intro e; rw [e] at h3; simp at h3
      have hpad : cfg.dictLen = true ∨ dictsToCols (d0 :: ds) ≠ [] := by
        rcases h2 with h2 | h2
        · exact Or.inl h2
        · right; intro e; rw [e] at h2; simp at h2
      obtain ⟨t', a, b, c, dd, ok', pf⟩ := insert_dicts_rows' cfg t (tableN t) hok d0 ds hpad hcne R hR
      exact ⟨t', R, hR, a, by simpa [insertS] using b, by simpa [insertS] using c, dd, ok', pf⟩

/-- `insertS` respects "equal up to `==`" -/
theorem insertS_congr (columns : List Nat) {R S : List (List Cell)} (h : List.Forall₂ KeyEq R S) (d : InsertData) :
    (insertS columns R d).1 = (insertS columns S d).1 ∧
    List.Forall₂ KeyEq (insertS columns R d).2 (insertS columns S d).2 := by
  have hrefl : ∀ l : List (List Cell), List.Forall₂ KeyEq l l := fun l => forall2_keyEq_iff.mpr rfl
  have hpad : ∀ (pad : List Cell), List.Forall₂ KeyEq (R.map (fun r => r ++ pad)) (S.map (fun r => r ++ pad)) := by
    intro pad
    induction h with
    | nil => exact List.Forall₂.nil
    | cons h1 _ ih =>
      refine List.Forall₂.cons ?_ ih
      simp only [KeyEq, List.map_append] at h1 ⊢
      rw [h1]
  have happ : ∀ {A B C D : List (List Cell)}, List.Forall₂ KeyEq A B → List.Forall₂ KeyEq C D → List.Forall₂ KeyEq (A ++ C) (B ++ D) := by
    intro A B C D h1 h2
    induction h1 with
    | nil => exact h2
    | cons x _ ih => exact List.Forall₂.cons x ih
  cases d with
  | rows rs => exact ⟨rfl, happ h (hrefl _)⟩
  | dicts ds =>
    simp only [insertS]
    split
    · exact ⟨rfl, h⟩
    · exact ⟨rfl, happ (hpad _) (hrefl _)⟩
  | cols cs =>
    cases cs with
    | nil => exact ⟨rfl, h⟩
    | cons q cs => exact ⟨rfl, happ (hpad _) (hrefl _)⟩


/-! ## the refinement theorem over linear histories -/

theorem abs_rows {t : Table} {R : List (List Cell)} (h : t.rows = .ok R) : t.abs.rows = R := by
  simp [Table.abs, h]

theorem indexWF_nodup {cfg : Cfg} {t : Table} {indx : List Nat} (hwf : indexWF cfg t indx = true) :
    (effIndex cfg t indx).Nodup := by
  unfold indexWF at hwf
  split at hwf
  · simp at hwf
  · simp only [Bool.and_eq_true, decide_eq_true_eq] at hwf
    exact hwf.1.1.2

theorem effIndex_eq_spec {cfg : Cfg} {t : Table} {indx : List Nat} (h : (effIndex cfg t indx).Nodup) :
    effIndex cfg t indx = dedupNat (indx.filter (fun c => t.columns.contains c)) := by
  unfold effIndex at h ⊢
  by_cases hd : cfg.dictLen = true <;> by_cases hx : cfg.dedupIdx = true
  all_goals simp only [hx] at h ⊢
  all_goals first | rfl | exact (dedupNat_of_nodup _ (by simpa using h)).symm

/-! ## `insert` keeps an indexed table in index order (P13 repair) -/

/-- lexicographic `<` of rows `i`, `j` over column lists -/
def lexLtC : List (List Cell) → Nat → Nat → Bool
  | [], _, _ => false
  | c :: rest, i, j =>
    if (cellAt c i).key.lt (cellAt c j).key then true
    else if (cellAt c j).key.lt (cellAt c i).key then false else lexLtC rest i j

/-- with comparable cells the row comparison never gives up, and says `le` exactly when row `j` is not
smaller than row `i` -/
theorem rowOrd_spec : ∀ (cols : List (List Cell)) (i j : Nat),
    (∀ c ∈ cols, (cellAt c i).key.comparable (cellAt c j).key = true) →
    rowOrd cols i j = (if lexLtC cols j i then Ord3.gt else Ord3.le)
  | [], _, _, _ => rfl
  | c :: rest, i, j, h => by
    have hc := h c (by simp)
    have hc' : (cellAt c j).key.comparable (cellAt c i).key = true := by rw [Key.comparable_symm]; exact hc
    simp only [rowOrd, pyLt, hc, hc', if_true, lexLtC]
    by_cases h1 : (cellAt c i).key.lt (cellAt c j).key = true
    · simp [h1, Key.lt_asymm _ _ h1]
    · simp only [Bool.not_eq_true] at h1
      simp only [h1]
      by_cases h2 : (cellAt c j).key.lt (cellAt c i).key = true
      · simp [h2]
      · simp only [Bool.not_eq_true] at h2
        simp only [h2, Bool.false_eq_true, if_false]
        exact rowOrd_spec rest i j (fun c' hc'' => h c' (by simp [hc'']))

theorem tailOrd_spec (cols : List (List Cell)) : ∀ (k i : Nat), 0 < i →
    (∀ x, i - 1 ≤ x → x < i + k → ∀ y, i - 1 ≤ y → y < i + k → ∀ c ∈ cols, (cellAt c x).key.comparable (cellAt c y).key = true) →
    (tailOrd cols k i = .le ∧ ∀ x, i ≤ x → x < i + k → lexLtC cols x (x - 1) = false) ∨
    (tailOrd cols k i = .gt ∧ ∃ x, i ≤ x ∧ x < i + k ∧ lexLtC cols x (x - 1) = true)
  | 0, i, _, _ => Or.inl ⟨rfl, fun x h1 h2 => by omega⟩
  | k + 1, i, hi, hc => by
    have hr := rowOrd_spec cols (i - 1) i (fun c hcm => hc (i - 1) (le_refl _) (by omega) i (by omega) (by omega) c hcm)
    simp only [tailOrd, hr]
    by_cases hlt : lexLtC cols i (i - 1) = true
    · simp only [hlt, if_true]
      exact Or.inr ⟨trivial, i, le_refl _, by omega, hlt⟩
    · simp only [hlt]
      simp only [Bool.not_eq_true] at hlt
      rcases tailOrd_spec cols k (i + 1) (by omega) (fun x h1 h2 y h3 h4 c hcm => hc x (by omega) (by omega) y (by omega) (by omega) c hcm)
        with ⟨e, hall⟩ | ⟨e, x, h1, h2, h3⟩
      · left
        refine ⟨e, fun x h1 h2 => ?_⟩
        by_cases hx : x = i
        · subst hx; exact hlt
        · exact hall x (by omega) (by omega)
      · right
        exact ⟨e, x, by omega, by omega, h3⟩

theorem lexLtC_eq_lexLtK (t : Table) : ∀ (ds : List Nat) (i j : Nat),
    lexLtC (ds.map t.vcol) i j = lexLtK (Kt t) ds i j
  | [], _, _ => rfl
  | d :: ds, i, j => by
    simp only [List.map_cons, lexLtC, lexLtK, Kt, lexLtC_eq_lexLtK t ds i j]
    rfl

/-- pairwise order of the first `N` rows and order of every adjacent pair from `N-1` on give pairwise order -/
theorem sorted_extend (K : Nat → Nat → Key) (ds : List Nat) (N M : Nat)
    (hold : ∀ i j, i < j → j < N → lexLtK K ds j i = false)
    (hadj : ∀ x, N ≤ x → x < M → 0 < x → lexLtK K ds x (x - 1) = false) :
    ∀ i j, i < j → j < M → lexLtK K ds j i = false := by
  intro i j
  induction j with
  | zero => intro h; omega
  | succ j ih =>
    intro hij hj
    by_cases hjN : j + 1 < N
    · exact hold i (j + 1) hij hjN
    · have hstep := hadj (j + 1) (by omega) hj (by omega)
      simp only [Nat.add_sub_cancel] at hstep
      by_cases hi : i = j
      · subst hi; exact hstep
      · exact lexLtK_le_trans K ds i j (j + 1) (ih (by omega) (by omega)) hstep


theorem sortBy_sorted_id {α : Type} (lt : α → α → Bool) : ∀ l : List α, l.Pairwise (fun a b => lt b a = false) → sortBy lt l = l
  | [], _ => rfl
  | x :: xs, h => by
    rw [List.pairwise_cons] at h
    simp only [sortBy, sortBy_sorted_id lt xs h.2]
    cases xs with
    | nil => rfl
    | cons y ys => simp [insertBy, h.1 y (by simp)]

theorem idxCellsOKB_sound {t : Table} {N : Nat} (h : idxCellsOKB t N = true) :
    (∀ d ∈ t.indexes, ∀ x y, x < t.m N → y < t.m N → (Kt t d x).comparable (Kt t d y) = true) ∧
    (∀ d ∈ t.indexes, ∀ x, x < t.m N → Kt t d x ≠ .none) := by
  simp only [idxCellsOKB, List.all_eq_true] at h
  constructor
  · intro d hd x y hx hy
    have := (allIn_iff _ _ _).mp (h d hd) x (Nat.zero_le _) hx
    simp only [Bool.and_eq_true] at this
    exact (allIn_iff _ _ _).mp this.2 y (Nat.zero_le _) hy
  · intro d hd x hx
    have := (allIn_iff _ _ _).mp (h d hd) x (Nat.zero_le _) hx
    simp only [Bool.and_eq_true] at this
    simpa using this.1

theorem mem_insertS_cols (columns : List Nat) (R : List (List Cell)) (d : InsertData) (c : Nat) (hc : c ∈ columns) :
    c ∈ (insertS columns R d).1 := by
  cases d with
  | rows rs => exact hc
  | dicts ds =>
    simp only [insertS]
    split
    · exact hc
    · simp only [insertDictsS]; exact List.mem_append_left _ hc
  | cols cs =>
    cases cs with
    | nil => exact hc
    | cons q cs => simp only [insertS, insertColsS]; exact List.mem_append_left _ hc

/-- rows of a table in terms of its columns: the lexicographic order of two rows -/
theorem lexLt_rowAt (t : Table) (hsel : t.sel = .all) (ds : List Nat) (hds : ∀ d ∈ ds, d ∈ t.columns) (i j : Nat) :
    lexLt (idxPositions t.columns ds) (t.rowAt j) (t.rowAt i) = lexLtK (Kt t) ds j i := by
  have := lexLt_rows_gen t (Kt t) (List.range (max i j + 1)) i j ds (by
    intro d hd
    refine ⟨hds d hd, ?_, ?_⟩
    · rw [getD_range _ i (by omega)]; rfl
    · rw [getD_range _ j (by omega)]; rfl) ds (fun d hd => hd)
  rw [getD_range _ i (by omega), getD_range _ j (by omega)] at this
  exact this


/-- equal keys in the leading columns: the last column decides -/
theorem lexLtC_append_const : ∀ (firsts : List (List Cell)) (last : List Cell) (i j : Nat),
    (∀ c ∈ firsts, (cellAt c i).key = (cellAt c j).key) →
    lexLtC (firsts ++ [last]) i j = (cellAt last i).key.lt (cellAt last j).key
  | [], last, i, j, _ => by
    simp only [List.nil_append, lexLtC]
    by_cases h : (cellAt last i).key.lt (cellAt last j).key = true
    · simp [h]
    · simp only [Bool.not_eq_true] at h
      simp [h]
  | c :: rest, last, i, j, h => by
    have hc := h c (by simp)
    simp only [List.cons_append, lexLtC, hc, Key.lt_irrefl, Bool.false_eq_true, if_false]
    exact lexLtC_append_const rest last i j (fun c' hc' => h c' (by simp [hc']))

theorem constFrom_keys {c : List Cell} {lo hi : Nat} (h : constFrom c lo hi = true) :
    ∀ x, lo ≤ x → x < hi → (cellAt c x).key = (cellAt c lo).key := by
  simp only [constFrom, Bool.and_eq_true, bne_iff_ne, ne_eq] at h
  obtain ⟨⟨⟨_, h1⟩, h2⟩, h3⟩ := h
  intro x hx1 hx2
  have := (allIn_iff _ _ _).mp h3 x hx1 hx2
  unfold pyEq at this
  revert this h1 h2
  generalize (cellAt c lo).key = a
  generalize (cellAt c x).key = b
  intro h1 h2 h3
  cases a <;> cases b <;> simp_all [pyEq]

/-- `_in_index_order` on cells that can be ordered never gives up; when it says "in order" no row
from `n_old` on is smaller than the row before it -/
theorem inIndexOrderOf_spec (cols : List (List Cell)) (nOld n : Nat)
    (hcmp : ∀ x, x < n → ∀ y, y < n → ∀ c ∈ cols, (cellAt c x).key.comparable (cellAt c y).key = true) :
    (inIndexOrderOf cols nOld n = .le ∧ ∀ x, nOld ≤ x → x < n → 0 < x → lexLtC cols x (x - 1) = false) ∨
    inIndexOrderOf cols nOld n = .gt := by
  unfold inIndexOrderOf
  -- the boundary pair
  have hb : ((if (0 < nOld && nOld < n) = true then rowOrd cols (nOld - 1) nOld else Ord3.le) = .le ∧
        (0 < nOld → nOld < n → lexLtC cols nOld (nOld - 1) = false)) ∨
      (if (0 < nOld && nOld < n) = true then rowOrd cols (nOld - 1) nOld else Ord3.le) = .gt := by
    by_cases hc : (0 < nOld && nOld < n) = true
    · simp only [hc, if_true]
      simp only [Bool.and_eq_true, decide_eq_true_eq] at hc
      rw [rowOrd_spec cols (nOld - 1) nOld (fun c hcm => hcmp _ (by omega) _ hc.2 c hcm)]
      by_cases hl : lexLtC cols nOld (nOld - 1) = true
      · right; simp [hl]
      · left; simp only [Bool.not_eq_true] at hl; simp [hl]
    · left
      simp only [hc]
      refine ⟨by simp, fun h1 h2 => ?_⟩
      exfalso; apply hc; simp [h1, h2]
  rcases hb with ⟨eb, hbd⟩ | eb
  swap
  · right; rw [eb]
  rw [eb]
  simp only
  cases hl : cols.getLast? with
  | none =>
    left
    have : cols = [] := by simpa using hl
    subst this
    exact ⟨rfl, fun _ _ _ _ => rfl⟩
  | some last =>
    simp only
    have hsplit : cols = cols.dropLast ++ [last] := by
      have hne : cols ≠ [] := by rintro rfl; simp at hl
      have := List.dropLast_append_getLast hne
      rw [List.getLast?_eq_getLast hne] at hl
      rw [← Option.some.inj hl]; exact this.symm
    by_cases hconst : (cols.dropLast.all fun c => constFrom c nOld n) = true
    · simp only [hconst, if_true]
      simp only [List.all_eq_true] at hconst
      -- `sorted(last)` does not raise
      have hac : allComparable ((List.range' nOld (n - nOld)).map (cellAt last)) = true := by
        apply allComparable_of
        intro a ha b hb'
        simp only [List.mem_map, List.mem_range'_1] at ha hb'
        obtain ⟨x, hx, rfl⟩ := ha
        obtain ⟨y, hy, rfl⟩ := hb'
        exact hcmp x (by omega) y (by omega) last (by rw [hsplit]; simp)
      simp only [sortedFrom, pySortedBy_ok _ _ hac]
      by_cases hid : sortBy (ltBy (cellAt last)) (List.range' nOld (n - nOld)) = List.range' nOld (n - nOld)
      · left
        simp only [hid, if_true, true_and]
        have hs := sortBy_sorted (ltBy (cellAt last)) (ltBy_swo (cellAt last)) (List.range' nOld (n - nOld))
        rw [hid] at hs
        unfold SortedBy at hs
        intro x h1 h2 h3
        by_cases hx : x = nOld
        · subst hx; exact hbd h3 h2
        · -- both rows are new
          rw [hsplit, lexLtC_append_const _ _ _ _ (fun c hc => by
            rw [constFrom_keys (hconst c hc) x h1 h2, constFrom_keys (hconst c hc) (x - 1) (by omega) (by omega)])]
          rw [List.pairwise_iff_getElem] at hs
          have := hs (x - 1 - nOld) (x - nOld) (by rw [List.length_range']; omega) (by rw [List.length_range']; omega) (by omega)
          simp only [List.getElem_range'] at this
          have e1 : nOld + 1 * (x - 1 - nOld) = x - 1 := by omega
          have e2 : nOld + 1 * (x - nOld) = x := by omega
          rw [e1, e2] at this
          exact this
      · right
        simp [hid]
    · simp only [hconst]
      by_cases hk : n ≤ nOld
      · left
        have hz : n - (nOld + 1) = 0 := by omega
        rw [hz]
        exact ⟨by simp [tailOrd], fun x h1 h2 _ => by omega⟩
      · have hcmp' : ∀ x, nOld + 1 - 1 ≤ x → x < nOld + 1 + (n - (nOld + 1)) → ∀ y, nOld + 1 - 1 ≤ y → y < nOld + 1 + (n - (nOld + 1)) →
            ∀ c ∈ cols, (cellAt c x).key.comparable (cellAt c y).key = true := by
          intro x _ h2 y _ h4 c hc
          have hx : x < n := by omega
          have hy : y < n := by omega
          exact hcmp x hx y hy c hc
        rcases tailOrd_spec cols (n - (nOld + 1)) (nOld + 1) (by omega) hcmp' with ⟨e, hall⟩ | ⟨e, _⟩
        · left
          refine ⟨by simpa using e, ?_⟩
          intro x h1 h2 h3
          by_cases hx : x = nOld
          · subst hx; exact hbd h3 h2
          · exact hall x (by omega) (by omega)
        · right; simpa using e

/-- the second half of the repaired `insert`: what happens to the table `t'` the rows were appended to -/
theorem keep_order (cfg : Cfg) (t t' : Table) (N N' : Nat) (hNN : N ≤ N')
    (hok : InsertOK t N) (hix : Indexed t N) (hne : t.indexes ≠ []) (hsub : ∀ c ∈ t.indexes, c ∈ t.columns)
    (hok' : InsertOK t' N') (hpre : PrefixOf t t') (hidx : t'.indexes = t.indexes) (hcols : ∀ c ∈ t.columns, c ∈ t'.columns)
    (hcells : idxCellsOKB t' N' = true) (R' : List (List Cell)) (hR' : t'.rows = .ok R') :
    ∃ t'', (match t'.inIndexOrder N with
        | .le => Except.ok t'
        | .cannot => .ok { t' with indexes := [] }
        | .gt =>
          match Table.index cfg { t' with indexes := [] } t'.indexes with
          | .ok t'' => .ok t''
          | .error .typeError => .ok { t' with indexes := [] }
          | .error e => .error e) = .ok t'' ∧
      t''.columns = t'.columns ∧ t''.indexes = t.indexes ∧ InsertOK t'' N' ∧ Indexed t'' N' ∧
      ∃ R'', t''.rows = .ok R'' ∧
        R''.map (List.map Cell.key) = (indexS (idxPositions t'.columns t.indexes) R').map (List.map Cell.key) := by
  have hm : t.m N = N := by simp [Table.m, hok.sel, Sel.idx]
  have hm' : t'.m N' = N' := by simp [Table.m, hok'.sel, Sel.idx]
  obtain ⟨hcmp, hnn⟩ := idxCellsOKB_sound hcells
  rw [hm', hidx] at hcmp hnn
  -- the old part of every index column is unchanged
  have hKpre : ∀ d ∈ t.indexes, ∀ x, x < N → Kt t' d x = Kt t d x := by
    intro d hd x hx
    obtain ⟨b, y, e1, e2⟩ := hpre d (hsub d hd)
    have hbl : b.length = N := hok.ok.len _ (lookupCol_mem e1)
    simp only [Kt, vcol_all t hok.sel, vcol_all t' hok'.sel, Table.base, e1, e2]
    rw [cellAt_append_left b y x (by omega)]
  have hstored' : ∀ d ∈ t.indexes, ∃ b, lookupCol t'.data d = .ok b := by
    intro d hd
    obtain ⟨b, y, _, e2⟩ := hpre d (hsub d hd)
    exact ⟨_, e2⟩
  have hdne : t'.data ≠ [] := by
    obtain ⟨d, hd⟩ := List.exists_mem_of_ne_nil _ hne
    obtain ⟨b, hb⟩ := hstored' d hd
    exact List.ne_nil_of_mem (lookupCol_mem hb)
  have hlen' : t'.len = .ok N' := hok'.len_eq
  have hR'e := hok'.rows_eq R' hR'
  have hcne' : t'.columns ≠ [] := by
    obtain ⟨d, hd⟩ := List.exists_mem_of_ne_nil _ hne
    exact List.ne_nil_of_mem (hcols d (hsub d hd))
  -- the columns `_in_index_order` looks at
  have hio : t'.inIndexOrder N = inIndexOrderOf (t.indexes.map t'.vcol) N N' := by
    unfold Table.inIndexOrder
    rw [hlen', hidx]
    simp only
    congr 1
    apply List.map_congr_left
    intro c _
    rw [vcol_all t' hok'.sel]; rfl
  have hold : ∀ i j, i < j → j < N → lexLtK (Kt t') t.indexes j i = false := by
    intro i j hij hj
    rw [lexLtK_congr (Kt t') (Kt t) t.indexes j i j i (fun d hd => ⟨hKpre d hd j hj, hKpre d hd i (by omega)⟩)]
    have := hix.sorted i j hij (by rw [hm]; exact hj)
    exact this
  have hindexed_of_sorted : (∀ i j, i < j → j < N' → lexLtK (Kt t') t.indexes j i = false) → Indexed t' N' := by
    intro hs
    refine ⟨by rw [hidx]; exact hix.nodup, by rw [hidx]; exact hstored', ?_, ?_, ?_⟩
    · intro i j hij hj; rw [hm'] at hj; rw [hidx]; exact hs i j hij hj
    · intro d hd x y hx hy; rw [hm'] at hx hy; rw [hidx] at hd; exact hcmp d hd x y hx hy
    · intro d hd x hx; rw [hm'] at hx; rw [hidx] at hd; exact hnn d hd x hx
  have hrowsK : ∀ i j, i < N' → j < N' → lexLt (idxPositions t'.columns t.indexes) (R'.getD j []) (R'.getD i [])
      = lexLtK (Kt t') t.indexes j i := by
    intro i j hi hj
    rw [hR'e]
    simp only [List.getD, List.getElem?_map, List.getElem?_range hi, List.getElem?_range hj, Option.map_some, Option.getD_some]
    exact lexLt_rowAt t' hok'.sel t.indexes (fun d hd => hcols d (hsub d hd)) i j
  rw [hio]
  -- the outcome of the look at the new rows
  rcases inIndexOrderOf_spec (t.indexes.map t'.vcol) N N' (by
      intro x hx y hy c hc
      rw [List.mem_map] at hc
      obtain ⟨d, hd, rfl⟩ := hc
      exact hcmp d hd x y hx hy) with ⟨e, hall⟩ | e
  · rw [e]
    simp only
    have hs : ∀ i j, i < j → j < N' → lexLtK (Kt t') t.indexes j i = false :=
      sorted_extend (Kt t') t.indexes N N' hold (fun x h1 h2 h3 => by
        rw [← lexLtC_eq_lexLtK]; exact hall x h1 h2 h3)
    refine ⟨t', rfl, rfl, hidx, hok', hindexed_of_sorted hs, R', hR', ?_⟩
    rw [indexS, sortBy_sorted_id]
    rw [List.pairwise_iff_getElem]
    intro i j hi hj hij
    have hl : R'.length = N' := by rw [hR'e]; simp
    have := hrowsK i j (by omega) (by omega)
    simp only [List.getD, List.getElem?_eq_getElem hi, List.getElem?_eq_getElem hj, Option.getD_some] at this
    rw [this]; exact hs i j hij (by omega)
  · skip
    · -- out of order: sorted again by `index`
      rw [e]
      simp only
      have hok0 : Table.OK { t' with indexes := [] } N' := ⟨hok'.ok.len, hok'.ok.cols, hok'.ok.sel⟩
      have heff : effIndex cfg { t' with indexes := [] } t'.indexes = t.indexes := by
        rw [hidx]
        have hf : t.indexes.filter (fun c => t'.columns.contains c) = t.indexes := by
          apply List.filter_eq_self.mpr
          intro c hc; simpa using hcols c (hsub c hc)
        simp only [effIndex, hf]
        split
        · exact dedupNat_of_nodup _ hix.nodup
        · rfl
      have hidxne : t'.indexes ≠ [] := by rw [hidx]; exact hne
      have hicol : ∀ d ∈ effIndex cfg { t' with indexes := [] } t'.indexes,
          d ∈ Table.columns { t' with indexes := [] } ∧ IdxColOK { t' with indexes := [] } N' d := by
        intro d hd
        rw [heff] at hd
        obtain ⟨b, hb⟩ := hstored' d hd
        refine ⟨hcols d (hsub d hd), ⟨⟨b, hb, hok'.ok.len _ (lookupCol_mem hb)⟩, ?_, ?_⟩⟩
        · intro x y hx hy
          have := hcmp d hd x y hx hy
          simpa [K0, Kt, vcol_all t' hok'.sel, Table.base] using this
        · intro x hx
          have := hnn d hd x hx
          simpa [K0, Kt, vcol_all t' hok'.sel, Table.base] using this
      obtain ⟨t1, e1, _, hi1⟩ := index_indexed cfg { t' with indexes := [] } N' hok0 hok'.sel t'.indexes hidxne hdne
        (by rw [heff]; exact hix.nodup) (by rw [heff]; exact fun h => hne h.symm) (fun d hd => (hicol d hd).2)
      obtain ⟨t2, perm, R0, R2, e2, hR0, hR2, c1, c2, _, _, _, _, _, _, _, c13⟩ :=
        index_rows_spec cfg { t' with indexes := [] } N' hok0 hok'.sel t'.indexes hidxne hcne'
          (by rw [heff]; exact hix.nodup) (by rw [heff]; exact fun h => hne h.symm) hicol
      have ht : t1 = t2 := by rw [e1] at e2; exact Except.ok.inj e2
      subst ht
      have hR0' : R0 = R' := by
        have : Table.rows { t' with indexes := [] } = t'.rows := rfl
        rw [this, hR'] at hR0; exact (Except.ok.inj hR0).symm
      subst hR0'
      obtain ⟨t3, _, e3, _, hc3, _, hsel1, hok1, _, _, _, hkeys3⟩ := index_data_spec cfg { t' with indexes := [] } N' hok0 hok'.sel t'.indexes hidxne hdne
        (by rw [heff]; exact hix.nodup) (by rw [heff]; exact fun h => hne h.symm) (fun d hd => (hicol d hd).2)
      have ht3 : t1 = t3 := by rw [e1] at e3; exact Except.ok.inj e3
      subst ht3
      have hio1 : InsertOK t1 N' := by
        refine ⟨hok1, hsel1, ?_, ?_⟩
        · intro p hp
          have : p.1 ∈ t1.data.map (·.1) := List.mem_map_of_mem hp
          rw [hkeys3, List.mem_map] at this
          obtain ⟨q, hq, hqe⟩ := this
          rw [hc3, ← hqe]
          exact hok'.keys q hq
        · intro h0
          exfalso
          have : t1.data.map (·.1) = [] := by rw [h0]; rfl
          rw [hkeys3] at this
          exact hdne (List.map_eq_nil_iff.mp this)
      refine ⟨t1, by rw [e1], c1, by rw [c2, heff], hio1, hi1, R2, hR2, ?_⟩
      rw [c13, heff]


theorem InsertOK.tableN_eq {t : Table} {N : Nat} (h : InsertOK t N) : tableN t = N := by
  cases hd : t.data with
  | nil => simp [tableN, hd, h.empty hd]
  | cons q rest =>
    obtain ⟨c, b⟩ := q
    simp only [tableN, hd]
    exact h.ok.len (c, b) (by rw [hd]; simp)

theorem insertRawWF_nonempty {cfg : Cfg} {t : Table} {d : InsertData} (h : insertRawWF cfg t d = true) : d.isEmpty = false := by
  simp only [insertRawWF, Bool.and_eq_true] at h
  obtain ⟨_, h⟩ := h
  cases d with
  | rows rs => simp only [Bool.and_eq_true, Bool.not_eq_true'] at h; exact h.1.1.1
  | dicts ds => simp only [Bool.and_eq_true, Bool.not_eq_true'] at h; exact h.1.1
  | cols cs =>
    cases cs with
    | nil => simp at h
    | cons q r => rfl

/-- **insert** (all three shapes, indexed or not): the normalised rows are appended, and a table that
was in index order is in index order afterwards -/
theorem insert_eq_spec' (cfg : Cfg) (t : Table) (d : InsertData) (hwf : insertWF cfg t d = true) :
    ∃ t' R R', t.rows = .ok R ∧ t.insert cfg d = .ok t' ∧ t'.columns = (insertSpec cfg t.columns t.indexes R d).1 ∧
      t'.rows = .ok R' ∧ R'.map (List.map Cell.key) = (insertSpec cfg t.columns t.indexes R d).2.map (List.map Cell.key) ∧
      t'.indexes = t.indexes ∧ InsertOK t' (tableN t + d.size) ∧
      (cfg.resortInsert = true → t.indexes ≠ [] → Indexed t' (tableN t + d.size)) ∧
      ((cfg.resortInsert = false ∨ t.indexes = []) → R' = (insertS t.columns R d).2) := by
  simp only [insertWF, Bool.and_eq_true] at hwf
  obtain ⟨hraw, hrest⟩ := hwf
  have hne := insertRawWF_nonempty hraw
  obtain ⟨t', R, hR, e, c1, c2, c3, hok', hpre⟩ := insertRaw_eq_spec' cfg t d hraw
  have hok : InsertOK t (tableN t) := by
    simp only [insertRawWF, Bool.and_eq_true] at hraw
    exact insertOKB_sound hraw.1
  by_cases hcond : (cfg.resortInsert && !d.isEmpty && !t'.indexes.isEmpty) = true
  · -- the repaired code looks at the new rows
    simp only [hne, Bool.not_false, Bool.and_true, Bool.and_eq_true, Bool.not_eq_true', c3] at hcond
    obtain ⟨hfix, hie⟩ := hcond
    have hine : t.indexes ≠ [] := by intro h; simp [h] at hie
    have hc2 : (cfg.resortInsert && !t.indexes.isEmpty) = true := by simp [hfix, hie]
    simp only [hc2, Bool.not_true, Bool.false_or, Bool.and_eq_true, List.all_eq_true] at hrest
    obtain ⟨⟨hsub, hixb⟩, hcells⟩ := hrest
    rw [e] at hcells
    simp only [hok'.tableN_eq] at hcells
    have hix := indexedB_sound hixb
    have hsub' : ∀ c ∈ t.indexes, c ∈ t.columns := fun c hc => by simpa using hsub c hc
    have hcols : ∀ c ∈ t.columns, c ∈ t'.columns := by
      intro c hc
      obtain ⟨b, x, _, e2⟩ := hpre c hc
      exact hok'.keys _ (lookupCol_mem e2)
    obtain ⟨t'', e2, d1, d2, d3, d4, R'', d5, d6⟩ := keep_order cfg t t' (tableN t) (tableN t + d.size) (by omega)
      hok hix hine hsub' hok' hpre c3 hcols hcells _ c2
    have hspec : insertSpec cfg t.columns t.indexes R d =
        ((insertS t.columns R d).1, indexS (idxPositions (insertS t.columns R d).1 t.indexes) (insertS t.columns R d).2) := by
      simp [insertSpec, hfix, hne, hie]
    refine ⟨t'', R, R'', hR, ?_, ?_, d5, ?_, d2, d3, fun _ _ => d4, ?_⟩
    · simp only [Table.insert, e, hfix, hne, c3, hie, Bool.not_false, Bool.and_true, if_true, hok.len_eq]
      rw [c3] at e2; exact e2
    · rw [hspec, d1, c1]
    · rw [hspec, d6, c1]
    · rintro (h | h)
      · rw [hfix] at h; exact absurd h (by simp)
      · exact absurd h hine
  · have hspec : insertSpec cfg t.columns t.indexes R d = insertS t.columns R d := by
      simp only [c3] at hcond
      simp only [insertSpec, hcond]; rfl
    refine ⟨t', R, _, hR, ?_, by rw [hspec, c1], c2, by rw [hspec], c3, hok', ?_, fun _ => rfl⟩
    · simp only [Table.insert, e, hcond]; rfl
    · intro h1 h2
      exfalso; apply hcond
      simp only [h1, hne, c3]
      cases hh : t.indexes with
      | nil => exact absurd hh h2
      | cons _ _ => rfl


theorem insertSpec_congr (cfg : Cfg) (columns indexes : List Nat) {R S : List (List Cell)} (h : List.Forall₂ KeyEq R S) (d : InsertData) :
    (insertSpec cfg columns indexes R d).1 = (insertSpec cfg columns indexes S d).1 ∧
    List.Forall₂ KeyEq (insertSpec cfg columns indexes R d).2 (insertSpec cfg columns indexes S d).2 := by
  have hcg := insertS_congr columns h d
  simp only [insertSpec]
  split
  · refine ⟨hcg.1, ?_⟩
    simp only [hcg.1]
    exact indexS_congr _ hcg.2
  · exact hcg

/-- one operation: the code's table and the specification's stay equal up to `==` -/
theorem stepL_refines (cfg : Cfg) (t : Table) (a : AbsT) (op : LOp) (hwf : opWF cfg t op = true)
    (hrel : AbsT.eqv t.abs a) :
    ∃ t' a', stepL cfg t op = .ok t' ∧ stepLS cfg a op = .ok a' ∧ AbsT.eqv t'.abs a' := by
  obtain ⟨hc, hi, hr⟩ := hrel
  simp only [Table.abs] at hc hi
  cases op with
  | copy => exact ⟨t, a, rfl, rfl, hc, hi, hr⟩
  | insert d =>
    obtain ⟨t', R, R', hR, e, c1, c2, c2', c3, _⟩ := insert_eq_spec' cfg t d hwf
    rw [abs_rows hR] at hr
    have hcg := insertSpec_congr cfg t.columns t.indexes (forall2_keyEq_iff.mpr hr) d
    refine ⟨t', _, e, rfl, ?_, ?_, ?_⟩
    · simp only [Table.abs, c1, ← hc, ← hi]; exact hcg.1
    · simp only [Table.abs, c3]; exact hi
    · simp only [abs_rows c2, ← hc, ← hi, c2']; exact forall2_keyEq_iff.mp hcg.2
  | index cols =>
    simp only [opWF] at hwf
    obtain ⟨t', perm, R, R', e, hR, hR', c1, c2, _, _, _, _, _, _, c13⟩ := index_spec' cfg t cols hwf
    rw [abs_rows hR] at hr
    have hix := effIndex_eq_spec (indexWF_nodup hwf)
    refine ⟨t', _, e, rfl, ?_, ?_, ?_⟩
    · simp only [Table.abs, c1]; exact hc
    · simp only [Table.abs, c2, ← hc]; exact hix
    · simp only [abs_rows hR', ← hc, ← hix, c13]
      exact forall2_keyEq_iff.mp (indexS_congr _ (forall2_keyEq_iff.mpr hr))
  | whereK pos kws =>
    simp only [opWF, Bool.and_eq_true] at hwf
    obtain ⟨h1, h2⟩ := hwf
    cases hR : t.rows with
    | error e => simp [hR] at h2
    | ok R =>
      simp only [hR] at h2
      obtain ⟨rs, hrs⟩ := (isOk_iff _).mp h2
      obtain ⟨t', e, c1, c2, c3⟩ := where_eq_spec' cfg t pos kws R rs h1 hR hrs
      rw [abs_rows hR] at hr
      simp only [whereS] at hrs
      rcases filterRows_congr (fun r => satRow t.columns r (kws.map (condOf pos))) (fun r => satRow t.columns r (kws.map (condOf pos)))
        (forall2_keyEq_iff.mpr hr) (fun r s hrs' => satRow_congr t.columns hrs' _) with ⟨e', e1, _⟩ | ⟨rs1, ss, e1, e2, hf⟩
      · rw [hrs] at e1; exact absurd e1 (by simp)
      · rw [hrs] at e1
        have : rs1 = rs := (Except.ok.inj e1).symm
        subst this
        refine ⟨t', { a with rows := ss }, e, ?_, ?_, ?_, ?_⟩
        · simp only [stepLS, whereS, ← hc, e2]
        · simp only [Table.abs, c2]; exact hc
        · simp only [Table.abs, c3]; exact hi
        · simp only [abs_rows c1]; exact forall2_keyEq_iff.mp hf
  | whereP p =>
    simp only [opWF, Bool.and_eq_true, Bool.not_eq_true'] at hwf
    obtain ⟨h1, h2⟩ := hwf
    have hcne : t.columns ≠ [] := by intro e; simp [e] at h2
    cases hd : t.data with
    | nil => simp [hd] at h1
    | cons q rest =>
      obtain ⟨c0, b⟩ := q
      simp only [hd] at h1
      have hok := tableOKB_sound h1
      have hR := hok.rows_eq hcne
      obtain ⟨t', e, c1, c2, c3, _⟩ := where_pred_eq_spec' cfg t b.length hok hcne p Option.none [] _ hR
      rw [abs_rows hR] at hr
      refine ⟨t', { a with rows := a.rows.filter p.eval }, e, rfl, ?_, ?_, ?_⟩
      · simp only [Table.abs, c2]; exact hc
      · simp only [Table.abs, c3]; exact hi
      · simp only [abs_rows c1]
        exact forall2_keyEq_iff.mp (filter_congr _ _ (forall2_keyEq_iff.mpr hr) (fun r s h => rowPred_congr h p))

/-- **refinement over arbitrary linear histories** -/
theorem ops_refine' (cfg : Cfg) : ∀ (ops : List LOp) (t : Table) (a : AbsT), WFL cfg t ops = true → AbsT.eqv t.abs a →
    ∃ t' a', runL cfg t ops = .ok t' ∧ runLS cfg a ops = .ok a' ∧ AbsT.eqv t'.abs a'
  | [], t, a, _, hrel => ⟨t, a, rfl, rfl, hrel⟩
  | op :: rest, t, a, hwf, hrel => by
    simp only [WFL, Bool.and_eq_true] at hwf
    obtain ⟨h1, h2⟩ := hwf
    obtain ⟨t1, a1, e1, e2, hrel1⟩ := stepL_refines cfg t a op h1 hrel
    simp only [e1] at h2
    obtain ⟨t', a', e3, e4, hrel'⟩ := ops_refine' cfg rest t1 a1 h2 hrel1
    exact ⟨t', a', by simp only [runL, e1, e3], by simp only [runLS, e2, e4], hrel'⟩




/-! ## The invariant of the repaired table: the rows are in index order -/

/-- well-formed, the index columns are columns, and the rows the table shows are in index order
(`Indexed`; nothing to ask when there is no index) -/
structure Inv (t : Table) : Prop where
  ok : t.OK (tableN t)
  sub : ∀ c ∈ t.indexes, c ∈ t.columns
  idx : Indexed t (tableN t)

theorem indexed_nil (t : Table) (N : Nat) (h : t.indexes = []) : Indexed t N := by
  refine ⟨by rw [h]; exact List.nodup_nil, ?_, ?_, ?_, ?_⟩
  · intro d hd; rw [h] at hd; simp at hd
  · intro i j _ _; rw [h]; rfl
  · intro d hd; rw [h] at hd; simp at hd
  · intro d hd; rw [h] at hd; simp at hd

theorem indexedB_complete {t : Table} {N : Nat} (h : Indexed t N) : indexedB t N = true := by
  simp only [indexedB, Bool.and_eq_true, decide_eq_true_eq, List.all_eq_true]
  refine ⟨⟨⟨h.nodup, fun d hd => (isOk_iff _).mpr (h.stored d hd)⟩, ?_⟩, ?_⟩
  · rw [allIn_iff]
    intro j _ hj
    rw [allIn_iff]
    intro i _ hi
    by_cases hij : i < j
    · simp [hij, h.sorted i j hij hj]
    · simp [hij]
  · intro d hd
    rw [allIn_iff]
    intro x _ hx
    simp only [Bool.and_eq_true]
    refine ⟨by simpa using h.nn d hd x hx, ?_⟩
    rw [allIn_iff]
    intro y _ hy
    exact h.cmp d hd x y hx hy

theorem invB_sound {t : Table} (h : invB t = true) : Inv t := by
  simp only [invB, Bool.and_eq_true, List.all_eq_true] at h
  exact ⟨tableOKB_sound h.1.1, fun c hc => by simpa using h.1.2 c hc, indexedB_sound h.2⟩

/-- a table without index satisfies the invariant -/
theorem inv_of_no_index (t : Table) (hok : t.OK (tableN t)) (h : t.indexes = []) : Inv t :=
  ⟨hok, fun c hc => by rw [h] at hc; simp at hc, indexed_nil t _ h⟩

theorem Table.OK.tableN_eq {t : Table} {N : Nat} (h : t.OK N) (hne : t.data ≠ []) : tableN t = N := by
  cases hd : t.data with
  | nil => exact absurd hd hne
  | cons q rest =>
    obtain ⟨c, b⟩ := q
    simp only [tableN, hd]
    exact h.len (c, b) (by rw [hd]; simp)

theorem kwOKIdxB_sound {cfg : Cfg} {t : Table} {m : Nat} {pos : Option Op}
    {kw : Nat × Arg} (h : kwOKIdxB cfg t m pos kw = true) : KwOKIdx cfg t m pos kw := by
  simp only [kwOKIdxB, Bool.and_eq_true] at h
  obtain ⟨⟨h1, h2⟩, h3⟩ := h
  refine ⟨by simpa using h1, ?_, ?_, ?_, ?_⟩
  · intro a ha
    rw [ha] at h2
    simpa using h2
  · intro op a hc
    rw [hc] at h3
    simp only [Bool.and_eq_true] at h3
    exact h3.1
  · intro hidx op a hc
    rw [hc] at h3
    have hcon : t.indexes.contains kw.1 = true := by simpa using hidx
    simp only [Bool.and_eq_true, hcon, if_true, Bool.or_eq_true, List.all_eq_true, decide_eq_true_eq] at h3
    obtain ⟨_, ⟨⟨⟨⟨a1, a2⟩, a3⟩, a4⟩, a5⟩, a6⟩ := h3
    refine ⟨a1, fun v hv => by simpa using a2 v hv, ?_, a4, ?_, ?_⟩
    · intro v hv i hi
      exact (allIn_iff _ _ _).mp (a3 v hv) i (Nat.zero_le _) hi
    · intro hop
      subst hop
      rcases a5 with (a5 | a5) | a5
      · simp at a5
      · exact Or.inl a5
      · exact Or.inr (distinctKeysB_sound a5)
    · intro hop v hv
      rcases a6 with a6 | a6
      · rcases hop with rfl | rfl | rfl | rfl <;> simp at a6
      · simpa using a6 v hv
  · intro hidx op a hc
    rw [hc] at h3
    have hcon : t.indexes.contains kw.1 = false := by simpa using hidx
    simp only [Bool.and_eq_true, hcon] at h3
    exact leGeOKB_sound h3.2

/-- on a table that satisfies the invariant the data-only side conditions of `insert` are enough -/
theorem insertWF_of_inv (cfg : Cfg) (t : Table) (d : InsertData) (hinv : Inv t) (h : insertOK cfg t d = true) :
    insertWF cfg t d = true := by
  simp only [insertOK, Bool.and_eq_true, Bool.or_eq_true] at h
  obtain ⟨h1, h2⟩ := h
  simp only [insertWF, h1, Bool.true_and]
  by_cases hie : t.indexes.isEmpty = true
  · simp [hie]
  · rcases h2 with h2 | h2
    · exact absurd h2 hie
    · simp only [Bool.or_eq_true, Bool.and_eq_true]
      right
      exact ⟨⟨List.all_eq_true.mpr (fun c hc => by simpa using hinv.sub c hc), indexedB_complete hinv.idx⟩, h2⟩

/-- **insert keeps the invariant** (repaired code) -/
theorem inv_insert (cfg : Cfg) (hfix : cfg.resortInsert = true) (t : Table) (d : InsertData) (hinv : Inv t)
    (h : insertOK cfg t d = true) : ∃ t', t.insert cfg d = .ok t' ∧ Inv t' := by
  obtain ⟨t', R, R', hR, e, c1, c2, c2', c3, hok', hix', _⟩ := insert_eq_spec' cfg t d (insertWF_of_inv cfg t d hinv h)
  refine ⟨t', e, ?_⟩
  have hN := hok'.tableN_eq
  refine ⟨by rw [hN]; exact hok'.ok, ?_, ?_⟩
  · intro c hc
    rw [c3] at hc
    rw [c1]
    have : (insertSpec cfg t.columns t.indexes R d).1 = (insertS t.columns R d).1 := by
      simp only [insertSpec]; split <;> rfl
    rw [this]
    exact mem_insertS_cols _ _ _ _ (hinv.sub c hc)
  · rw [hN]
    by_cases hie : t.indexes = []
    · exact indexed_nil _ _ (by rw [c3]; exact hie)
    · exact hix' hfix hie


/-- **index keeps / establishes the invariant**, and is the stable sort of the rows - also when the
named columns are the current index (the call returns at once: the rows are in that order already) -/
theorem index_step (cfg : Cfg) (t : Table) (cols : List Nat) (hinv : Inv t) (h : indexOK cfg t cols = true) :
    ∃ t' R R', t.index cfg cols = .ok t' ∧ t.rows = .ok R ∧ t'.rows = .ok R' ∧ t'.columns = t.columns ∧
      t'.indexes = effIndex cfg t cols ∧ (effIndex cfg t cols).Nodup ∧
      R'.map (List.map Cell.key) = (indexS (idxPositions t.columns (effIndex cfg t cols)) R).map (List.map Cell.key) ∧
      Inv t' := by
  unfold indexOK at h
  split at h
  · simp at h
  · rename_i c0 b rest hd
    simp only [Bool.and_eq_true, decide_eq_true_eq, Bool.not_eq_true', List.all_eq_true] at h
    obtain ⟨⟨⟨⟨⟨h1, h2⟩, h3⟩, h4⟩, h5⟩, h7⟩ := h
    have hok := tableOKB_sound h2
    have hne : cols ≠ [] := by intro e; simp [e] at h3
    have hcne : t.columns ≠ [] := by intro e; simp [e] at h4
    have hdne : t.data ≠ [] := by rw [hd]; simp
    have hN : tableN t = b.length := by simp [tableN, hd]
    have hm : t.m b.length = b.length := by simp [Table.m, h1, Sel.idx]
    by_cases hsame : t.indexes = effIndex cfg t cols
    · -- nothing to do
      have hR := hok.rows_eq hcne
      rw [hm] at hR
      refine ⟨t, _, _, ?_, hR, hR, rfl, hsame, h5, ?_, hinv⟩
      · simp only [Table.index, hsame, if_true]
        split
        · rfl
        · split <;> rfl
      · rw [indexS, sortBy_sorted_id]
        rw [List.pairwise_iff_getElem]
        intro i j hi hj hij
        simp only [List.length_map, List.length_range] at hi hj
        simp only [List.getElem_map, List.getElem_range]
        rw [lexLt_rowAt t h1 _ (fun d hd' => by rw [← hsame] at hd'; exact hinv.sub d hd') i j, ← hsame]
        have := hinv.idx.sorted i j hij (by rw [hN, hm]; exact hj)
        exact this
    · have hwf : indexWF cfg t cols = true := by
        unfold indexWF
        split
        · rename_i h0; simp [hd] at h0
        rename_i c1 b1 r1 hd1
        rw [hd] at hd1
        cases hd1
        simp only [Bool.and_eq_true, decide_eq_true_eq, Bool.not_eq_true', List.all_eq_true]
        exact ⟨⟨⟨⟨⟨⟨h1, h2⟩, h3⟩, h4⟩, h5⟩, hsame⟩, h7⟩
      obtain ⟨t', perm, R, R', a1, a2, a3, a4, a5, _, _, _, _, _, _, a13⟩ := index_spec' cfg t cols hwf
      have hcolsok : ∀ d ∈ effIndex cfg t cols, IdxColOK t b.length d := by
        intro d hd'
        obtain ⟨⟨c1, c2⟩, c3⟩ := h7 d hd'
        obtain ⟨bd, hbd⟩ := (isOk_iff _).mp c2
        refine ⟨⟨bd, hbd, hok.len _ (lookupCol_mem hbd)⟩, ?_, ?_⟩
        · intro x y hx hy
          have := (allIn_iff _ _ _).mp c3 x (Nat.zero_le _) hx
          simp only [Bool.and_eq_true] at this
          exact (allIn_iff _ _ _).mp this.2 y (Nat.zero_le _) hy
        · intro x hx
          have := (allIn_iff _ _ _).mp c3 x (Nat.zero_le _) hx
          simp only [Bool.and_eq_true] at this
          simpa [K0] using this.1
      obtain ⟨t1, e1, hok1, hix1⟩ := index_indexed cfg t b.length hok h1 cols hne hdne h5 hsame hcolsok
      obtain ⟨t2, _, e2, _, _, _, _, _, _, _, _, hkeys⟩ := index_data_spec cfg t b.length hok h1 cols hne hdne h5 hsame hcolsok
      have ht1 : t1 = t' := by rw [a1] at e1; exact (Except.ok.inj e1).symm
      have ht2 : t2 = t' := by rw [a1] at e2; exact (Except.ok.inj e2).symm
      rw [ht1] at hok1 hix1
      rw [ht2] at hkeys
      have hdne' : t'.data ≠ [] := by
        intro h0
        have : t'.data.map (·.1) = [] := by rw [h0]; rfl
        rw [hkeys] at this
        exact hdne (List.map_eq_nil_iff.mp this)
      have hN' := hok1.tableN_eq hdne'
      refine ⟨t', R, R', a1, a2, a3, a4, a5, h5, a13, ⟨by rw [hN']; exact hok1, ?_, by rw [hN']; exact hix1⟩⟩
      intro c hc
      rw [a5] at hc
      rw [a4]
      simpa using (h7 c hc).1.1

/-- **where with keywords on a table that satisfies the invariant** is the plain filter, and the result
satisfies the invariant -/
theorem whereK_step (cfg : Cfg) (t : Table) (pos : Option Op) (kws : List (Nat × Arg)) (hinv : Inv t)
    (R rs : List (List Cell)) (h : whereOK cfg t pos kws = true) (hR : t.rows = .ok R)
    (hspec : whereS { columns := t.columns, rows := R } (kws.map (condOf pos)) = .ok rs) :
    ∃ t', t.pwhere cfg Option.none pos kws = .ok t' ∧ t'.rows = .ok rs ∧
      t'.columns = t.columns ∧ t'.indexes = t.indexes ∧ Inv t' := by
  unfold whereOK at h
  split at h
  · simp at h
  · rename_i c0 b rest hd
    simp only [Bool.and_eq_true, Bool.not_eq_true', List.all_eq_true] at h
    obtain ⟨⟨⟨h1, h2⟩, h3⟩, h4⟩ := h
    have hN : tableN t = b.length := by simp [tableN, hd]
    have hne : kws ≠ [] := by intro he; simp [he] at h2
    have hix := hinv.idx
    rw [hN] at hix
    obtain ⟨t', a1, a2, a3, a4, a5, a6, a7⟩ := where_indexed_data' cfg t b.length (tableOKB_sound h1) hix pos kws hne
      (fun kw hk => kwOKIdxB_sound (h4 kw hk)) (noLeakB_sound h3) R rs hR hspec
    have hN' : tableN t' = b.length := by simp [tableN, a7, hd]
    refine ⟨t', a1, a2, a3, a4, ⟨by rw [hN']; exact a5, ?_, by rw [hN']; exact a6⟩⟩
    intro c hc
    rw [a4] at hc; rw [a3]; exact hinv.sub c hc

/-- **where with a row predicate** keeps the invariant -/
theorem whereP_step (cfg : Cfg) (t : Table) (p : RowPred) (hinv : Inv t)
    (h : ((match t.data with | [] => false | (_, b) :: _ => tableOKB t b.length) && !t.columns.isEmpty) = true) :
    ∃ t' R, t.rows = .ok R ∧ t.pwhere cfg (some p) Option.none [] = .ok t' ∧ t'.rows = .ok (R.filter p.eval) ∧
      t'.columns = t.columns ∧ t'.indexes = t.indexes ∧ Inv t' := by
  simp only [Bool.and_eq_true, Bool.not_eq_true'] at h
  obtain ⟨h1, h2⟩ := h
  have hcne : t.columns ≠ [] := by intro e; simp [e] at h2
  cases hd : t.data with
  | nil => simp [hd] at h1
  | cons q rest =>
    obtain ⟨c0, b⟩ := q
    simp only [hd] at h1
    have hok := tableOKB_sound h1
    have hR := hok.rows_eq hcne
    have hN : tableN t = b.length := by simp [tableN, hd]
    have hix := hinv.idx
    rw [hN] at hix
    obtain ⟨t', e, c1, c2, c3, c4, c5, selection, s1, s2, s3⟩ := where_pred_view' cfg t b.length hok hcne p Option.none [] _ hR
    have hN' : tableN t' = b.length := by simp [tableN, c5, hd]
    refine ⟨t', _, hR, e, c1, c2, c3, ⟨by rw [hN']; exact c4, ?_, ?_⟩⟩
    · intro c hc
      rw [c3] at hc; rw [c2]; exact hinv.sub c hc
    · rw [hN']
      have : t' = { t with sel := t'.sel } := by
        cases t'; simp_all
      rw [this]
      exact indexed_view t b.length hok hix t'.sel selection s1 s2 s3


/-- one operation on a table that satisfies the invariant: the code's table and the specification's
stay equal up to `==`, and the invariant holds afterwards.  The side conditions `opOK` do not mention
the state of the index. -/
theorem stepL_inv_refines (cfg : Cfg) (hfix : cfg.resortInsert = true) (t : Table) (a : AbsT) (op : LOp)
    (hinv : Inv t) (hok : opOK cfg t op = true) (hrel : AbsT.eqv t.abs a) :
    ∃ t' a', stepL cfg t op = .ok t' ∧ stepLS cfg a op = .ok a' ∧ AbsT.eqv t'.abs a' ∧ Inv t' := by
  cases op with
  | copy => exact ⟨t, a, rfl, rfl, hrel, hinv⟩
  | insert d =>
    have hwf : opWF cfg t (.insert d) = true := insertWF_of_inv cfg t d hinv hok
    obtain ⟨t', a', e1, e2, hr⟩ := stepL_refines cfg t a (.insert d) hwf hrel
    obtain ⟨t'', e3, hi⟩ := inv_insert cfg hfix t d hinv hok
    have : t'' = t' := by
      simp only [stepL] at e1
      rw [e1] at e3; exact (Except.ok.inj e3).symm
    subst this
    exact ⟨t'', a', e1, e2, hr, hi⟩
  | index cols =>
    obtain ⟨hc, hi, hr⟩ := hrel
    simp only [Table.abs] at hc hi
    obtain ⟨t', R, R', e, hR, hR', c1, c2, hnd, c13, hinv'⟩ := index_step cfg t cols hinv hok
    rw [abs_rows hR] at hr
    have hix := effIndex_eq_spec hnd
    refine ⟨t', _, e, rfl, ⟨?_, ?_, ?_⟩, hinv'⟩
    · simp only [Table.abs, c1]; exact hc
    · simp only [Table.abs, c2, ← hc]; exact hix
    · simp only [abs_rows hR', ← hc, ← hix, c13]
      exact forall2_keyEq_iff.mp (indexS_congr _ (forall2_keyEq_iff.mpr hr))
  | whereK pos kws =>
    obtain ⟨hc, hi, hr⟩ := hrel
    simp only [Table.abs] at hc hi
    simp only [opOK, Bool.and_eq_true] at hok
    obtain ⟨h1, h2⟩ := hok
    cases hR : t.rows with
    | error e => simp [hR] at h2
    | ok R =>
      simp only [hR] at h2
      obtain ⟨rs, hrs⟩ := (isOk_iff _).mp h2
      obtain ⟨t', e, c1, c2, c3, hinv'⟩ := whereK_step cfg t pos kws hinv R rs h1 hR hrs
      rw [abs_rows hR] at hr
      simp only [whereS] at hrs
      rcases filterRows_congr (fun r => satRow t.columns r (kws.map (condOf pos))) (fun r => satRow t.columns r (kws.map (condOf pos)))
        (forall2_keyEq_iff.mpr hr) (fun r s hrs' => satRow_congr t.columns hrs' _) with ⟨e', e1, _⟩ | ⟨rs1, ss, e1, e2, hf⟩
      · rw [hrs] at e1; exact absurd e1 (by simp)
      · rw [hrs] at e1
        have : rs1 = rs := (Except.ok.inj e1).symm
        subst this
        refine ⟨t', { a with rows := ss }, e, ?_, ⟨?_, ?_, ?_⟩, hinv'⟩
        · simp only [stepLS, whereS, ← hc, e2]
        · simp only [Table.abs, c2]; exact hc
        · simp only [Table.abs, c3]; exact hi
        · simp only [abs_rows c1]; exact forall2_keyEq_iff.mp hf
  | whereP p =>
    obtain ⟨hc, hi, hr⟩ := hrel
    simp only [Table.abs] at hc hi
    obtain ⟨t', R, hR, e, c1, c2, c3, hinv'⟩ := whereP_step cfg t p hinv hok
    rw [abs_rows hR] at hr
    refine ⟨t', { a with rows := a.rows.filter p.eval }, e, rfl, ⟨?_, ?_, ?_⟩, hinv'⟩
    · simp only [Table.abs, c2]; exact hc
    · simp only [Table.abs, c3]; exact hi
    · simp only [abs_rows c1]
      exact forall2_keyEq_iff.mp (filter_congr _ _ (forall2_keyEq_iff.mpr hr) (fun r s h => rowPred_congr h p))

/-- **refinement and invariant over arbitrary linear histories** (repaired code): from a table that
satisfies the invariant, every history whose operations meet their data-only side conditions runs
without error, ends in the table the specification machine computes (up to `==`), and that table
satisfies the invariant -/
theorem ops_inv_refine' (cfg : Cfg) (hfix : cfg.resortInsert = true) :
    ∀ (ops : List LOp) (t : Table) (a : AbsT), Inv t → OKL cfg t ops = true → AbsT.eqv t.abs a →
    ∃ t' a', runL cfg t ops = .ok t' ∧ runLS cfg a ops = .ok a' ∧ AbsT.eqv t'.abs a' ∧ Inv t'
  | [], t, a, hinv, _, hrel => ⟨t, a, rfl, rfl, hrel, hinv⟩
  | op :: rest, t, a, hinv, hwf, hrel => by
    simp only [OKL, Bool.and_eq_true] at hwf
    obtain ⟨h1, h2⟩ := hwf
    obtain ⟨t1, a1, e1, e2, hrel1, hinv1⟩ := stepL_inv_refines cfg hfix t a op hinv h1 hrel
    simp only [e1] at h2
    obtain ⟨t', a', e3, e4, hrel', hinv'⟩ := ops_inv_refine' cfg hfix rest t1 a1 hinv1 h2 hrel1
    exact ⟨t', a', by simp only [runL, e1, e3], by simp only [runLS, e2, e4], hrel', hinv'⟩

/-- the invariant holds in every reachable state -/
theorem inv_reachable' (cfg : Cfg) (hfix : cfg.resortInsert = true) (t0 : Table) (ops : List LOp) (hinv : Inv t0)
    (hok : OKL cfg t0 ops = true) : ∃ t, runL cfg t0 ops = .ok t ∧ Inv t := by
  obtain ⟨t, _, e, _, _, hi⟩ := ops_inv_refine' cfg hfix ops t0 t0.abs hinv hok ⟨rfl, rfl, rfl⟩
  exact ⟨t, e, hi⟩

/-- **indexed query = full scan in every reachable state**: no hypothesis about the state of the index -/
theorem where_reachable' (cfg : Cfg) (hfix : cfg.resortInsert = true) (t0 : Table) (ops : List LOp) (hinv : Inv t0)
    (hok : OKL cfg t0 ops = true) (t : Table) (hrun : runL cfg t0 ops = .ok t)
    (pos : Option Op) (kws : List (Nat × Arg)) (R rs : List (List Cell)) (hw : whereOK cfg t pos kws = true)
    (hR : t.rows = .ok R) (hspec : whereS { columns := t.columns, rows := R } (kws.map (condOf pos)) = .ok rs) :
    ∃ t', t.pwhere cfg Option.none pos kws = .ok t' ∧ t'.rows = .ok rs ∧
      t'.columns = t.columns ∧ t'.indexes = t.indexes := by
  obtain ⟨t1, e, hi⟩ := inv_reachable' cfg hfix t0 ops hinv hok
  have : t1 = t := by rw [hrun] at e; exact (Except.ok.inj e).symm
  subst this
  obtain ⟨t', a, b, c, d, _⟩ := whereK_step cfg t1 pos kws hi R rs hw hR hspec
  exact ⟨t', a, b, c, d⟩


/-- without an index to keep (or without the repair) `insert` is the plain append -/
theorem insert_eq_insertRaw (cfg : Cfg) (t t' : Table) (d : InsertData)
    (hni : cfg.resortInsert = false ∨ t.indexes = []) (e : t.insertRaw cfg d = .ok t') (hidx : t'.indexes = t.indexes) :
    t.insert cfg d = .ok t' := by
  have : (cfg.resortInsert && !d.isEmpty && !t'.indexes.isEmpty) = false := by
    rcases hni with h | h
    · simp [h]
    · simp [hidx, h]
  simp only [Table.insert, e, this]; rfl

theorem insert_rows_plain' (cfg : Cfg) (t : Table) (N : Nat) (hok : t.OK N) (hsel : t.sel = .all)
    (hnd : t.columns.Nodup) (hcne : t.columns ≠ []) (hkeys : ∀ p ∈ t.data, p.1 ∈ t.columns)
    (hni : cfg.resortInsert = false ∨ t.indexes = [])
    (r : List Cell) (rs : List (List Cell)) (hlen : ∀ x ∈ r :: rs, x.length = t.columns.length)
    (R : List (List Cell)) (hR : t.rows = .ok R) :
    ∃ t', t.insert cfg (.rows (r :: rs)) = .ok t' ∧ t'.rows = .ok (R ++ (r :: rs)) ∧
      t'.columns = t.columns ∧ t'.indexes = t.indexes ∧ t'.OK (N + (r :: rs).length) := by
  obtain ⟨t', e, a, b, c, d, _⟩ := insert_rows_spec' cfg t N hok hsel hnd hcne hkeys r rs hlen R hR
  exact ⟨t', insert_eq_insertRaw cfg t t' _ hni e c, a, b, c, d⟩

theorem insert_mapping_plain' (cfg : Cfg) (t : Table) (N : Nat) (h : InsertOK t N) (hni : cfg.resortInsert = false ∨ t.indexes = [])
    (q0 : Nat × List Cell) (cs : List (Nat × List Cell))
    (hk : ∀ q ∈ q0 :: cs, q.2.length = q0.2.length)
    (hcne : t.columns ++ newColsOf t.columns ((q0 :: cs).map (·.1)) ≠ [])
    (R : List (List Cell)) (hR : t.rows = .ok R) :
    ∃ t', t.insert cfg (.cols (q0 :: cs)) = .ok t' ∧ t'.columns = (insertColsS t.columns R (q0 :: cs) q0.2.length).1 ∧
      t'.rows = .ok (insertColsS t.columns R (q0 :: cs) q0.2.length).2 ∧ t'.indexes = t.indexes ∧ InsertOK t' (N + q0.2.length) := by
  obtain ⟨t', e, a, b, c, d, _⟩ := insert_mapping_rows' cfg t N h q0 cs hk hcne R hR
  exact ⟨t', insert_eq_insertRaw cfg t t' _ hni e c, a, b, c, d⟩

theorem insert_dicts_plain' (cfg : Cfg) (t : Table) (N : Nat) (h : InsertOK t N) (hni : cfg.resortInsert = false ∨ t.indexes = [])
    (d0 : List (Nat × Cell)) (ds : List (List (Nat × Cell)))
    (hpad : cfg.dictLen = true ∨ dictsToCols (d0 :: ds) ≠ [])
    (hcne : t.columns ++ newColsOf t.columns ((d0 :: ds).flatMap (fun d => d.map (·.1))) ≠ [])
    (R : List (List Cell)) (hR : t.rows = .ok R) :
    ∃ t', t.insert cfg (.dicts (d0 :: ds)) = .ok t' ∧ t'.columns = (insertDictsS t.columns R (d0 :: ds)).1 ∧
      t'.rows = .ok (insertDictsS t.columns R (d0 :: ds)).2 ∧ t'.indexes = t.indexes ∧ InsertOK t' (N + (d0 :: ds).length) := by
  obtain ⟨t', e, a, b, c, d, _⟩ := insert_dicts_rows' cfg t N h d0 ds hpad hcne R hR
  exact ⟨t', insert_eq_insertRaw cfg t t' _ hni e c, a, b, c, d⟩

/-- with the per-cell repair `match` is `matchCell` on every column, mixed or not -/
theorem where_match_per_cell' (cfg : Cfg) (hfix : cfg.matchPerCell = true) (col : List Cell) (arg : Cell) :
    compareScan cfg col .mtch (.scalar arg) = scanFilter 0 col (fun c => .ok (matchCell arg c)) := by
  simp only [compareScan, matchScan, hfix, if_true]


/-- one operation keeps the invariant -/
theorem inv_step' (cfg : Cfg) (hfix : cfg.resortInsert = true) (t : Table) (op : LOp) (hinv : Inv t)
    (hok : opOK cfg t op = true) : ∃ t', stepL cfg t op = .ok t' ∧ Inv t' := by
  obtain ⟨t', _, e, _, _, hi⟩ := stepL_inv_refines cfg hfix t t.abs op hinv hok ⟨rfl, rfl, rfl⟩
  exact ⟨t', e, hi⟩

/-! ## `match` on a homogeneous column -/

theorem where_match_eq_spec' (cfg : Cfg) (col : List Cell) (arg : Cell) (harg : isNumber arg = true ∨ isStr arg = true)
    (hh : homogB col = true) (hne : cfg.matchEmpty = true ∨ col ≠ []) :
    compareScan cfg col .mtch (.scalar arg) = scanFilter 0 col (fun c => .ok (matchCell arg c)) := by
  simp only [compareScan, matchScan]
  by_cases hpc : cfg.matchPerCell = true
  · simp only [hpc, if_true]
  simp only [hpc]
  cases col with
  | nil =>
    rcases hne with h | h
    · simp [h, scanFilter]
    · exact absurd rfl h
  | cons c0 rest =>
    simp only [homogB, Bool.or_eq_true, List.all_eq_true] at hh
    rcases hh with hs | hn
    · -- a column of strings
      have hc0 : isStr c0 = true := hs c0 (by simp)
      have hc0n : isNumber c0 = false := by cases c0 <;> simp_all [isStr, isNumber]
      rcases harg with ha | ha
      · simp only [ha, hc0, hc0n, Bool.and_false, Bool.false_eq_true, if_false, Bool.and_self, if_true]
        apply scanFilter_congr
        intro c hc
        have := hs c hc
        cases c <;> simp_all [isStr, matchCell]
      · have han : isNumber arg = false := by cases arg <;> simp_all [isStr, isNumber]
        simp only [ha, han, hc0, Bool.false_and, Bool.false_eq_true, if_false, Bool.and_self, if_true]
        apply scanFilter_congr
        intro c hc
        have := hs c hc
        cases c <;> simp_all [isStr, matchCell]
    · -- a column of numbers
      have hc0 : isNumber c0 = true := hn c0 (by simp)
      have hc0s : isStr c0 = false := by cases c0 <;> simp_all [isStr, isNumber]
      rcases harg with ha | ha
      · simp only [ha, hc0, Bool.and_self, if_true]
        apply scanFilter_congr
        intro c hc
        have := hn c hc
        cases c <;> simp_all [isNumber, matchCell]
      · have han : isNumber arg = false := by cases arg <;> simp_all [isStr, isNumber]
        simp only [ha, han, hc0s, Bool.false_and, Bool.and_false, Bool.false_eq_true, if_false]
        apply scanFilter_congr
        intro c hc
        have := hn c hc
        cases c <;> simp_all [isNumber, matchCell, cellStr]


/-! ### the three readings of `index_spec'` used in `Props` -/

theorem index_spec_partial_aux (cfg : Cfg) (t : Table) (indx : List Nat) (hwf : indexWF cfg t indx = true) :
    ∃ (t' : Table) (perm : List Nat) (R R' : List (List Cell)), t.index cfg indx = .ok t' ∧ t.rows = .ok R ∧ t'.rows = .ok R' ∧
      t'.columns = t.columns ∧ t'.indexes = effIndex cfg t indx ∧
      R'.length = R.length ∧ perm.Perm (List.range R.length) ∧
      (∀ i, i < R.length → (R'.getD i []).map Cell.key = (R.getD (perm.getD i 0) []).map Cell.key) ∧
      (∀ i, i < R.length → ∀ k, k < t.columns.length → t.columns.getD k 0 ∉ effIndex cfg t indx →
        (R'.getD i []).getD k .missing = (R.getD (perm.getD i 0) []).getD k .missing) ∧
      (∀ i j, i < j → j < R.length →
        lexLt (idxPositions t.columns (effIndex cfg t indx)) (R'.getD j []) (R'.getD i []) = false) :=
  let ⟨t', perm, R, R', h⟩ := index_spec' cfg t indx hwf
  ⟨t', perm, R, R', h.1, h.2.1, h.2.2.1, h.2.2.2.1, h.2.2.2.2.1, h.2.2.2.2.2.1, h.2.2.2.2.2.2.1, h.2.2.2.2.2.2.2.1,
    h.2.2.2.2.2.2.2.2.1, h.2.2.2.2.2.2.2.2.2.1⟩

theorem index_stable_aux (cfg : Cfg) (t : Table) (indx : List Nat) (hwf : indexWF cfg t indx = true) :
    ∃ (t' : Table) (perm : List Nat) (R R' : List (List Cell)), t.index cfg indx = .ok t' ∧ t.rows = .ok R ∧ t'.rows = .ok R' ∧
      perm.Perm (List.range R.length) ∧
      (∀ i, i < R.length → (R'.getD i []).map Cell.key = (R.getD (perm.getD i 0) []).map Cell.key) ∧
      (∀ i j, i < j → j < R.length →
        lexLt (idxPositions t.columns (effIndex cfg t indx)) (R'.getD i []) (R'.getD j []) = false → perm.getD i 0 < perm.getD j 0) :=
  let ⟨t', perm, R, R', h⟩ := index_spec' cfg t indx hwf
  ⟨t', perm, R, R', h.1, h.2.1, h.2.2.1, h.2.2.2.2.2.2.1, h.2.2.2.2.2.2.2.1, h.2.2.2.2.2.2.2.2.2.2.1⟩

theorem index_eq_spec_aux (cfg : Cfg) (t : Table) (indx : List Nat) (hwf : indexWF cfg t indx = true) :
    ∃ (t' : Table) (R R' : List (List Cell)), t.index cfg indx = .ok t' ∧ t.rows = .ok R ∧ t'.rows = .ok R' ∧
      R'.map (List.map Cell.key) = (indexS (idxPositions t.columns (effIndex cfg t indx)) R).map (List.map Cell.key) :=
  let ⟨t', _, R, R', h⟩ := index_spec' cfg t indx hwf
  ⟨t', R, R', h.1, h.2.1, h.2.2.1, h.2.2.2.2.2.2.2.2.2.2.2⟩

/-! ## Phase 4: several live objects with their own `_lohis` cache -/

/-- a truthy cache holds exactly what `_calc_lohis` would compute now -/
def Coh (cfg : Cfg) (t : Table) (c : Option Lohis) : Prop :=
  ∀ p l, c = some (p :: l) → t.calcLohis cfg = .ok (p :: l)

theorem coh_none (cfg : Cfg) (t : Table) : Coh cfg t Option.none := by intro p l h; cases h
theorem coh_reset (cfg : Cfg) (t : Table) (c : Option Lohis) : Coh cfg t (resetCache c) := by
  intro p l h
  cases c with
  | none => cases h
  | some x => cases x <;> simp [resetCache] at h
theorem coh_calc (cfg : Cfg) (t : Table) (l : Lohis) (h : t.calcLohis cfg = .ok l) : Coh cfg t (some l) := by
  intro p l' e; cases e; exact h

theorem effLohis_of_coh (cfg : Cfg) (t : Table) (c : Option Lohis) (h : Coh cfg t c) :
    effLohis cfg t c = t.calcLohis cfg := by
  cases c with
  | none => rfl
  | some x =>
    cases x with
    | nil => rfl
    | cons p l => simp only [effLohis]; exact (h p l rfl).symm

theorem pwhereWith_eq (cfg : Cfg) (t : Table) (l : Lohis) (cmp : Option Op) (kws : List (Nat × Arg))
    (h : t.calcLohis cfg = .ok l) : t.pwhere cfg Option.none cmp kws = t.pwhereWith cfg l cmp kws := by
  simp only [Table.pwhere, Table.pwhereWith, h]; rfl

theorem groupbyWith_eq (cfg : Cfg) (t : Table) (l : Lohis) (level : Nat) (select : Select)
    (h : t.calcLohis cfg = .ok l) : t.groupby cfg level select = t.groupbyWith l level select := by
  simp only [Table.groupby, Table.groupbyWith, h]

theorem calc_ok_of_inv (cfg : Cfg) (t : Table) (hinv : Inv t) : ∃ l, t.calcLohis cfg = .ok l := by
  by_cases hne : t.indexes = []
  · exact ⟨[], by simp [Table.calcLohis, hne]⟩
  · obtain ⟨l, h, _⟩ := lohis_correct' cfg t (tableN t) hinv.ok hinv.idx hne
    exact ⟨l, h⟩

theorem insertRaw_empty (cfg : Cfg) (t : Table) (d : InsertData) (h : d.isEmpty = true) : t.insertRaw cfg d = .ok t := by
  cases d <;> rename_i l <;> cases l <;> simp_all [InsertData.isEmpty, Table.insertRaw]

theorem indexC_spec (cfg : Cfg) (t t' : Table) (c : Option Lohis) (indx : List Nat)
    (h : t.index cfg indx = .ok t') (hc : Coh cfg t c) (hl : ∃ l, t'.calcLohis cfg = .ok l) :
    ∃ c', t.indexC cfg c indx = .ok (t', c') ∧ Coh cfg t' c' := by
  unfold Table.indexC
  unfold Table.index at h
  split_ifs at h ⊢ with h1 h2 h3
  · cases h; exact ⟨c, rfl, hc⟩
  · cases h; exact ⟨c, rfl, hc⟩
  · cases h; exact ⟨c, rfl, hc⟩
  · have h' : t.index cfg indx = .ok t' := by
      unfold Table.index; simp only [h1, h2, h3, if_false]; exact h
    obtain ⟨l, hl⟩ := hl
    simp only [h', hl]
    exact ⟨some l, rfl, coh_calc cfg t' l hl⟩

theorem indexC_error (cfg : Cfg) (t : Table) (c : Option Lohis) (indx : List Nat) (e : Err)
    (hi : t.index cfg indx = .error e) : t.indexC cfg c indx = .error e := by
  unfold Table.indexC
  have hi0 := hi
  unfold Table.index at hi
  split_ifs at hi ⊢ with h1 h2 h3
  simp only [hi0]

theorem insertC_spec (cfg : Cfg) (t t' : Table) (c : Option Lohis) (d : InsertData)
    (h : t.insert cfg d = .ok t') (hc : Coh cfg t c) (hl : ∃ l, t'.calcLohis cfg = .ok l) :
    ∃ c', t.insertC cfg c d = .ok (t', c') ∧ Coh cfg t' c' := by
  unfold Table.insertC
  unfold Table.insert at h
  cases hr : t.insertRaw cfg d with
  | error e => simp [hr] at h
  | ok t1 =>
    simp only [hr] at h ⊢
    split_ifs at h ⊢ with hif
    · split at h
      · rename_i ho; cases h; exact ⟨_, rfl, coh_reset cfg _ c⟩
      · rename_i ho; cases h; exact ⟨_, rfl, coh_reset cfg _ c⟩
      · rename_i ho
        split at h
        · rename_i t2 hi; cases h
          obtain ⟨c', e, hc'⟩ := indexC_spec cfg _ t' (resetCache c) _ hi (coh_reset cfg _ c) hl
          simp only [e]; exact ⟨c', rfl, hc'⟩
        · rename_i hi; cases h
          simp only [indexC_error cfg _ (resetCache c) _ _ hi]
          exact ⟨_, rfl, coh_reset cfg _ c⟩
        · cases h
    · rename_i hd
      cases h
      have := insertRaw_empty cfg t d hd
      rw [this] at hr; cases hr
      exact ⟨c, rfl, hc⟩
    · cases h; exact ⟨_, rfl, coh_reset cfg _ c⟩

/-- what is claimed of a live object: while no other object has mutated the shared lists since it was
made, it satisfies the table invariant and its memoised `_lohis` is what `_calc_lohis` gives now -/
def Good (cfg : Cfg) (o : CObj) : Prop := o.fresh = true → Inv o.t ∧ Coh cfg o.t o.cache

def AllGood (cfg : Cfg) (os : List (Option CObj)) : Prop := ∀ o, some o ∈ os → Good cfg o

theorem target_mem (os : List (Option CObj)) (i : Nat) (o : CObj) (h : (os[i]?).bind id = some o) : some o ∈ os := by
  cases hh : os[i]? with
  | none => simp [hh] at h
  | some x =>
    simp [hh] at h; subst h
    exact List.mem_of_getElem? hh

theorem allGood_append (cfg : Cfg) (os : List (Option CObj)) (x : Option CObj) (h : AllGood cfg os)
    (hx : ∀ o, x = some o → Good cfg o) : AllGood cfg (os ++ [x]) := by
  intro o ho
  rcases List.mem_append.1 ho with h1 | h1
  · exact h o h1
  · simp at h1; exact hx o h1.symm

theorem allGood_set (cfg : Cfg) (os : List (Option CObj)) (i : Nat) (x : Option CObj) (h : AllGood cfg os)
    (hx : ∀ o, x = some o → Good cfg o) : AllGood cfg (setAt os i x) := by
  intro o ho
  rcases List.mem_or_eq_of_mem_set ho with h1 | h1
  · exact h o h1
  · exact hx o h1.symm

theorem allGood_share (cfg : Cfg) (d : List (Nat × List Cell)) (os : List (Option CObj)) : AllGood cfg (shareC d os) := by
  intro o ho hf
  simp only [shareC, List.mem_map] at ho
  obtain ⟨x, _, hx⟩ := ho
  cases x with
  | none => simp at hx
  | some u => simp at hx; subst hx; simp at hf

theorem good_stale (cfg : Cfg) (o : CObj) (h : o.fresh = false) : Good cfg o := by
  intro hf; rw [h] at hf; cases hf

/-- **the invariant of the machine with caches**: every step keeps every fresh live object in a state
that satisfies the table invariant with a coherent `_lohis` cache (insert / index through one object make
the OTHER objects stale: nothing is claimed of those — findings C17-F19/F20) -/
theorem multi_inv_step' (cfg : Cfg) (hfix : cfg.resortInsert = true) (os : List (Option CObj)) (op : TOp)
    (hg : AllGood cfg os) (hok : opOKC cfg os op = true) : AllGood cfg (stepC cfg os op).1 := by
  cases op with
  | skip creates =>
    simp only [stepC]; split
    · exact allGood_append cfg os _ hg (by intro o h; cases h)
    · exact hg
  | peek i => simp only [stepC]; split <;> exact hg
  | copy i =>
    simp only [stepC]; split
    · exact allGood_append cfg os _ hg (by intro o h; cases h)
    · rename_i o ho
      exact allGood_append cfg os _ hg (by intro o' h; cases h; exact hg o (target_mem os i o ho))
  | groupby i level select =>
    simp only [stepC]; split
    · exact hg
    · rename_i o ho
      have hgo := hg o (target_mem os i o ho)
      split
      · exact hg
      · rename_i l hl
        have : Good cfg { o with cache := some l } := by
          intro hf
          obtain ⟨hi, hc⟩ := hgo hf
          rw [effLohis_of_coh cfg o.t o.cache hc] at hl
          exact ⟨hi, coh_calc cfg o.t l hl⟩
        split <;> exact allGood_set cfg os i _ hg (by intro o' h; cases h; exact this)
  | insert i d =>
    simp only [stepC]; split
    · exact hg
    · rename_i o ho
      have hgo := hg o (target_mem os i o ho)
      split
      · rename_i t' c' he
        refine allGood_set cfg _ i _ (allGood_share cfg _ os) ?_
        intro o' h; cases h
        intro hf
        simp only at hf
        obtain ⟨hi, hc⟩ := hgo hf
        have hop : opOK cfg o.t (.insert d) = true := by
          simp only [opOKC, ho, hf] at hok; simpa using hok
        obtain ⟨t1, e1, hi1⟩ := inv_step' cfg hfix o.t (.insert d) hi hop
        obtain ⟨c1, e2, hc1⟩ := insertC_spec cfg o.t t1 o.cache d e1 hc (calc_ok_of_inv cfg t1 hi1)
        rw [e2] at he; cases he
        exact ⟨hi1, hc1⟩
      · exact allGood_set cfg os i _ hg (by intro o' h; cases h)
  | index i cols =>
    simp only [stepC]; split
    · exact hg
    · rename_i o ho
      have hgo := hg o (target_mem os i o ho)
      split
      · rename_i t' c' he
        refine allGood_set cfg _ i _ (allGood_share cfg _ os) ?_
        intro o' h; cases h
        intro hf
        simp only at hf
        obtain ⟨hi, hc⟩ := hgo hf
        have hop : opOK cfg o.t (.index cols) = true := by
          simp only [opOKC, ho, hf] at hok; simpa using hok
        obtain ⟨t1, e1, hi1⟩ := inv_step' cfg hfix o.t (.index cols) hi hop
        obtain ⟨c1, e2, hc1⟩ := indexC_spec cfg o.t t1 o.cache cols e1 hc (calc_ok_of_inv cfg t1 hi1)
        rw [e2] at he; cases he
        exact ⟨hi1, hc1⟩
      · exact allGood_set cfg os i _ hg (by intro o' h; cases h)
  | whr i pred cmp kws =>
    simp only [stepC]; split
    · exact allGood_append cfg os _ hg (by intro o h; cases h)
    · rename_i o ho
      have hgo := hg o (target_mem os i o ho)
      cases pred with
      | some p =>
        simp only
        split
        · rename_i t' he
          refine allGood_append cfg os _ hg ?_
          intro o' h; cases h
          intro hf
          simp only at hf
          obtain ⟨hi, _⟩ := hgo hf
          have hop : opOK cfg o.t (.whereP p) = true := by
            simp only [opOKC, ho, hf] at hok; simpa using hok
          obtain ⟨t1, e1, hi1⟩ := inv_step' cfg hfix o.t (.whereP p) hi hop
          have : o.t.pwhere cfg (some p) cmp kws = o.t.pwhere cfg (some p) Option.none [] := rfl
          rw [this] at he
          simp only [stepL] at e1
          rw [e1] at he; cases he
          exact ⟨hi1, coh_none cfg _⟩
        · exact allGood_append cfg os _ hg (by intro o h; cases h)
      | none =>
        simp only
        split
        · exact allGood_append cfg os _ hg (by intro o h; cases h)
        · rename_i l hl
          have hself : Good cfg { o with cache := some l } := by
            intro hf
            obtain ⟨hi, hc⟩ := hgo hf
            rw [effLohis_of_coh cfg o.t o.cache hc] at hl
            exact ⟨hi, coh_calc cfg o.t l hl⟩
          have hset := allGood_set cfg os i (some { o with cache := some l }) hg (by intro o' h; cases h; exact hself)
          split
          · rename_i t' he
            refine allGood_append cfg _ _ hset ?_
            intro o' h; cases h
            intro hf
            simp only at hf
            obtain ⟨hi, hc⟩ := hgo hf
            rw [effLohis_of_coh cfg o.t o.cache hc] at hl
            have hop : opOK cfg o.t (.whereK cmp kws) = true := by
              simp only [opOKC, ho, hf] at hok; simpa using hok
            obtain ⟨t1, e1, hi1⟩ := inv_step' cfg hfix o.t (.whereK cmp kws) hi hop
            simp only [stepL] at e1
            rw [pwhereWith_eq cfg o.t l cmp kws hl, he] at e1; cases e1
            exact ⟨hi1, coh_none cfg _⟩
          · exact allGood_append cfg _ _ hset (by intro o h; cases h)

theorem multi_inv_reachable' (cfg : Cfg) (hfix : cfg.resortInsert = true) (os : List (Option CObj)) (ops : List TOp)
    (hg : AllGood cfg os) (hok : OKC cfg os ops = true) : AllGood cfg (finalC cfg os ops) := by
  induction ops generalizing os with
  | nil => exact hg
  | cons op rest ih =>
    simp only [OKC, Bool.and_eq_true] at hok
    exact ih _ (multi_inv_step' cfg hfix os op hg hok.1) hok.2

theorem allGood_init (cfg : Cfg) (init : Init) (h : Inv init.table) : AllGood cfg (initC init) := by
  intro o ho
  simp [initC] at ho; subst ho
  intro _; exact ⟨h, coh_none cfg _⟩

/-- **indexed query = full scan for every live object of a run over several objects**: after any history
of inserts / index / where / groupby / copy through any of the objects (views and copies of one storage,
each with its own `_lohis` cache), every live object that no OTHER object has mutated under answers a
keyword query — computed with its CACHED lohis — with exactly the rows of the plain filter. -/
theorem where_every_live_object' (cfg : Cfg) (hfix : cfg.resortInsert = true) (init : Init) (ops : List TOp)
    (hinv : Inv init.table) (hok : OKC cfg (initC init) ops = true)
    (o : CObj) (hlive : some o ∈ finalC cfg (initC init) ops) (hfresh : o.fresh = true)
    (pos : Option Op) (kws : List (Nat × Arg)) (R rs : List (List Cell)) (hw : whereOK cfg o.t pos kws = true)
    (hR : o.t.rows = .ok R) (hspec : whereS { columns := o.t.columns, rows := R } (kws.map (condOf pos)) = .ok rs) :
    ∃ l t', effLohis cfg o.t o.cache = .ok l ∧ o.t.pwhereWith cfg l pos kws = .ok t' ∧ t'.rows = .ok rs ∧
      t'.columns = o.t.columns ∧ t'.indexes = o.t.indexes := by
  obtain ⟨hi, hc⟩ := multi_inv_reachable' cfg hfix _ ops (allGood_init cfg init hinv) hok o hlive hfresh
  obtain ⟨l, hl⟩ := calc_ok_of_inv cfg o.t hi
  obtain ⟨t', a, b, c, d, _⟩ := whereK_step cfg o.t pos kws hi R rs hw hR hspec
  refine ⟨l, t', ?_, ?_, b, c, d⟩
  · rw [effLohis_of_coh cfg o.t o.cache hc]; exact hl
  · rw [← pwhereWith_eq cfg o.t l pos kws hl]; exact a

/-- queries through a coherent cache are the queries of the cache-free model (`Table.pwhere` / `Table.groupby`,
the definitions every earlier theorem is about) -/
theorem cached_query_eq' (cfg : Cfg) (t : Table) (c : Option Lohis) (hc : Coh cfg t c) (l : Lohis)
    (hl : effLohis cfg t c = .ok l) (pos : Option Op) (kws : List (Nat × Arg)) (level : Nat) (select : Select) :
    t.pwhereWith cfg l pos kws = t.pwhere cfg Option.none pos kws ∧ t.groupbyWith l level select = t.groupby cfg level select := by
  rw [effLohis_of_coh cfg t c hc] at hl
  exact ⟨(pwhereWith_eq cfg t l pos kws hl).symm, (groupbyWith_eq cfg t l level select hl).symm⟩


/-! ## Phase 4: the operator table of `Table.where` / `Table._compare`, tied to the source

`Generated/C17Ops.lean` is rewritten from the coba source on every run (`harness/props/c17.py: pre_build`,
Python `ast`): the `Literal[...]` of `where(comparison=)`, the keys `_compare` unpacks from `{op: value}`,
the operators the bisect condition of `where` excludes, and per `if comparison == "<op>"` block of `_compare`
the `my_bisect_left/right` calls of its bisect branch in source order (`true` = right; `none` = no bisect
branch), the comparison its scan branch applies to a cell, and whether that is guarded by `c is not None`. -/

def Op.sym : Op → String
  | .eq => "=" | .ne => "!=" | .lt => "<" | .le => "<=" | .gt => ">" | .ge => ">=" | .isin => "in" | .notin => "!in" | .mtch => "match"

def Op.all : List Op := [.eq, .ne, .le, .lt, .gt, .ge, .mtch, .isin, .notin]

/-- the model's operator table, in the order of the `if` blocks of `_compare`:
(symbol, bisect calls (`compareBisect`), scan comparison (`compareScan`), `None` guard (`nn` in `compareScan`)) -/
def opTable : List (String × Option (List Bool) × String × Bool) :=
  [ (Op.sym .isin, some [false, true], "In", false), (Op.sym .notin, some [true, false], "NotIn", false),
    (Op.sym .eq, some [false, true], "Eq", false), (Op.sym .ne, some [false, true], "NotEq", false),
    (Op.sym .lt, some [false], "Lt", true), (Op.sym .le, some [true], "LtE", true),
    (Op.sym .ge, some [false], "GtE", true), (Op.sym .gt, some [true], "Gt", true),
    (Op.sym .mtch, Option.none, "Call", false) ]

/-- the bisect calls the table lists for the four order comparisons are the ones `compareBisect` makes:
`<` cuts at `my_bisect_left`, `<=` at `my_bisect_right`, `>=` at `my_bisect_left`, `>` at `my_bisect_right` -/
theorem opTable_bisect_calls' (cfg : Cfg) (s : Seq) (lo hi : Nat) (v : Cell) :
    compareBisect cfg s lo hi .lt (.scalar v) = (myBisectLeft cfg s v lo hi).map (fun l => [(lo, l)]) ∧
    compareBisect cfg s lo hi .le (.scalar v) = (myBisectRight cfg s v lo hi).map (fun h => [(lo, h)]) ∧
    compareBisect cfg s lo hi .ge (.scalar v) = (myBisectLeft cfg s v lo hi).map (fun l => [(l, hi)]) ∧
    compareBisect cfg s lo hi .gt (.scalar v) = (myBisectRight cfg s v lo hi).map (fun h => [(h, hi)]) := by
  refine ⟨?_, ?_, ?_, ?_⟩
  · cases h : myBisectLeft cfg s v lo hi <;> simp [compareBisect, h, Except.map, bind, Except.bind, pure, Except.pure]
  · cases h : myBisectRight cfg s v lo hi <;> simp [compareBisect, h, Except.map, bind, Except.bind, pure, Except.pure]
  · cases h : myBisectLeft cfg s v lo hi <;> simp [compareBisect, h, Except.map, bind, Except.bind, pure, Except.pure]
  · cases h : myBisectRight cfg s v lo hi <;> simp [compareBisect, h, Except.map, bind, Except.bind, pure, Except.pure]

/-- the source's operator sets and per-operator table are the model's -/
theorem ops_table_eq_source' :
    Coba.Generated.C17.extracted = true ∧
    Coba.Generated.C17.whereLiteral = Op.all.map Op.sym ∧
    Coba.Generated.C17.unpackKeys = Op.all.map Op.sym ∧
    Coba.Generated.C17.noBisectOps = [Op.sym .mtch] ∧
    Coba.Generated.C17.compareTable = opTable := by decide


/-! ## Phase 4 (continued): Python's `<` on the cell domain — comparable classes -/

/-- **mixed-class TypeError, exactly**: `a < b` raises iff neither side is `Missing` and the two are not both
numbers or both strings -/
theorem pyLt_raises_iff' (a b : Cell) :
    pyLt a b = .error .typeError ↔
      (a.key ≠ .missing ∧ b.key ≠ .missing ∧ ¬ (a.key.rank = b.key.rank ∧ a.key.rank ≤ 1)) := by
  unfold pyLt
  cases ha : a.key <;> cases hb : b.key <;> simp [Key.comparable, Key.rank]

/-- on one comparable class `<` is a strict total preorder up to `==`: irreflexive, transitive, and two cells
neither of which is smaller than the other are `==` (same key) -/
theorem pyLt_class_order' (a b c : Cell) (hab : a.key.rank = b.key.rank) (hbc : b.key.rank = c.key.rank) (hcl : a.key.rank ≤ 1) :
    pyLt a a = .ok false ∧
    (pyLt a b = .ok true → pyLt b c = .ok true → pyLt a c = .ok true) ∧
    (pyLt a b = .ok false → pyLt b a = .ok false → pyEq a b = true) ∧
    (∃ r, pyLt a b = .ok r) := by
  have hb1 : b.key.rank ≤ 1 := hab ▸ hcl
  have hc1 : c.key.rank ≤ 1 := hbc ▸ hb1
  have cmp : ∀ x y : Cell, x.key.rank = y.key.rank → x.key.rank ≤ 1 → x.key.comparable y.key = true := by
    intro x y h1 h2
    cases hx : x.key <;> cases hy : y.key <;> simp_all [Key.comparable, Key.rank]
  have caa := cmp a a rfl hcl
  have cab := cmp a b hab hcl
  have cba := cmp b a hab.symm hb1
  have cbc := cmp b c hbc hb1
  have cac := cmp a c (hab.trans hbc) hcl
  simp only [pyLt, caa, cab, cba, cbc, cac, if_true]
  refine ⟨by simp [Key.lt_irrefl], ?_, ?_, ⟨_, rfl⟩⟩
  · intro h1 h2
    simp only [Except.ok.injEq] at h1 h2 ⊢
    exact Key.lt_trans _ _ _ h1 h2
  · intro h1 h2
    simp only [Except.ok.injEq] at h1 h2
    have := Key.lt_connected _ _ h1 h2
    unfold pyEq
    rw [this]
    generalize b.key = k
    cases k <;> simp

/-! ## Phase 5: `sorted()` as a comparison sort with the raising `<` -/

section SortE
variable {α : Type} (f : α → Cell)

/-- the raising comparison and the Boolean order `sorted` is specified with, through a key function -/
def ltE (a b : α) : Except Err Bool := pyLt (f a) (f b)
def ltB (a b : α) : Bool := (f a).key.lt (f b).key

theorem Key.comparable_rank (a b : Key) (ha : a ≠ .missing) (hb : b ≠ .missing) :
    a.comparable b = true ↔ (a.rank = b.rank ∧ a.rank ≤ 1) := by
  cases a <;> cases b <;> simp_all [Key.comparable, Key.rank]

theorem insertE_ok (x : α) : ∀ l : List α, (∀ y ∈ l, (f y).key.comparable (f x).key = true) →
    insertE (ltE f) x l = .ok (insertBy (ltB f) x l)
  | [], _ => rfl
  | y :: ys, h => by
    have hy := h y (by simp)
    have ih := insertE_ok x ys (fun z hz => h z (by simp [hz]))
    cases hlt : (f y).key.lt (f x).key
    · simp [insertE, insertBy, ltE, pyLt, hy, ltB, hlt]
    · simp [insertE, insertBy, ltE, pyLt, hy, ltB, hlt, ih]

theorem insertE_sound (x : α) : ∀ (l r : List α), insertE (ltE f) x l = .ok r → r = insertBy (ltB f) x l
  | [], r, h => by simp only [insertE, Except.ok.injEq] at h; simp [insertBy, ← h]
  | y :: ys, r, h => by
    simp only [insertE, ltE, pyLt] at h
    by_cases hc : (f y).key.comparable (f x).key = true
    · simp only [hc, if_true] at h
      cases hlt : (f y).key.lt (f x).key
      · simp only [hlt, Except.ok.injEq] at h
        simp [insertBy, ltB, hlt, ← h]
      · simp only [hlt] at h
        cases hr : insertE (ltE f) x ys with
        | error e => rw [hr] at h; cases h
        | ok r' =>
          rw [hr] at h
          simp only [Except.ok.injEq] at h
          have := insertE_sound x ys r' hr
          simp [insertBy, ltB, hlt, ← h, this]
    · simp only [hc] at h; cases h

theorem insertE_err (x : α) : ∀ (l : List α) (e : Err), insertE (ltE f) x l = .error e → e = .typeError
  | [], e, h => by simp [insertE] at h
  | y :: ys, e, h => by
    simp only [insertE, ltE, pyLt] at h
    by_cases hc : (f y).key.comparable (f x).key = true
    · simp only [hc, if_true] at h
      cases hlt : (f y).key.lt (f x).key
      · simp [hlt] at h
      · simp only [hlt] at h
        cases hr : insertE (ltE f) x ys with
        | error e' => rw [hr] at h; simp only [Except.error.injEq] at h; exact h ▸ insertE_err x ys e' hr
        | ok r' => rw [hr] at h; cases h
    · simp only [hc] at h
      simp only [Bool.false_eq_true, if_false, Except.error.injEq] at h
      exact h.symm

/-- the first comparison of an insertion into a non-empty list is with its head -/
theorem insertE_head (x y : α) (ys r : List α) (h : insertE (ltE f) x (y :: ys) = .ok r) :
    (f y).key.comparable (f x).key = true := by
  simp only [insertE, ltE, pyLt] at h
  by_cases hc : (f y).key.comparable (f x).key = true
  · exact hc
  · simp only [hc] at h; cases h

theorem sortE_sound : ∀ (l s : List α), sortE (ltE f) l = .ok s → s = sortBy (ltB f) l
  | [], s, h => by simp only [sortE, Except.ok.injEq] at h; simp [sortBy, ← h]
  | x :: xs, s, h => by
    simp only [sortE] at h
    cases hs : sortE (ltE f) xs with
    | error e => rw [hs] at h; cases h
    | ok s' =>
      rw [hs] at h
      have e1 := sortE_sound xs s' hs
      have e2 := insertE_sound f x s' s h
      rw [e2, e1]; rfl

theorem sortE_err : ∀ (l : List α) (e : Err), sortE (ltE f) l = .error e → e = .typeError
  | [], e, h => by simp [sortE] at h
  | x :: xs, e, h => by
    simp only [sortE] at h
    cases hs : sortE (ltE f) xs with
    | error e' => rw [hs] at h; simp only [Except.error.injEq] at h; exact h ▸ sortE_err xs e' hs
    | ok s' => rw [hs] at h; exact insertE_err f x s' e h

theorem allComparable_cons (x : Cell) (xs : List Cell) :
    allComparable (x :: xs) = true ↔ (∀ y ∈ xs, x.key.comparable y.key = true) ∧ allComparable xs = true := by
  simp [allComparable]

theorem allComparable_pairwise : ∀ l : List Cell, allComparable l = true ↔ l.Pairwise (fun a b => a.key.comparable b.key = true)
  | [] => by simp [allComparable]
  | x :: xs => by rw [allComparable_cons, List.pairwise_cons, allComparable_pairwise xs]

theorem sortE_complete : ∀ l : List α, allComparable (l.map f) = true → sortE (ltE f) l = .ok (sortBy (ltB f) l)
  | [], _ => rfl
  | x :: xs, h => by
    rw [List.map_cons, allComparable_cons] at h
    have ih := sortE_complete xs h.2
    simp only [sortE, ih, sortBy]
    apply insertE_ok
    intro y hy
    have hy' : y ∈ xs := (sortBy_perm (ltB f) xs).mem_iff.mp hy
    rw [Key.comparable_symm]
    exact h.1 (f y) (List.mem_map_of_mem hy')

theorem ltB_swo : IsSWO (ltB f) :=
  ⟨fun _ _ h => Key.lt_asymm _ _ h, fun _ _ _ h1 h2 => Key.le_trans _ _ _ h1 h2⟩

theorem pairwise_comparable_forall : ∀ (l : List α), l.Pairwise (fun a b => (f a).key.comparable (f b).key = true) →
    ∀ a ∈ l, ∀ b ∈ l, a ≠ b → (f a).key.comparable (f b).key = true
  | [], _, a, ha, _, _, _ => by cases ha
  | x :: xs, h, a, ha, b, hb, hab => by
    rw [List.pairwise_cons] at h
    rcases List.mem_cons.mp ha with rfl | ha' <;> rcases List.mem_cons.mp hb with rfl | hb'
    · exact absurd rfl hab
    · exact h.1 b hb'
    · rw [Key.comparable_symm]; exact h.1 a ha'
    · exact pairwise_comparable_forall xs h.2 a ha' b hb' hab

/-- a successful insertion sort has compared enough: all members are mutually comparable.
(The new element meets the least member first; `Missing` sorts last, so the least member is `Missing`
only if all are; two non-`Missing` members comparable with a third non-`Missing` one are in one class.) -/
theorem sortE_ok_comparable : ∀ (l s : List α), sortE (ltE f) l = .ok s → allComparable (l.map f) = true
  | [], _, _ => rfl
  | x :: xs, s, h => by
    simp only [sortE] at h
    cases hs : sortE (ltE f) xs with
    | error e => rw [hs] at h; cases h
    | ok s' =>
      rw [hs] at h
      have ih := sortE_ok_comparable xs s' hs
      rw [List.map_cons, allComparable_cons]
      refine ⟨?_, ih⟩
      intro c hc
      obtain ⟨z, hz, rfl⟩ := List.mem_map.mp hc
      have es := sortE_sound f xs s' hs
      have hsorted : SortedBy (ltB f) s' := es ▸ sortBy_sorted (ltB f) (ltB_swo f) xs
      have hperm : s'.Perm xs := es ▸ sortBy_perm (ltB f) xs
      by_cases hxm : (f x).key = .missing
      · rw [hxm]; rfl
      by_cases hzm : (f z).key = .missing
      · rw [hzm]; cases (f x).key <;> rfl
      have hzs : z ∈ s' := hperm.mem_iff.mpr hz
      cases s' with
      | nil => cases hzs
      | cons y ys =>
        have hyx := insertE_head f x y ys s h
        have hyxs : y ∈ xs := hperm.mem_iff.mp (by simp)
        -- y is least, so it is not Missing
        have hym : (f y).key ≠ .missing := by
          intro hym
          rcases List.mem_cons.mp hzs with rfl | hzys
          · exact hzm hym
          · have := (List.pairwise_cons.mp hsorted).1 z hzys
            simp only [ltB, hym] at this
            revert this hzm
            cases (f z).key <;> simp [Key.lt, Key.rank]
        have r1 := (Key.comparable_rank _ _ hym hxm).mp hyx
        by_cases hzy : z = y
        · subst hzy; rw [Key.comparable_symm]; exact hyx
        · have hpw : xs.Pairwise (fun a b => (f a).key.comparable (f b).key = true) := by
            have := (allComparable_pairwise _).mp ih
            exact List.pairwise_map.mp this
          have hzyc := pairwise_comparable_forall f xs hpw z hz y hyxs hzy
          have r2 := (Key.comparable_rank _ _ hzm hym).mp hzyc
          apply (Key.comparable_rank _ _ hxm hzm).mpr
          omega

/-- **`sorted()` as a comparison sort**: the stable insertion sort that asks Python's raising `<`
equals the specification-level `sorted` (TypeError iff two members are incomparable, else the stable arrangement) -/
theorem sortE_eq (l : List α) :
    sortE (ltE f) l = if allComparable (l.map f) then .ok (sortBy (ltB f) l) else .error .typeError := by
  by_cases h : allComparable (l.map f) = true
  · simp only [h, if_true]; exact sortE_complete f l h
  · simp only [h]
    cases hs : sortE (ltE f) l with
    | ok s => exact absurd (sortE_ok_comparable f l s hs) h
    | error e => rw [sortE_err f l e hs]; rfl

end SortE

theorem pySortedE_eq' (vs : List Cell) : pySortedE vs = pySorted vs := by
  have := sortE_eq (fun c : Cell => c) vs
  simp only [List.map_id'] at this
  exact this

theorem pySortedByE_eq' (k : Nat → Cell) (xs : List Nat) : pySortedByE k xs = pySortedBy k xs :=
  sortE_eq k xs

theorem sorted_raises_iff' (vs : List Cell) :
    pySortedE vs = .error .typeError ↔ ¬ vs.Pairwise (fun a b => ∃ r, pyLt a b = .ok r) := by
  rw [pySortedE_eq', pySorted]
  have hp : vs.Pairwise (fun a b => ∃ r, pyLt a b = .ok r) ↔ allComparable vs = true := by
    rw [allComparable_pairwise]
    apply List.Pairwise.iff
    intro a b
    unfold pyLt
    by_cases hc : a.key.comparable b.key = true <;> simp [hc]
  rw [hp]
  by_cases h : allComparable vs = true <;> simp [h]

/-! ## Phase 5: observables of a view refine the `Sel` model -/

theorem Table.OK.toDicts_eq {t : Table} {N : Nat} (h : t.OK N) (hne : t.columns ≠ []) :
    t.toDicts = .ok ((List.range (t.m N)).map (fun i => t.columns.zip (t.rowAt i))) := by
  simp [Table.toDicts, h.rows_eq hne, List.map_map, Function.comp_def]

theorem view_observables' (t : Table) (N : Nat) (hok : t.OK N) (hne : t.columns ≠ []) :
    t.len = .ok (t.m N) ∧
    t.toDicts = .ok ((List.range (t.m N)).map (fun i => t.columns.zip (t.rowAt i))) ∧
    ∀ c ∈ t.columns, ∃ o, t.colObs c = .ok o ∧ o.kind = t.sel.kind ∧ o.len = t.m N ∧ o.items = .ok (t.vcol c) ∧
      (0 < t.m N → o.first = .ok (cellAt (t.vcol c) 0)) := by
  have hd : t.data ≠ [] := by
    cases hc : t.columns with
    | nil => exact absurd hc hne
    | cons c _ =>
      obtain ⟨b, hb⟩ := hok.cols c (by simp [hc])
      intro hnil
      simp [lookupCol, hnil] at hb
  refine ⟨hok.len_eq hd, hok.toDicts_eq hne, ?_⟩
  intro c hc
  obtain ⟨b, hb⟩ := hok.cols c hc
  obtain ⟨e1, sh⟩ := hok.col_shows hb
  have hl := hok.vcol_len hb
  refine ⟨{ kind := t.sel.kind, len := Seq.len { base := b, sel := t.sel }, items := Seq.toList { base := b, sel := t.sel },
            first := Seq.get { base := b, sel := t.sel } 0, last := Seq.getLast { base := b, sel := t.sel } },
          by simp only [Table.colObs, e1], rfl, ?_, sh.toList, ?_⟩
  · show Seq.len { base := b, sel := t.sel } = t.m N
    rw [sh.len, hl]
  · intro hpos
    exact sh.get 0 (by rw [hl]; exact hpos)

theorem view_of_view_observables' (t : Table) (N : Nat) (hok : t.OK N) (hne : t.columns ≠ []) (select : List Nat)
    (hinc : StrictInc select) (hlt : ∀ i ∈ select, i < t.m N) :
    ∃ sel', composeSel t.sel select = .ok sel' ∧
      Table.len { t with sel := sel' } = .ok select.length ∧
      Table.toDicts { t with sel := sel' } = .ok (select.map (fun i => t.columns.zip (t.rowAt i))) := by
  obtain ⟨sel', e, hidx, hselok⟩ := composeSel_spec t.sel N hok.sel select hinc (fun i hi => by simpa [Table.m] using hlt i hi)
  have hok' : Table.OK { t with sel := sel' } N := ⟨hok.len, hok.cols, hselok⟩
  have hm : Table.m { t with sel := sel' } N = select.length := by simp [Table.m, hidx]
  obtain ⟨h1, h2, _⟩ := view_observables' { t with sel := sel' } N hok' hne
  refine ⟨sel', e, by rw [h1, hm], ?_⟩
  rw [h2, hm]
  congr 1
  apply List.ext_getElem (by simp)
  intro k hk1 hk2
  simp only [List.getElem_map, List.getElem_range]
  have hk : k < select.length := by simpa using hk2
  rw [rowAt_view t N hok sel' select hidx hlt k hk]
  simp [List.getD, List.getElem?_eq_getElem hk]


/-! ## Phase 6: the sort calls of `class Table`, tied to the source

`Generated/C17Sorts.lean` is rewritten from the coba source on every run (`harness/props/c17.py: pre_build`,
Python `ast`): every `sorted(...)` call and every in-place `.sort(...)` call inside `class Table`, in source
order, with the method it stands in, what it sorts, its `key=` and whether anything else (`reverse=`, further
arguments) is given. The model sorts at exactly these places, ascending, with exactly these keys. -/

/-- the model's sorts, in source order: `insertCols` (`sorted(new_cols)`: `sortNames`), `sortedFrom`
(`_in_index_order`), `sortSegments` (`index`), `sortDedupNat` (`where`), `compareBisect` `in` and `!in` -/
def sortSitesModel : List (String × String × String × Bool) :=
  [ ("insert", "new_cols", "none", false),
    ("_in_index_order", "last", "none", false),
    ("index", "indexes[lo:hi]", "cell of column col", false),
    ("where", "set(selection)", "none", false),
    ("_compare", "arg", "none", false),
    ("_compare", "arg", "none", false) ]

/-- the source's sort calls are the model's -/
theorem sort_sites_eq_source' :
    Coba.Generated.C17.sortSitesExtracted = true ∧
    Coba.Generated.C17.sortSites = sortSitesModel := by decide

/-- what the model does at the sites the table lists: `_in_index_order` sorts the new row numbers by the cell of
the last index column; `index` sorts each segment of the permutation by the cell of the current column and puts
it back in place; `where` with several keywords is `sortDedupNat`; `in` / `!in` on the bisect path sort the
probes — each with the ascending `pySorted` / `pySortedBy` (= the comparison sort with Python's raising `<`,
`sorted_comparison_sort_eq`), none reversed -/
theorem sort_sites_model_calls' (cfg : Cfg) (s : Seq) (lo hi : Nat) (vs : List Cell) (c : List Cell)
    (k : Nat → Cell) (rest : List (Nat × Nat)) (perm : List Nat) :
    (sortedFrom c lo hi = match pySortedBy (cellAt c) (List.range' lo (hi - lo)) with
        | .error _ => .cannot
        | .ok p => if p = List.range' lo (hi - lo) then .le else .gt) ∧
    (sortSegments k ((lo, hi) :: rest) perm =
        (pySortedBy k ((perm.drop lo).take (hi - lo))).bind
          (fun seg => sortSegments k rest (perm.take lo ++ seg ++ perm.drop hi))) ∧
    (compareBisect cfg s lo hi .isin (.coll vs) =
        (pySorted vs).bind (fun vs0 =>
          (if cfg.dedupIn then dedupAdj vs0 else vs0).mapM (fun v => do
            let l ← myBisectLeft cfg s v lo hi; let h ← myBisectRight cfg s v lo hi; pure (l, h)))) ∧
    (compareBisect cfg s lo hi .notin (.coll vs) =
        (pySorted vs).bind (fun vs' =>
          (notinPairs cfg vs').mapM (fun (p : Option Cell × Option Cell) => do
            let l ← match p.1 with | Option.none => pure lo | some v0 => myBisectRight cfg s v0 lo hi
            let h ← match p.2 with | Option.none => pure hi | some v1 => myBisectLeft cfg s v1 lo hi
            pure (l, h)))) :=
  ⟨rfl, rfl, rfl, rfl⟩

end Coba.C17
