/-
Phase 5: `CorralLearner.learn` in floats.  The p̄-smoothing `(1-γ)p + γ/M` operation by operation
through `fl` keeps every entry strictly positive and the sum within `(1±u)^3` of `(1-γ)Σp + γ`; with
the normalisation of `_log_barrier_omd` this gives: the float-faithful `learn` (`Corral.learnF`)
keeps weights, smoothed weights and learning rates strictly positive and both sums within explicit
bounds around 1, for every γ ∈ [0,1] (every T) and every history (`runCF`).
-/
import CobaVerif.Lemmas.C16

namespace Coba.C16

theorem FlRel.pos {u : Rat} {fl : Rat → Rat} (h : FlRel u fl) (hu : u < 1) (x : Rat) (hx : 0 < x) : 0 < fl x := by
  have h1 := (h.bounds x hx.le).1
  have h2 : 0 < (1 - u) * x := mul_pos (by linarith) hx
  linarith

/-- one entry of `[(1-self._gamma)*p + self._gamma*1/len(self._base_lrns) for p in self._ps]` -/
theorem pbarF_bounds {u : Rat} {fl : Rat → Rat} (h : FlRel u fl) (hu : u < 1) (gamma : Rat) (g0 : 0 ≤ gamma) (g1 : gamma ≤ 1)
    (M : Nat) (hM : 0 < M) (p : Rat) (hp : 0 < p) :
    0 < pbarF fl gamma M p ∧
      (1 - u) ^ 3 * ((1 - gamma) * p + gamma / (M : Rat)) ≤ pbarF fl gamma M p ∧
      pbarF fl gamma M p ≤ (1 + u) ^ 3 * ((1 - gamma) * p + gamma / (M : Rat)) := by
  have hu0 := h.u_nonneg
  have hule : u ≤ 1 := hu.le
  have hMq : (0 : Rat) < (M : Rat) := by exact_mod_cast hM
  have hi : (0 : Rat) < ((M : Rat))⁻¹ := inv_pos.mpr hMq
  simp only [pbarF, div_eq_mul_inv]
  generalize ((M : Rat))⁻¹ = i at hi
  -- a = fl (1 - γ)
  obtain ⟨a1, a2⟩ := h.step hule (1 - gamma) (1 - gamma) 1 1 (by linarith) (by norm_num) (by linarith) (by linarith)
  -- b = fl (a * p)
  have hx1 : 0 ≤ (1 - gamma) * p := mul_nonneg (by linarith) hp.le
  obtain ⟨b1, b2⟩ := h.step hule ((1 - gamma) * p) (fl (1 - gamma) * p) ((1 - u) * 1) ((1 + u) * 1) hx1 (by linarith)
    (by nlinarith [mul_le_mul_of_nonneg_right a1 hp.le]) (by nlinarith [mul_le_mul_of_nonneg_right a2 hp.le])
  -- g = fl (γ * 1)
  obtain ⟨c1, c2⟩ := h.step hule gamma (gamma * 1) 1 1 g0 (by norm_num) (by linarith) (by linarith)
  -- d = fl (g * i)
  have hx2 : 0 ≤ gamma * i := mul_nonneg g0 hi.le
  obtain ⟨d1, d2⟩ := h.step hule (gamma * i) (fl (gamma * 1) * i) ((1 - u) * 1) ((1 + u) * 1) hx2 (by linarith)
    (by nlinarith [mul_le_mul_of_nonneg_right c1 hi.le]) (by nlinarith [mul_le_mul_of_nonneg_right c2 hi.le])
  -- e = fl (b + d)
  have hx3 : 0 ≤ (1 - gamma) * p + gamma * i := by linarith
  have hlo : 0 ≤ (1 - u) * ((1 - u) * 1) := by nlinarith
  obtain ⟨e1, e2⟩ := h.step hule ((1 - gamma) * p + gamma * i) (fl (fl (1 - gamma) * p) + fl (fl (gamma * 1) * i))
    ((1 - u) * ((1 - u) * 1)) ((1 + u) * ((1 + u) * 1)) hx3 hlo (by linarith) (by linarith)
  have hxpos : 0 < (1 - gamma) * p + gamma * i := by
    rcases lt_or_eq_of_le g1 with hlt | heq
    · have : 0 < (1 - gamma) * p := mul_pos (by linarith) hp
      linarith
    · subst heq; linarith
  have h1u : 0 < 1 - u := by linarith
  have e3 : (1 - u) ^ 3 * ((1 - gamma) * p + gamma * i) = (1 - u) * ((1 - u) * ((1 - u) * 1)) * ((1 - gamma) * p + gamma * i) := by ring
  have e4 : (1 + u) ^ 3 * ((1 - gamma) * p + gamma * i) = (1 + u) * ((1 + u) * ((1 + u) * 1)) * ((1 - gamma) * p + gamma * i) := by ring
  refine ⟨?_, ?_, ?_⟩
  · have : 0 < (1 - u) ^ 3 * ((1 - gamma) * p + gamma * i) := by positivity
    linarith
  · rw [e3]; exact e1
  · rw [e4]; exact e2

/-- the whole smoothed vector: every entry > 0, sum within `(1±u)^3` of `(1-γ)Σp + γ` -/
theorem smoothF_simplex {u : Rat} {fl : Rat → Rat} (h : FlRel u fl) (hu : u < 1) (gamma : Rat) (g0 : 0 ≤ gamma) (g1 : gamma ≤ 1)
    (ps : List Rat) (hne : ps ≠ []) (hpos : ∀ p ∈ ps, 0 < p) :
    (∀ q ∈ smoothF fl gamma ps.length ps, 0 < q) ∧
      (1 - u) ^ 3 * ((1 - gamma) * ps.sum + gamma) ≤ (smoothF fl gamma ps.length ps).sum ∧
      (smoothF fl gamma ps.length ps).sum ≤ (1 + u) ^ 3 * ((1 - gamma) * ps.sum + gamma) := by
  have hM : 0 < ps.length := List.length_pos_iff.mpr hne
  have hMq : (0 : Rat) < (ps.length : Rat) := by exact_mod_cast hM
  have key : ∀ p ∈ ps, (1 - u) ^ 3 * ((1 - gamma) * p + gamma / (ps.length : Rat)) ≤ pbarF fl gamma ps.length p ∧
      pbarF fl gamma ps.length p ≤ (1 + u) ^ 3 * ((1 - gamma) * p + gamma / (ps.length : Rat)) :=
    fun p hp => (pbarF_bounds h hu gamma g0 g1 ps.length hM p (hpos p hp)).2
  obtain ⟨s1, s2⟩ := sum_map_between ps (fun p => (1 - gamma) * p + gamma / (ps.length : Rat)) (pbarF fl gamma ps.length) _ _ key
  have hsum : (ps.map (fun p => (1 - gamma) * p + gamma / (ps.length : Rat))).sum = (1 - gamma) * ps.sum + gamma := by
    rw [sum_map_affine]
    field_simp
  rw [hsum] at s1 s2
  refine ⟨?_, s1, s2⟩
  intro q hq
  obtain ⟨p, hp, rfl⟩ := List.mem_map.mp hq
  exact (pbarF_bounds h hu gamma g0 g1 ps.length hM p (hpos p hp)).1

/-- what is assumed about CPython's compensated `sum` (`pySum`): relative accuracy τ on positive lists -/
def SumRel (τ : Rat) (fl : Rat → Rat) : Prop := ∀ xs : List Rat, (∀ x ∈ xs, 0 < x) → |pySum fl xs - xs.sum| ≤ τ * xs.sum

theorem pySumAux_id (s : Rat) (xs : List Rat) : pySumAux (fun x => x) s 0 xs = s + xs.sum := by
  induction xs generalizing s with
  | nil => simp [pySumAux]
  | cons x xs ih =>
    have e1 : (0 : Rat) + (s - (s + x) + x) = 0 := by ring
    have e2 : (0 : Rat) + (x - (s + x) + s) = 0 := by ring
    simp only [pySumAux, e1, e2, ite_self, ih, List.sum_cons]
    ring

theorem sumRel_id : SumRel 0 (fun x => x) := by
  intro xs _
  simp [pySum, pySumAux_id]

theorem flRel_id : FlRel 0 (fun x => x) := by
  intro x; simp

/-- the invariant of the float-faithful Corral state -/
structure CorralF.Inv (c : Corral) : Prop where
  len : c.etas.length = c.ps.length
  ne : c.ps ≠ []
  ps_pos : ∀ p ∈ c.ps, 0 < p
  pbars_pos : ∀ p ∈ c.pbars, 0 < p
  etas_pos : ∀ e ∈ c.etas, 0 < e

/-- "in the simplex" for float weights: strictly positive, sums within the rounding of their construction -/
def SimplexF (u τ : Rat) (c : Corral) : Prop :=
  ((1 - u) / (1 + τ) ≤ c.ps.sum ∧ c.ps.sum ≤ (1 + u) / (1 - τ)) ∧
    ((1 - u) ^ 3 * ((1 - c.gamma) * c.ps.sum + c.gamma) ≤ c.pbars.sum ∧
      c.pbars.sum ≤ (1 + u) ^ 3 * ((1 - c.gamma) * c.ps.sum + c.gamma))

theorem omdDenomsF_length (fl : Rat → Rat) (ps etas losses : List Rat) (lam : Rat) (h1 : etas.length = ps.length)
    (h2 : losses.length = ps.length) : (omdDenomsF fl ps etas losses lam).length = ps.length := by
  induction ps generalizing etas losses with
  | nil => simp [omdDenomsF]
  | cons p ps ih =>
    cases etas with
    | nil => simp at h1
    | cons e es =>
      cases losses with
      | nil => simp at h2
      | cons l ls =>
        simp only [omdDenomsF, List.length_cons]
        rw [ih es ls (by simpa using h1) (by simpa using h2)]

theorem omdRawF_pos {u : Rat} {fl : Rat → Rat} (h : FlRel u fl) (hu : u < 1) (ps etas losses : List Rat) (lam : Rat) (cur : List Rat)
    (h1 : etas.length = ps.length) (h2 : losses.length = ps.length) (hraw : omdRawF fl ps etas losses lam = some cur) :
    cur.length = ps.length ∧ ∀ x ∈ cur, 0 < x := by
  simp only [omdRawF] at hraw
  split at hraw
  · rename_i hall
    simp only [Option.some.injEq] at hraw
    subst hraw
    refine ⟨by rw [List.length_map, omdDenomsF_length fl ps etas losses lam h1 h2], ?_⟩
    intro x hx
    obtain ⟨d, hd, rfl⟩ := List.mem_map.mp hx
    have hdpos : 0 < d := by
      have := List.all_eq_true.mp hall d hd
      simpa using this
    exact h.pos hu _ (by positivity)
  · simp at hraw

theorem etaRhoF_etas {u : Rat} {fl : Rat → Rat} (h : FlRel u fl) (hu : u < 1) (beta : Rat) (hb : 0 < beta)
    (pbs es rhs : List Rat) (hes : ∀ e ∈ es, 0 < e) :
    (etaRhoF fl beta pbs es rhs).1.length = es.length ∧ ∀ e ∈ (etaRhoF fl beta pbs es rhs).1, 0 < e := by
  induction pbs generalizing es rhs with
  | nil => simp [etaRhoF]; exact hes
  | cons pb pbs ih =>
    cases es with
    | nil => simp [etaRhoF]
    | cons e es =>
      cases rhs with
      | nil => exact ⟨by simp [etaRhoF], by simpa [etaRhoF] using hes⟩
      | cons rh rhs =>
        obtain ⟨i1, i2⟩ := ih es rhs (fun x hx => hes x (by simp [hx]))
        have he : 0 < e := hes e (by simp)
        simp only [etaRhoF]
        split
        · refine ⟨by simp [i1], ?_⟩
          intro x hx
          simp only [List.mem_cons] at hx
          rcases hx with rfl | hx
          · exact h.pos hu _ (mul_pos he hb)
          · exact i2 x hx
        · refine ⟨by simp [i1], ?_⟩
          intro x hx
          simp only [List.mem_cons] at hx
          rcases hx with rfl | hx
          · exact he
          · exact i2 x hx

/-- one float-faithful `learn`: the invariant is kept, the new weights are in the float simplex -/
theorem Corral.learnF_inv {u τ : Rat} {fl : Rat → Rat} (h : FlRel u fl) (hu : u < 1) (hs : SumRel τ fl) (hτ0 : 0 ≤ τ) (hτ1 : τ < 1)
    (fuel : Nat) (c : Corral) (hinv : CorralF.Inv c) (g0 : 0 ≤ c.gamma) (g1 : c.gamma ≤ 1) (hb : 0 < c.beta)
    (bacts : List Act) (hlen : bacts.length = c.ps.length) (a : Act) (r p : Rat) (c' : Corral) (hh : Bool)
    (hres : c.learnF fl fuel bacts a r p = .ok (c', hh)) :
    CorralF.Inv c' ∧ SimplexF u τ c' ∧ c'.gamma = c.gamma ∧ c'.beta = c.beta ∧ c'.ps.length = c.ps.length := by
  simp only [Corral.learnF] at hres
  split at hres
  · simp at hres
  split at hres
  · simp at hres
  split at hres
  · simp at hres
  rename_i ws halted homd
  simp only [Except.ok.injEq, Prod.mk.injEq] at hres
  obtain ⟨hc, _⟩ := hres
  have hlossne : corralLossesF fl bacts a r p ≠ [] := by
    intro hnil
    have : (corralLossesF fl bacts a r p).length = 0 := by rw [hnil]; rfl
    simp only [corralLossesF, List.length_map] at this
    have := List.length_pos_iff.mpr hinv.ne
    omega
  obtain ⟨lam, cur, hraw, hws⟩ := omdF_from_probed fl fuel c.ps c.etas _ ws halted hlossne homd
  obtain ⟨hcurlen, hcurpos⟩ := omdRawF_pos h hu c.ps c.etas _ lam cur hinv.len (by simp [corralLossesF, hlen]) hraw
  have hcurne : cur ≠ [] := by
    intro hnil
    rw [hnil] at hcurlen
    exact hinv.ne (List.length_eq_zero_iff.mp hcurlen.symm)
  obtain ⟨_, n2, n3⟩ := normaliseF_sum h hu.le cur (pySum fl cur) hcurpos hcurne hτ0 hτ1 (hs cur hcurpos)
  rw [← hws] at n2 n3
  have hScur : 0 < cur.sum := sum_pos_of_pos cur hcurne hcurpos
  have htot : 0 < pySum fl cur := by
    have := abs_le.mp (hs cur hcurpos)
    nlinarith [this.1]
  have hwspos : ∀ w ∈ ws, 0 < w := by
    intro w hw
    rw [hws] at hw
    obtain ⟨x, hx, rfl⟩ := List.mem_map.mp hw
    exact h.pos hu _ (div_pos (hcurpos x hx) htot)
  have hwslen : ws.length = c.ps.length := by rw [hws, List.length_map, hcurlen]
  have hwsne : ws ≠ [] := by
    intro hnil
    rw [hnil] at hwslen
    exact hinv.ne (List.length_eq_zero_iff.mp hwslen.symm)
  obtain ⟨q1, q2, q3⟩ := smoothF_simplex h hu c.gamma g0 g1 ws hwsne hwspos
  rw [hwslen] at q1 q2 q3
  obtain ⟨t1, t2⟩ := etaRhoF_etas h hu c.beta hb (smoothF fl c.gamma c.ps.length ws) c.etas c.rhos hinv.etas_pos
  subst hc
  refine ⟨⟨?_, hwsne, hwspos, q1, t2⟩, ⟨⟨n2, n3⟩, q2, q3⟩, rfl, rfl, hwslen⟩
  simp only
  rw [t1, hinv.len, hwslen]

/-- whole histories: every state the float-faithful Corral visits is in the float simplex -/
theorem runCF_inv {u τ : Rat} {fl : Rat → Rat} (h : FlRel u fl) (hu : u < 1) (hs : SumRel τ fl) (hτ0 : 0 ≤ τ) (hτ1 : τ < 1)
    (fuel : Nat) (ops : List (List Act × Act × Rat × Rat)) (c : Corral) (hinv : CorralF.Inv c) (g0 : 0 ≤ c.gamma) (g1 : c.gamma ≤ 1)
    (hb : 0 < c.beta) (hops : ∀ o ∈ ops, o.1.length = c.ps.length) :
    ∀ x ∈ runCF fl fuel c ops, ∀ c' hh, x = .ok (c', hh) → CorralF.Inv c' ∧ SimplexF u τ c' := by
  induction ops generalizing c with
  | nil => intro x hx; simp [runCF] at hx
  | cons o ops ih =>
    obtain ⟨bacts, a, r, p⟩ := o
    intro x hx c' hh hxe
    simp only [runCF] at hx
    split at hx
    · simp only [List.mem_singleton] at hx
      rw [hx] at hxe; simp at hxe
    · rename_i c1 h1 hstep
      obtain ⟨i1, i2, i3, i4, i5⟩ := Corral.learnF_inv h hu hs hτ0 hτ1 fuel c hinv g0 g1 hb bacts (hops (bacts, a, r, p) (by simp)) a r p c1 h1 hstep
      simp only [List.mem_cons] at hx
      rcases hx with rfl | hx
      · simp only [Except.ok.injEq, Prod.mk.injEq] at hxe
        obtain ⟨rfl, _⟩ := hxe
        exact ⟨i1, i2⟩
      · exact ih c1 i1 (by rw [i3]; exact g0) (by rw [i3]; exact g1) (by rw [i4]; exact hb)
          (fun o ho => by rw [i5]; exact hops o (by simp [ho])) x hx c' hh hxe

/-- binary64 with a `sum` accurate to 2^-50: both sums are within 1e-4 of 1 -/
theorem simplexF_double (c : Corral) (g0 : 0 ≤ c.gamma) (g1 : c.gamma ≤ 1) (hS : SimplexF (1 / 2 ^ 53) (1 / 2 ^ 50) c) :
    |c.ps.sum - 1| ≤ 1 / 10000 ∧ |c.pbars.sum - 1| ≤ 1 / 10000 := by
  obtain ⟨⟨a1, a2⟩, b1, b2⟩ := hS
  have A : (1 : Rat) - 1 / 100000 ≤ (1 - 1 / 2 ^ 53) / (1 + 1 / 2 ^ 50) := by norm_num
  have B : (1 + 1 / 2 ^ 53 : Rat) / (1 - 1 / 2 ^ 50) ≤ 1 + 1 / 100000 := by norm_num
  have C : (1 : Rat) - 1 / 100000 ≤ (1 - 1 / 2 ^ 53) ^ 3 := by norm_num
  have D : (1 + 1 / 2 ^ 53 : Rat) ^ 3 ≤ 1 + 1 / 100000 := by norm_num
  have hs1 : 1 - 1 / 100000 ≤ c.ps.sum := le_trans A a1
  have hs2 : c.ps.sum ≤ 1 + 1 / 100000 := le_trans a2 B
  have hm1 : 1 - 1 / 100000 ≤ (1 - c.gamma) * c.ps.sum + c.gamma := by nlinarith
  have hm2 : (1 - c.gamma) * c.ps.sum + c.gamma ≤ 1 + 1 / 100000 := by nlinarith
  have hm0 : 0 ≤ (1 - c.gamma) * c.ps.sum + c.gamma := by linarith
  have k1 : (1 - 1 / 100000 : Rat) * (1 - 1 / 100000) ≤ c.pbars.sum := by
    calc (1 - 1 / 100000 : Rat) * (1 - 1 / 100000) ≤ (1 - 1 / 2 ^ 53) ^ 3 * (1 - 1 / 100000) := by
          exact mul_le_mul_of_nonneg_right C (by norm_num)
      _ ≤ (1 - 1 / 2 ^ 53) ^ 3 * ((1 - c.gamma) * c.ps.sum + c.gamma) := by
          exact mul_le_mul_of_nonneg_left hm1 (by norm_num)
      _ ≤ _ := b1
  have k2 : c.pbars.sum ≤ (1 + 1 / 100000 : Rat) * (1 + 1 / 100000) := by
    calc c.pbars.sum ≤ (1 + 1 / 2 ^ 53) ^ 3 * ((1 - c.gamma) * c.ps.sum + c.gamma) := b2
      _ ≤ (1 + 1 / 2 ^ 53) ^ 3 * (1 + 1 / 100000) := mul_le_mul_of_nonneg_left hm2 (by norm_num)
      _ ≤ (1 + 1 / 100000 : Rat) * (1 + 1 / 100000) := mul_le_mul_of_nonneg_right D (by norm_num)
  refine ⟨abs_le.mpr ⟨by linarith, by linarith⟩, abs_le.mpr ⟨?_, ?_⟩⟩
  · have : (1 - 1 / 10000 : Rat) ≤ (1 - 1 / 100000) * (1 - 1 / 100000) := by norm_num
    linarith
  · have : (1 + 1 / 100000 : Rat) * (1 + 1 / 100000) ≤ 1 + 1 / 10000 := by norm_num
    linarith

/-- the initial state of `CorralLearner(M base learners)` satisfies the invariant -/
theorem Corral.init_invF {u : Rat} {fl : Rat → Rat} (h : FlRel u fl) (hu : u < 1) (M : Nat) (hM : 0 < M) (eta gamma beta : Rat)
    (heta : 0 < eta) (imp : Bool) (rng : Nat) : CorralF.Inv (Corral.init fl M eta gamma beta imp rng) := by
  have hMq : (0 : Rat) < (M : Rat) := by exact_mod_cast hM
  have hp : 0 < fl (1 / (M : Rat)) := h.pos hu _ (by positivity)
  refine ⟨by simp [Corral.init], ?_, ?_, ?_, ?_⟩
  · simp only [Corral.init]
    intro hnil
    have := congrArg List.length hnil
    simp at this
    omega
  · intro p hp'; simp only [Corral.init] at hp'; rw [List.eq_of_mem_replicate hp']; exact hp
  · intro p hp'; simp only [Corral.init] at hp'; rw [List.eq_of_mem_replicate hp']; exact hp
  · intro e he; simp only [Corral.init] at he; rw [List.eq_of_mem_replicate he]; exact heta

end Coba.C16
